import Grass.Proto
/-
  Core `Eval` (property C03, part 2): an executable REFERENCE EVALUATOR for the generator's core
  language, written from the Sass language rules (variables and scopes, control flow, callables,
  argument binding, operators), not from grass's code.  It is the specification side of the
  program correspondence in tools/props/c03.py: emitted declarations and the @debug/@warn
  message sequence of real grass must equal what this evaluator produces.

  Shape.  The evaluator is written with OPEN RECURSION: `stepF : Rec → Rec` is a non-recursive
  functional describing one level of evaluation in terms of a record `Rec` of "recursive calls"
  (evaluate an expression / run a block / run a `@while` loop); `run 0` answers `outOfFuel`
  everywhere and `run (n+1) = stepF (run n)`.  Lists of sub-terms are handled by structural
  helpers (`mapM'`, `forEachM`), so fuel is only consumed by AST nesting depth, call depth and
  `@while` iterations.  `C03_fuel_mono` (GrassProofs/C03.lean) follows from monotonicity of `stepF`.

  Value domain (self-contained; no colours or calculations): exact rationals, strings
  (quoted flag), booleans, null, lists (separator, brackets), maps.
  Round 3 (growth): numbers WITH UNITS (`Value.dim`, unit algebra written from
  value/sass_number.rs `multiply_units` and evaluate/bin_op.rs, for a set of pairwise inconvertible
  unit names), division (`/` where Sass divides, `math.div`), `%`/comparison/equality of such
  numbers, incompatible-unit errors; interpolation of every value (`Value::unquote` + `to_css`),
  interpolated property names; the meta built-ins `inspect`, `unit`, `unitless`,
  `variable-exists`, `global-variable-exists`, `function-exists`, `mixin-exists`.
-/
namespace Grass.Eval

/-! ### values -/

inductive Sep where
  | space | comma | undecided
deriving DecidableEq, Repr, Inhabited

inductive Value where
  | num (q : Rat)
  | str (s : String) (quoted : Bool)
  | bool (b : Bool)
  | null
  | list (elems : List Value) (sep : Sep) (bracketed : Bool)
  | map (pairs : List (Value × Value))
  /-- The argument list bound to a rest parameter: a list (never bracketed) whose `type-of` is
      `arglist`; it also carries the named arguments no parameter consumed (`keywords()`), and the
      identity of the call that created it (reading the keywords of that very list waives the
      "No argument named" error). -/
  | arglist (elems : List Value) (sep : Sep) (kw : List (String × Value)) (id : Nat)
  /-- A number WITH units (grass `Value::Dimension` whose `unit` is not `Unit::None`,
      value/sass_number.rs:17): numerator and denominator unit names, not both empty
      (`Unit::new`, unit/mod.rs:139: no units = `Unit::None` = `Value.num`; one numerator unit = that
      unit; anything else = `Unit::Complex`). -/
  | dim (q : Rat) (numer denom : List String)
deriving Inhabited

def Value.truthy : Value → Bool
  | .null => false
  | .bool false => false
  | _ => true

mutual
/-- Sass `==`: numbers by value, strings by text (quotes ignored), lists by separator, brackets
    and elements, maps as sets of pairs (order-insensitive, see `mapSub`). -/
def Value.eq : Value → Value → Bool
  | .num a, .num b => a == b
  | .str a _, .str b _ => a == b
  | .bool a, .bool b => a == b
  | .null, .null => true
  | .list as sa ba, .list bs sb bb => sa == sb && ba == bb && eqList as bs
  | .arglist as sa _ _, .arglist bs sb _ _ => sa == sb && eqList as bs
  | .arglist as sa _ _, .list bs sb bb => sa == sb && !bb && eqList as bs
  | .list as sa ba, .arglist bs sb _ _ => sa == sb && !ba && eqList as bs
  | .map as, .map bs => eqPairs as bs
  -- sass_number.rs:233 `PartialEq`: not comparable, or exactly one side unitless → unequal; for the
  -- modelled (pairwise inconvertible) unit names comparable = same unit, no conversion
  | .dim a n d, .dim b n' d' => a == b && n == n' && d == d'
  | _, _ => false
def eqList : List Value → List Value → Bool
  | [], [] => true
  | a :: as, b :: bs => a.eq b && eqList as bs
  | _, _ => false
/-- Pairwise in order.  (Maps built by the generator have pairwise distinct scalar keys; equality
    of maps with permuted keys is outside the generated fragment and answered `unsupported`.) -/
def eqPairs : List (Value × Value) → List (Value × Value) → Bool
  | [], [] => true
  | (k, v) :: as, (k', v') :: bs => k.eq k' && v.eq v' && eqPairs as bs
  | _, _ => false
end

mutual
def Value.isBlank : Value → Bool
  | .null => true
  | .str s false => s.isEmpty
  | .list es _ br => if br then false else allBlank es
  | .arglist es _ _ _ => allBlank es
  | _ => false
def allBlank : List Value → Bool
  | [] => true
  | v :: vs => v.isBlank && allBlank vs
end

/-! ### units (unit/mod.rs, value/sass_number.rs) -/

/-- The unit names of the model.  They are pairwise INCONVERTIBLE: `conversion_factor(a, b)`
    (sass_number.rs:23) is `Some(1.0)` for `a == b` and `None` otherwise (px is the only absolute
    length here, s the only time, deg the only angle; em/rem/vw/%/fr convert to nothing), and
    `Unit::comparable` (unit/mod.rs:169) holds exactly for equal units or when one is `Unit::None`.
    Numbers in other units (cm, ms, …: real conversion factors) are outside the model: the driver
    does not read them. -/
def knownUnits : List String := ["px", "em", "rem", "%", "s", "deg", "vw", "fr"]

/-- `Unit::new` (unit/mod.rs:139). -/
def mkNum (q : Rat) (n d : List String) : Value :=
  if n.isEmpty && d.isEmpty then .num q else .dim q n d

/-- A number as value and (numerator, denominator) units (`Unit::numer_and_denom`, unit/mod.rs:151). -/
def Value.asNum : Value → Option (Rat × List String × List String)
  | .num q => some (q, [], [])
  | .dim q n d => some (q, n, d)
  | _ => none

/-- `Unit::is_complex` (unit/mod.rs:165) on the (numerator, denominator) form. -/
def unitsComplex (n d : List String) : Bool := !(d.isEmpty && n.length ≤ 1)

/-- `impl Display for Unit` (unit/mod.rs:291-326). -/
def unitText (n d : List String) : String :=
  let nr := "*".intercalate n
  let dr := "*".intercalate d
  if d.isEmpty then nr
  else if n.isEmpty && d.length == 1 then dr ++ "^-1"
  else if n.isEmpty then "(" ++ dr ++ ")^-1"
  else nr ++ "/" ++ dr

/-- `Unit::comparable` (unit/mod.rs:169) for the modelled units. -/
def unitsComparable (n1 d1 n2 d2 : List String) : Bool :=
  (n2.isEmpty && d2.isEmpty) || (n1.isEmpty && d1.isEmpty) || (n1 == n2 && d1 == d2)

/-- `retain` with the `has_removed` flag (sass_number.rs:95-107): drop the first unit of `l` that
    converts to `u` (for the modelled units: equals `u`). -/
def removeFirst (u : String) : List String → Option (List String)
  | [] => none
  | x :: xs => if x == u then some xs else (removeFirst u xs).map (x :: ·)

/-- One cancellation loop of `multiply_units` (sass_number.rs:91-111 and :114-133): every numerator
    unit removes one matching denominator unit or is kept.  -> (kept numerators, remaining denominators) -/
def cancelLoop : List String → List String → List String × List String
  | [], ds => ([], ds)
  | u :: us, ds =>
    match removeFirst u ds with
    | some ds' => cancelLoop us ds'
    | none => ((u :: (cancelLoop us ds).1), (cancelLoop us ds).2)

/-- `are_any_convertible` (unit/mod.rs:113). -/
def anyShared (a b : List String) : Bool := a.any (b.contains ·)

/-- `SassNumber::multiply_units` (sass_number.rs:55-142) on (numerator, denominator) lists; all
    conversion factors are 1 for the modelled units, so the numeric value is not touched. -/
def multiplyUnits (n1 d1 n2 d2 : List String) : List String × List String :=
  if n1.isEmpty && d2.isEmpty && !anyShared d1 n2 then (n2, d1)
  else if n1.isEmpty && d1.isEmpty then (n2, d2)
  else if !n1.isEmpty && n2.isEmpty && (d2.isEmpty || (d1.isEmpty && !anyShared n1 d2)) then (n1, d2)
  else
    ((cancelLoop n1 d2).1 ++ (cancelLoop n2 d1).1, (cancelLoop n2 d1).2 ++ (cancelLoop n1 d2).2)

/-- Units of a product (bin_op.rs:360 / `impl Mul`, sass_number.rs:331). -/
def mulUnits (n1 d1 n2 d2 : List String) : List String × List String :=
  if n2.isEmpty && d2.isEmpty then (n1, d1) else multiplyUnits n1 d1 n2 d2

/-- Units of a quotient (bin_op.rs:459 / `impl Div`, sass_number.rs:346: multiply by the inverted unit). -/
def divUnits (n1 d1 n2 d2 : List String) : List String × List String :=
  if n2.isEmpty && d2.isEmpty then (n1, d1) else multiplyUnits n1 d1 d2 n2

/-- Units of a sum, difference or remainder of comparable numbers (bin_op.rs:83-107, :516-522). -/
def addUnits (n1 d1 n2 d2 : List String) : List String × List String :=
  if n1 == n2 && d1 == d2 then (n1, d1) else if n1.isEmpty && d1.isEmpty then (n2, d2) else (n1, d1)

/-! ### printing -/

def digitChar (d : Nat) : Char := Char.ofNat (48 + d)

/-- Up to `k` fractional digits of `r/den` (`r < den`); also returns the final remainder. -/
def fracDigits (den : Nat) : Nat → Nat → List Nat × Nat
  | 0, r => ([], r)
  | k + 1, r =>
    let d := r * 10 / den
    let (ds, r') := fracDigits den k (r * 10 % den)
    (d :: ds, r')

def dropTrailingZeros (ds : List Nat) : List Nat :=
  (ds.reverse.dropWhile (· == 0)).reverse

/-- Decimal text of an exact rational when it has at most 10 fractional digits and is small
    enough to be an exact double (`none` otherwise: the model does not cover rounding). -/
def fmtNum (q : Rat) : Option String :=
  let neg := q < 0
  let n := q.num.natAbs
  let d := q.den
  let ip := n / d
  let (ds, r) := fracDigits d 10 (n % d)
  if r != 0 || ip > 1000000000 then none else
  let ds := dropTrailingZeros ds
  let body := toString ip ++ (if ds.isEmpty then "" else "." ++ String.ofList (ds.map digitChar))
  some (if neg then "-" ++ body else body)

/-- Strings the model prints: printable ASCII without quotes or backslashes (the generator's
    alphabet); anything else is outside the model. -/
def plainText (s : String) : Bool :=
  s.toList.all fun c => c.toNat ≥ 32 && c.toNat < 127 && c != '"' && c != '\'' && c != '\\'

/-- An UNQUOTED string is printed as it is, so it may also contain double quotes (they arise from
    the known finding N5, `null + "quoted"`). -/
def plainTextU (s : String) : Bool :=
  s.toList.all fun c => c.toNat ≥ 32 && c.toNat < 127 && c != '\'' && c != '\\'

/-- The strings the model prints, by quotedness. -/
def printable (s : String) (quoted : Bool) : Bool := if quoted then plainText s else plainTextU s

inductive PrintErr where
  | invalidCss      -- "… isn't a valid CSS value."
  | unsupported
deriving DecidableEq, Repr

/-- CSS text of a number with units (serializer.rs:543-565): complex units are rejected. -/
def dimCss (q : Rat) (n d : List String) : Except PrintErr String :=
  if unitsComplex n d then .error .invalidCss else
  match fmtNum q with | some s => .ok (s ++ unitText n d) | none => .error .unsupported

def sepText : Sep → String
  | .comma => ", "
  | _ => " "

mutual
/-- Conversion to CSS text (declaration values, `@warn`, string concatenation, interpolation). -/
def Value.toCss : Value → Except PrintErr String
  | .num q => match fmtNum q with | some s => .ok s | none => .error .unsupported
  | .str s q => if !printable s q then .error .unsupported else .ok (if q then "\"" ++ s ++ "\"" else s)
  | .bool b => .ok (if b then "true" else "false")
  | .null => .ok ""
  | .list es sep br =>
    if !br && es.isEmpty then .error .invalidCss else
    match toCssList es with
    | .ok parts =>
      let body := (sepText sep).intercalate parts
      .ok (if br then "[" ++ body ++ "]" else body)
    | .error e => .error e
  | .map _ => .error .invalidCss
  | .arglist es sep _ _ =>
    if es.isEmpty then .error .invalidCss else
    match toCssList es with
    | .ok parts => .ok ((sepText sep).intercalate parts)
    | .error e => .error e
  -- serializer.rs:551: a number with complex units "isn't a valid CSS value"
  | .dim q n d => dimCss q n d
/-- Texts of the non-blank elements.  (An empty argument list nested in a list is outside the
    model: grass does not treat it as blank.) -/
def toCssList : List Value → Except PrintErr (List String)
  | [] => .ok []
  | .arglist [] _ _ _ :: _ => .error .unsupported
  | v :: vs =>
    if v.isBlank then toCssList vs else
    match v.toCss, toCssList vs with
    | .ok s, .ok ss => .ok (s :: ss)
    | .error e, _ => .error e
    | _, .error e => .error e
end

def needsParens (sep : Sep) : Value → Bool
  | .list es sep2 br =>
    if es.length < 2 || br then false else
    match sep with
    | .comma => sep2 == .comma
    | _ => sep2 != .undecided
  | _ => false

mutual
/-- `inspect` text (`@debug`, `@error`). -/
def Value.inspect : Value → Except PrintErr String
  | .num q => match fmtNum q with | some s => .ok s | none => .error .unsupported
  | .str s q => if !printable s q then .error .unsupported else .ok (if q then "\"" ++ s ++ "\"" else s)
  | .bool b => .ok (if b then "true" else "false")
  | .null => .ok "null"
  | .list es sep br =>
    if !br && es.isEmpty then .ok "()" else
    match inspectList sep es with
    | .ok parts =>
      let single := es.length == 1 && sep == .comma
      let body := (sepText sep).intercalate parts ++ (if single then "," else "")
      .ok (if br then "[" ++ body ++ "]" else if single then "(" ++ body ++ ")" else body)
    | .error e => .error e
  | .map ps =>
    match inspectPairs ps with
    | .ok parts => .ok ("(" ++ ", ".intercalate parts ++ ")")
    | .error e => .error e
  | .arglist es sep _ _ =>
    if es.isEmpty then .ok "()" else
    match inspectList sep es with
    | .ok parts =>
      let single := es.length == 1 && sep == .comma
      let body := (sepText sep).intercalate parts ++ (if single then "," else "")
      .ok (if single then "(" ++ body ++ ")" else body)
    | .error e => .error e
  | .dim q n d => match fmtNum q with | some s => .ok (s ++ unitText n d) | none => .error .unsupported
/-- (An argument list nested in another list is outside the model: grass never parenthesises it.) -/
def inspectList (sep : Sep) : List Value → Except PrintErr (List String)
  | [] => .ok []
  | .arglist _ _ _ _ :: _ => .error .unsupported
  | v :: vs =>
    match v.inspect, inspectList sep vs with
    | .ok s, .ok ss => .ok ((if needsParens sep v then "(" ++ s ++ ")" else s) :: ss)
    | .error e, _ => .error e
    | _, .error e => .error e
def inspectPairs : List (Value × Value) → Except PrintErr (List String)
  | [] => .ok []
  | (k, v) :: ps =>
    match k.inspect, v.inspect, inspectPairs ps with
    | .ok a, .ok b, .ok ss =>
      let par (x : Value) (s : String) : String :=
        match x with
        | .list _ .comma false => "(" ++ s ++ ")"
        | _ => s
      .ok ((par k a ++ ": " ++ par v b) :: ss)
    | .error e, _, _ => .error e
    | _, .error e, _ => .error e
    | _, _, .error e => .error e
end

/-! ### syntax -/

inductive BinOp where
  | add | sub | mul | mod | eq | ne | lt | gt | le | ge | and | or
  | div      -- `/` where Sass divides (parse/value.rs:532: not a slash of two number literals), `math.div`
deriving DecidableEq, Repr

inductive Expr where
  | lit (v : Value)
  | var (n : String)
  | bin (op : BinOp) (a b : Expr)
  | neg (a : Expr)
  | not (a : Expr)
  | list (es : List Expr) (sep : Sep) (br : Bool)
  | map (kvs : List (Expr × Expr))
  | call (f : String) (pos : List Expr) (named : List (String × Expr)) (rest : Option Expr)
  | iff (c a b : Expr)                      -- the lazy `if($c, $a, $b)`
  | interp (quoted : Bool) (parts : List (String × Option Expr))   -- text, then `#{e}`
deriving Inhabited

structure Params where
  ps : List (String × Option Expr)
  rest : Option String
deriving Inhabited

structure Args where
  pos : List Expr
  named : List (String × Expr)
  rest : Option Expr
deriving Inhabited

inductive Stmt where
  | decl (prop : String) (e : Expr)
  | declI (prop : List (String × Option Expr)) (e : Expr)     -- interpolated property name
  | rule (sel : String) (body : List Stmt)
  | var (n : String) (e : Expr) (glob dflt : Bool)
  | ifs (clauses : List (Expr × List Stmt)) (els : Option (List Stmt))
  | forr (v : String) (lo hi : Expr) (inclusive : Bool) (body : List Stmt)
  | each (vars : List String) (e : Expr) (body : List Stmt)
  | whil (c : Expr) (body : List Stmt)
  | func (name : String) (ps : Params) (body : List Stmt)
  | ret (e : Expr)
  | mixin (name : String) (ps : Params) (body : List Stmt)
  | incl (name : String) (args : Args) (content : Option (Params × List Stmt))
  | content (args : Args)
  | debug (e : Expr)
  | warn (e : Expr)
  | error (e : Expr)
deriving Inhabited

mutual
/-- Does a `@content` occur lexically in the statement (the parser's `has_content` flag)? -/
def stmtHasContent : Stmt → Bool
  | .content _ => true
  | .rule _ body => blockHasContent body
  | .ifs cl els => clausesHaveContent cl || (match els with
      | some b => blockHasContent b
      | none => false)
  | .forr _ _ _ _ body => blockHasContent body
  | .each _ _ body => blockHasContent body
  | .whil _ body => blockHasContent body
  | .incl _ _ content => (match content with
      | some (_, body) => blockHasContent body
      | none => false)
  | _ => false
def blockHasContent : List Stmt → Bool
  | [] => false
  | s :: ss => stmtHasContent s || blockHasContent ss
def clausesHaveContent : List (Expr × List Stmt) → Bool
  | [] => false
  | (_, b) :: r => blockHasContent b || clausesHaveContent r
end

mutual
/-- An empty argument list nested inside a list: grass does not treat it as blank
    (value/arglist.rs:54), the Sass rules do; outside the model. -/
def Value.nestedEmptyArglist : Value → Bool
  | .list es _ _ => anyEmptyArglist es
  | .arglist es _ _ _ => anyEmptyArglist es
  | _ => false
def anyEmptyArglist : List Value → Bool
  | [] => false
  | .arglist [] _ _ _ :: _ => true
  | v :: vs => v.nestedEmptyArglist || anyEmptyArglist vs
end

/-! ### state, errors, the evaluation monad -/

structure Callable where
  params : Params
  body : List Stmt
  env : List Nat           -- the captured scope chain (frame ids, innermost first)
deriving Inhabited

structure Frame where
  vars : List (String × Value) := []
  fns : List (String × Callable) := []
  mixins : List (String × Callable) := []
deriving Inhabited

/-- A content block: its parameters (`using`), body, the scope chain of the `@include` site and
    the content block that was current there (for `@content` inside a content block). -/
inductive Content where
  | mk (params : Params) (body : List Stmt) (env : List Nat) (outer : Option Content)

/-- As-found switches: deviations of grass from the Sass rules that were reported as findings.
    The specification is `Dev.spec` (all false).  The code as it stands is `Dev.now`: N2 and N4 were
    repaired in /repo (e36bfd5, e10570a), N3 is a known finding; the correspondence runs against
    `Dev.now`.  `Dev.asFound` is the tree before those repairs (kept for the witnesses). -/
structure Dev where
  /-- N3 (known): `p: ()` is silently dropped instead of failing with "() isn't a valid CSS value."
      (ast/css.rs:59 `is_invisible` treats the empty list as blank). -/
  emptyListDeclDropped : Bool := false
  /-- N2 (repaired, e36bfd5): the argument list bound to a rest parameter was always
      comma-separated, even when the caller spread a space-separated list (`f($list...)`). -/
  restAlwaysComma : Bool := false
  /-- N4 (repaired for @debug/@warn, e10570a): `@debug` and `@warn` delivered a quoted string WITH
      its quotes.  (`@error` keeps `inspect`, quotes included — dart-sass does too — and is not
      affected by this switch.) -/
  messageKeepsQuotes : Bool := false
  /-- N5 (found in round 3, repaired in /repo by 8433dfd; kept as an as-found switch with its witness): `null + "foo"` is the UNQUOTED string whose text is `"foo"` WITH
      the quote characters (bin_op.rs:61-66 takes `right.to_css_string()` and `QuoteKind::None`);
      the Sass rule (`Value.plus`: `SassString(toCssString() + other.text, quotes: other.hasQuotes)`)
      gives the quoted string `foo`. -/
  nullPlusQuotedKeepsQuotes : Bool := false
deriving Repr, DecidableEq, Inhabited

def Dev.spec : Dev := {}
def Dev.now : Dev := { emptyListDeclDropped := true }   -- N5 repaired in /repo (8433dfd): `now` follows the Sass rule again
def Dev.asFound : Dev := { emptyListDeclDropped := true, restAlwaysComma := true, messageKeepsQuotes := true,
                           nullPlusQuotedKeepsQuotes := true }

structure Ctx where
  dev : Dev
  env : List Nat            -- scope chain, innermost first
  semi : Bool               -- in a semi-global scope (control flow at the top level)
  content : Option Content
  sel : List String         -- enclosing style rules, innermost first
  inFn : Bool

inductive Err where
  | undefinedVariable | undefinedMixin | undefinedFunction
  | missingArgument | tooManyArguments | noArgumentNamed | passedBothWays
  | noReturn | invalidCss | undefinedOperation | notANumber | notAnInteger
  | userError | declOutsideRule | noContentAccepted | duplicateKey | indexOutOfBounds
  | incompatibleUnits      -- "Incompatible units a and b."
  | staticError            -- rejected by the parser: @return outside @function, …
  | unsupported            -- outside the model: the case is dropped, never guessed
deriving DecidableEq, Repr, Inhabited

structure St where
  heap : Array Frame
  css : Array (String × String × Option String)   -- selector, property, value text (none: invalid CSS value)
  log : Array (String × String)                   -- kind (debug|warn), message
  work : Nat := 300000                            -- statements still allowed (nested loops multiply)
  kwRead : List Nat := []                         -- argument lists whose keywords were read
deriving Inhabited

inductive Res (α : Type) where
  | ok (a : α) (st : St)
  | err (e : Err) (st : St)
  | oof                                            -- out of fuel
deriving Inhabited

abbrev M (α : Type) := St → Res α

@[inline] def M.pure (a : α) : M α := fun st => .ok a st
@[inline] def M.bind (x : M α) (f : α → M β) : M β := fun st =>
  match x st with
  | .ok a st' => f a st'
  | .err e st' => .err e st'
  | .oof => .oof
instance : Monad M where
  pure := M.pure
  bind := M.bind

def fail (e : Err) : M α := fun st => .err e st
def outOfFuel : M α := fun _ => .oof
def getSt : M St := fun st => .ok st st
def modifySt (f : St → St) : M Unit := fun st => .ok () (f st)

/-- One statement's worth of work; a program that needs more than the budget is outside the model. -/
def tick : M Unit := fun st =>
  if st.work == 0 then .err .unsupported st else .ok () { st with work := st.work - 1 }

def liftPrint (x : Except PrintErr String) : M String :=
  match x with
  | .ok s => pure s
  | .error .invalidCss => fail .invalidCss
  | .error .unsupported => fail .unsupported

/-! ### scopes: the Sass rules, directly (compare `lookupSpec`/`targetSpec` in Grass/Scope.lean) -/

def alGet {β : Type} (l : List (String × β)) (n : String) : Option β :=
  match l with
  | [] => none
  | (m, v) :: r => if m == n then some v else alGet r n

/-- `IndexMap::insert`: replace in place, else append. -/
def alPut {β : Type} (l : List (String × β)) (k : String) (v : β) : List (String × β) :=
  if l.any (·.1 == k) then l.map (fun p => if p.1 == k then (k, v) else p) else l ++ [(k, v)]

def alErase {β : Type} (l : List (String × β)) (n : String) : List (String × β) :=
  l.filter (fun p => p.1 != n)

def lookupVar (h : Array Frame) : List Nat → String → Option Value
  | [], _ => none
  | f :: fs, n =>
    match (h[f]?).bind (fun fr => alGet fr.vars n) with
    | some v => some v
    | none => lookupVar h fs n

def lookupFn (h : Array Frame) : List Nat → String → Option Callable
  | [], _ => none
  | f :: fs, n =>
    match (h[f]?).bind (fun fr => alGet fr.fns n) with
    | some v => some v
    | none => lookupFn h fs n

def lookupMixin (h : Array Frame) : List Nat → String → Option Callable
  | [], _ => none
  | f :: fs, n =>
    match (h[f]?).bind (fun fr => alGet fr.mixins n) with
    | some v => some v
    | none => lookupMixin h fs n

/-- Innermost frame of the chain that declares the variable. -/
def findFrame (h : Array Frame) : List Nat → String → Option Nat
  | [], _ => none
  | f :: fs, n =>
    match (h[f]?).bind (fun fr => alGet fr.vars n) with
    | some _ => some f
    | none => findFrame h fs n

def setVarIn (fid : Nat) (n : String) (v : Value) : M Unit :=
  modifySt fun st => { st with heap := st.heap.modify fid fun fr => { fr with vars := (n, v) :: alErase fr.vars n } }

/-- The frame an assignment `$n: v` writes to. -/
def assignTarget (h : Array Frame) (env : List Nat) (n : String) (glob semi : Bool) : Option Nat :=
  let top := env.head?
  let g := env.getLast?
  if glob || env.length == 1 then g
  else
    match findFrame h env n with
    | none => top
    | some f => if some f == g then (if semi then g else top) else some f

def newFrame : M Nat := fun st => .ok st.heap.size { st with heap := st.heap.push {} }

/-! ### operators -/

/-- Dyadic rationals with numerator and denominator below 2^53 are exactly representable as
    doubles, and `+ - * %` of two such numbers whose exact result is again of this form is computed
    exactly by IEEE arithmetic.  Anything else is outside the model. -/
def exactDouble (q : Rat) : Bool :=
  q.num.natAbs < 9007199254740992 && q.den < 9007199254740992 && (q.den &&& (q.den - 1)) == 0

/-- At most 10 decimals (the denominator divides 2^10): quotients outside are not printed exactly
    and `==`/`<` on them are fuzzy in grass (value/number.rs); outside the model. -/
def shortDyadic (q : Rat) : Bool := exactDouble q && q.den ≤ 1024

/-- Arithmetic and comparison of two numbers `x n1/d1`, `y n2/d2` (evaluate/bin_op.rs: add :68-108,
    sub :213-253, mul :350-379, div :458-478, rem :506-528; value/mod.rs:343 `cmp`).  `+ - % < > <= >=`
    demand comparable units ("Incompatible units"), `*` and `/` combine them (`multiply_units`). -/
def numBin (op : BinOp) (x : Rat) (n1 d1 : List String) (y : Rat) (n2 d2 : List String) : M Value :=
  if !(exactDouble x && exactDouble y) then fail .unsupported else
  let guard (v : Rat) (u : List String × List String) : M Value :=
    if exactDouble v then pure (mkNum v u.1 u.2) else fail .unsupported
  match op with
  | .mul => guard (x * y) (mulUnits n1 d1 n2 d2)
  | .div =>
    -- division by zero gives Infinity/NaN in grass: outside the model
    if y == 0 then fail .unsupported
    else if shortDyadic (x / y) then guard (x / y) (divUnits n1 d1 n2 d2) else fail .unsupported
  | .add | .sub | .mod | .lt | .gt | .le | .ge =>
    if !unitsComparable n1 d1 n2 d2 then fail .incompatibleUnits else
    match op with
    | .add => guard (x + y) (addUnits n1 d1 n2 d2)
    | .sub => guard (x - y) (addUnits n1 d1 n2 d2)
    | .mod => if y == 0 then fail .unsupported else guard (x - y * ((x / y).floor : Int)) (addUnits n1 d1 n2 d2)
    | .lt => pure (.bool (x < y))
    | .gt => pure (.bool (x > y))
    | .le => pure (.bool (x ≤ y))
    | .ge => pure (.bool (x ≥ y))
    | _ => fail .unsupported
  | _ => fail .unsupported

/-- Strings longer than this are outside the model (keeps run-away concatenation cheap). -/
def strCap : Nat := 4096

def mkStr (s : String) (q : Bool) : M Value :=
  if s.length > strCap then fail .unsupported else pure (.str s q)

/-- Strict binary operators on evaluated operands (`and`/`or` are handled lazily by the caller). -/
def binOp (dev : Dev) (op : BinOp) (a b : Value) : M Value :=
  match op with
  | .eq => pure (.bool (a.eq b))
  | .ne => pure (.bool (!(a.eq b)))
  | .and | .or => fail .unsupported
  | _ =>
  match a.asNum, b.asNum with
  | some (x, n1, d1), some (y, n2, d2) => numBin op x n1 d1 y n2 d2
  | _, _ =>
  match op with
  | .add =>
    match a, b with
    | .str s q, _ =>
      match b with
      | .str t _ => mkStr (s ++ t) q
      | .map _ => fail .invalidCss
      | _ => do let t ← liftPrint b.toCss; mkStr (s ++ t) q
    -- bin_op.rs:109: number + string prints the unit with `Display`, complex or not
    | .dim x n d, .str t q =>
      match fmtNum x with
      | some s => mkStr (s ++ unitText n d ++ t) q
      | none => fail .unsupported
    | .null, .str t true =>
      if dev.nullPlusQuotedKeepsQuotes then mkStr ("\"" ++ t ++ "\"") false else mkStr t true
    | _, .str t q =>
      match a with
      | .map _ => fail .invalidCss
      | .list .. => fail .unsupported
      | _ => do let s ← liftPrint a.toCss; mkStr (s ++ t) q
    | _, _ => fail .unsupported
  | .lt | .gt | .le | .ge => fail .undefinedOperation
  | _ => fail .unsupported

/-! ### argument binding -/

/-- The arity rules (`ArgumentDeclaration.verify` in the reference implementation): a parameter
    may not be passed both by position and by name; a parameter without default must be passed;
    without a rest parameter there may be no extra positional and no unknown named arguments. -/
def verifyArgs (ps : Params) (npos : Nat) (names : List String) : Option Err :=
  let rec go (i : Nat) : List (String × Option Expr) → Nat → Option Err ⊕ Nat
    | [], used => .inr used
    | (p, d) :: rest, used =>
      if i < npos then
        if names.contains p then .inl (some .passedBothWays) else go (i + 1) rest used
      else if names.contains p then go (i + 1) rest (used + 1)
      else if d.isNone then .inl (some .missingArgument)
      else go (i + 1) rest used
  match go 0 ps.ps 0 with
  | .inl e => e
  | .inr used =>
    if ps.rest.isSome then none
    else if npos > ps.ps.length then some .tooManyArguments
    else if used < names.length then some .noArgumentNamed
    else none

/-- `bindable ps npos names`: the binding succeeds. -/
def bindable (ps : Params) (npos : Nat) (names : List String) : Bool := (verifyArgs ps npos names).isNone

/-! ### the recursion record and the structural helpers -/

structure Rec where
  expr : Ctx → Expr → M Value
  block : Ctx → List Stmt → M (Option Value)
  loop : Ctx → Expr → List Stmt → M (Option Value)

def mapM' {α β : Type} (f : α → M β) : List α → M (List β)
  | [] => pure []
  | a :: as => do
    let b ← f a
    let bs ← mapM' f as
    pure (b :: bs)

/-- Run `f` on each element until one yields a `@return` value. -/
def forEachM {α : Type} (f : α → M (Option Value)) : List α → M (Option Value)
  | [] => pure none
  | a :: as => do
    match ← f a with
    | some v => pure (some v)
    | none => forEachM f as

def evalNamed (f : Expr → M Value) : List (String × Expr) → M (List (String × Value))
  | [] => pure []
  | (n, e) :: r => do
    let v ← f e
    let vs ← evalNamed f r
    pure ((n, v) :: vs)

structure Evaled where
  pos : List Value
  named : List (String × Value)
  sep : Sep := .undecided      -- separator of a spread list (`$l...`), for the rest parameter
deriving Inhabited

/-- Evaluate an argument list in the caller's scope: positional, then named, then the rest
    argument (a list contributes its elements as positional arguments, a map with string keys
    contributes named arguments, anything else one positional argument). -/
def evalArgs (r : Rec) (ctx : Ctx) (a : Args) : M Evaled := do
  let pos ← mapM' (r.expr ctx) a.pos
  let named ← evalNamed (r.expr ctx) a.named
  match a.rest with
  | none => pure { pos, named }
  | some e =>
    match ← r.expr ctx e with
    | .list es sep _ => pure { pos := pos ++ es, named, sep }
    | .arglist es sep kw id => do
      modifySt fun st => { st with kwRead := id :: st.kwRead }
      pure { pos := pos ++ es, named := kw.foldl (fun acc p => alPut acc p.1 p.2) named, sep }
    | .map _ => fail .unsupported
    | v => pure { pos := pos ++ [v], named }

/-- Bind the declared parameters that were not passed by position: by name, else the default
    expression evaluated in the callee's scope (so it sees the parameters bound before it). -/
def bindRest (r : Rec) (ctx : Ctx) (fid : Nat) :
    List (String × Option Expr) → List (String × Value) → M (List (String × Value))
  | [], named => pure named
  | (p, d) :: ps, named => do
    let v ← (match alGet named p with
      | some v => pure v
      | none =>
        match d with
        | some e => r.expr ctx e
        | none => fail .missingArgument)
    setVarIn fid p v
    bindRest r ctx fid ps (alErase named p)

def bindPositional (fid : Nat) : List (String × Option Expr) → List Value → M Unit
  | (p, _) :: ps, v :: vs => do setVarIn fid p v; bindPositional fid ps vs
  | _, _ => pure ()

/-- Separator of the argument list bound to a rest parameter: that of the list spread into the
    call (`f($list...)`), a comma when the arguments were passed one by one (visitor.rs:2343). -/
def restSep (dev : Dev) (spread : Sep) : Sep :=
  if dev.restAlwaysComma || spread == .undecided then .comma else spread

/-- Invoke a user-defined callable: fresh frame on top of the captured chain, arity check, bind,
    run `body` in the callee context; leftover named arguments with a rest parameter become the
    argument list's keywords, and are an error after the body has run unless they were read
    (`keywords($rest)`, or `$rest...` passed on). -/
def invoke {α : Type} (r : Rec) (dev : Dev) (mk : Nat → Ctx) (ps : Params) (ev : Evaled) (body : Ctx → M α) : M α := do
  let fid ← newFrame
  let ctx := mk fid
  match verifyArgs ps ev.pos.length (ev.named.map (·.1)) with
  | some e => fail e
  | none =>
    bindPositional fid ps.ps ev.pos
    let left ← bindRest r ctx fid (ps.ps.drop ev.pos.length) ev.named
    let _ ← (match ps.rest with
      | some rn =>
        let sep := restSep dev ev.sep
        setVarIn fid rn (.arglist (ev.pos.drop ps.ps.length) sep left fid)
      | none => pure ())
    let out ← body ctx
    let st ← getSt
    if ps.rest.isSome && !left.isEmpty && !st.kwRead.contains fid then fail .noArgumentNamed else pure out

/-! ### built-in functions (a handful) -/

def builtin (name : String) (ev : Evaled) : Option (M Value) :=
  if !ev.named.isEmpty then none else
  match name, ev.pos with
  | "length", [v] =>
    some (pure (.num (match v with
      | .list es _ _ => es.length
      | .arglist es _ _ _ => es.length
      | .map ps => ps.length
      | _ => 1)))
  | "nth", [l, .num q] =>
    let es := match l with
      | .list es _ _ => es
      | .arglist es _ _ _ => es
      | .map ps => ps.map fun (k, v) => .list [k, v] .space false
      | v => [v]
    some (if q.den != 1 || q.num == 0 then fail .unsupported else
      let n := q.num.natAbs
      if n > es.length then fail .indexOutOfBounds else
      let i := if q.num > 0 then n - 1 else es.length - n
      match es[i]? with
      | some v => pure v
      | none => fail .indexOutOfBounds)
  | "map-get", [.map ps, k] =>
    some (pure (match ps.find? (fun p => p.1.eq k) with
      | some p => p.2
      | none => .null))
  | "type-of", [v] =>
    some (pure (.str (match v with
      | .num _ => "number" | .str .. => "string" | .bool _ => "bool" | .null => "null"
      | .list .. => "list" | .map _ => "map" | .arglist .. => "arglist" | .dim .. => "number") false))
  | "not", [v] => some (pure (.bool !v.truthy))
  | "list-separator", [v] =>
    some (pure (.str (match v with
      | .list _ .comma _ => "comma" | .arglist _ .comma _ _ => "comma" | .map _ => "comma"
      | _ => "space") false))
  | "keywords", [.arglist _ _ kw id] =>
    some (do
      modifySt fun st => { st with kwRead := id :: st.kwRead }
      pure (.map (kw.map fun (k, v) => (.str k false, v))))
  -- builtin/functions/math.rs:215 `divide`: the same `div` as the operator
  | "math.div", [a, b] =>
    some (match a.asNum, b.asNum with
      | some (x, n1, d1), some (y, n2, d2) => numBin .div x n1 d1 y n2 d2
      | _, _ => fail .unsupported)
  -- builtin/functions/meta.rs:62 `unit`, :78 `unitless`, :87 `inspect`
  | "unit", [v] =>
    some (match v.asNum with
      | some (_, n, d) => pure (.str (unitText n d) true)
      | none => fail .notANumber)
  | "unitless", [v] =>
    some (match v.asNum with
      | some (_, n, d) => pure (.bool (n.isEmpty && d.isEmpty))
      | none => fail .notANumber)
  | "inspect", [v] => some (do let s ← liftPrint v.inspect; mkStr s false)
  | _, _ => none

/-- `Identifier::from`: `_` and `-` are the same character in names. -/
def normName (n : String) : String := n.map fun c => if c == '_' then '-' else c

/-- Names of the built-in functions this model implements (all of them global functions of grass). -/
def modelBuiltins : List String :=
  ["length", "nth", "map-get", "type-of", "list-separator", "keywords", "unit", "unitless", "inspect",
   "variable-exists", "global-variable-exists", "function-exists", "mixin-exists"]

/-- The built-ins that look at the environment (builtin/functions/meta.rs:95 `variable_exists`,
    :110 `global_variable_exists`, :145 `mixin_exists`, :176 `function_exists`; without `$module`).
    `function-exists` of a name that is neither user-defined nor one of `modelBuiltins` is decided
    (`false`) only for the generator's reserved prefix `nofn` (no grass built-in starts with it);
    otherwise it is outside the model. -/
def builtinEnv (ctx : Ctx) (name : String) (ev : Evaled) : Option (M Value) :=
  if !ev.named.isEmpty then none else
  match name, ev.pos with
  | "variable-exists", [.str n _] =>
    some (do let st ← getSt; pure (.bool (lookupVar st.heap ctx.env (normName n)).isSome))
  | "global-variable-exists", [.str n _] =>
    some (do let st ← getSt; pure (.bool (lookupVar st.heap ctx.env.getLast?.toList (normName n)).isSome))
  | "mixin-exists", [.str n _] =>
    some (do let st ← getSt; pure (.bool (lookupMixin st.heap ctx.env (normName n)).isSome))
  | "function-exists", [.str n _] =>
    some (do
      let st ← getSt
      if (lookupFn st.heap ctx.env (normName n)).isSome || modelBuiltins.contains (normName n) then pure (.bool true)
      else if (normName n).startsWith "nofn" then pure (.bool false)
      else fail .unsupported)
  | _, _ => none

/-! ### one level of evaluation -/

def intOf (v : Value) : M Int :=
  match v with
  | .num q => if q.den == 1 then pure q.num else fail .notAnInteger
  | .dim .. => fail .unsupported      -- `@for` over numbers with units: outside the model
  | _ => fail .notANumber

/-- The values `@for` assigns, in order (`from` towards `to`, end point included for `through`). -/
def forRange (lo hi : Int) (inclusive : Bool) : List Int :=
  let n := (if lo ≤ hi then hi - lo else lo - hi).toNat + (if inclusive then 1 else 0)
  (List.range n).map fun (i : Nat) => if lo ≤ hi then lo + (i : Int) else lo - (i : Int)

mutual
/-- `Value::unquote` (value/mod.rs:251): strings lose their quotes, lists element-wise; every other
    value (maps, ARGUMENT LISTS) is left alone. -/
def Value.unquote : Value → Value
  | .str s _ => .str s false
  | .list es sep br => .list (unquoteList es) sep br
  | v => v
def unquoteList : List Value → List Value
  | [] => []
  | v :: vs => v.unquote :: unquoteList vs
end

/-- Text of one interpolated value (`serialize(expr, QuoteKind::None)`, visitor.rs:2935:
    `expr.unquote().to_css_string()`).  A quoted string gives its text, numbers print with their
    unit, null prints as nothing, lists print their (unquoted) elements; maps, `()` and numbers
    with complex units are "not a valid CSS value". -/
def interpText (v : Value) : Except PrintErr String :=
  match v with
  -- (the string case of `v.unquote.toCss`, spelled out)
  | .str t _ => if plainTextU t then .ok t else .error .unsupported
  | v => v.unquote.toCss

def evalInterp (f : Expr → M Value) : List (String × Option Expr) → M String
  | [] => pure ""
  | (s, none) :: r => do let t ← evalInterp f r; pure (s ++ t)
  | (s, some e) :: r => do
    let v ← f e
    let x ← liftPrint (interpText v)
    let t ← evalInterp f r
    pure (s ++ x ++ t)

def exprF (r : Rec) (ctx : Ctx) : Expr → M Value
  | .lit v => pure v
  | .var n => do
    let st ← getSt
    match lookupVar st.heap ctx.env n with
    | some v => pure v
    | none => fail .undefinedVariable
  | .bin .and a b => do
    let x ← r.expr ctx a
    if x.truthy then r.expr ctx b else pure x
  | .bin .or a b => do
    let x ← r.expr ctx a
    if x.truthy then pure x else r.expr ctx b
  | .bin op a b => do
    let x ← r.expr ctx a
    let y ← r.expr ctx b
    binOp ctx.dev op x y
  | .neg a => do
    match ← r.expr ctx a with
    | .num q => pure (.num (-q))
    | .dim q n d => pure (.dim (-q) n d)       -- value/mod.rs `unary_neg`: the unit stays
    | _ => fail .unsupported
  | .not a => do
    let x ← r.expr ctx a
    pure (.bool !x.truthy)
  | .list es sep br => do
    let vs ← mapM' (r.expr ctx) es
    pure (.list vs sep br)
  | .map kvs => do
    let ks ← mapM' (r.expr ctx) (kvs.map (·.1))
    let vs ← mapM' (r.expr ctx) (kvs.map (·.2))
    -- keys are evaluated pairwise in grass and Sass; the generator only uses side-effect-free
    -- keys, for which the order cannot be observed
    let rec dup : List Value → Bool
      | [] => false
      | k :: ks => ks.any (·.eq k) || dup ks
    if dup ks then fail .duplicateKey else pure (.map (ks.zip vs))
  | .iff c a b => do
    let x ← r.expr ctx c
    if x.truthy then r.expr ctx a else r.expr ctx b
  | .interp q parts => do
    let s ← evalInterp (r.expr ctx) parts
    mkStr s q
  | .call f pos named rest => do
    let ev ← evalArgs r ctx { pos, named, rest }
    let st ← getSt
    match lookupFn st.heap ctx.env f with
    | some c =>
      invoke r ctx.dev (fun fid => { dev := ctx.dev, env := fid :: c.env, semi := false, content := none, sel := ctx.sel, inFn := true })
        c.params ev fun ctx' => do
          match ← r.block ctx' c.body with
          | some v => pure v
          | none => fail .noReturn
    | none =>
      match builtin f ev with
      | some m => m
      | none =>
        match builtinEnv ctx f ev with
        | some m => m
        | none => fail .unsupported

def selText (sel : List String) : String := " ".intercalate sel.reverse

def logMsg (kind msg : String) : M Unit :=
  modifySt fun st => { st with log := st.log.push (kind, msg) }

def declareFn (fid : Nat) (n : String) (c : Callable) : M Unit :=
  modifySt fun st => { st with heap := st.heap.modify fid fun fr => { fr with fns := (n, c) :: fr.fns } }

def declareMixin (fid : Nat) (n : String) (c : Callable) : M Unit :=
  modifySt fun st => { st with heap := st.heap.modify fid fun fr => { fr with mixins := (n, c) :: fr.mixins } }

/-- Run `body` in a fresh child scope of `ctx`. -/
def inScope {α : Type} (ctx : Ctx) (semi : Bool) (body : Ctx → M α) : M α := do
  let fid ← newFrame
  body { ctx with env := fid :: ctx.env, semi := semi && ctx.semi }

def firstClause (r : Rec) (ctx : Ctx) : List (Expr × List Stmt) → M (Option (List Stmt))
  | [] => pure none
  | (c, body) :: rest => do
    let v ← r.expr ctx c
    if v.truthy then pure (some body) else firstClause r ctx rest

def eachBind (fid : Nat) : List String → List Value → M Unit
  | [], _ => pure ()
  | x :: xs, [] => do setVarIn fid x .null; eachBind fid xs []
  | x :: xs, v :: vs => do setVarIn fid x v; eachBind fid xs vs

def asList : Value → List Value
  | .list es _ _ => es
  | .arglist es _ _ _ => es
  | .map ps => ps.map fun (k, v) => .list [k, v] .space false
  | v => [v]

/-- The text `@debug` (`inspect := true`) and `@warn` deliver: a string's text, any other value
    printed (visitor.rs:1067, :1632). -/
def messageText (dev : Dev) (inspect : Bool) (v : Value) : Except PrintErr String :=
  match v with
  | .str s q =>
    if dev.messageKeepsQuotes then (if inspect then v.inspect else v.toCss)
    else if printable s q then .ok s else .error .unsupported
  | _ => if inspect then v.inspect else v.toCss

/-- `visit_style` (visitor.rs:3066) after the name is known: evaluate the value, drop a blank one,
    record the declaration (its CSS text is produced when the stylesheet is serialised). -/
def emitDecl (r : Rec) (ctx : Ctx) (prop : String) (e : Expr) : M (Option Value) := do
    let v ← r.expr ctx e
    if v.nestedEmptyArglist then fail .unsupported else
    let emptyList := match v with | .list [] _ false => true | .map [] => true | .arglist [] _ _ _ => true | _ => false
    let droppedAsFound := match v with | .list [] _ false => ctx.dev.emptyListDeclDropped | _ => false
    if v.isBlank && !emptyList then pure none else
    if droppedAsFound then pure none else
    let txt : Option String ← (match v.toCss with
      | .ok s => pure (some s)
      | .error .invalidCss => pure none
      | .error .unsupported => fail .unsupported)
    modifySt fun st => { st with css := st.css.push (selText ctx.sel, prop, txt) }
    pure none

def stmtF (r : Rec) (ctx : Ctx) : Stmt → M (Option Value)
  | .decl prop e =>
    if ctx.sel.isEmpty then fail .declOutsideRule else emitDecl r ctx prop e
  | .declI parts e =>
    -- the name's interpolation is evaluated before the value (visitor.rs:3080)
    if ctx.sel.isEmpty then fail .declOutsideRule else do
    let prop ← evalInterp (r.expr ctx) parts
    emitDecl r ctx prop.trimAscii.toString e
  | .rule sel body =>
    inScope ctx false fun ctx' => r.block { ctx' with sel := sel :: ctx.sel } body
  | .var n e glob dflt => do
    let st ← getSt
    let skip := dflt && (match lookupVar st.heap ctx.env n with
      | some v => !(v.eq .null)
      | none => false)
    if skip then pure none else
    let v ← r.expr ctx e
    let st ← getSt
    match assignTarget st.heap ctx.env n glob ctx.semi with
    | some fid => do setVarIn fid n v; pure none
    | none => fail .unsupported
  | .ifs clauses els => do
    let chosen ← firstClause r ctx clauses
    let body := match chosen with
      | some b => some b
      | none => els
    inScope ctx true fun ctx' =>
      match body with
      | some b => r.block ctx' b
      | none => pure none
  | .forr x lo hi inclusive body => do
    let a ← intOf (← r.expr ctx lo)
    let b ← intOf (← r.expr ctx hi)
    inScope ctx true fun ctx' =>
      match ctx'.env with
      | fid :: _ =>
        forEachM (fun (i : Int) => do setVarIn fid x (.num i); r.block ctx' body) (forRange a b inclusive)
      | [] => fail .unsupported
  | .each xs e body => do
    let l ← r.expr ctx e
    inScope ctx true fun ctx' =>
      match ctx'.env with
      | fid :: _ =>
        forEachM (fun (v : Value) => do
          (match xs with
            | [x] => setVarIn fid x v
            | _ => eachBind fid xs (asList v))
          r.block ctx' body) (asList l)
      | [] => fail .unsupported
  | .whil c body =>
    inScope ctx true fun ctx' => r.loop ctx' c body
  | .func name ps body => do
    match ctx.env with
    | fid :: _ => declareFn fid name { params := ps, body, env := ctx.env }; pure none
    | [] => fail .unsupported
  | .ret e => do
    if !ctx.inFn then fail .staticError else
    let v ← r.expr ctx e
    pure (some v)
  | .mixin name ps body => do
    match ctx.env with
    | fid :: _ => declareMixin fid name { params := ps, body, env := ctx.env }; pure none
    | [] => fail .unsupported
  | .incl name args content => do
    let st ← getSt
    match lookupMixin st.heap ctx.env name with
    | none => fail .undefinedMixin
    | some c =>
      -- a content block may only be passed to a mixin that uses `@content` (checked before the
      -- arguments are evaluated)
      if content.isSome && !blockHasContent c.body then fail .noContentAccepted else
      let ev ← evalArgs r ctx args
      let cb := content.map fun (ps, body) => Content.mk ps body ctx.env ctx.content
      invoke r ctx.dev (fun fid => { dev := ctx.dev, env := fid :: c.env, semi := false, content := cb, sel := ctx.sel, inFn := false })
        c.params ev fun ctx' => do
          let _ ← r.block ctx' c.body
          pure none
  | .content args => do
    match ctx.content with
    | none => pure none
    | some (.mk ps body env outer) =>
      let ev ← evalArgs r ctx args
      invoke r ctx.dev (fun fid => { dev := ctx.dev, env := fid :: env, semi := false, content := outer, sel := ctx.sel, inFn := false })
        ps ev fun ctx' => do
          let _ ← r.block ctx' body
          pure none
  | .debug e => do
    let v ← r.expr ctx e
    let s ← liftPrint (messageText ctx.dev true v)
    logMsg "debug" s
    pure none
  | .warn e => do
    let v ← r.expr ctx e
    let s ← liftPrint (messageText ctx.dev false v)
    logMsg "warn" s
    pure none
  | .error e => do
    let v ← r.expr ctx e
    -- the error message is the inspected value (a quoted string keeps its quotes)
    let s ← liftPrint v.inspect
    logMsg "error" s
    fail .userError

def loopF (r : Rec) (ctx : Ctx) (c : Expr) (body : List Stmt) : M (Option Value) := do
  let v ← r.expr ctx c
  if v.truthy then
    match ← r.block ctx body with
    | some x => pure (some x)
    | none => r.loop ctx c body
  else pure none

def stepF (r : Rec) : Rec where
  expr := exprF r
  block := fun ctx ss => forEachM (fun s => do tick; stmtF r ctx s) ss
  loop := loopF r

def Rec.bottom : Rec where
  expr := fun _ _ => outOfFuel
  block := fun _ _ => outOfFuel
  loop := fun _ _ _ => outOfFuel

def run : Nat → Rec
  | 0 => .bottom
  | n + 1 => stepF (run n)

def St.init : St := { heap := #[{}], css := #[], log := #[] }

def Ctx.root (dev : Dev) : Ctx := { dev, env := [0], semi := true, content := none, sel := [], inFn := false }

/-- Whole-program result. -/
inductive Outcome where
  | finished (st : St)
  | failed (e : Err) (st : St)
  | outOfFuel

def evalProgram (dev : Dev) (fuel : Nat) (prog : List Stmt) : Outcome :=
  match (run fuel).block (Ctx.root dev) prog St.init with
  | .ok _ st =>
    -- declaration values are turned into CSS text when the stylesheet is serialised, after
    -- evaluation has finished
    if st.css.toList.any (fun d => d.2.2.isNone) then .failed .invalidCss st else .finished st
  | .err e st => .failed e st
  | .oof => .outOfFuel

/-! ### static restrictions the parser enforces (before anything is evaluated) -/

mutual
def stmtStatic (inFn inMixin inCallableOrCtl : Bool) : Stmt → Bool
  | .decl _ _ => !inFn
  | .declI _ _ => !inFn
  | .rule _ body => !inFn && blockStatic inFn inMixin inCallableOrCtl body
  | .var .. => true
  | .ifs cl els => clausesStatic inFn inMixin cl && (match els with
      | some b => blockStatic inFn inMixin true b
      | none => true)
  | .forr _ _ _ _ body => blockStatic inFn inMixin true body
  | .each _ _ body => blockStatic inFn inMixin true body
  | .whil _ body => blockStatic inFn inMixin true body
  | .func _ _ body => !inCallableOrCtl && blockStatic true false true body
  | .ret _ => inFn
  | .mixin _ _ body => !inCallableOrCtl && blockStatic false true true body
  | .incl _ _ content => !inFn && (match content with
      | some (_, body) => blockStatic inFn inMixin inCallableOrCtl body
      | none => true)
  | .content _ => inMixin
  | .debug _ => true
  | .warn _ => true
  | .error _ => true
def blockStatic (inFn inMixin inCallableOrCtl : Bool) : List Stmt → Bool
  | [] => true
  | s :: ss => stmtStatic inFn inMixin inCallableOrCtl s && blockStatic inFn inMixin inCallableOrCtl ss
def clausesStatic (inFn inMixin : Bool) : List (Expr × List Stmt) → Bool
  | [] => true
  | (_, b) :: r => blockStatic inFn inMixin true b && clausesStatic inFn inMixin r
end

/-! ### driver: Polish-notation program reader -/
open Grass.Proto

abbrev P (α : Type) := List String → Option (α × List String)

def pTok : P String
  | [] => none
  | t :: ts => some (t, ts)

def pNat : P Nat := fun ts => do
  let (t, ts) ← pTok ts
  let n ← t.toNat?
  some (n, ts)

def pBool : P Bool := fun ts => do
  let (t, ts) ← pTok ts
  let b ← parseBool? t
  some (b, ts)

def pHex : P String := fun ts => do
  let (t, ts) ← pTok ts
  let s ← hexDecode t
  some (s, ts)

def pMany {α : Type} (p : P α) : Nat → P (List α)
  | 0, ts => some ([], ts)
  | n + 1, ts => do
    let (a, ts) ← p ts
    let (as, ts) ← pMany p n ts
    some (a :: as, ts)

def pCounted {α : Type} (p : P α) : P (List α) := fun ts => do
  let (n, ts) ← pNat ts
  pMany p n ts

def pOpt {α : Type} (p : P α) : P (Option α) := fun ts => do
  let (b, ts) ← pBool ts
  if b then do
    let (a, ts) ← p ts
    some (some a, ts)
  else some (none, ts)

def pSep : P Sep := fun ts => do
  let (t, ts) ← pTok ts
  match t with
  | "s" => some (.space, ts)
  | "c" => some (.comma, ts)
  | "u" => some (.undecided, ts)
  | _ => none

def pBinOp : P BinOp := fun ts => do
  let (t, ts) ← pTok ts
  match t with
  | "add" => some (.add, ts) | "sub" => some (.sub, ts) | "mul" => some (.mul, ts)
  | "mod" => some (.mod, ts) | "eq" => some (.eq, ts) | "ne" => some (.ne, ts)
  | "lt" => some (.lt, ts) | "gt" => some (.gt, ts) | "le" => some (.le, ts)
  | "ge" => some (.ge, ts) | "and" => some (.and, ts) | "or" => some (.or, ts)
  | "div" => some (.div, ts)
  | _ => none

def pPair {α β : Type} (p : P α) (q : P β) : P (α × β) := fun ts => do
  let (a, ts) ← p ts
  let (b, ts) ← q ts
  some ((a, b), ts)

def pExpr : Nat → P Expr
  | 0, _ => none
  | fuel + 1, ts => do
    let (t, ts) ← pTok ts
    let e := pExpr fuel
    match t with
    | "N" => do
      let (a, ts) ← pTok ts
      let (b, ts) ← pNat ts
      let n ← a.toInt?
      if b == 0 then none else some (.lit (.num (mkRat n b)), ts)
    | "D" => do
      let (a, ts) ← pTok ts
      let (b, ts) ← pNat ts
      let (u, ts) ← pTok ts
      let n ← a.toInt?
      if b == 0 || !knownUnits.contains u then none else some (.lit (.dim (mkRat n b) [u] []), ts)
    | "Q" => do let (s, ts) ← pHex ts; some (.lit (.str s true), ts)
    | "U" => do let (s, ts) ← pHex ts; some (.lit (.str s false), ts)
    | "T" => some (.lit (.bool true), ts)
    | "F" => some (.lit (.bool false), ts)
    | "Z" => some (.lit .null, ts)
    | "V" => do let (n, ts) ← pTok ts; some (.var n, ts)
    | "B" => do
      let (op, ts) ← pBinOp ts
      let (a, ts) ← e ts
      let (b, ts) ← e ts
      some (.bin op a b, ts)
    | "NEG" => do let (a, ts) ← e ts; some (.neg a, ts)
    | "NOT" => do let (a, ts) ← e ts; some (.not a, ts)
    | "LIST" => do
      let (sep, ts) ← pSep ts
      let (br, ts) ← pBool ts
      let (es, ts) ← pCounted e ts
      some (.list es sep br, ts)
    | "MAP" => do
      let (kvs, ts) ← pCounted (pPair e e) ts
      some (.map kvs, ts)
    | "CALL" => do
      let (f, ts) ← pTok ts
      let (pos, ts) ← pCounted e ts
      let (named, ts) ← pCounted (pPair pTok e) ts
      let (rest, ts) ← pOpt e ts
      some (.call f pos named rest, ts)
    | "IF" => do
      let (c, ts) ← e ts
      let (a, ts) ← e ts
      let (b, ts) ← e ts
      some (.iff c a b, ts)
    | "INTERP" => do
      let (q, ts) ← pBool ts
      let (parts, ts) ← pCounted (pPair pHex (pOpt e)) ts
      some (.interp q parts, ts)
    | _ => none

def pParams (fuel : Nat) : P Params := fun ts => do
  let (ps, ts) ← pCounted (pPair pTok (pOpt (pExpr fuel))) ts
  let (rest, ts) ← pOpt pTok ts
  some ({ ps, rest }, ts)

def pArgs (fuel : Nat) : P Args := fun ts => do
  let (pos, ts) ← pCounted (pExpr fuel) ts
  let (named, ts) ← pCounted (pPair pTok (pExpr fuel)) ts
  let (rest, ts) ← pOpt (pExpr fuel) ts
  some ({ pos, named, rest }, ts)

def pStmt : Nat → P Stmt
  | 0, _ => none
  | fuel + 1, ts => do
    let (t, ts) ← pTok ts
    let e := pExpr (fuel + 1)
    let blk := pCounted (pStmt fuel)
    match t with
    | "DECL" => do
      let (p, ts) ← pHex ts
      let (v, ts) ← e ts
      some (.decl p v, ts)
    | "DECLI" => do
      let (parts, ts) ← pCounted (pPair pHex (pOpt e)) ts
      let (v, ts) ← e ts
      some (.declI parts v, ts)
    | "RULE" => do
      let (s, ts) ← pHex ts
      let (b, ts) ← blk ts
      some (.rule s b, ts)
    | "VAR" => do
      let (n, ts) ← pTok ts
      let (v, ts) ← e ts
      let (g, ts) ← pBool ts
      let (d, ts) ← pBool ts
      some (.var n v g d, ts)
    | "IFS" => do
      let (cl, ts) ← pCounted (pPair e blk) ts
      let (els, ts) ← pOpt blk ts
      some (.ifs cl els, ts)
    | "FOR" => do
      let (x, ts) ← pTok ts
      let (a, ts) ← e ts
      let (b, ts) ← e ts
      let (incl, ts) ← pBool ts
      let (body, ts) ← blk ts
      some (.forr x a b incl body, ts)
    | "EACH" => do
      let (xs, ts) ← pCounted pTok ts
      let (l, ts) ← e ts
      let (body, ts) ← blk ts
      some (.each xs l body, ts)
    | "WHILE" => do
      let (c, ts) ← e ts
      let (body, ts) ← blk ts
      some (.whil c body, ts)
    | "FUNC" => do
      let (n, ts) ← pTok ts
      let (ps, ts) ← pParams (fuel + 1) ts
      let (body, ts) ← blk ts
      some (.func n ps body, ts)
    | "RET" => do let (v, ts) ← e ts; some (.ret v, ts)
    | "MIXIN" => do
      let (n, ts) ← pTok ts
      let (ps, ts) ← pParams (fuel + 1) ts
      let (body, ts) ← blk ts
      some (.mixin n ps body, ts)
    | "INCL" => do
      let (n, ts) ← pTok ts
      let (args, ts) ← pArgs (fuel + 1) ts
      let (c, ts) ← pOpt (pPair (pParams (fuel + 1)) blk) ts
      some (.incl n args c, ts)
    | "CONTENT" => do let (a, ts) ← pArgs (fuel + 1) ts; some (.content a, ts)
    | "DEBUG" => do let (v, ts) ← e ts; some (.debug v, ts)
    | "WARN" => do let (v, ts) ← e ts; some (.warn v, ts)
    | "ERROR" => do let (v, ts) ← e ts; some (.error v, ts)
    | _ => none

def errStr : Err → String
  | .undefinedVariable => "undefined-variable" | .undefinedMixin => "undefined-mixin"
  | .undefinedFunction => "undefined-function" | .missingArgument => "missing-argument"
  | .tooManyArguments => "too-many-arguments" | .noArgumentNamed => "no-argument-named"
  | .passedBothWays => "passed-both-ways" | .noReturn => "no-return" | .invalidCss => "invalid-css"
  | .undefinedOperation => "undefined-operation" | .notANumber => "not-a-number"
  | .notAnInteger => "not-an-integer" | .userError => "user-error"
  | .declOutsideRule => "decl-outside-rule" | .noContentAccepted => "no-content-accepted"
  | .duplicateKey => "duplicate-key" | .indexOutOfBounds => "index-out-of-bounds"
  | .staticError => "static-error" | .unsupported => "unsupported"
  | .incompatibleUnits => "incompatible-units"

def stStr (st : St) : String :=
  let css := st.css.toList.map fun (s, p, v) =>
    hexEncode s ++ ":" ++ hexEncode p ++ ":" ++ (match v with | some t => hexEncode t | none => "!")
  let log := st.log.toList.map fun (k, m) => k ++ ":" ++ hexEncode m
  (if css.isEmpty then "-" else ",".intercalate css) ++ " | " ++ (if log.isEmpty then "-" else ",".intercalate log)

def outcomeStr : Outcome → String
  | .finished st => "ok done | " ++ stStr st
  | .failed .unsupported _ => "unsupported"
  | .failed e st => "ok err " ++ errStr e ++ " | " ++ stStr st
  | .outOfFuel => "ok out-of-fuel"

/-- `e` = emptyListDeclDropped, `r` = restAlwaysComma, `q` = messageKeepsQuotes,
    `n` = nullPlusQuotedKeepsQuotes; `-` = the specification. -/
def parseDev (s : String) : Dev :=
  { emptyListDeclDropped := s.contains 'e', restAlwaysComma := s.contains 'r', messageKeepsQuotes := s.contains 'q',
    nullPlusQuotedKeepsQuotes := s.contains 'n' }

def handle : List String → String
  | "run" :: fuel :: dev :: ts =>
    match fuel.toNat? with
    | none => "bad-op"
    | some fuel =>
      match pCounted (pStmt ts.length) ts with
      | some (prog, []) =>
        -- a declaration directly at the top level is not even parsed as a declaration
        if prog.any (fun s => match s with | .decl .. => true | _ => false) then "ok err static-error | - | -" else
        -- … and what an interpolated name at the top level is parsed as is outside the model
        if prog.any (fun s => match s with | .declI .. => true | _ => false) then "unsupported" else
        if !blockStatic false false false prog then "ok err static-error | - | -" else
        outcomeStr (evalProgram (parseDev dev) fuel prog)
      | _ => "bad-op"
  | ["forrange", a, b, i] =>
    match a.toInt?, b.toInt?, parseBool? i with
    | some a, some b, some i => "ok " ++ " ".intercalate ((forRange a b i).map toString)
    | _, _, _ => "bad-op"
  | _ => "bad-op"

end Grass.Eval
