import Grass.Proto
/- Core `Eval` — stub; replaced by the model (see DESIGN.md §8). -/
namespace Grass.Eval

def handle : List String → String
  | _ => "bad-op"

end Grass.Eval
