import Grass.Proto
/-
  C13 core — how `@import` / `@use` / `@forward` URLs are turned into file-system probes.

  Mirrors crates/compiler/src/evaluate/visitor.rs
      `add_extension`      (line 53)
      `find_import`        (line 809–877:  `try_path!` 819, explicit-extension branch 837–846,
                            `try_path_with_extensions!` 848–858, relative location 860–864,
                            load paths 866–874)
      `parse_file`         (line 879)  → options.rs `InputSyntax::for_path` (line 202)
      `import_like_node`   (line 892)  (find_import, then exactly one `fs.read` of the result,
                            else "Can't find stylesheet to import.")
      callers: `visit_dynamic_import_rule` (941, for_import = true), `load_module` (700,
               for_import = false; used by `visit_use_rule` 723 and `visit_forward_rule` 268)
  and utils/mod.rs `is_plain_css_import` (line 9), parse/stylesheet.rs `parse_import_argument`
  (line 863).

  Paths are `/`-separated component lists (`Path = List (List Char)`); the component-list
  operations used here agree with `std::path` (`parent`, `file_name`, `join`, `extension`,
  `with_extension`) on the URLs the driver accepts (`urlOk`: relative, no empty / `.` component,
  last component not `..`).  `Fs::canonicalize` (identity for a custom Fs by default) is not
  modelled; it is not an existence test or a read.

  As-found switches (one per known defect, DESIGN §3/§6); `AsFound.spec` = all off = the
  documented behaviour, `AsFound.current` = the code as it stands:
    d9   `find_import` ignores `for_import`: `@use`/`@forward` also probe the `.import` variants
    d10  a URL with an explicit .scss/.sass/.css extension is only looked up relative to the
         importing file (visitor.rs:844 `// todo: consider load paths`)
    d8b  the import-only variant of an explicit-extension URL is built with
         `with_extension(".import<ext>")` (visitor.rs:842), i.e. `q.scss` ↦ `q..importscss`
         instead of `q.import.scss`
    d8   (fixed in 9b563f8) `with_extension` *replaced* the last dotted part of the basename
-/
namespace Grass.Import

abbrev Comp := List Char
abbrev Path := List Comp

/-- The file-system object of `Options` as far as the search sees it. -/
structure Fs where
  isFile : Path → Bool
  isDir  : Path → Bool

inductive Probe where
  | isFile (p : Path)
  | isDir  (p : Path)
  deriving DecidableEq, Repr, Inhabited

def Probe.path : Probe → Path
  | .isFile p => p
  | .isDir p => p

structure AsFound where
  d9  : Bool
  d10 : Bool
  d8b : Bool
  d8  : Bool
  deriving DecidableEq, Repr, Inhabited

def AsFound.spec : AsFound := ⟨false, false, false, false⟩
def AsFound.current : AsFound := ⟨true, true, true, false⟩

inductive Syntax where
  | scss | sass | css
  deriving DecidableEq, Repr, Inhabited

/-! ### names -/

def sassExt : Comp := ['s', 'a', 's', 's']
def scssExt : Comp := ['s', 'c', 's', 's']
def cssExt  : Comp := ['c', 's', 's']
def importWord : Comp := ['i', 'm', 'p', 'o', 'r', 't']
def indexName : Comp := ['i', 'n', 'd', 'e', 'x']

/-- Split at the last `.`: `"a.b.c" ↦ ("a.b", "c")`; `none` when there is no dot. -/
def splitLastDot : List Char → Option (List Char × List Char)
  | [] => none
  | c :: cs =>
    match splitLastDot cs with
    | some (s, e) => some (c :: s, e)
    | none => if c = '.' then some ([], cs) else none

/-- `Path::extension` on a file name: the part after the last dot, unless the only dot is the
    first character (`.scss` has no extension). Returns `(stem, ext)`. -/
def stemExt (name : Comp) : Option (Comp × Comp) :=
  match splitLastDot name with
  | some (s, e) => if s.isEmpty then none else some (s, e)
  | none => none

def isSourceExt (e : Comp) : Bool := e == scssExt || e == sassExt || e == cssExt

/-- visitor.rs:837–839: the URL's file name already ends in `.scss`, `.sass` or `.css`
    (compared case-sensitively). -/
def explicitExt (name : Comp) : Option (Comp × Comp) :=
  match stemExt name with
  | some (s, e) => if isSourceExt e then some (s, e) else none
  | none => none

/-- `add_extension` (visitor.rs:53) — `.ext` appended to the whole name; with `d8` the old
    `Path::with_extension`, which replaces what follows the last dot. -/
def addExt (af : AsFound) (name ext : Comp) : Comp :=
  if af.d8 then
    match stemExt name with
    | some (s, _) => s ++ '.' :: ext
    | none => name ++ '.' :: ext
  else name ++ '.' :: ext

def importOnlySuffixes : List Comp :=
  [importWord ++ '.' :: sassExt, importWord ++ '.' :: scssExt, importWord ++ '.' :: cssExt]
def plainSuffixes : List Comp := [sassExt, scssExt, cssExt]

/-- `try_path!` (visitor.rs:819): the path itself, then its `_partial`. -/
def tryPath (dir : Path) (name : Comp) : List Path := [dir ++ [name], dir ++ [('_' :: name)]]

/-- One same-priority group per documented step: `[n.sass, _n.sass, n.scss, _n.scss]` then
    `[n.css, _n.css]` (Sass documentation, "Finding the file"; dart-sass `_tryPathWithExtensions`). -/
def extGroups (af : AsFound) (dir : Path) (name : Comp) : List (List Path) :=
  [tryPath dir (addExt af name sassExt) ++ tryPath dir (addExt af name scssExt),
   tryPath dir (addExt af name cssExt)]

/-- `try_path_with_extensions!` (visitor.rs:848): import-only variants (when looked for), then
    the plain ones.  The order inside and between the groups is the order of the Fs calls. -/
def withExtensions (af : AsFound) (imp : Bool) (dir : Path) (name : Comp) : List (List Path) :=
  (if imp then extGroups af dir (name ++ '.' :: importWord) else []) ++ extGroups af dir name

/-- Candidates of one location (the importing file's directory or one load path):
    `groups` are probed with `is_file` in order; if none exists and `index = some (d, gs)`,
    `is_dir d` is asked and, if true, `gs` are probed. -/
structure Loc where
  groups : List (List Path)
  index  : Option (Path × List (List Path))
  deriving Repr, Inhabited

def splitLast : Path → Option (Path × Comp)
  | [] => none
  | [c] => some ([], c)
  | c :: cs => (splitLast cs).map (fun (d, b) => (c :: d, b))

/-- Name of the import-only sibling of an explicit-extension URL (visitor.rs:842). -/
def importOnlyExplicit (af : AsFound) (stem ext : Comp) : Comp :=
  if af.d8b then stem ++ '.' :: '.' :: (importWord ++ ext)      -- `q..importscss`
  else stem ++ '.' :: (importWord ++ '.' :: ext)                 -- `q.import.scss`

/-- What `find_import` probes below `root` for `url` (`imp`: import-only variants wanted). -/
def locFor (af : AsFound) (imp : Bool) (root url : Path) : Loc :=
  match splitLast url with
  | none => ⟨[], none⟩
  | some (udir, base) =>
    let dir := root ++ udir
    match explicitExt base with
    | some (stem, ext) =>
      ⟨(if imp then [tryPath dir (importOnlyExplicit af stem ext)] else []) ++ [tryPath dir base], none⟩
    | none =>
      ⟨withExtensions af imp dir base,
       some (dir ++ [base], withExtensions af imp (dir ++ [base]) indexName)⟩

def urlExplicit (url : Path) : Bool :=
  match splitLast url with
  | some (_, base) => (explicitExt base).isSome
  | none => false

/-- Whether the search looks for import-only files: only `@import` does (d9: always). -/
def wantsImportOnly (af : AsFound) (forImport : Bool) : Bool := forImport || af.d9

/-- The locations in search order: relative to the importing file, then each load path. -/
def locations (af : AsFound) (importer url : Path) (lps : List Path) (forImport : Bool) : List Loc :=
  let imp := wantsImportOnly af forImport
  let rel := locFor af imp importer.dropLast url
  if af.d10 && urlExplicit url then [rel]
  else rel :: lps.map (fun lp => locFor af imp lp url)

def Loc.files (l : Loc) : List Path := l.groups.flatten
def Loc.indexFiles (l : Loc) : List Path :=
  match l.index with
  | none => []
  | some (_, gs) => gs.flatten
def Loc.filePaths (l : Loc) : List Path := l.files ++ l.indexFiles

def Loc.probes (l : Loc) : List Probe :=
  l.files.map .isFile ++
    (match l.index with
     | none => []
     | some (d, gs) => .isDir d :: gs.flatten.map .isFile)

/-- Every Fs call the search can make, in order. -/
def candidates (af : AsFound) (importer url : Path) (lps : List Path) (forImport : Bool) : List Probe :=
  (locations af importer url lps forImport).flatMap Loc.probes

/-- The files the search can resolve to, in priority order. -/
def fileCandidates (af : AsFound) (importer url : Path) (lps : List Path) (forImport : Bool) : List Path :=
  (locations af importer url lps forImport).flatMap Loc.filePaths

/-! ### running the search (result and the Fs calls made) -/

def firstFile (fs : Fs) : List Path → Option Path × List Probe
  | [] => (none, [])
  | p :: ps =>
    if fs.isFile p then (some p, [.isFile p])
    else
      let r := firstFile fs ps
      (r.1, .isFile p :: r.2)

def resolveLoc (fs : Fs) (l : Loc) : Option Path × List Probe :=
  let r := firstFile fs l.files
  match r.1 with
  | some p => (some p, r.2)
  | none =>
    match l.index with
    | none => (none, r.2)
    | some (d, gs) =>
      if fs.isDir d then
        let r2 := firstFile fs gs.flatten
        (r2.1, r.2 ++ .isDir d :: r2.2)
      else (none, r.2 ++ [.isDir d])

def resolveLocs (fs : Fs) : List Loc → Option Path × List Probe
  | [] => (none, [])
  | l :: ls =>
    let r := resolveLoc fs l
    match r.1 with
    | some p => (some p, r.2)
    | none =>
      let r2 := resolveLocs fs ls
      (r2.1, r.2 ++ r2.2)

/-- `find_import`: the resolved file (if any). -/
def resolve (af : AsFound) (fs : Fs) (importer url : Path) (lps : List Path) (forImport : Bool) : Option Path :=
  (resolveLocs fs (locations af importer url lps forImport)).1

/-- The sequence of `is_file` / `is_dir` calls `find_import` makes. -/
def trace (af : AsFound) (fs : Fs) (importer url : Path) (lps : List Path) (forImport : Bool) : List Probe :=
  (resolveLocs fs (locations af importer url lps forImport)).2

/-- `InputSyntax::for_path` (options.rs:202): by the lower-cased extension of the file name. -/
def lowerChar (c : Char) : Char := if 'A' ≤ c ∧ c ≤ 'Z' then Char.ofNat (c.toNat + 32) else c
def lower (s : List Char) : List Char := s.map lowerChar

def syntaxForName (name : Comp) : Syntax :=
  match stemExt name with
  | some (_, e) => if lower e == cssExt then .css else if lower e == sassExt then .sass else .scss
  | none => .scss

def syntaxFor (p : Path) : Syntax :=
  match splitLast p with
  | some (_, name) => syntaxForName name
  | none => .scss

inductive Call where
  | probe (p : Probe)
  | read (p : Path)
  deriving DecidableEq, Repr, Inhabited

inductive LoadResult where
  | loaded (p : Path) (syn : Syntax)
  | cantFind                        -- "Can't find stylesheet to import." at the import site
  deriving DecidableEq, Repr, Inhabited

/-- `import_like_node` (visitor.rs:892): search, then one read of the result. -/
def load (af : AsFound) (fs : Fs) (importer url : Path) (lps : List Path) (forImport : Bool) :
    LoadResult × List Call :=
  let r := resolveLocs fs (locations af importer url lps forImport)
  match r.1 with
  | some p => (.loaded p (syntaxFor p), r.2.map .probe ++ [.read p])
  | none => (.cantFind, r.2.map .probe)

/-- A chain of nested loads: each step is resolved relative to the file the previous step
    loaded.  A plain-CSS file cannot load anything further (the chain stops there). -/
def chain (af : AsFound) (fs : Fs) (lps : List Path) : Path → List (Bool × Path) → List (LoadResult × List Call)
  | _, [] => []
  | importer, (fi, url) :: rest =>
    let r := load af fs importer url lps fi
    r :: (match r.1 with
          | .loaded p syn => if syn = .css then [] else chain af fs lps p rest
          | .cantFind => [])

/-- State of `import_like_node`'s stylesheet cache (visitor.rs:900, 918–922): a file is read (and
    parsed) the first two times it is loaded, and served from `import_cache` afterwards.  The
    search itself (`find_import`) runs every time. -/
structure Cache where
  seen   : List Path
  cached : List Path
  deriving Repr, Inhabited

def Cache.empty : Cache := ⟨[], []⟩

/-- `import_like_node` with its cache: the same search as `load`; the read is dropped when the
    resolved file is already cached. -/
def loadC (af : AsFound) (fs : Fs) (lps : List Path) (st : Cache) (importer url : Path) (forImport : Bool) :
    (LoadResult × List Call) × Cache :=
  let r := resolveLocs fs (locations af importer url lps forImport)
  match r.1 with
  | some p =>
    if st.cached.contains p then ((.loaded p (syntaxFor p), r.2.map .probe), st)
    else ((.loaded p (syntaxFor p), r.2.map .probe ++ [.read p]),
          if st.seen.contains p then { st with cached := p :: st.cached } else { st with seen := p :: st.seen })
  | none => ((.cantFind, r.2.map .probe), st)

/-- A chain of nested loads threading the cache. -/
def chainC (af : AsFound) (fs : Fs) (lps : List Path) :
    Cache → Path → List (Bool × Path) → List (LoadResult × List Call) × Cache
  | st, _, [] => ([], st)
  | st, importer, (fi, url) :: rest =>
    let r := loadC af fs lps st importer url fi
    match r.1.1 with
    | .loaded p syn =>
      if syn = .css then ([r.1], r.2)
      else
        let rs := chainC af fs lps r.2 p rest
        (r.1 :: rs.1, rs.2)
    | .cantFind => ([r.1], r.2)

/-- Several chains started one after the other from the same file (`@import "a"; @import "b";`):
    each starts again relative to that file; a failed load ends the compilation. -/
def chains (af : AsFound) (fs : Fs) (lps : List Path) (importer : Path) :
    Cache → List (List (Bool × Path)) → List (LoadResult × List Call)
  | _, [] => []
  | st, c :: cs =>
    let r := chainC af fs lps st importer c
    r.1 ++ (if r.1.any (fun x => x.1 == .cantFind) then [] else chains af fs lps importer r.2 cs)

/-! ### the documented search, group by group (dart-sass `_exactlyOne`) -/

inductive DocResult where
  | found (p : Path)
  | ambiguous
  | none
  deriving DecidableEq, Repr, Inhabited

def docGroups (fs : Fs) : List (List Path) → DocResult
  | [] => .none
  | g :: gs =>
    match g.filter fs.isFile with
    | [] => docGroups fs gs
    | [p] => .found p
    | _ => .ambiguous

def docLoc (fs : Fs) (l : Loc) : DocResult :=
  match docGroups fs l.groups with
  | .none =>
    match l.index with
    | none => .none
    | some (d, gs) => if fs.isDir d then docGroups fs gs else .none
  | r => r

def docLocs (fs : Fs) : List Loc → DocResult
  | [] => .none
  | l :: ls =>
    match docLoc fs l with
    | .none => docLocs fs ls
    | r => r

/-- The search as documented: first location with a match; within it the first non-empty
    same-priority group, which must contain exactly one existing file. -/
def docResolve (fs : Fs) (importer url : Path) (lps : List Path) (forImport : Bool) : DocResult :=
  docLocs fs (locations .spec importer url lps forImport)

/-! ### plain-CSS imports (utils/mod.rs:9, stylesheet.rs:863) -/

def startsWith (s pre : List Char) : Bool := pre.isPrefixOf s
def endsWith (s suf : List Char) : Bool := suf.reverse.isPrefixOf s.reverse

def dotCss : List Char := ['.', 'c', 's', 's']
def httpPre : List Char := ['h', 't', 't', 'p', ':', '/', '/']
def httpsPre : List Char := ['h', 't', 't', 'p', 's', ':', '/', '/']
def slashSlash : List Char := ['/', '/']

/-- `is_plain_css_import` as written. -/
def isPlainCssImport (url : List Char) : Bool :=
  if url.length < 5 then false
  else
    let l := lower url
    endsWith l dotCss || startsWith l httpPre || startsWith l httpsPre || startsWith l slashSlash

/-- The documented predicate on the URL text (Sass documentation "Importing CSS" and dart-sass
    `isPlainImportUrl`): ends in `.css`, or begins `http://`, `https://` or `//`. -/
def documentedPlainUrl (url : List Char) : Bool :=
  let l := lower url
  endsWith l dotCss || startsWith l httpPre || startsWith l httpsPre || startsWith l slashSlash

inductive ImportKind where
  | plainCss      -- emitted as a CSS `@import` rule, nothing is loaded
  | sass          -- resolved and loaded
  deriving DecidableEq, Repr, Inhabited

/-- `parse_import_argument`: `url(...)` form, or a string that is a plain URL, or any modifiers
    (media query / `supports(...)`) ⇒ plain CSS import. -/
def importKind (isUrlFn hasModifiers : Bool) (url : List Char) : ImportKind :=
  if isUrlFn || isPlainCssImport url || hasModifiers then .plainCss else .sass

/-- Fs calls made for one `@import` argument. -/
def importCalls (af : AsFound) (fs : Fs) (importer : Path) (lps : List Path)
    (isUrlFn hasModifiers : Bool) (urlText : List Char) (url : Path) : List Call :=
  match importKind isUrlFn hasModifiers urlText with
  | .plainCss => []
  | .sass => (load af fs importer url lps true).2

/-! ### the per-input property predicate P̂ (used by the theorems and, through the driver, on the
    implementation's own observation) -/

/-- `res` / `calls` is what was observed for one load.  The property (`af = .spec`): the outcome
    is the one the documented search gives, every existence test is on a candidate of that search,
    and the only read (at most one: a cached stylesheet is not read again) is of the resolved file.
    With another `af` the same predicate is relative to
    that variant of the search; the check uses it only to attribute a failure of the `.spec`
    predicate to a known as-found switch. -/
def checkLoad (af : AsFound) (fs : Fs) (importer url : Path) (lps : List Path) (forImport : Bool)
    (res : Option Path) (calls : List Call) : Bool :=
  let cands := candidates af importer url lps forImport
  decide (res = resolve af fs importer url lps forImport) &&
  calls.all (fun c =>
    match c with
    | .probe p => cands.contains p
    | .read p => decide (res = some p)) &&
  decide ((calls.filter (fun c => match c with | .read _ => true | _ => false)).length
            ≤ (if res.isSome then 1 else 0))

/-! ### driver entry points -/
open Grass.Proto

def safeChar (c : Char) : Bool :=
  c.isAlphanum || c == '.' || c == '_' || c == '-' || c == '/' || c == '~' || c == '+' || c == '@'

def dot : Comp := ['.']
def dotdot : Comp := ['.', '.']

/-- `a/b/c` → components; `-` is the empty path.  `none` if a character is outside the safe set
    or a component is empty (a leading empty component = absolute path is allowed with `abs`). -/
def pathOfStr (abs : Bool) (s : String) : Option Path :=
  if s == "-" then some []
  else if !(s.toList.all safeChar) then none
  else
    let cs := (s.splitOn "/").map String.toList
    match cs with
    | [] => none
    | c :: rest =>
      if (if abs then rest.any List.isEmpty else cs.any List.isEmpty) then none
      else if cs.any (· == dot) then none
      else if c.isEmpty && rest.isEmpty then none
      else some cs

def pathStr (p : Path) : String :=
  if p.isEmpty then "-" else "/".intercalate (p.map String.ofList)

def listOfStr (s : String) : Option (List Path) :=
  if s == "-" then some [] else (s.splitOn ",").mapM (pathOfStr true)

/-- URLs the model is faithful for: relative, non-empty, last component a normal name. -/
def urlOk (u : Path) : Bool :=
  match splitLast u with
  | some (_, b) => b != dotdot && u.all (fun c => !c.isEmpty && c != dot)
  | none => false

def afOfStr (s : String) : Option AsFound :=
  match s.toList with
  | [a, b, c, d] =>
    let bit (x : Char) : Option Bool := if x == '1' then some true else if x == '0' then some false else none
    do let a ← bit a; let b ← bit b; let c ← bit c; let d ← bit d; some ⟨a, b, c, d⟩
  | _ => none

def isProperPrefix (p f : Path) : Bool := p.isPrefixOf f && p.length < f.length

/-- The Fs of a case: listed files; a directory is a listed directory or a proper prefix of a
    listed file (the runner's in-memory Fs, runner/src/main.rs `MemFs`). -/
def fsOf (files dirs : List Path) : Fs :=
  { isFile := fun p => files.contains p,
    isDir := fun p => dirs.contains p || files.any (isProperPrefix p) || dirs.any (isProperPrefix p) }

def synStr : Syntax → String
  | .scss => "scss" | .sass => "sass" | .css => "css"

def probeStr : Probe → String
  | .isFile p => "f:" ++ pathStr p
  | .isDir p => "d:" ++ pathStr p

def callStr : Call → String
  | .probe p => probeStr p
  | .read p => "r:" ++ pathStr p

def callOfStr (s : String) : Option Call :=
  match s.splitOn ":" with
  | [k, p] =>
    match pathOfStr true p with
    | some p =>
      if k == "f" then some (.probe (.isFile p)) else if k == "d" then some (.probe (.isDir p))
      else if k == "r" then some (.read p) else none
    | none => none
  | _ => none

def callsOfStr (s : String) : Option (List Call) :=
  if s == "-" then some [] else (s.splitOn ",").mapM callOfStr

def callsStr (cs : List Call) : String :=
  if cs.isEmpty then "-" else ",".intercalate (cs.map callStr)

def resultStr : LoadResult → String
  | .loaded p syn => "L:" ++ pathStr p ++ ":" ++ synStr syn
  | .cantFind => "E"

def docStr : DocResult → String
  | .found p => "found:" ++ pathStr p
  | .ambiguous => "ambiguous"
  | .none => "none"

/-- `i:<url>` (`@import`) or `u:<url>` (`@use` / `@forward`). -/
def stepOfStr (s : String) : Option (Bool × Path) :=
  match s.splitOn ":" with
  | [k, u] =>
    match pathOfStr false u with
    | some u =>
      if !urlOk u then none
      else if k == "i" then some (true, u) else if k == "u" then some (false, u) else none
    | none => none
  | _ => none

def stepsOfStr (s : String) : Option (List (Bool × Path)) :=
  if s == "-" then some [] else (s.splitOn ",").mapM stepOfStr

/-- `chain1+chain2+…`: chains started one after the other from the same importing file. -/
def planOfStr (s : String) : Option (List (List (Bool × Path))) :=
  (s.splitOn "+").mapM stepsOfStr

/-- Per-step facts about the documented search along the chain the *given* model variant takes:
    documented result, number of existing file candidates (spec), number of spec candidates. -/
def chainInfo (af : AsFound) (fs : Fs) (lps : List Path) : Path → List (Bool × Path) → List String
  | _, [] => []
  | importer, (fi, url) :: rest =>
    let r := load af fs importer url lps fi
    let fc := fileCandidates .spec importer url lps fi
    let here := docStr (docResolve fs importer url lps fi) ++ ":" ++
      toString (fc.filter fs.isFile).length ++ ":" ++ toString fc.length
    here :: (match r.1 with
             | .loaded p syn => if syn = .css then [] else chainInfo af fs lps p rest
             | .cantFind => [])

def chainsInfo (af : AsFound) (fs : Fs) (lps : List Path) (importer : Path) :
    List (List (Bool × Path)) → List String
  | [] => []
  | c :: cs =>
    chainInfo af fs lps importer c ++
      (if (chain af fs lps importer c).any (fun x => x.1 == .cantFind) then [] else chainsInfo af fs lps importer cs)

def handle : List String → String
  -- chain <af> <importer> <lps> <files> <dirs> <steps>[+<steps>…]
  --   → ok <result>|<calls> ; …  # <doc>:<existing>:<ncands> ; …
  | ["chain", af, importer, lps, files, dirs, steps] =>
    match afOfStr af with
    | none => "bad-op"
    | some af =>
      match pathOfStr true importer, listOfStr lps, listOfStr files, listOfStr dirs, planOfStr steps with
      | some importer, some lps, some files, some dirs, some plan =>
        if importer.isEmpty then "unsupported" else
        let fs := fsOf files dirs
        let rs := chains af fs lps importer .empty plan
        let info := chainsInfo af fs lps importer plan
        "ok " ++ ";".intercalate (rs.map (fun r => resultStr r.1 ++ "|" ++ callsStr r.2)) ++
          " # " ++ ";".intercalate info
      | _, _, _, _, _ => "unsupported"
  -- check <af> <importer> <lps> <files> <dirs> <step> <res: L:<path> | E> <calls>   (P̂ on an observation;
  --   af = 0000 is the property, other values only attribute a failure to a known switch)
  | ["check", af, importer, lps, files, dirs, step, res, calls] =>
    match afOfStr af, pathOfStr true importer, listOfStr lps, listOfStr files, listOfStr dirs, stepOfStr step,
          callsOfStr calls with
    | some af, some importer, some lps, some files, some dirs, some (fi, url), some calls =>
      if importer.isEmpty then "unsupported" else
      let fs := fsOf files dirs
      let res? : Option (Option Path) :=
        if res == "E" then some none
        else match res.splitOn ":" with
          | ["L", p] => (pathOfStr true p).map some
          | _ => none
      match res? with
      | none => "bad-op"
      | some r =>
        if checkLoad af fs importer url lps fi r calls then "ok holds"
        else
          let spec := resolve af fs importer url lps fi
          let cands := candidates af importer url lps fi
          let badProbe := calls.find? (fun c => match c with | .probe p => !cands.contains p | .read p => decide (r ≠ some p))
          "ok fails " ++ (if r ≠ spec then "result" else "calls") ++ " spec=" ++
            (match spec with | some p => pathStr p | none => "E") ++ " first-bad-call=" ++
            (match badProbe with | some c => callStr c | none => "-")
    | _, _, _, _, _, _, _ => "unsupported"
  -- cands <af> <importer> <lps> <step>  → the ordered probe list
  | ["cands", af, importer, lps, step] =>
    match afOfStr af, pathOfStr true importer, listOfStr lps, stepOfStr step with
    | some af, some importer, some lps, some (fi, url) =>
      "ok " ++ callsStr ((candidates af importer url lps fi).map .probe)
    | _, _, _, _ => "unsupported"
  -- plain <hex url text> <isUrlFn> <hasModifiers>
  | ["plain", url, isUrl, mods] =>
    match hexDecode url, parseBool? isUrl, parseBool? mods with
    | some u, some isUrl, some mods =>
      let k := importKind isUrl mods u.toList
      "ok " ++ (match k with | .plainCss => "plain" | .sass => "sass") ++
        " code=" ++ boolStr (isPlainCssImport u.toList) ++ " doc=" ++ boolStr (documentedPlainUrl u.toList)
    | _, _, _ => "bad-op"
  -- syntax <path>
  | ["syntax", p] =>
    match pathOfStr true p with
    | some p => "ok " ++ synStr (syntaxFor p)
    | none => "unsupported"
  | _ => "bad-op"

end Grass.Import
