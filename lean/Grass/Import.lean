import Grass.Proto
/-
  C13 core — how `@import` / `@use` / `@forward` URLs are turned into file-system probes.

  Mirrors crates/compiler/src/evaluate/visitor.rs
      `add_extension`      (line 53)
      `find_import`        (line 809–877:  `try_path!` 819, explicit-extension branch 837–846,
                            `try_path_with_extensions!` 848–858, relative location 860–864,
                            load paths 866–874)
      `parse_file`         (line 879)  → options.rs `InputSyntax::for_path` (line 202)
      `import_like_node`   (line 892)  (find_import, then exactly one `fs.read` of the result,
                            else "Can't find stylesheet to import.")
      callers: `visit_dynamic_import_rule` (941, for_import = true), `load_module` (700,
               for_import = false; used by `visit_use_rule` 723 and `visit_forward_rule` 268)
  and utils/mod.rs `is_plain_css_import` (line 9), parse/stylesheet.rs `parse_import_argument`
  (line 863).

  Paths are `/`-separated component lists (`Path = List (List Char)`); the component-list
  operations used here agree with `std::path` (`parent`, `file_name`, `join`, `extension`,
  `with_extension`) on the URLs the driver accepts (`urlOk`: relative, no empty / `.` component,
  last component not `..`).  `Fs::canonicalize` (identity for a custom Fs by default) is not
  modelled; it is not an existence test or a read.

  As-found switches (one per known defect, DESIGN §3/§6); `AsFound.spec` = all off = the
  documented behaviour, `AsFound.current` = the code as it stands:
    d9   `find_import` ignores `for_import`: `@use`/`@forward` also probe the `.import` variants
    d10  a URL with an explicit .scss/.sass/.css extension is only looked up relative to the
         importing file (visitor.rs:844 `// todo: consider load paths`)
    d8b  the import-only variant of an explicit-extension URL is built with
         `with_extension(".import<ext>")` (visitor.rs:842), i.e. `q.scss` ↦ `q..importscss`
         instead of `q.import.scss`
    d8   (fixed in 9b563f8) `with_extension` *replaced* the last dotted part of the basename
-/
namespace Grass.Import

abbrev Comp := List Char
abbrev Path := List Comp

/-- The file-system object of `Options` as far as the search sees it. -/
structure Fs where
  isFile : Path → Bool
  isDir  : Path → Bool

inductive Probe where
  | isFile (p : Path)
  | isDir  (p : Path)
  deriving DecidableEq, Repr, Inhabited

def Probe.path : Probe → Path
  | .isFile p => p
  | .isDir p => p

structure AsFound where
  d9  : Bool
  d10 : Bool
  d8b : Bool
  d8  : Bool
  deriving DecidableEq, Repr, Inhabited

def AsFound.spec : AsFound := ⟨false, false, false, false⟩
def AsFound.current : AsFound := ⟨true, true, true, false⟩

inductive Syntax where
  | scss | sass | css
  deriving DecidableEq, Repr, Inhabited

/-! ### names -/

def sassExt : Comp := ['s', 'a', 's', 's']
def scssExt : Comp := ['s', 'c', 's', 's']
def cssExt  : Comp := ['c', 's', 's']
def importWord : Comp := ['i', 'm', 'p', 'o', 'r', 't']
def indexName : Comp := ['i', 'n', 'd', 'e', 'x']

/-- Split at the last `.`: `"a.b.c" ↦ ("a.b", "c")`; `none` when there is no dot. -/
def splitLastDot : List Char → Option (List Char × List Char)
  | [] => none
  | c :: cs =>
    match splitLastDot cs with
    | some (s, e) => some (c :: s, e)
    | none => if c = '.' then some ([], cs) else none

/-- `Path::extension` on a file name: the part after the last dot, unless the only dot is the
    first character (`.scss` has no extension). Returns `(stem, ext)`. -/
def stemExt (name : Comp) : Option (Comp × Comp) :=
  match splitLastDot name with
  | some (s, e) => if s.isEmpty then none else some (s, e)
  | none => none

def isSourceExt (e : Comp) : Bool := e == scssExt || e == sassExt || e == cssExt

/-- visitor.rs:837–839: the URL's file name already ends in `.scss`, `.sass` or `.css`
    (compared case-sensitively). -/
def explicitExt (name : Comp) : Option (Comp × Comp) :=
  match stemExt name with
  | some (s, e) => if isSourceExt e then some (s, e) else none
  | none => none

/-- `add_extension` (visitor.rs:53) — `.ext` appended to the whole name; with `d8` the old
    `Path::with_extension`, which replaces what follows the last dot. -/
def addExt (af : AsFound) (name ext : Comp) : Comp :=
  if af.d8 then
    match stemExt name with
    | some (s, _) => s ++ '.' :: ext
    | none => name ++ '.' :: ext
  else name ++ '.' :: ext

def importOnlySuffixes : List Comp :=
  [importWord ++ '.' :: sassExt, importWord ++ '.' :: scssExt, importWord ++ '.' :: cssExt]
def plainSuffixes : List Comp := [sassExt, scssExt, cssExt]

/-- `try_path!` (visitor.rs:819): the path itself, then its `_partial`. -/
def tryPath (dir : Path) (name : Comp) : List Path := [dir ++ [name], dir ++ [('_' :: name)]]

/-- One same-priority group per documented step: `[n.sass, _n.sass, n.scss, _n.scss]` then
    `[n.css, _n.css]` (Sass documentation, "Finding the file"; dart-sass `_tryPathWithExtensions`). -/
def extGroups (af : AsFound) (dir : Path) (name : Comp) : List (List Path) :=
  [tryPath dir (addExt af name sassExt) ++ tryPath dir (addExt af name scssExt),
   tryPath dir (addExt af name cssExt)]

/-- `try_path_with_extensions!` (visitor.rs:848): import-only variants (when looked for), then
    the plain ones.  The order inside and between the groups is the order of the Fs calls. -/
def withExtensions (af : AsFound) (imp : Bool) (dir : Path) (name : Comp) : List (List Path) :=
  (if imp then extGroups af dir (name ++ '.' :: importWord) else []) ++ extGroups af dir name

/-- Candidates of one location (the importing file's directory or one load path):
    `groups` are probed with `is_file` in order; if none exists and `index = some (d, gs)`,
    `is_dir d` is asked and, if true, `gs` are probed. -/
structure Loc where
  groups : List (List Path)
  index  : Option (Path × List (List Path))
  deriving Repr, Inhabited

def splitLast : Path → Option (Path × Comp)
  | [] => none
  | [c] => some ([], c)
  | c :: cs => (splitLast cs).map (fun (d, b) => (c :: d, b))

/-- Name of the import-only sibling of an explicit-extension URL (visitor.rs:842). -/
def importOnlyExplicit (af : AsFound) (stem ext : Comp) : Comp :=
  if af.d8b then stem ++ '.' :: '.' :: (importWord ++ ext)      -- `q..importscss`
  else stem ++ '.' :: (importWord ++ '.' :: ext)                 -- `q.import.scss`

/-- What `find_import` probes below `root` for `url` (`imp`: import-only variants wanted). -/
def locFor (af : AsFound) (imp : Bool) (root url : Path) : Loc :=
  match splitLast url with
  | none => ⟨[], none⟩
  | some (udir, base) =>
    let dir := root ++ udir
    match explicitExt base with
    | some (stem, ext) =>
      ⟨(if imp then [tryPath dir (importOnlyExplicit af stem ext)] else []) ++ [tryPath dir base], none⟩
    | none =>
      ⟨withExtensions af imp dir base,
       some (dir ++ [base], withExtensions af imp (dir ++ [base]) indexName)⟩

def urlExplicit (url : Path) : Bool :=
  match splitLast url with
  | some (_, base) => (explicitExt base).isSome
  | none => false

/-- Whether the search looks for import-only files: only `@import` does (d9: always). -/
def wantsImportOnly (af : AsFound) (forImport : Bool) : Bool := forImport || af.d9

/-- The locations in search order: relative to the importing file, then each load path. -/
def locations (af : AsFound) (importer url : Path) (lps : List Path) (forImport : Bool) : List Loc :=
  let imp := wantsImportOnly af forImport
  let rel := locFor af imp importer.dropLast url
  if af.d10 && urlExplicit url then [rel]
  else rel :: lps.map (fun lp => locFor af imp lp url)

def Loc.files (l : Loc) : List Path := l.groups.flatten
def Loc.indexFiles (l : Loc) : List Path :=
  match l.index with
  | none => []
  | some (_, gs) => gs.flatten
def Loc.filePaths (l : Loc) : List Path := l.files ++ l.indexFiles

def Loc.probes (l : Loc) : List Probe :=
  l.files.map .isFile ++
    (match l.index with
     | none => []
     | some (d, gs) => .isDir d :: gs.flatten.map .isFile)

/-- Every Fs call the search can make, in order. -/
def candidates (af : AsFound) (importer url : Path) (lps : List Path) (forImport : Bool) : List Probe :=
  (locations af importer url lps forImport).flatMap Loc.probes

/-- The files the search can resolve to, in priority order. -/
def fileCandidates (af : AsFound) (importer url : Path) (lps : List Path) (forImport : Bool) : List Path :=
  (locations af importer url lps forImport).flatMap Loc.filePaths

/-! ### running the search (result and the Fs calls made) -/

def firstFile (fs : Fs) : List Path → Option Path × List Probe
  | [] => (none, [])
  | p :: ps =>
    if fs.isFile p then (some p, [.isFile p])
    else
      let r := firstFile fs ps
      (r.1, .isFile p :: r.2)

def resolveLoc (fs : Fs) (l : Loc) : Option Path × List Probe :=
  let r := firstFile fs l.files
  match r.1 with
  | some p => (some p, r.2)
  | none =>
    match l.index with
    | none => (none, r.2)
    | some (d, gs) =>
      if fs.isDir d then
        let r2 := firstFile fs gs.flatten
        (r2.1, r.2 ++ .isDir d :: r2.2)
      else (none, r.2 ++ [.isDir d])

def resolveLocs (fs : Fs) : List Loc → Option Path × List Probe
  | [] => (none, [])
  | l :: ls =>
    let r := resolveLoc fs l
    match r.1 with
    | some p => (some p, r.2)
    | none =>
      let r2 := resolveLocs fs ls
      (r2.1, r.2 ++ r2.2)

/-- `find_import`: the resolved file (if any). -/
def resolve (af : AsFound) (fs : Fs) (importer url : Path) (lps : List Path) (forImport : Bool) : Option Path :=
  (resolveLocs fs (locations af importer url lps forImport)).1

/-- The sequence of `is_file` / `is_dir` calls `find_import` makes. -/
def trace (af : AsFound) (fs : Fs) (importer url : Path) (lps : List Path) (forImport : Bool) : List Probe :=
  (resolveLocs fs (locations af importer url lps forImport)).2

/-- `InputSyntax::for_path` (options.rs:202): by the lower-cased extension of the file name. -/
def lowerChar (c : Char) : Char := if 'A' ≤ c ∧ c ≤ 'Z' then Char.ofNat (c.toNat + 32) else c
def lower (s : List Char) : List Char := s.map lowerChar

def syntaxForName (name : Comp) : Syntax :=
  match stemExt name with
  | some (_, e) => if lower e == cssExt then .css else if lower e == sassExt then .sass else .scss
  | none => .scss

def syntaxFor (p : Path) : Syntax :=
  match splitLast p with
  | some (_, name) => syntaxForName name
  | none => .scss

inductive Call where
  | probe (p : Probe)
  | read (p : Path)
  deriving DecidableEq, Repr, Inhabited

inductive LoadResult where
  | loaded (p : Path) (syn : Syntax)
  | cantFind                        -- "Can't find stylesheet to import." at the import site
  deriving DecidableEq, Repr, Inhabited

/-- `import_like_node` (visitor.rs:892): search, then one read of the result. -/
def load (af : AsFound) (fs : Fs) (importer url : Path) (lps : List Path) (forImport : Bool) :
    LoadResult × List Call :=
  let r := resolveLocs fs (locations af importer url lps forImport)
  match r.1 with
  | some p => (.loaded p (syntaxFor p), r.2.map .probe ++ [.read p])
  | none => (.cantFind, r.2.map .probe)

/-- A chain of nested loads: each step is resolved relative to the file the previous step
    loaded.  A plain-CSS file cannot load anything further (the chain stops there). -/
def chain (af : AsFound) (fs : Fs) (lps : List Path) : Path → List (Bool × Path) → List (LoadResult × List Call)
  | _, [] => []
  | importer, (fi, url) :: rest =>
    let r := load af fs importer url lps fi
    r :: (match r.1 with
          | .loaded p syn => if syn = .css then [] else chain af fs lps p rest
          | .cantFind => [])

/-- State of `import_like_node`'s stylesheet cache (visitor.rs:900, 918–922): a file is read (and
    parsed) the first two times it is loaded, and served from `import_cache` afterwards.  The
    search itself (`find_import`) runs every time. -/
structure Cache where
  seen   : List Path
  cached : List Path
  deriving Repr, Inhabited

def Cache.empty : Cache := ⟨[], []⟩

/-- `import_like_node` with its cache: the same search as `load`; the read is dropped when the
    resolved file is already cached. -/
def loadC (af : AsFound) (fs : Fs) (lps : List Path) (st : Cache) (importer url : Path) (forImport : Bool) :
    (LoadResult × List Call) × Cache :=
  let r := resolveLocs fs (locations af importer url lps forImport)
  match r.1 with
  | some p =>
    if st.cached.contains p then ((.loaded p (syntaxFor p), r.2.map .probe), st)
    else ((.loaded p (syntaxFor p), r.2.map .probe ++ [.read p]),
          if st.seen.contains p then { st with cached := p :: st.cached } else { st with seen := p :: st.seen })
  | none => ((.cantFind, r.2.map .probe), st)

/-- A chain of nested loads threading the cache. -/
def chainC (af : AsFound) (fs : Fs) (lps : List Path) :
    Cache → Path → List (Bool × Path) → List (LoadResult × List Call) × Cache
  | st, _, [] => ([], st)
  | st, importer, (fi, url) :: rest =>
    let r := loadC af fs lps st importer url fi
    match r.1.1 with
    | .loaded p syn =>
      if syn = .css then ([r.1], r.2)
      else
        let rs := chainC af fs lps r.2 p rest
        (r.1 :: rs.1, rs.2)
    | .cantFind => ([r.1], r.2)

/-- Several chains started one after the other from the same file (`@import "a"; @import "b";`):
    each starts again relative to that file; a failed load ends the compilation. -/
def chains (af : AsFound) (fs : Fs) (lps : List Path) (importer : Path) :
    Cache → List (List (Bool × Path)) → List (LoadResult × List Call)
  | _, [] => []
  | st, c :: cs =>
    let r := chainC af fs lps st importer c
    r.1 ++ (if r.1.any (fun x => x.1 == .cantFind) then [] else chains af fs lps importer r.2 cs)

/-! ### the documented search, group by group (dart-sass `_exactlyOne`) -/

inductive DocResult where
  | found (p : Path)
  | ambiguous
  | none
  deriving DecidableEq, Repr, Inhabited

def docGroups (fs : Fs) : List (List Path) → DocResult
  | [] => .none
  | g :: gs =>
    match g.filter fs.isFile with
    | [] => docGroups fs gs
    | [p] => .found p
    | _ => .ambiguous

def docLoc (fs : Fs) (l : Loc) : DocResult :=
  match docGroups fs l.groups with
  | .none =>
    match l.index with
    | none => .none
    | some (d, gs) => if fs.isDir d then docGroups fs gs else .none
  | r => r

def docLocs (fs : Fs) : List Loc → DocResult
  | [] => .none
  | l :: ls =>
    match docLoc fs l with
    | .none => docLocs fs ls
    | r => r

/-- The search as documented: first location with a match; within it the first non-empty
    same-priority group, which must contain exactly one existing file. -/
def docResolve (fs : Fs) (importer url : Path) (lps : List Path) (forImport : Bool) : DocResult :=
  docLocs fs (locations .spec importer url lps forImport)

/-! ### plain-CSS imports (utils/mod.rs:9, stylesheet.rs:863) -/

def startsWith (s pre : List Char) : Bool := pre.isPrefixOf s
def endsWith (s suf : List Char) : Bool := suf.reverse.isPrefixOf s.reverse

def dotCss : List Char := ['.', 'c', 's', 's']
def httpPre : List Char := ['h', 't', 't', 'p', ':', '/', '/']
def httpsPre : List Char := ['h', 't', 't', 'p', 's', ':', '/', '/']
def slashSlash : List Char := ['/', '/']

/-- `str::len`: the length in UTF-8 bytes -/
def utf8Len (s : List Char) : Nat := (s.map Char.utf8Size).sum

/-- `is_plain_css_import` as written (`url.len() < 5` counts bytes). -/
def isPlainCssImport (url : List Char) : Bool :=
  if utf8Len url < 5 then false
  else
    let l := lower url
    endsWith l dotCss || startsWith l httpPre || startsWith l httpsPre || startsWith l slashSlash

/-- The documented predicate on the URL text (Sass documentation "Importing CSS" and dart-sass
    `isPlainImportUrl`): ends in `.css`, or begins `http://`, `https://` or `//`. -/
def documentedPlainUrl (url : List Char) : Bool :=
  let l := lower url
  endsWith l dotCss || startsWith l httpPre || startsWith l httpsPre || startsWith l slashSlash

inductive ImportKind where
  | plainCss      -- emitted as a CSS `@import` rule, nothing is loaded
  | sass          -- resolved and loaded
  deriving DecidableEq, Repr, Inhabited

/-- `parse_import_argument`: `url(...)` form, or a string that is a plain URL, or any modifiers
    (media query / `supports(...)`) ⇒ plain CSS import. -/
def importKind (isUrlFn hasModifiers : Bool) (url : List Char) : ImportKind :=
  if isUrlFn || isPlainCssImport url || hasModifiers then .plainCss else .sass

/-- Fs calls made for one `@import` argument. -/
def importCalls (af : AsFound) (fs : Fs) (importer : Path) (lps : List Path)
    (isUrlFn hasModifiers : Bool) (urlText : List Char) (url : Path) : List Call :=
  match importKind isUrlFn hasModifiers urlText with
  | .plainCss => []
  | .sass => (load af fs importer url lps true).2

/-! ### the per-input property predicate P̂ (used by the theorems and, through the driver, on the
    implementation's own observation) -/

/-- `res` / `calls` is what was observed for one load.  The property (`af = .spec`): the outcome
    is the one the documented search gives, every existence test is on a candidate of that search,
    and the only read (at most one: a cached stylesheet is not read again) is of the resolved file.
    With another `af` the same predicate is relative to
    that variant of the search; the check uses it only to attribute a failure of the `.spec`
    predicate to a known as-found switch. -/
def checkLoad (af : AsFound) (fs : Fs) (importer url : Path) (lps : List Path) (forImport : Bool)
    (res : Option Path) (calls : List Call) : Bool :=
  let cands := candidates af importer url lps forImport
  decide (res = resolve af fs importer url lps forImport) &&
  calls.all (fun c =>
    match c with
    | .probe p => cands.contains p
    | .read p => decide (res = some p)) &&
  decide ((calls.filter (fun c => match c with | .read _ => true | _ => false)).length
            ≤ (if res.isSome then 1 else 0))

/-! ### driver entry points -/
open Grass.Proto

def safeChar (c : Char) : Bool :=
  c.isAlphanum || c == '.' || c == '_' || c == '-' || c == '/' || c == '~' || c == '+' || c == '@'

def dot : Comp := ['.']
def dotdot : Comp := ['.', '.']

/-- `a/b/c` → components; `-` is the empty path.  `none` if a character is outside the safe set
    or a component is empty (a leading empty component = absolute path is allowed with `abs`). -/
def pathOfStr (abs : Bool) (s : String) : Option Path :=
  if s == "-" then some []
  else if !(s.toList.all safeChar) then none
  else
    let cs := (s.splitOn "/").map String.toList
    match cs with
    | [] => none
    | c :: rest =>
      if (if abs then rest.any List.isEmpty else cs.any List.isEmpty) then none
      else if cs.any (· == dot) then none
      else if c.isEmpty && rest.isEmpty then none
      else some cs

def pathStr (p : Path) : String :=
  if p.isEmpty then "-" else "/".intercalate (p.map String.ofList)

def listOfStr (s : String) : Option (List Path) :=
  if s == "-" then some [] else (s.splitOn ",").mapM (pathOfStr true)

/-- URLs the model is faithful for: relative, non-empty, last component a normal name. -/
def urlOk (u : Path) : Bool :=
  match splitLast u with
  | some (_, b) => b != dotdot && u.all (fun c => !c.isEmpty && c != dot)
  | none => false

def afOfStr (s : String) : Option AsFound :=
  match s.toList with
  | [a, b, c, d] =>
    let bit (x : Char) : Option Bool := if x == '1' then some true else if x == '0' then some false else none
    do let a ← bit a; let b ← bit b; let c ← bit c; let d ← bit d; some ⟨a, b, c, d⟩
  | _ => none

def isProperPrefix (p f : Path) : Bool := p.isPrefixOf f && p.length < f.length

/-- The Fs of a case: listed files; a directory is a listed directory or a proper prefix of a
    listed file (the runner's in-memory Fs, runner/src/main.rs `MemFs`). -/
def fsOf (files dirs : List Path) : Fs :=
  { isFile := fun p => files.contains p,
    isDir := fun p => dirs.contains p || files.any (isProperPrefix p) || dirs.any (isProperPrefix p) }

def synStr : Syntax → String
  | .scss => "scss" | .sass => "sass" | .css => "css"

def probeStr : Probe → String
  | .isFile p => "f:" ++ pathStr p
  | .isDir p => "d:" ++ pathStr p

def callStr : Call → String
  | .probe p => probeStr p
  | .read p => "r:" ++ pathStr p

def callOfStr (s : String) : Option Call :=
  match s.splitOn ":" with
  | [k, p] =>
    match pathOfStr true p with
    | some p =>
      if k == "f" then some (.probe (.isFile p)) else if k == "d" then some (.probe (.isDir p))
      else if k == "r" then some (.read p) else none
    | none => none
  | _ => none

def callsOfStr (s : String) : Option (List Call) :=
  if s == "-" then some [] else (s.splitOn ",").mapM callOfStr

def callsStr (cs : List Call) : String :=
  if cs.isEmpty then "-" else ",".intercalate (cs.map callStr)

def resultStr : LoadResult → String
  | .loaded p syn => "L:" ++ pathStr p ++ ":" ++ synStr syn
  | .cantFind => "E"

def docStr : DocResult → String
  | .found p => "found:" ++ pathStr p
  | .ambiguous => "ambiguous"
  | .none => "none"

/-- `i:<url>` (`@import`) or `u:<url>` (`@use` / `@forward`). -/
def stepOfStr (s : String) : Option (Bool × Path) :=
  match s.splitOn ":" with
  | [k, u] =>
    match pathOfStr false u with
    | some u =>
      if !urlOk u then none
      else if k == "i" then some (true, u) else if k == "u" then some (false, u) else none
    | none => none
  | _ => none

def stepsOfStr (s : String) : Option (List (Bool × Path)) :=
  if s == "-" then some [] else (s.splitOn ",").mapM stepOfStr

/-- `chain1+chain2+…`: chains started one after the other from the same importing file. -/
def planOfStr (s : String) : Option (List (List (Bool × Path))) :=
  (s.splitOn "+").mapM stepsOfStr

/-- Per-step facts about the documented search along the chain the *given* model variant takes:
    documented result, number of existing file candidates (spec), number of spec candidates. -/
def chainInfo (af : AsFound) (fs : Fs) (lps : List Path) : Path → List (Bool × Path) → List String
  | _, [] => []
  | importer, (fi, url) :: rest =>
    let r := load af fs importer url lps fi
    let fc := fileCandidates .spec importer url lps fi
    let here := docStr (docResolve fs importer url lps fi) ++ ":" ++
      toString (fc.filter fs.isFile).length ++ ":" ++ toString fc.length
    here :: (match r.1 with
             | .loaded p syn => if syn = .css then [] else chainInfo af fs lps p rest
             | .cantFind => [])

def chainsInfo (af : AsFound) (fs : Fs) (lps : List Path) (importer : Path) :
    List (List (Bool × Path)) → List String
  | [] => []
  | c :: cs =>
    chainInfo af fs lps importer c ++
      (if (chain af fs lps importer c).any (fun x => x.1 == .cantFind) then [] else chainsInfo af fs lps importer cs)

/-! ### `std::path` (unix) as `find_import` uses it — the raw spelling of a path is kept

  A path *string* is carried as the list of its `/`-separated segments, empty ones included:
  `a//b` = `[a, [], b]`, `a/` = `[a, []]`, `/a` = `[[], a]`, `/` = `[[], []]`, `./a` = `[., a]`; the
  empty string is `[]` (`[[]]` is not used).  The functions below are written from
  library/std/src/path.rs (`Components::next_back`, `as_path`/`trim_right`, `Path::parent`,
  `file_name`, `extension`, `PathBuf::push`, `set_extension`) for unix paths, and from visitor.rs
  `add_extension` (line 53: plain string append).  On lists without empty / `.` segments they are the
  component-list operations of the model above (theorem `C13_raw_agrees_on_plain_spellings`). -/

/-- a segment `Components` skips inside the body: empty (`//`, trailing `/`) or `.` -/
def isBlank (c : Comp) : Bool := c.isEmpty || c == dot

/-- the string starts with `/` -/
def hasRootR : Path → Bool
  | [] :: _ :: _ => true
  | _ => false

/-- `Components::include_cur_dir`: a leading `.` segment of a relative path is a component -/
def hasCurDirR (p : Path) : Bool := !hasRootR p && p.head? == some dot

def prefixLenR (p : Path) : Nat := if hasRootR p || hasCurDirR p then 1 else 0

/-- the segments after the root / leading `.` -/
def bodyR (p : Path) : List Comp := p.drop (prefixLenR p)

/-- drop the trailing segments that are not components (`trim_right`) -/
def stripBlank (l : List Comp) : List Comp := (l.reverse.dropWhile isBlank).reverse

/-- the string of `Components::as_path` once the body has been cut down to `b` -/
def rebuildR (p : Path) (b : List Comp) : Path :=
  if hasRootR p then (if b.isEmpty then [[], []] else [] :: b)
  else if hasCurDirR p then dot :: b
  else b

/-- `next_back` inside the body: the segments before the last component, and that component -/
def lastRealR (p : Path) : Option (List Comp × Comp) :=
  let b := stripBlank (bodyR p)
  match b.getLast? with
  | some c => some (b.dropLast, c)
  | none => none

/-- `Path::parent` -/
def parentR (p : Path) : Option Path :=
  match lastRealR p with
  | some (b', _) => some (rebuildR p (stripBlank b'))
  | none => if hasCurDirR p then some [] else none

/-- `Path::file_name`: the last component unless it is `..` -/
def fileNameR (p : Path) : Option Comp :=
  match lastRealR p with
  | some (_, c) => if c == dotdot then none else some c
  | none => none

/-- `Path::join` / `PathBuf::push` -/
def joinR (a b : Path) : Path :=
  if hasRootR b then b
  else if a.isEmpty then b
  else
    let b' := if b.isEmpty then [[]] else b          -- pushing "" only adds the separator
    if a.getLast? == some [] then a.dropLast ++ b' else a ++ b'

/-- `Path::extension` -/
def extensionR (p : Path) : Option Comp :=
  (fileNameR p).bind (fun n => (stemExt n).map (·.2))

/-- `Path::with_extension` (`set_extension`): the string is cut after the file stem -/
def withExtensionR (p : Path) (ext : Comp) : Path :=
  match lastRealR p with
  | some (b', n) =>
    if n == dotdot then p
    else p.take (prefixLenR p) ++ b' ++ [((stemExt n).map (·.1)).getD n ++ '.' :: ext]
  | none => p

/-- `add_extension` (visitor.rs:53): `.ext` appended to the string -/
def addExtR (p : Path) (ext : Comp) : Path :=
  match p.getLast? with
  | some l => p.dropLast ++ [l ++ '.' :: ext]
  | none => ['.' :: ext]

/-- the components (`Path`'s `Eq`/`Hash`/`Ord`, `starts_with` compare these): root or leading `.`
    kept, empty and `.` segments of the body dropped, `..` kept -/
def normR (p : Path) : Path := p.take (prefixLenR p) ++ (bodyR p).filter (fun c => !isBlank c)

/-! ### `find_import` on raw spellings (visitor.rs:809–898, the code as it stands) -/

/-- `try_path!` (visitor.rs:819) -/
def tryPathR (p : Path) : List Path :=
  [p, joinR ((parentR p).getD []) [('_' :: (fileNameR p).getD dotdot)]]

def importDot : Comp := importWord ++ ['.']

def extGroupsR (p : Path) (pre : Comp) : List (List Path) :=
  [tryPathR (addExtR p (pre ++ sassExt)) ++ tryPathR (addExtR p (pre ++ scssExt)),
   tryPathR (addExtR p (pre ++ cssExt))]

/-- `try_path_with_extensions!` (visitor.rs:866) -/
def withExtensionsR (imp : Bool) (p : Path) : List (List Path) :=
  (if imp then extGroupsR p importDot else []) ++ extGroupsR p []

/-- `try_explicit!` (visitor.rs:847) -/
def explicitR (imp : Bool) (ext : Comp) (p : Path) : List (List Path) :=
  (if imp then [tryPathR (withExtensionR p (importDot ++ ext))] else []) ++ [tryPathR p]

/-- The locations `find_import` searches, in order: `cur` is `current_import_path` (the importing
    file), `url` the URL as written. -/
def locsR (cur url : Path) (lps : List Path) (forImport : Bool) : List Loc :=
  let rel := if hasRootR url then url else joinR ((parentR cur).getD []) url
  let roots := rel :: lps.map (fun lp => joinR lp url)
  match (extensionR rel).filter isSourceExt with
  | some ext => roots.map (fun p => ⟨explicitR forImport ext p, none⟩)
  | none =>
    roots.map (fun p =>
      ⟨withExtensionsR forImport p, some (p, withExtensionsR forImport (joinR p [indexName]))⟩)

def candidatesR (cur url : Path) (lps : List Path) (forImport : Bool) : List Probe :=
  (locsR cur url lps forImport).flatMap Loc.probes

def fileCandidatesR (cur url : Path) (lps : List Path) (forImport : Bool) : List Path :=
  (locsR cur url lps forImport).flatMap Loc.filePaths

def resolveR (fs : Fs) (cur url : Path) (lps : List Path) (forImport : Bool) : Option Path :=
  (resolveLocs fs (locsR cur url lps forImport)).1

def traceR (fs : Fs) (cur url : Path) (lps : List Path) (forImport : Bool) : List Probe :=
  (resolveLocs fs (locsR cur url lps forImport)).2

def syntaxForR (p : Path) : Syntax :=
  match extensionR p with
  | some e => if lower e == cssExt then .css else if lower e == sassExt then .sass else .scss
  | none => .scss

/-- `import_like_node` (visitor.rs:913) on raw spellings; the cache is keyed by `PathBuf`, i.e. by
    components (`normR`). -/
def loadCR (fs : Fs) (lps : List Path) (st : Cache) (cur url : Path) (forImport : Bool) :
    (LoadResult × List Call) × Cache :=
  let r := resolveLocs fs (locsR cur url lps forImport)
  match r.1 with
  | some p =>
    let k := normR p
    if st.cached.contains k then ((.loaded p (syntaxForR p), r.2.map .probe), st)
    else ((.loaded p (syntaxForR p), r.2.map .probe ++ [.read p]),
          if st.seen.contains k then { st with cached := k :: st.cached } else { st with seen := k :: st.seen })
  | none => ((.cantFind, r.2.map .probe), st)

def loadR (fs : Fs) (cur url : Path) (lps : List Path) (forImport : Bool) : LoadResult × List Call :=
  (loadCR fs lps .empty cur url forImport).1

def chainCR (fs : Fs) (lps : List Path) :
    Cache → Path → List (Bool × Path) → List (LoadResult × List Call) × Cache
  | st, _, [] => ([], st)
  | st, cur, (fi, url) :: rest =>
    let r := loadCR fs lps st cur url fi
    match r.1.1 with
    | .loaded p syn =>
      if syn = .css then ([r.1], r.2)
      else
        let rs := chainCR fs lps r.2 p rest
        (r.1 :: rs.1, rs.2)
    | .cantFind => ([r.1], r.2)

def chainsR (fs : Fs) (lps : List Path) (cur : Path) :
    Cache → List (List (Bool × Path)) → List (LoadResult × List Call)
  | _, [] => []
  | st, c :: cs =>
    let r := chainCR fs lps st cur c
    r.1 ++ (if r.1.any (fun x => x.1 == .cantFind) then [] else chainsR fs lps cur r.2 cs)

/-- The runner's in-memory Fs (runner/src/main.rs `MemFs`): a `BTreeMap<PathBuf, _>`, so lookups
    compare components; a directory is a proper component-prefix of a file. -/
def fsOfR (files : List Path) : Fs :=
  let keys := files.map normR
  { isFile := fun p => keys.contains (normR p),
    isDir := fun p => let k := normR p; keys.any (fun f => f != k && k.isPrefixOf f) }

/-- P̂ for one load on raw spellings: the outcome is the first existing candidate of the ordered
    candidate list, every existence test is on a candidate, at most one read and only of the result. -/
def checkLoadR (fs : Fs) (cur url : Path) (lps : List Path) (forImport : Bool)
    (res : Option Path) (calls : List Call) : Bool :=
  let cands := candidatesR cur url lps forImport
  decide (res = resolveR fs cur url lps forImport) &&
  calls.all (fun c =>
    match c with
    | .probe p => cands.contains p
    | .read p => decide (res = some p)) &&
  decide ((calls.filter (fun c => match c with | .read _ => true | _ => false)).length
            ≤ (if res.isSome then 1 else 0))

/-- Every spelling of the same file: root kept, every empty / `.` segment dropped (also a leading
    `.`, which `normR` keeps). -/
def normFull (p : Path) : Path := (if hasRootR p then [[]] else []) ++ p.filter (fun c => !isBlank c)

def Probe.mapPath (f : Path → Path) : Probe → Probe
  | .isFile p => .isFile (f p)
  | .isDir p => .isDir (f p)

/-- "Only candidate paths of that search", for any spelling: each path handed to the Fs names
    (after dropping empty and `.` segments) a candidate of the documented search for the URL spelled
    without them. -/
def probesWithinSpec (cur url : Path) (lps : List Path) (forImport : Bool) (calls : List Call) : Bool :=
  let cands := candidates .spec (normFull cur) (normFull url) (lps.map normFull) forImport
  calls.all (fun c =>
    match c with
    | .probe p => cands.contains (p.mapPath normFull)
    | .read p => cands.contains (.isFile (normFull p)))

/-- the guard of `probesWithinSpec`: a relative URL whose last segment is a name -/
def specComparable (cur url : Path) : Bool :=
  !hasRootR url && urlOk (normFull url) && (url.getLast?.map (fun c => !isBlank c)).getD false &&
  !(normFull cur).isEmpty && (cur.getLast?.map (fun c => !isBlank c && c != dotdot)).getD false

/-! ### parser level: one `@import` argument (parse/stylesheet.rs:864 `parse_import_argument`)

  Modelled grammar: a quoted string without escapes or line breaks (base.rs:290 `parse_string`),
  or `url(` + unquoted contents + `)`; optional white space; optional modifiers, recognised by
  their first characters (stylesheet.rs:735 `try_import_modifiers`, :1997
  `looking_at_interpolated_identifier`) and running to the end of the statement.  Anything else
  (escapes, comments, interpolation inside `url()`) answers `none`. -/

def isWs (c : Char) : Bool := c == ' ' || c == '\t' || c == '\n'     -- base.rs:12

def skipWs : List Char → List Char
  | [] => []
  | c :: cs => if isWs c then skipWs cs else c :: cs

/-- chars.rs:15 `is_name_start` -/
def isNameStart (c : Char) : Bool := c == '_' || c.isAlpha || c.toNat ≥ 0x80

/-- stylesheet.rs:1997 -/
def lookingAtInterpIdent : List Char → Bool
  | [] => false
  | '\\' :: _ => true
  | '#' :: rest => rest.head? == some '{'
  | '-' :: rest =>
    (match rest with
     | [] => false
     | '#' :: r2 => r2.head? == some '{'
     | '\\' :: _ => true
     | '-' :: _ => true
     | c :: _ => isNameStart c)
  | c :: _ => isNameStart c

/-- `try_import_modifiers` returns `Some(..)` exactly when (stylesheet.rs:735) -/
def hasModifiersAt (rest : List Char) : Bool := lookingAtInterpIdent rest || rest.head? == some '('

/-- `parse_string` after the opening quote `q`: the text up to the matching quote and what follows -/
def scanString (q : Char) : List Char → Option (List Char × List Char)
  | [] => none
  | c :: cs =>
    if c == q then some ([], cs)
    else if c == '\n' || c == '\r' || c == '\\' then none
    else (scanString q cs).map (fun (s, r) => (c :: s, r))

/-- characters `try_url_contents` (stylesheet.rs:814) copies as they are -/
def urlChar (c : Char) : Bool :=
  (c == '!' || c == '%' || c == '&' || ('*' ≤ c && c ≤ '~') || c.toNat ≥ 0x80) && c != '\\'

def scanUrlContents : List Char → Option (List Char)
  | [] => none
  | c :: cs => if c == ')' then some cs else if urlChar c then scanUrlContents cs else none

inductive ArgKind where
  | plain                       -- AstImport::Plain → `visit_static_import_rule`: emitted, nothing loaded
  | sass (url : List Char)      -- AstImport::Sass → `visit_dynamic_import_rule`: looked up and loaded
  deriving DecidableEq, Repr, Inhabited

/-- One argument: its kind and the text after it (white space skipped; `[]` when modifiers took the
    rest of the statement). -/
def parseImportArg (t : List Char) : Option (ArgKind × List Char) :=
  match t with
  | [] => none
  | c :: cs =>
    if c == 'u' || c == 'U' then
      -- `parse_dynamic_url`: every successful parse is AstImport::Plain
      match cs with
      | r :: l :: '(' :: rest =>
        if lowerChar r == 'r' && lowerChar l == 'l' then
          match scanUrlContents rest with
          | some after =>
            let after := skipWs after
            if after.head? == some '/' then none
            else if hasModifiersAt after then some (.plain, []) else some (.plain, after)
          | none => none
        else none
      | _ => none
    else if c == '"' || c == '\'' then
      match scanString c cs with
      | none => none
      | some (url, rest) =>
        let rest := skipWs rest
        if rest.head? == some '/' then none            -- a comment may follow: outside the grammar
        else if hasModifiersAt rest then some (.plain, [])
        else if isPlainCssImport url then some (.plain, rest)
        else some (.sass url, rest)
    else none

/-- `parse_import_rule` (stylesheet.rs:896): arguments separated by commas. -/
def parseImportArgs : Nat → List Char → Option (List ArgKind)
  | 0, _ => none
  | fuel + 1, t =>
    match parseImportArg (skipWs t) with
    | none => none
    | some (k, rest) =>
      match rest with
      | [] => some [k]
      | ',' :: more => (parseImportArgs fuel more).map (k :: ·)
      | _ => none

/-! ### driver helpers for the raw model -/

/-- a path string kept as written: `-` is the empty string -/
def rawOfStr (s : String) : Option Path :=
  if s == "-" then some []
  else if s.isEmpty || !(s.toList.all safeChar) then none
  else some ((s.splitOn "/").map String.toList)

def rawStr (p : Path) : String :=
  if p.isEmpty then "-" else "/".intercalate (p.map String.ofList)

def rawListOfStr (s : String) : Option (List Path) :=
  if s == "-" then some [] else (s.splitOn ",").mapM rawOfStr

def stepOfStrR (s : String) : Option (Bool × Path) :=
  match s.splitOn ":" with
  | [k, u] =>
    match rawOfStr u with
    | some u =>
      if u.isEmpty then none
      else if k == "i" then some (true, u) else if k == "u" then some (false, u) else none
    | none => none
  | _ => none

def planOfStrR (s : String) : Option (List (List (Bool × Path))) :=
  (s.splitOn "+").mapM (fun c => if c == "-" then some [] else (c.splitOn ",").mapM stepOfStrR)

def probeStrR : Probe → String
  | .isFile p => "f:" ++ rawStr p
  | .isDir p => "d:" ++ rawStr p

def callStrR : Call → String
  | .probe p => probeStrR p
  | .read p => "r:" ++ rawStr p

def callsStrR (cs : List Call) : String :=
  if cs.isEmpty then "-" else ",".intercalate (cs.map callStrR)

def callOfStrR (s : String) : Option Call :=
  match s.splitOn ":" with
  | [k, p] =>
    match rawOfStr p with
    | some p =>
      if k == "f" then some (.probe (.isFile p)) else if k == "d" then some (.probe (.isDir p))
      else if k == "r" then some (.read p) else none
    | none => none
  | _ => none

def callsOfStrR (s : String) : Option (List Call) :=
  if s == "-" then some [] else (s.splitOn ",").mapM callOfStrR

def resultStrR : LoadResult → String
  | .loaded p syn => "L:" ++ rawStr p ++ ":" ++ synStr syn
  | .cantFind => "E"

/-- per step along the chain the raw model takes: existing file candidates, number of candidates -/
def chainInfoR (fs : Fs) (lps : List Path) : Path → List (Bool × Path) → List String
  | _, [] => []
  | cur, (fi, url) :: rest =>
    let r := loadR fs cur url lps fi
    let fc := (fileCandidatesR cur url lps fi).eraseDups
    let here := "raw:" ++ toString (fc.filter fs.isFile).length ++ ":" ++ toString fc.length
    here :: (match r.1 with
             | .loaded p syn => if syn = .css then [] else chainInfoR fs lps p rest
             | .cantFind => [])

def chainsInfoR (fs : Fs) (lps : List Path) (cur : Path) : List (List (Bool × Path)) → List String
  | [] => []
  | c :: cs =>
    chainInfoR fs lps cur c ++
      (if (chainCR fs lps .empty cur c).1.any (fun x => x.1 == .cantFind) then [] else chainsInfoR fs lps cur cs)

def argStr : ArgKind → String
  | .plain => "P"
  | .sass u => "S:" ++ hexEncode (String.ofList u)

def handle : List String → String
  -- chain <af> <importer> <lps> <files> <dirs> <steps>[+<steps>…]
  --   → ok <result>|<calls> ; …  # <doc>:<existing>:<ncands> ; …
  | ["chain", af, importer, lps, files, dirs, steps] =>
    match afOfStr af with
    | none => "bad-op"
    | some af =>
      match pathOfStr true importer, listOfStr lps, listOfStr files, listOfStr dirs, planOfStr steps with
      | some importer, some lps, some files, some dirs, some plan =>
        if importer.isEmpty then "unsupported" else
        let fs := fsOf files dirs
        let rs := chains af fs lps importer .empty plan
        let info := chainsInfo af fs lps importer plan
        "ok " ++ ";".intercalate (rs.map (fun r => resultStr r.1 ++ "|" ++ callsStr r.2)) ++
          " # " ++ ";".intercalate info
      | _, _, _, _, _ => "unsupported"
  -- check <af> <importer> <lps> <files> <dirs> <step> <res: L:<path> | E> <calls>   (P̂ on an observation;
  --   af = 0000 is the property, other values only attribute a failure to a known switch)
  | ["check", af, importer, lps, files, dirs, step, res, calls] =>
    match afOfStr af, pathOfStr true importer, listOfStr lps, listOfStr files, listOfStr dirs, stepOfStr step,
          callsOfStr calls with
    | some af, some importer, some lps, some files, some dirs, some (fi, url), some calls =>
      if importer.isEmpty then "unsupported" else
      let fs := fsOf files dirs
      let res? : Option (Option Path) :=
        if res == "E" then some none
        else match res.splitOn ":" with
          | ["L", p] => (pathOfStr true p).map some
          | _ => none
      match res? with
      | none => "bad-op"
      | some r =>
        if checkLoad af fs importer url lps fi r calls then "ok holds"
        else
          let spec := resolve af fs importer url lps fi
          let cands := candidates af importer url lps fi
          let badProbe := calls.find? (fun c => match c with | .probe p => !cands.contains p | .read p => decide (r ≠ some p))
          "ok fails " ++ (if r ≠ spec then "result" else "calls") ++ " spec=" ++
            (match spec with | some p => pathStr p | none => "E") ++ " first-bad-call=" ++
            (match badProbe with | some c => callStr c | none => "-")
    | _, _, _, _, _, _, _ => "unsupported"
  -- cands <af> <importer> <lps> <step>  → the ordered probe list
  | ["cands", af, importer, lps, step] =>
    match afOfStr af, pathOfStr true importer, listOfStr lps, stepOfStr step with
    | some af, some importer, some lps, some (fi, url) =>
      "ok " ++ callsStr ((candidates af importer url lps fi).map .probe)
    | _, _, _, _ => "unsupported"
  -- plain <hex url text> <isUrlFn> <hasModifiers>
  | ["plain", url, isUrl, mods] =>
    match hexDecode url, parseBool? isUrl, parseBool? mods with
    | some u, some isUrl, some mods =>
      let k := importKind isUrl mods u.toList
      "ok " ++ (match k with | .plainCss => "plain" | .sass => "sass") ++
        " code=" ++ boolStr (isPlainCssImport u.toList) ++ " doc=" ++ boolStr (documentedPlainUrl u.toList)
    | _, _, _ => "bad-op"
  -- chainr <importer> <lps> <files> <steps>[+<steps>…]   (raw spellings, the code as it stands)
  --   → ok <result>|<calls> ; …  # raw:<existing>:<ncands> ; …
  | ["chainr", importer, lps, files, steps] =>
    match rawOfStr importer, rawListOfStr lps, rawListOfStr files, planOfStrR steps with
    | some cur, some lps, some files, some plan =>
      if cur.isEmpty then "unsupported" else
      let fs := fsOfR files
      let rs := chainsR fs lps cur .empty plan
      "ok " ++ ";".intercalate (rs.map (fun r => resultStrR r.1 ++ "|" ++ callsStrR r.2)) ++
        " # " ++ ";".intercalate (chainsInfoR fs lps cur plan)
    | _, _, _, _ => "unsupported"
  -- checkr <importer> <lps> <files> <step> <res: L:<path> | E> <calls>
  --   → ok holds|fails spec=holds|fails|na     (checkLoadR and probesWithinSpec on an observation)
  | ["checkr", importer, lps, files, step, res, calls] =>
    match rawOfStr importer, rawListOfStr lps, rawListOfStr files, stepOfStrR step, callsOfStrR calls with
    | some cur, some lps, some files, some (fi, url), some calls =>
      if cur.isEmpty then "unsupported" else
      let fs := fsOfR files
      let res? : Option (Option Path) :=
        if res == "E" then some none
        else match res.splitOn ":" with
          | ["L", p] => (rawOfStr p).map some
          | _ => none
      match res? with
      | none => "bad-op"
      | some r =>
        "ok " ++ (if checkLoadR fs cur url lps fi r calls then "holds" else
                    "fails want=" ++ (match resolveR fs cur url lps fi with | some p => rawStr p | none => "E")) ++
          " spec=" ++ (if !specComparable cur url then "na"
                       else if probesWithinSpec cur url lps fi calls then "holds" else "fails")
    | _, _, _, _, _ => "unsupported"
  -- args <hex text of the argument list of one @import rule>  → ok P|S:<hex url>|…
  | ["args", t] =>
    match hexDecode t with
    | some t =>
      (match parseImportArgs (t.length + 1) t.toList with
       | some ks => "ok " ++ "|".intercalate (ks.map argStr)
       | none => "unsupported")
    | none => "bad-op"
  -- syntax <path>
  | ["syntax", p] =>
    match pathOfStr true p with
    | some p => "ok " ++ synStr (syntaxFor p)
    | none => "unsupported"
  | _ => "bad-op"

end Grass.Import
