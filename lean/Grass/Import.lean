import Grass.Proto
/- Core `Import` — stub; replaced by the model (see DESIGN.md §8). -/
namespace Grass.Import

def handle : List String → String
  | _ => "bad-op"

end Grass.Import
