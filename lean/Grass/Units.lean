import Grass.Proto
/- Core `Units` — stub; replaced by the model (see DESIGN.md §8). -/
namespace Grass.Units

def handle : List String → String
  | _ => "bad-op"

end Grass.Units
