import Grass.Proto
import Grass.Num
import Grass.Generated.UnitKinds
import Grass.Generated.UnitTable
/-
  C08 core — units: conversion table, compatibility, unit algebra.

  Mirrors (file:line of /repo/crates/compiler/src):
    unit/conversion.rs:15     UNIT_CONVERSION_TABLE        → Generated/UnitTable.lean (translator)
    unit/mod.rs:10,125,191    enum Unit, UnitKind, kind()  → Generated/UnitKinds.lean (translator)
    unit/mod.rs:112           are_any_convertible
    unit/mod.rs:138-175       Unit::new, numer_and_denom, invert, is_complex, comparable
    unit/mod.rs:259           Display for Unit
    value/number.rs:158       Number::convert
    value/sass_number.rs:24   conversion_factor
    value/sass_number.rs:56   multiply_units
    value/sass_number.rs:245  PartialEq for SassNumber (canonical unit of the kind)
    evaluate/bin_op.rs        add / sub / mul / div / rem ; value/mod.rs:341 Value::cmp
    builtin/functions/math.rs:73,122,168 comparable, min, max ; meta.rs:62 unit
    serializer.rs:543-566     visit_number (complex units are not CSS)

  The numeric side reuses `Grass.Num` (doubles as exact rationals, `rnd53`).  Table constants
  are kept as expression trees and evaluated twice: symbolically (`Sym` = rational × power of π,
  used by the theorems) and in f64 arithmetic (used to predict grass's printed text).
-/
namespace Grass.Units
open Grass.Generated Grass.Num

/-! ## symbolic factors: `q · π^k` -/

structure Sym where
  q : Rat
  k : Int
  deriving DecidableEq, Repr

def Sym.one : Sym := ⟨1, 0⟩
def Sym.mul (a b : Sym) : Sym := ⟨a.q * b.q, a.k + b.k⟩
def Sym.inv (a : Sym) : Sym := ⟨1 / a.q, -a.k⟩
def Sym.div (a b : Sym) : Sym := a.mul b.inv
def Sym.ofRat (q : Rat) : Sym := ⟨q, 0⟩

def symOf : CExpr → Sym
  | .lit n d => ⟨(n : Rat) / (d : Rat), 0⟩
  | .pi => ⟨1, 1⟩
  | .mul a b => (symOf a).mul (symOf b)
  | .div a b => (symOf a).div (symOf b)

/-- `std::f64::consts::PI` = 0x400921FB54442D18 = 884279719003555 / 2^48 -/
def piF64 : Rat := 884279719003555 / 281474976710656

/-- the constant as Rust evaluates it: every literal and every operation rounded to f64 -/
def f64Of : CExpr → Rat
  | .lit n d => rnd53 ((n : Rat) / (d : Rat))
  | .pi => piF64
  | .mul a b => rnd53 (f64Of a * f64Of b)
  | .div a b => rnd53 (f64Of a / f64Of b)

def lookupRow (f : KU) : List (KU × CExpr) → Option CExpr
  | [] => none
  | (f', e) :: r => if f'.idx == f.idx then some e else lookupRow f r

/-- `UNIT_CONVERSION_TABLE.get(to)?.get(from)` -/
def tableGet (to frm : KU) : Option CExpr := lookupRow frm (tableRow to)

def factorSym (to frm : KU) : Option Sym := (tableGet to frm).map symOf
def factorF64 (to frm : KU) : Option Rat := (tableGet to frm).map f64Of

/-! ## the CSS ratios of the property statement (hand-written, independent of the code)

  Size of one unit of each convertible unit in a base unit of its dimension:
  1in = 96px = 2.54cm = 25.4mm = 101.6q = 72pt = 6pc ; 1turn = 360deg = 400grad = 2π rad ;
  1s = 1000ms ; 1kHz = 1000Hz ; 1dppx = 96dpi, 1dpcm = 2.54dpi. -/

inductive Dim where
  | length | angle | time | frequency | resolution
  deriving DecidableEq, Repr

/-- a symbolic factor as a pair of naturals (so that the kernel checks tables with `Nat` arithmetic only) -/
structure SymN where
  n : Nat
  d : Nat
  k : Int
  deriving DecidableEq, Repr

def SymN.toSym (s : SymN) : Sym := ⟨(s.n : Rat) / (s.d : Rat), s.k⟩
def SymN.mul (a b : SymN) : SymN := ⟨a.n * b.n, a.d * b.d, a.k + b.k⟩
def SymN.div (a b : SymN) : SymN := ⟨a.n * b.d, a.d * b.n, a.k - b.k⟩
/-- numerator and denominator non-zero -/
def SymN.ok (a : SymN) : Bool := a.n != 0 && a.d != 0
/-- same value (cross-multiplication) -/
def SymN.eqv (a b : SymN) : Bool := a.n * b.d == b.n * a.d && a.k == b.k

def symNOf : CExpr → SymN
  | .lit n d => ⟨n, d, 0⟩
  | .pi => ⟨1, 1, 1⟩
  | .mul a b => (symNOf a).mul (symNOf b)
  | .div a b => (symNOf a).div (symNOf b)

/-- every literal and every divisor of a constant expression is non-zero -/
def cexprOk : CExpr → Bool
  | .lit n d => n != 0 && d != 0
  | .pi => true
  | .mul a b => cexprOk a && cexprOk b
  | .div a b => cexprOk a && cexprOk b

def cssSizeN : KU → Option (Dim × SymN)
  | .In => some (.length, ⟨1, 1, 0⟩)
  | .Px => some (.length, ⟨1, 96, 0⟩)
  | .Cm => some (.length, ⟨100, 254, 0⟩)
  | .Mm => some (.length, ⟨10, 254, 0⟩)
  | .Q => some (.length, ⟨10, 1016, 0⟩)
  | .Pt => some (.length, ⟨1, 72, 0⟩)
  | .Pc => some (.length, ⟨1, 6, 0⟩)
  | .Turn => some (.angle, ⟨1, 1, 0⟩)
  | .Deg => some (.angle, ⟨1, 360, 0⟩)
  | .Grad => some (.angle, ⟨1, 400, 0⟩)
  | .Rad => some (.angle, ⟨1, 2, -1⟩)
  | .S => some (.time, ⟨1, 1, 0⟩)
  | .Ms => some (.time, ⟨1, 1000, 0⟩)
  | .Khz => some (.frequency, ⟨1, 1, 0⟩)
  | .Hz => some (.frequency, ⟨1, 1000, 0⟩)
  | .Dpi => some (.resolution, ⟨1, 1, 0⟩)
  | .Dppx => some (.resolution, ⟨96, 1, 0⟩)
  | .Dpcm => some (.resolution, ⟨254, 100, 0⟩)
  | _ => none

def cssSize (u : KU) : Option (Dim × Sym) := (cssSizeN u).map fun p => (p.1, p.2.toSym)

/-- the CSS ratio as a pair of naturals -/
def cssSpecN (to frm : KU) : Option SymN :=
  match cssSizeN to, cssSizeN frm with
  | some (d₁, s₁), some (d₂, s₂) => if d₁ = d₂ then some (s₂.div s₁) else none
  | _, _ => none

/-- the value in `to` of one `frm`, by the CSS ratios; `none` when not convertible -/
def cssSpec (to frm : KU) : Option Sym :=
  match cssSize to, cssSize frm with
  | some (d₁, s₁), some (d₂, s₂) => if d₁ = d₂ then some (s₂.div s₁) else none
  | _, _ => none

/-! ## units -/

/-- an atomic unit: a known one or an unknown identifier -/
inductive AU where
  | known (k : KU)
  | unknown (n : Nat)
  deriving DecidableEq, Repr

/-- `enum Unit`: `None`, a single unit, or `Complex { numer, denom }` -/
inductive U where
  | none
  | one (a : AU)
  | complex (numer denom : List AU)
  deriving DecidableEq, Repr

def AU.kind : AU → Kind
  | .known k => k.kind
  | .unknown _ => kindOfUnknown

def U.kind : U → Kind
  | .none => kindOfNone
  | .one a => a.kind
  | .complex _ _ => kindOfComplex

/-- kinds for which `comparable` demands identical units (mod.rs:171) -/
def selfOnly (k : Kind) : Bool := k = Kind.fontRelative || k = Kind.viewportRelative || k = Kind.other

/-- `Unit::comparable` (mod.rs:166) -/
def comparable (a b : U) : Bool :=
  if b = .none then true
  else if selfOnly a.kind then decide (a = b)
  else if a.kind = Kind.none then true
  else decide (b.kind = a.kind)

/-- `Unit::new` (mod.rs:138) -/
def U.mk (numer denom : List AU) : U :=
  match numer, denom with
  | [], [] => .none
  | [a], [] => .one a
  | _, _ => .complex numer denom

/-- `numer_and_denom` (mod.rs:148) -/
def U.parts : U → List AU × List AU
  | .none => ([], [])
  | .one a => ([a], [])
  | .complex n d => (n, d)

def U.invert (u : U) : U := U.mk u.parts.2 u.parts.1

/-- `is_complex` (mod.rs:162) -/
def U.isComplex : U → Bool
  | .complex n d => n.length != 1 || !d.isEmpty
  | _ => false

/-- unknown units keep their spelling (mod.rs:254,296).  The model has two families of spellings, `foo<i>`
    (code `2i`) and `FOO<i>` (code `2i+1`): the same letters in the other case are a DIFFERENT unit. -/
def AU.name : AU → String
  | .known k => k.name
  | .unknown n => if n % 2 = 0 then s!"foo{n / 2}" else s!"FOO{n / 2}"

/-- `Display for Unit` (mod.rs:259) -/
def U.name : U → String
  | .none => ""
  | .one a => a.name
  | .complex n d =>
    let nr := "*".intercalate (n.map AU.name)
    let dr := "*".intercalate (d.map AU.name)
    if d.isEmpty then nr
    else if n.isEmpty && d.length == 1 then dr ++ "^-1"
    else if n.isEmpty then "(" ++ dr ++ ")^-1"
    else nr ++ "/" ++ dr

/-- `conversion_factor(from, to)` (sass_number.rs:24) in f64 -/
def convFactorF (frm to : AU) : Option Rat :=
  if frm = to then some 1 else
  match frm, to with
  | .known f, .known t => factorF64 t f
  | _, _ => none

/-- symbolic version -/
def convFactorS (frm to : AU) : Option Sym :=
  if frm = to then some Sym.one else
  match frm, to with
  | .known f, .known t => factorSym t f
  | _, _ => none

/-- `are_any_convertible` (mod.rs:112) -/
def anyConvertible (xs ys : List AU) : Bool :=
  xs.any fun x => ys.any fun y => comparable (.one x) (.one y)

/-! ## numbers with units -/

structure SN where
  num : D
  unit : U
  deriving DecidableEq, Repr

inductive UErr where
  | incompatible | notCss | unsupported | tableMissing
  deriving DecidableEq, Repr

/-- `Number::convert(from, to)` (number.rs:158): `self * TABLE[to][from]`; a missing entry panics. -/
def convert (n : D) (frm to : U) : Except UErr D :=
  if frm = .none ∨ to = .none ∨ frm = to then .ok n else
  match frm, to with
  | .one (.known f), .one (.known t) =>
    match factorF64 t f with
    | some c => match D.mul n (.fin c) with
      | some r => .ok r
      | none => .error .unsupported
    | none => .error .tableMissing
  | _, _ => .error .tableMissing

def liftD (o : Option D) : Except UErr D :=
  match o with
  | some d => .ok d
  | none => .error .unsupported

/-- result unit of `+ - %`: the left operand's, the other's when the left is unitless -/
def resultUnit (a b : U) : U := if a = b then a else if a = .none then b else a

/-- bin_op.rs:68 `add` / :213 `sub` -/
def addSub (sub : Bool) (a b : SN) : Except UErr SN :=
  if !comparable a.unit b.unit then .error .incompatible else
  let op := fun x y => liftD (if sub then D.sub x y else D.add x y)
  if a.unit = b.unit ∨ a.unit = .none ∨ b.unit = .none then
    (op a.num b.num).map fun r => ⟨r, resultUnit a.unit b.unit⟩
  else
    match convert b.num b.unit a.unit with
    | .ok c => (op a.num c).map fun r => ⟨r, a.unit⟩
    | .error e => .error e

/-- bin_op.rs:504 `rem` -/
def rem (a b : SN) : Except UErr SN :=
  if !comparable a.unit b.unit then .error .incompatible else
  match convert b.num b.unit a.unit with
  | .ok c => (liftD (moduloD a.num c)).map fun r => ⟨r, resultUnit a.unit b.unit⟩
  | .error e => .error e

/-- value/mod.rs:341 `Value::cmp` on two numbers: the right operand is converted, numbers `==` within
    tolerance are `Equal`, otherwise IEEE order -/
def cmpSN (a b : SN) : Except UErr (Option Ordering) :=
  if !comparable a.unit b.unit then .error .incompatible else
  if a.unit = b.unit ∨ a.unit = .none ∨ b.unit = .none then .ok (cmpD false a.num b.num)
  else match convert b.num b.unit a.unit with
    | .ok c => .ok (cmpD false a.num c)
    | .error e => .error e

/-- the four order relations (bin_op.rs:408 `cmp`): decided from the `Ordering`; `None` (a NaN operand) is `false` -/
inductive Rel where
  | lt | le | gt | ge
  deriving DecidableEq, Repr

def relHolds (r : Rel) (o : Option Ordering) : Bool :=
  match o with
  | none => false
  | some ord =>
    match r with
    | .lt => ord == .lt
    | .le => ord != .gt
    | .gt => ord == .gt
    | .ge => ord != .lt

/-- `a < b`, `a <= b`, `a > b`, `a >= b` on numbers with units -/
def relSN (r : Rel) (a b : SN) : Except UErr Bool := (cmpSN a b).map (relHolds r)

/-- `math.is-unitless` (meta.rs:78): `number.unit == Unit::None` -/
def isUnitless (a : SN) : Bool := decide (a.unit = .none)

def U.canonical (u : U) : Option U := u.kind.canonical.map fun k => .one (.known k)

/-- sass_number.rs:245 `PartialEq for SassNumber`: both sides are always converted into the canonical
    unit of the kind when there is one -/
def eqSN (a b : SN) : Except UErr Bool :=
  if !comparable a.unit b.unit then .ok false else
  if (b.unit = .none ∨ a.unit = .none) ∧ a.unit ≠ b.unit then .ok false else
  match a.unit.canonical with
  | some c =>
    match convert a.num a.unit c, convert b.num b.unit c with
    | .ok x, .ok y => .ok (eqD x y)
    | .error e, _ => .error e
    | _, .error e => .error e
  | none =>
    match convert b.num b.unit a.unit with
    | .ok y => .ok (eqD a.num y)
    | .error e => .error e

/-- math.rs:122 `min` / :168 `max` with two arguments: the second replaces the first when it is
    strictly smaller / greater (`cmp(second, first)`). -/
def minMax (isMax : Bool) (a b : SN) : Except UErr SN :=
  match cmpSN b a with
  | .error e => .error e
  | .ok o => .ok (if o = some (if isMax then Ordering.gt else .lt) then b else a)

/-- remove the first element of `ds` convertible with `n`; returns the factor and the rest.
    Generic in the factor type: instantiated with f64 factors (what grass executes) and with the
    symbolic factors (what the value-preservation theorem is about). -/
def removeFirstG {φ : Type} (fac : AU → AU → Option φ) (n : AU) : List AU → Option (φ × List AU)
  | [] => none
  | d :: ds =>
    match fac d n with
    | some f => some (f, ds)
    | none => (removeFirstG fac n ds).map fun p => (p.1, d :: p.2)

/-- the two cancellation loops of `multiply_units` (sass_number.rs:90-131) -/
def cancelLoopG {α φ : Type} (fac : AU → AU → Option φ) (divBy : α → φ → α) :
    List AU → List AU → α → List AU → α × List AU × List AU
  | [], ds, num, acc => (num, acc, ds)
  | n :: ns, ds, num, acc =>
    match removeFirstG fac n ds with
    | some (f, ds') => cancelLoopG fac divBy ns ds' (divBy num f) acc
    | none => cancelLoopG fac divBy ns ds num (acc ++ [n])

/-- `multiply_units` (sass_number.rs:56), generic in the number type -/
def multiplyUnitsG {α φ : Type} (fac : AU → AU → Option φ) (divBy : α → φ → α)
    (selfUnit : U) (num : α) (other : U) : α × U :=
  let nu := selfUnit.parts.1
  let du := selfUnit.parts.2
  let on := other.parts.1
  let od := other.parts.2
  if nu.isEmpty ∧ od.isEmpty ∧ !anyConvertible du on then (num, U.mk on du)
  else if nu.isEmpty ∧ du.isEmpty then (num, U.mk on od)
  else if !nu.isEmpty ∧ on.isEmpty ∧ (od.isEmpty ∨ (du.isEmpty ∧ !anyConvertible nu od)) then
    (num, U.mk nu od)
  else
    let r1 := cancelLoopG fac divBy nu od num []
    let r2 := cancelLoopG fac divBy on du r1.1 r1.2.1
    (r2.1, U.mk r2.2.1 (r2.2.2 ++ r1.2.2))

/-- f64 division by a table factor; `none` = result below the normal range (not modelled) -/
def divByF (x : Option D) (f : Rat) : Option D := x.bind fun v => D.div v (.fin f)

/-- `multiply_units` as executed -/
def multiplyUnits (selfUnit : U) (num : D) (other : U) : Except UErr SN :=
  let r := multiplyUnitsG convFactorF divByF selfUnit (some num) other
  match r.1 with
  | some v => .ok ⟨v, r.2⟩
  | none => .error .unsupported

/-- bin_op.rs:348 `mul` -/
def mulSN (a b : SN) : Except UErr SN :=
  match D.mul a.num b.num with
  | none => .error .unsupported
  | some p => if b.unit = .none then .ok ⟨p, a.unit⟩ else multiplyUnits a.unit p b.unit

/-- bin_op.rs:456 `div` -/
def divSN (a b : SN) : Except UErr SN :=
  match D.div a.num b.num with
  | none => .error .unsupported
  | some p => if b.unit = .none then .ok ⟨p, a.unit⟩ else multiplyUnits a.unit p b.unit.invert

/-! ### the same algebra in exact arithmetic (symbolic factors), for the value-preservation theorem -/

/-- a number with units whose magnitude is exact: rational × power of π -/
structure SX where
  val : Sym
  unit : U
  deriving DecidableEq, Repr

def mulSX (a b : SX) : SX :=
  if b.unit = .none then ⟨a.val.mul b.val, a.unit⟩
  else let r := multiplyUnitsG convFactorS Sym.div a.unit (a.val.mul b.val) b.unit; ⟨r.1, r.2⟩

def divSX (a b : SX) : SX :=
  if b.unit = .none then ⟨a.val.div b.val, a.unit⟩
  else let r := multiplyUnitsG convFactorS Sym.div a.unit (a.val.div b.val) b.unit.invert; ⟨r.1, r.2⟩

/-- serializer.rs:543 `visit_number`: complex units are an error unless inspecting -/
def printSN (inspect compressed : Bool) (n : SN) : Except UErr String :=
  if !inspect && n.unit.isComplex then .error .notCss
  else .ok (String.ofList (printD false compressed n.num) ++ n.unit.name)

/-! ## the operations of the correspondence run -/

inductive Op where
  | add | sub | lt | eq | rem | min | max | div | mul | divInspect | mulInspect | compatible | unitMul | unitDiv
  | le | gt | ge | unitlessMul | unitlessDiv | unitlessA
  deriving DecidableEq, Repr

def boolS (b : Bool) : String := if b then "true" else "false"

def runOp (compressed : Bool) (o : Op) (a b : SN) : Except UErr String :=
  match o with
  | .add => (addSub false a b).bind (printSN false compressed)
  | .sub => (addSub true a b).bind (printSN false compressed)
  | .rem => (rem a b).bind (printSN false compressed)
  | .min => (minMax false a b).bind (printSN false compressed)
  | .max => (minMax true a b).bind (printSN false compressed)
  | .lt => (cmpSN a b).map fun o => boolS (o == some .lt)
  | .eq => (eqSN a b).map boolS
  | .div => (divSN a b).bind (printSN false compressed)
  | .mul => (mulSN a b).bind (printSN false compressed)
  | .divInspect => (divSN a b).bind (printSN true false)       -- inspect() is always expanded
  | .mulInspect => (mulSN a b).bind (printSN true false)
  | .compatible => .ok (boolS (comparable a.unit b.unit))
  | .unitMul => (mulSN a b).map fun r => "\"" ++ r.unit.name ++ "\""
  | .unitDiv => (divSN a b).map fun r => "\"" ++ r.unit.name ++ "\""
  | .le => (relSN .le a b).map boolS
  | .gt => (relSN .gt a b).map boolS
  | .ge => (relSN .ge a b).map boolS
  | .unitlessMul => (mulSN a b).map fun r => boolS (isUnitless r)
  | .unitlessDiv => (divSN a b).map fun r => boolS (isUnitless r)
  | .unitlessA => .ok (boolS (isUnitless a))

/-! ## the property predicate P̂ on an observation (independent of the table: uses `cssSpec`) -/

/-- rational enclosure of π (30 digits) -/
def piLo : Rat := 3141592653589793238462643383279 / 1000000000000000000000000000000
def piHi : Rat := 3141592653589793238462643383280 / 1000000000000000000000000000000

/-- enclosure `[lo, hi]` of `y · s` for a Sym `s` with `|k| ≤ 1`, `s.q > 0` -/
def symScale (s : Sym) (y : Rat) : Option (Rat × Rat) :=
  let (a, b) :=
    if s.k = 0 then (s.q, s.q)
    else if s.k = 1 then (s.q * piLo, s.q * piHi)
    else if s.k = -1 then (s.q / piHi, s.q / piLo)
    else (0, 0)
  if s.k < -1 ∨ 1 < s.k then none
  else if y ≥ 0 then some (y * a, y * b) else some (y * b, y * a)

/-- convertible by the CSS ratios (known units), equal, or one side unitless -/
def specComparable (a b : U) : Bool :=
  if a = .none ∨ b = .none ∨ a = b then true else
  match a, b with
  | .one (.known x), .one (.known y) => (cssSpec x y).isSome
  | _, _ => false

/-- the factor by the CSS ratios for converting `b`'s unit into `a`'s (1 when no conversion happens) -/
def specFactor (a b : U) : Option Sym :=
  if a = .none ∨ b = .none ∨ a = b then some Sym.one else
  match a, b with
  | .one (.known x), .one (.known y) => cssSpec x y
  | _, _ => none

/-- printed number `txt` (without its unit) is within 10⁻¹⁰ (+ 2⁻⁴⁰ relative) of the enclosure -/
def closeTo (txt : List Char) (lo hi : Rat) : Bool :=
  match parseLit txt with
  | some l =>
    let v := l.value
    let tol : Rat := 1 / 10000000000 + (absQ lo + absQ hi) / 1099511627776
    decide (lo - tol ≤ v) && decide (v ≤ hi + tol)
  | none => false

/-- split a printed number into numeric text and unit text -/
def splitNum (s : List Char) : List Char × List Char :=
  let p := fun c => isDigit c || c == '.' || c == '-'
  (s.takeWhile p, s.dropWhile p)

/-- P̂ for `+` / `−` with finite operands `x`, `y`: the observation must be an error exactly when
    the units are not convertible by the CSS ratios, and otherwise `x ± y·ratio` in the left
    operand's unit (the other's when the left is unitless). `obs` = `some text` | `none` (incompatible-units error). -/
def checkAddSub (sub : Bool) (x y : Rat) (a b : U) (obs : Option (List Char)) : Bool :=
  match specFactor a b, obs with
  | none, none => !specComparable a b
  | none, some _ => false
  | some _, none => false
  | some f, some txt =>
    let (nt, ut) := splitNum txt
    match symScale f y with
    | none => false
    | some (lo, hi) =>
      let (lo, hi) := if sub then (x - hi, x - lo) else (x + lo, x + hi)
      String.ofList ut == (resultUnit a b).name && closeTo nt lo hi

/-! ## the f64 constants of the table against their exact values -/

/-- enclosure of `π^k` -/
def piPow (k : Int) : Rat × Rat :=
  if k ≥ 0 then (piLo ^ k.toNat, piHi ^ k.toNat) else (1 / piHi ^ (-k).toNat, 1 / piLo ^ (-k).toNat)

/-- enclosure of the value of a `Sym` -/
def symInterval (s : Sym) : Rat × Rat :=
  let (a, b) := piPow s.k
  if s.q ≥ 0 then (s.q * a, s.q * b) else (s.q * b, s.q * a)


/-- 2⁻⁵¹ -/
def relTol : Rat := 1 / 2251799813685248

/-- the executed constant (every literal and operation rounded to f64, `PI` the f64 constant) lies within a
    relative 2⁻⁵¹ of the exact value of the expression as written (π by its 30-digit enclosure) -/
def f64EntryClose (e : CExpr) : Bool :=
  let c := f64Of e
  let iv := symInterval (symOf e)
  decide (0 < iv.1) && decide (iv.1 * (1 - relTol) ≤ c) && decide (c ≤ iv.2 * (1 + relTol))

def tableF64Close : Bool := KU.all.all fun t => (tableRow t).all fun p => f64EntryClose p.2

/-- the two executed constants of a pair of units multiply to 1 within 2⁻⁵² -/
def roundtripPairClose (t f : KU) : Bool :=
  match factorF64 t f, factorF64 f t with
  | some a, some b => decide (absQ (a * b - 1) * 4503599627370496 ≤ 1)
  | none, none => true
  | _, _ => false

def tableRoundtripClose : Bool := KU.all.all fun t => KU.all.all fun f => roundtripPairClose t f

/-! ## driver -/
open Grass.Proto

def kuOfName (s : String) : Option KU := KU.all.find? fun k => k.name == s

def asciiLower (s : String) : String := String.ofList (s.toList.map Char.toLower)

/-- `From<String> for Unit` (mod.rs:217-256): the spelling is ASCII-lower-cased and looked up among the known
    names (so `PX`, `Px`, `px` are all `Unit::Px` and print as `px`; `HZ` prints as `Hz`); every other
    spelling is `Unit::Unknown(spelling)` with its case kept.  Unknown spellings other than `foo<i>` /
    `FOO<i>` are outside the model (`none`). -/
def unitOfSpelling (s : String) : Option AU :=
  let lower := asciiLower s
  match KU.all.find? fun k => asciiLower k.name == lower with
  | some k => some (.known k)
  | none =>
    if s.startsWith "foo" then (s.drop 3).toString.toNat?.map fun i => AU.unknown (2 * i)
    else if s.startsWith "FOO" then (s.drop 3).toString.toNat?.map fun i => AU.unknown (2 * i + 1)
    else none

/-- unit token: `-` unitless, `?<i>` = the unknown unit `foo<i>`, or a spelling as written in the source -/
def auOfStr (s : String) : Option AU :=
  if s.startsWith "?" then (s.drop 1).toString.toNat?.map fun i => AU.unknown (2 * i)
  else unitOfSpelling s

def uOfStr (s : String) : Option U :=
  if s == "-" then some .none else (auOfStr s).map U.one

def opOfStr (s : String) : Option Op :=
  if s == "add" then some .add else if s == "sub" then some .sub else if s == "lt" then some .lt
  else if s == "eq" then some .eq else if s == "rem" then some .rem else if s == "min" then some .min
  else if s == "max" then some .max else if s == "div" then some .div else if s == "mul" then some .mul
  else if s == "divInspect" then some .divInspect else if s == "mulInspect" then some .mulInspect
  else if s == "compatible" then some .compatible else if s == "unitMul" then some .unitMul
  else if s == "unitDiv" then some .unitDiv
  else if s == "le" then some .le else if s == "gt" then some .gt else if s == "ge" then some .ge
  else if s == "unitlessMul" then some .unitlessMul
  else if s == "unitlessDiv" then some .unitlessDiv else if s == "unitlessA" then some .unitlessA else none

def snOf (lit unit : String) : Option SN := do
  let l ← parseLit lit.toList
  let d ← litD l
  let u ← uOfStr unit
  some ⟨d, u⟩


/-! ## expressions over numbers with units (compound operands), reverse-polish -/

def binOfStr (s : String) : Option (SN → SN → Except UErr SN) :=
  if s == "mul" then some mulSN else if s == "div" then some divSN
  else if s == "add" then some (addSub false) else if s == "sub" then some (addSub true)
  else if s == "rem" then some rem else if s == "min" then some (minMax false)
  else if s == "max" then some (minMax true) else none

/-- `N<literal>:<unit>` -/
def numTok (t : String) : Option SN :=
  if t.startsWith "N" then
    match (t.drop 1).toString.splitOn ":" with
    | [l, u] => snOf l u
    | _ => none
  else none

/-- evaluate; the last token says how the result is observed:
    `print` (a declaration value), `inspect`, `unit`, or the binary `lt` `eq` `compatible`. -/
def runRpn (c : Bool) : List String → List SN → Except UErr (Option String)
  | [], _ => .ok none
  | [t], st =>
    match t, st with
    | "print", [a] => (printSN false c a).map some
    | "inspect", [a] => (printSN true false a).map some
    | "unit", [a] => .ok (some ("\"" ++ a.unit.name ++ "\""))
    | "lt", [b, a] => (cmpSN a b).map fun o => some (boolS (o == some .lt))
    | "le", [b, a] => (relSN .le a b).map fun r => some (boolS r)
    | "gt", [b, a] => (relSN .gt a b).map fun r => some (boolS r)
    | "ge", [b, a] => (relSN .ge a b).map fun r => some (boolS r)
    | "unitless", [a] => .ok (some (boolS (isUnitless a)))
    | "eq", [b, a] => (eqSN a b).map fun r => some (boolS r)
    | "compatible", [b, a] => .ok (some (boolS (comparable a.unit b.unit)))
    | _, _ => .ok none
  | t :: ts, st =>
    match numTok t with
    | some n => runRpn c ts (n :: st)
    | none =>
      match binOfStr t, st with
      | some f, b :: a :: st' =>
        match f a b with
        | .ok r => runRpn c ts (r :: st')
        | .error e => .error e
      | _, _ => .ok none

/-! ### what a number with (compound) units denotes, by the CSS ratios -/

structure Qty where
  val : Sym                      -- multiplier in base units of each dimension
  atoms : List (String × Int)    -- sorted by name, non-zero exponents
  deriving DecidableEq, Repr

def dimName : Dim → String
  | .length => "<length>" | .angle => "<angle>" | .time => "<time>"
  | .frequency => "<frequency>" | .resolution => "<resolution>"

def atomOf : AU → String × Sym
  | .known k => match cssSize k with
    | some (d, s) => (dimName d, s)
    | none => (k.name, Sym.one)
  | .unknown n => (AU.name (.unknown n), Sym.one)

def addAtom (name : String) (e : Int) : List (String × Int) → List (String × Int)
  | [] => [(name, e)]
  | (n, k) :: r =>
    if n = name then (if k + e = 0 then r else (n, k + e) :: r)
    else if name < n then (name, e) :: (n, k) :: r
    else (n, k) :: addAtom name e r

def Qty.one : Qty := ⟨Sym.one, []⟩

def Qty.withUnit (q : Qty) (inv : Bool) (a : AU) : Qty :=
  let (n, s) := atomOf a
  ⟨if inv then q.val.div s else q.val.mul s, addAtom n (if inv then -1 else 1) q.atoms⟩

def unitQty (u : U) : Qty :=
  let (n, d) := u.parts
  d.foldl (fun q a => q.withUnit true a) (n.foldl (fun q a => q.withUnit false a) Qty.one)

def snQty (x : Rat) (u : U) : Qty := let q := unitQty u; ⟨⟨q.val.q * x, q.val.k⟩, q.atoms⟩

def Qty.mul (a b : Qty) : Qty := ⟨a.val.mul b.val, b.atoms.foldl (fun l (n, e) => addAtom n e l) a.atoms⟩
def Qty.div (a b : Qty) : Qty := ⟨a.val.div b.val, b.atoms.foldl (fun l (n, e) => addAtom n (-e) l) a.atoms⟩

/-- the denotation of a product/quotient expression, in exact arithmetic -/
def specRpn : List String → List Qty → Option Qty
  | [], [q] => some q
  | [], _ => none
  | t :: ts, st =>
    if t == "inspect" then specRpn ts st else
    match numTok t with
    | some n => match n.num.toRat? with
      | some x => specRpn ts (snQty x n.unit :: st)
      | none => none
    | none =>
      match st with
      | b :: a :: st' =>
        if t == "mul" then specRpn ts (a.mul b :: st')
        else if t == "div" then (if b.val.q = 0 then none else specRpn ts (a.div b :: st'))
        else none
      | _ => none

def auList (s : String) : Option (List AU) :=
  if s == "" then some [] else (s.splitOn "*").mapM auOfStrDisp
where
  auOfStrDisp (n : String) : Option AU :=
    if n.startsWith "foo" then (n.drop 3).toString.toNat?.map fun i => AU.unknown (2 * i)
    else if n.startsWith "FOO" then (n.drop 3).toString.toNat?.map fun i => AU.unknown (2 * i + 1)
    else (kuOfName n).map AU.known

/-- parse `Display for Unit`: ``, `a`, `a*b`, `a*b/c*d`, `a^-1`, `(a*b)^-1` -/
def unitOfDisplay (s : String) : Option U :=
  if s == "" then some .none
  else if s.endsWith "^-1" then
    let core := (s.dropEnd 3).toString
    let core := if core.startsWith "(" then ((core.drop 1).toString.dropEnd 1).toString else core
    (auList core).map fun d => U.mk [] d
  else match s.splitOn "/" with
    | [n] => (auList n).map fun n => U.mk n []
    | [n, d] => do let n ← auList n; let d ← auList d; some (U.mk n d)
    | _ => none

/-- P̂ for products and quotients: the printed number-with-unit denotes the same quantity as the
    expression, by the CSS ratios (tolerance: the 10 printed digits + 2⁻⁴⁰ relative; π by enclosure). -/
def checkQty (txt : List Char) (toks : List String) : Option Bool :=
  match specRpn toks [] with
  | none => none
  | some want =>
    let (nt, ut) := splitNum txt
    match parseLit nt, unitOfDisplay (String.ofList ut) with
    | some l, some u =>
      let got := snQty l.value u
      let (sl, sh) := symInterval (unitQty u).val
      let (gl, gh) := symInterval got.val
      let (wl, wh) := symInterval want.val
      let tol : Rat := (absQ sl + absQ sh) / 10000000000 + (absQ wl + absQ wh) / 1099511627776
      some (decide (got.atoms = want.atoms) && decide (gl - tol ≤ wh) && decide (wl ≤ gh + tol))
    | _, _ => some false

def errS : UErr → String
  | .incompatible => "err incompatible" | .notCss => "err notcss"
  | .unsupported => "unsupported" | .tableMissing => "err table-missing"

def handle : List String → String
  -- op <c|e> <op> <x> <u> <y> <v> : the model's observation
  | ["op", st, o, x, u, y, v] =>
    match opOfStr o, snOf x u, snOf y v with
    | some o, some a, some b =>
      match runOp (st == "c") o a b with
      | .ok s => "ok " ++ hexEncode s
      | .error e => errS e
    | _, _, _ => "bad-op"
  -- check <add|sub> <x> <u> <y> <v> <hex text | !incompatible> : P̂ by the CSS ratios
  | ["check", o, x, u, y, v, obs] =>
    match snOf x u, snOf y v with
    | some a, some b =>
      match a.num.toRat?, b.num.toRat? with
      | some xr, some yr =>
        let ob : Option (Option (List Char)) :=
          if obs == "!incompatible" then some none else (hexDecode obs).map fun s => some s.toList
        match ob with
        | some ob =>
          if o == "add" then "ok " ++ boolStr (checkAddSub false xr yr a.unit b.unit ob)
          else if o == "sub" then "ok " ++ boolStr (checkAddSub true xr yr a.unit b.unit ob)
          else "bad-op"
        | none => "bad-op"
      | _, _ => "unsupported"
    | _, _ => "bad-op"
  -- comparable <u> <v> : code predicate | CSS-ratio predicate
  | ["comparable", u, v] =>
    match uOfStr u, uOfStr v with
    | some a, some b => "ok " ++ boolStr (comparable a b) ++ " " ++ boolStr (specComparable a b)
    | _, _ => "bad-op"
  -- factor <to> <from> : the table constant as f64 (exact rational) and the symbolic value
  | ["factor", t, f] =>
    match kuOfName t, kuOfName f with
    | some t, some f =>
      match factorF64 t f, factorSym t f with
      | some c, some s => s!"ok {c.num}/{c.den} {s.q.num}/{s.q.den} pi^{s.k}"
      | _, _ => "ok none"
    | _, _ => "bad-op"
  | ["units"] => "ok " ++ " ".intercalate (KU.all.map KU.name)
  -- spell <hex spelling> : the unit a spelling denotes, by its display name (`From<String>` then `Display`)
  | ["spell", hx] =>
    match hexDecode hx with
    | some sp =>
      match unitOfSpelling sp with
      | some a => "ok " ++ hexEncode a.name
      | none => "unsupported"
    | none => "bad-op"
  -- tablecheck : the two f64 table predicates of the theorems, executed
  | ["tablecheck"] => "ok " ++ boolStr tableF64Close ++ " " ++ boolStr tableRoundtripClose
  -- expr <c|e> <rpn…> : compound operands
  | "expr" :: st :: toks =>
    match runRpn (st == "c") toks [] with
    | .ok (some s) => "ok " ++ hexEncode s
    | .ok none => "bad-op"
    | .error e => errS e
  -- qcheck <hex text> <rpn…> : P̂ (value preservation) for a product/quotient expression
  | "qcheck" :: hx :: toks =>
    match hexDecode hx with
    | some txt =>
      match checkQty txt.toList toks with
      | some b => "ok " ++ boolStr b
      | none => "unsupported"
    | none => "bad-op"
  | _ => "bad-op"

end Grass.Units
