import Grass.Proto
/- Core `Scope` — stub; replaced by the model (see DESIGN.md §8). -/
namespace Grass.Scope

def handle : List String → String
  | _ => "bad-op"

end Grass.Scope
