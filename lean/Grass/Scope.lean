import Grass.Proto
/-
  Core `Scope` (property C03, part 1): grass's `Scopes` with its `last_variable_index` cache,
  written function by function from

    crates/compiler/src/evaluate/scope.rs   (Scopes::new :28, new_closure :38, find_var :69,
                                             len :87, enter_new_scope :91, exit_scope :106,
                                             insert_var :120, insert_var_last :130, get_var :139)
    crates/compiler/src/evaluate/env.rs     (Environment::new_closure :46, for_import :58,
                                             insert_var :341, at_root :388)
    crates/compiler/src/evaluate/visitor.rs (with_environment :1616, with_scope :1685,
                                             visit_mixin_decl :1785, visit_function_decl :1265,
                                             visit_include_stmt :1728 (content block closure :1755),
                                             run_user_defined_callable :2233, import :967)

  Representation.
  * A frame (`Arc<RefCell<BTreeMap<Identifier, Value>>>`) lives in a heap (`List Frame`, frame id =
    position) because frames are shared by reference between environments: `new_closure` copies the
    *vector of Arcs*, not the maps.  A frame is an association list, newest binding first
    (`BTreeMap::insert` replaces; lookup finds the newest binding).  Nothing ever removes a key
    (the only removal in grass, `Environment::import_forwards` env.rs:196, belongs to the module
    system, C12, and resets the cache itself).
  * `Scopes.vars` is the `variables` vector with the INNERMOST frame FIRST (the Rust `Vec` has it
    last): `push`/`pop` are cons/tail, and the Rust index `i` denotes the element that has exactly
    `i` elements after it (`frameAt`).  `len` is the separate `Arc<Cell<usize>>` counter and
    `cache` is `last_variable_index`.
  * `Cfg` carries the two as-found switches of defect D3 (tree 8539e4d): `closureKeepsCache`
    (`new_closure` copied `last_variable_index`) and `restoreKeepsCache` (`with_environment` did
    not reset it after swapping the old environment back).  The code as it stands is `Cfg.now`.

  The cache-free specification (`SWorld`, `stepSpec`) is at the end; the refinement theorem
  `C03_lookup_cached_eq_spec` is in GrassProofs/C03.lean.
-/
namespace Grass.Scope

abbrev Name := Nat
abbrev Val := Int
abbrev Frame := List (Name × Val)

def Frame.get? : Frame → Name → Option Val
  | [], _ => none
  | (m, v) :: r, n => if m == n then some v else Frame.get? r n

def Frame.has (f : Frame) (n : Name) : Bool := (f.get? n).isSome

abbrev Heap := List Frame

def getAt (h : Heap) (fid : Nat) (n : Name) : Option Val :=
  match h[fid]? with
  | some f => f.get? n
  | none => none

def hasAt (h : Heap) (fid : Nat) (n : Name) : Bool := (getAt h fid n).isSome

/-- `frame.borrow_mut().insert(name, v)` on frame `fid`. -/
def putAt (h : Heap) (fid : Nat) (n : Name) (v : Val) : Heap :=
  match h[fid]? with
  | some f => h.set fid ((n, v) :: f)
  | none => h

structure Scopes where
  vars : List Nat
  len : Nat
  cache : Option (Name × Nat)
deriving Repr, DecidableEq

/-- `variables[i]` of the Rust vector (innermost frame is first in `vars`). -/
def frameAt : List Nat → Nat → Option Nat
  | [], _ => none
  | f :: fs, i => if i = fs.length then some f else frameAt fs i

/-- `for (idx, scope) in variables.iter().enumerate().rev()`: first hit from the innermost frame. -/
def find (h : Heap) : List Nat → Name → Option Nat
  | [], _ => none
  | f :: fs, n => if hasAt h f n then some fs.length else find h fs n

structure Cfg where
  closureKeepsCache : Bool
  restoreKeepsCache : Bool
deriving Repr, DecidableEq

def Cfg.now : Cfg := ⟨false, false⟩
/-- tree 8539e4d, first half of D3: `new_closure` copies `last_variable_index`. -/
def Cfg.asFoundClosure : Cfg := ⟨true, false⟩
/-- tree 8539e4d, second half of D3: `with_environment` restores the old environment, cache and all. -/
def Cfg.asFoundRestore : Cfg := ⟨false, true⟩

/-- scope.rs:38 `Scopes::new_closure` (fresh vector of the same Arcs, fresh `len` cell). -/
def Scopes.newClosure (c : Cfg) (s : Scopes) : Scopes :=
  { vars := s.vars, len := s.len, cache := if c.closureKeepsCache then s.cache else none }

/-- scope.rs:69 `find_var`. -/
def findVar (h : Heap) (s : Scopes) (n : Name) : Option Nat × Scopes :=
  let scan : Option Nat × Scopes :=
    match find h s.vars n with
    | some i => (some i, { s with cache := some (n, i) })
    | none => (none, s)
  match s.cache with
  | some (m, i) => if m == n then (some i, s) else scan
  | none => scan

/-- scope.rs:91 `enter_new_scope`: the cache is left alone. -/
def enter (h : Heap) (s : Scopes) : Heap × Scopes :=
  (h ++ [[]], { s with vars := h.length :: s.vars, len := s.len + 1 })

/-- scope.rs:106 `exit_scope`. -/
def exit (s : Scopes) : Scopes :=
  { vars := s.vars.tail, len := s.len - 1, cache := none }

/-- scope.rs:120 `insert_var(idx, …)`; `none` = index out of bounds (a Rust panic). -/
def insertVar (h : Heap) (s : Scopes) (idx : Nat) (n : Name) (v : Val) : Option Heap :=
  match frameAt s.vars idx with
  | some fid => some (putAt h fid n v)
  | none => none

/-- scope.rs:130 `insert_var_last`. -/
def insertVarLast (h : Heap) (s : Scopes) (n : Name) (v : Val) : Option (Heap × Scopes) :=
  if s.len = 0 then none else
  let last := s.len - 1
  let s' := { s with cache := some (n, last) }
  match insertVar h s' last n v with
  | some h' => some (h', s')
  | none => none

inductive Out where
  | none | val (v : Val) | undefined | panic | rejected
deriving Repr, DecidableEq

/-- scope.rs:139 `get_var`; the cached arm indexes `variables[idx][&name]` and panics if absent. -/
def getVar (h : Heap) (s : Scopes) (n : Name) : Out × Scopes :=
  let scan : Out × Scopes :=
    match find h s.vars n with
    | some i =>
      match frameAt s.vars i with
      | some fid =>
        match getAt h fid n with
        | some v => (.val v, { s with cache := some (n, i) })
        | none => (.panic, s)
      | none => (.panic, s)
    | none => (.undefined, s)
  match s.cache with
  | some (m, i) =>
    if m == n then
      match frameAt s.vars i with
      | some fid =>
        match getAt h fid n with
        | some v => (.val v, s)
        | none => (.panic, s)
      | none => (.panic, s)
    else scan
  | none => scan

/-- env.rs:341 `Environment::insert_var` without a namespace and without global modules. -/
def envInsertVar (h : Heap) (s : Scopes) (n : Name) (v : Val) (isGlobal semi : Bool) :
    Option (Heap × Scopes) :=
  if isGlobal || s.len == 1 then
    match insertVar h s 0 n v with
    | some h' => some (h', s)
    | none => none
  else
    let r := findVar h s n
    let s1 := r.2
    let index0 := match r.1 with | some i => i | none => s1.len - 1
    let index := if !semi && index0 == 0 then s1.len - 1 else index0
    let s2 := { s1 with cache := some (n, index) }
    match insertVar h s2 index n v with
    | some h' => some (h', s2)
    | none => none

/-- The evaluator's state as far as variables are concerned. -/
structure World where
  heap : Heap
  cur : Scopes                 -- `visitor.env.scopes`
  saved : List Scopes          -- the `old_env`s of the active `with_environment` calls
  closures : List Scopes       -- environments stored in mixins, functions and content blocks
deriving Repr, DecidableEq

def World.init : World :=
  { heap := [[]], cur := { vars := [0], len := 1, cache := none }, saved := [], closures := [] }

inductive Op where
  | enter                                   -- with_scope / @if / @each / @for: enter_new_scope
  | exit                                    -- … exit_scope
  | insertLast (n : Name) (v : Val)         -- loop variables and bound arguments
  | assign (n : Name) (v : Val) (semi : Bool)   -- `$n: v` (flag = in_semi_global_scope)
  | assignGlobal (n : Name) (v : Val)       -- `$n: v !global`
  | lookup (n : Name)                       -- `$n` in an expression
  | closure                                 -- @mixin / @function / content block: env.new_closure()
  | call (k : Nat)                          -- with_environment(closures[k].new_closure()) begins
  | imp                                     -- with_environment(env.for_import()) begins
  | ret                                     -- with_environment ends
deriving Repr, DecidableEq

def step (c : Cfg) (w : World) : Op → World × Out
  | .enter =>
    let (h, s) := enter w.heap w.cur
    ({ w with heap := h, cur := s }, .none)
  | .exit =>
    -- never issued by grass on a one-frame stack (enter/exit are paired): rejected, not modelled
    if w.cur.len ≤ 1 then (w, .rejected) else ({ w with cur := exit w.cur }, .none)
  | .insertLast n v =>
    match insertVarLast w.heap w.cur n v with
    | some (h, s) => ({ w with heap := h, cur := s }, .none)
    | none => (w, .panic)
  | .assign n v semi =>
    match envInsertVar w.heap w.cur n v false semi with
    | some (h, s) => ({ w with heap := h, cur := s }, .none)
    | none => (w, .panic)
  | .assignGlobal n v =>
    match envInsertVar w.heap w.cur n v true false with
    | some (h, s) => ({ w with heap := h, cur := s }, .none)
    | none => (w, .panic)
  | .lookup n =>
    let (o, s) := getVar w.heap w.cur n
    ({ w with cur := s }, o)
  | .closure =>
    ({ w with closures := w.closures ++ [w.cur.newClosure c] }, .none)
  | .call k =>
    match w.closures[k]? with
    | some cl => ({ w with cur := cl.newClosure c, saved := w.cur :: w.saved }, .none)
    | none => (w, .rejected)
  | .imp =>
    ({ w with cur := w.cur.newClosure c, saved := w.cur :: w.saved }, .none)
  | .ret =>
    match w.saved with
    | old :: rest =>
      ({ w with cur := if c.restoreKeepsCache then old else { old with cache := none },
                saved := rest }, .none)
    | [] => (w, .rejected)

def run (c : Cfg) : World → List Op → World × List Out
  | w, [] => (w, [])
  | w, op :: ops =>
    let (w1, o) := step c w op
    let (w2, os) := run c w1 ops
    (w2, o :: os)

/-! ### The cache-free specification

Sass scoping rules written directly (no `len` counter, no cache): a lookup finds the innermost
frame that declares the name; an assignment goes to the global frame when flagged `!global` or at
the root, otherwise to the innermost frame that already declares the name — except that a global
variable is only assigned from a local scope when that scope is semi-global (control flow at the
top level) — otherwise it declares the variable in the current frame. -/

structure SWorld where
  heap : Heap
  cur : List Nat
  saved : List (List Nat)
  closures : List (List Nat)
deriving Repr, DecidableEq

def SWorld.init : SWorld := { heap := [[]], cur := [0], saved := [], closures := [] }

def lookupSpec (h : Heap) : List Nat → Name → Out
  | [], _ => .undefined
  | f :: fs, n =>
    match getAt h f n with
    | some v => .val v
    | none => lookupSpec h fs n

/-- The frame an assignment writes to; `none` only for an empty stack. -/
def targetSpec (h : Heap) (vars : List Nat) (n : Name) (isGlobal semi : Bool) : Option Nat :=
  let top := vars.head?
  let glob := vars.getLast?
  if isGlobal || vars.length == 1 then glob
  else
    match find h vars n with
    | none => top
    | some i => if i == 0 then (if semi then glob else top) else frameAt vars i

def stepSpec (w : SWorld) : Op → SWorld × Out
  | .enter => ({ w with heap := w.heap ++ [[]], cur := w.heap.length :: w.cur }, .none)
  | .exit => if w.cur.length ≤ 1 then (w, .rejected) else ({ w with cur := w.cur.tail }, .none)
  | .insertLast n v =>
    match w.cur.head? with
    | some fid => ({ w with heap := putAt w.heap fid n v }, .none)
    | none => (w, .panic)
  | .assign n v semi =>
    match targetSpec w.heap w.cur n false semi with
    | some fid => ({ w with heap := putAt w.heap fid n v }, .none)
    | none => (w, .panic)
  | .assignGlobal n v =>
    match targetSpec w.heap w.cur n true false with
    | some fid => ({ w with heap := putAt w.heap fid n v }, .none)
    | none => (w, .panic)
  | .lookup n => (w, lookupSpec w.heap w.cur n)
  | .closure => ({ w with closures := w.closures ++ [w.cur] }, .none)
  | .call k =>
    match w.closures[k]? with
    | some cl => ({ w with cur := cl, saved := w.cur :: w.saved }, .none)
    | none => (w, .rejected)
  | .imp => ({ w with saved := w.cur :: w.saved }, .none)
  | .ret =>
    match w.saved with
    | old :: rest => ({ w with cur := old, saved := rest }, .none)
    | [] => (w, .rejected)

def runSpec : SWorld → List Op → SWorld × List Out
  | w, [] => (w, [])
  | w, op :: ops =>
    let (w1, o) := stepSpec w op
    let (w2, os) := runSpec w1 ops
    (w2, o :: os)

/-- Forgetting `len` and the cache. -/
def erase (w : World) : SWorld :=
  { heap := w.heap, cur := w.cur.vars, saved := w.saved.map (·.vars), closures := w.closures.map (·.vars) }

/-! ### The invariant, as a decidable predicate (also evaluated by the driver after every step) -/

def Scopes.wfB (h : Heap) (s : Scopes) : Bool :=
  s.len == s.vars.length && !s.vars.isEmpty && s.vars.all (· < h.length) && decide s.vars.Nodup

def Scopes.cacheOkB (h : Heap) (s : Scopes) : Bool :=
  match s.cache with
  | none => true
  | some (m, i) => find h s.vars m == some i

def invB (w : World) : Bool :=
  w.cur.wfB w.heap && w.cur.cacheOkB w.heap && w.saved.all (·.wfB w.heap) &&
  w.closures.all (·.wfB w.heap)

/-! ### driver -/
open Grass.Proto

def parseNV (s : String) : Option (Name × Val) :=
  match s.splitOn ":" with
  | [a, b] => do let n ← a.toNat?; let v ← b.toInt?; some (n, v)
  | _ => none

/-- `E` enter, `X` exit, `Ln:v` insertLast, `An:v` assign, `Sn:v` assign in a semi-global scope,
    `Gn:v` assign !global, `Rn` lookup, `C` closure, `Kk` call, `I` import, `T` return. -/
def parseOp (t : String) : Option Op :=
  let rest := (t.drop 1).toString
  match t.toList.head? with
  | some 'E' => if rest == "" then some .enter else none
  | some 'X' => if rest == "" then some .exit else none
  | some 'C' => if rest == "" then some .closure else none
  | some 'I' => if rest == "" then some .imp else none
  | some 'T' => if rest == "" then some .ret else none
  | some 'L' => (parseNV rest).map fun (n, v) => .insertLast n v
  | some 'A' => (parseNV rest).map fun (n, v) => .assign n v false
  | some 'S' => (parseNV rest).map fun (n, v) => .assign n v true
  | some 'G' => (parseNV rest).map fun (n, v) => .assignGlobal n v
  | some 'R' => rest.toNat?.map .lookup
  | some 'K' => rest.toNat?.map .call
  | _ => none

def outStr : Out → String
  | .none => "-" | .val v => s!"v{v}" | .undefined => "u" | .panic => "p" | .rejected => "r"

def outsStr (os : List Out) : String := if os.isEmpty then "-" else ",".intercalate (os.map outStr)

/-- Does the invariant hold after every prefix? -/
def invAlong (c : Cfg) : World → List Op → Bool
  | w, [] => invB w
  | w, op :: ops => invB w && invAlong c (step c w op).1 ops

/-- P̂ for one operation sequence and one observed list of outputs: the observation equals what the
    cache-free specification produces.  Returns the first differing position. -/
def checkObserved (ops : List Op) (obs : List Out) : Option Nat :=
  let spec := (runSpec .init ops).2
  if spec.length != obs.length then some (min spec.length obs.length) else
  (List.range spec.length).find? fun i => spec[i]? != obs[i]?

def parseOut (t : String) : Option Out :=
  if t == "-" then some .none else if t == "u" then some .undefined else if t == "p" then some .panic
  else if t == "r" then some .rejected
  else if t.startsWith "v" then (t.drop 1).toString.toInt?.map .val else none

def handle : List String → String
  | "run" :: ts =>
    match ts.mapM parseOp with
    | some ops =>
      let now := (run .now .init ops).2
      let spec := (runSpec .init ops).2
      let a := (run .asFoundClosure .init ops).2
      let b := (run .asFoundRestore .init ops).2
      s!"ok {outsStr now} | {outsStr spec} | {outsStr a} | {outsStr b} | inv={boolStr (invAlong .now .init ops)}"
    | none => "bad-op"
  | "check" :: n :: rest =>
    -- check <n> <op_1> … <op_n> <out_1> … <out_n>
    match n.toNat? with
    | some n =>
      match (rest.take n).mapM parseOp, (rest.drop n).mapM parseOut with
      | some ops, some obs =>
        if ops.length != n then "bad-op" else
        match checkObserved ops obs with
        | none => "ok holds"
        | some i => s!"ok fails {i}"
      | _, _ => "bad-op"
    | none => "bad-op"
  | _ => "bad-op"

end Grass.Scope
