import Grass.Proto
import Grass.Generated.ModuleAliases
/-
  C12 core — the module system: `@use`, `@forward`, member views, configuration, loader.

  Written from the Rust text (paths relative to /repo/crates/compiler/src):
    evaluate/visitor.rs   visit_use_rule :723, visit_forward_rule :268, add_forward_configuration :343,
                          remove_used_configuration :389, execute :550, load_module :651,
                          assert_configuration_is_empty :765, visit_variable_decl :1973
    evaluate/env.rs       insert_var :341, add_module :430, from_one_module :464, forward_module :241
    builtin/modules/mod.rs ForwardedModule::forwarded_map :156, member_map :304, Module::new_env :324,
                          update_var :402, variables/functions :483
    utils/map_view.rs     BaseMapView :71, PrefixedMapView :133, LimitedMapView :195, MergedMapView :262,
                          PublicMemberMapView :316
    ast/stmt.rs           Configuration::through_forward :310, with_values :340
    parse/stylesheet.rs   assert_public :2648 (private names behind a namespace are a syntax error)
    common.rs             Identifier::from_str :131 (`_` ↦ `-`), is_public :139

  Values are opaque tokens (`Val = Nat`), identifiers are `List Char` *after* `Identifier`
  normalisation (`norm`).  Member bodies are trivial: a function returns a constant naming itself
  and its module (or the current value of one of its module's variables), a mixin emits a marker.
  Paths: a source file is identified by its canonical path — what `Fs::canonicalize` returns for it
  (`ModSrc.path`, components, the last one the file stem; `_a` for the partial `_a.scss`).  A URL
  (`Url`) is resolved from the directory of the importing file's canonical path, then from every load
  path, `name` before `_name` (`candidates`, `resolve`); canonicalisation is the identity (in-memory
  Fs, the trait's default) or lexical (real disk).  Index files, other extensions and `.import` files
  are C13's and not modelled; module file names contain no `_` except the partial marker.

  Deviations of the code from the property are explicit switches (`Switches`); the theorems are
  about `Switches.spec`, the correspondence runs against `Switches.now`.
-/
namespace Grass.Module

abbrev Ident := List Char
abbrev Val := Nat

/-- `Identifier::from_str` (common.rs:131): underscores and hyphens are the same character. -/
def normChar (c : Char) : Char := if c = '_' then '-' else c
def norm (s : Ident) : Ident := s.map normChar

/-- negation of `Identifier::is_public` (common.rs:139), on a normalised identifier. -/
def isPrivate (n : Ident) : Bool := n.head? == some '-'

inductive Kind where
  | var | fn | mixin
  deriving DecidableEq, Repr, Inhabited

/-- One switch per deviation of the code from the property that was found. `true` = behaviour as
    found at the time; all five are repaired in /repo by `fix:` commits, so the code as it stands
    (`Switches.now`) has every switch off.  The old variants stay for the `C12_asFound_…` witnesses
    and for classifying a regression. -/
structure Switches where
  /-- D7 (fixed, 8af3fae): `forwarded_map` ignored the show/hide lists. -/
  ignoreLists : Bool
  /-- F1 (fixed, cb68e5b): `PrefixedMapView::keys` (map_view.rs:169) kept only upstream keys that
      already start with the prefix (copy of `UnprefixedMapView::keys`). -/
  prefixedKeysBug : Bool
  /-- F2 (fixed, e12a9ef): `Configuration::with_values` (ast/stmt.rs:340) dropped the span: a
      configuration passed through `@forward` was always implicit, so a `@forward … with` below it
      was never checked.  Now the span of the source configuration is kept. -/
  fwdCfgImplicit : Bool
  /-- F3 (fixed, 278f1b5): `iter()` was `unimplemented!()` for the view types used by
      `through_forward` and visitor.rs:348 calls it.  Now `MapView::iter` defaults to
      `keys().filter_map(get)` (map_view.rs:24). -/
  viewIterPanics : Bool
  /-- F4 (fixed, 7ee64b7): `MergedMapView::insert` (map_view.rs:292) was `unreachable!()` for an
      unknown key.  Now it returns `None`, which `update_var` reports as "Undefined variable.". -/
  mergedInsertPanics : Bool
  deriving DecidableEq, Repr

def Switches.spec : Switches := ⟨false, false, false, false, false⟩
/-- the code as it stands in /repo now: the specified behaviour -/
def Switches.now : Switches := ⟨false, false, false, false, false⟩
/-- the tree after the D7 fix and before the fixes of F1–F4 -/
def Switches.beforeFixes : Switches := ⟨false, true, true, true, true⟩
/-- the pinned tree (before the D7 fix) -/
def Switches.pinned : Switches := ⟨true, true, true, true, true⟩

/-! ### member views (utils/map_view.rs) -/

/-- Which module declared the member, and under which name. -/
structure Origin where
  owner : Nat
  name  : Ident
  deriving DecidableEq, Repr, Inhabited

/-- A `MapView`: `get`, `keys()` and `!is_empty()` (the only use of `len()`). -/
structure View where
  get : Ident → Option Origin
  keys : List Ident
  nonempty : Bool

def View.empty : View := ⟨fun _ => none, [], false⟩

/-- `BaseMapView` over the module's own global members (private ones included). -/
def View.base (owner : Nat) (own : List Ident) : View :=
  ⟨fun n => if own.contains n then some ⟨owner, n⟩ else none, own, !own.isEmpty⟩

/-- `PublicMemberMapView` (:316). `len` is the underlying length. -/
def View.pub (v : View) : View :=
  ⟨fun n => if isPrivate n then none else v.get n, v.keys.filter (fun k => !isPrivate k), v.nonempty⟩

/-- `PrefixedMapView` (:133). -/
def View.prefixed (keysBug : Bool) (v : View) (p : Ident) : View :=
  ⟨fun n => if p.isPrefixOf n then v.get (n.drop p.length) else none,
   (if keysBug then v.keys.filter (fun k => p.isPrefixOf k) else v.keys).map (fun k => p ++ k),
   v.nonempty⟩

/-- `LimitedMapView::safelist` (:201): the key set is fixed at construction. -/
def View.safelist (v : View) (safe : List Ident) : View :=
  let ks := safe.filter (fun k => (v.get k).isSome)
  ⟨fun n => if ks.contains n then v.get n else none, ks, !ks.isEmpty⟩

/-- `LimitedMapView::blocklist` (:211). -/
def View.blocklist (v : View) (block : List Ident) : View :=
  let ks := v.keys.filter (fun k => !block.contains k)
  ⟨fun n => if ks.contains n then v.get n else none, ks, !ks.isEmpty⟩

/-- `MergedMapView` (:262): later maps win; the key set is the union taken at construction. -/
def View.merged (vs : List View) : View :=
  let ks := (vs.flatMap (·.keys)).eraseDups
  ⟨fun n => vs.reverse.findSome? (fun v => v.get n), ks, !ks.isEmpty⟩

/-! ### `@forward` rules and completed modules -/

/-- show/hide lists of a `@forward` (AstForwardRule, ast/stmt.rs:429): variables and
    mixins-and-functions are separate sets; names are the *forwarded* (prefixed) names. -/
inductive Vis where
  | all
  | allow (vars fns : List Ident)
  | hide (vars fns : List Ident)
  deriving DecidableEq, Repr, Inhabited

structure FwdRule where
  pfx : Option Ident
  vis : Vis
  deriving DecidableEq, Repr, Inhabited

def Vis.safe (v : Vis) (k : Kind) : Option (List Ident) :=
  match v with
  | .allow vs fs => some (if k = .var then vs else fs)
  | _ => none

def Vis.block (v : Vis) (k : Kind) : Option (List Ident) :=
  match v with
  | .hide vs fs => some (if k = .var then vs else fs)
  | _ => none

/-- does the show/hide list of this kind let the (forwarded) name through -/
def visAllows (vis : Vis) (k : Kind) (n : Ident) : Bool :=
  match vis.safe k, vis.block k with
  | some s, _ => s.contains n
  | none, some b => !b.contains n
  | none, none => true

/-- the `LimitedMapView` part of `forwarded_map` (mod.rs:172-178) -/
def limitBy (vis : Vis) (k : Kind) (v1 : View) : View :=
  match vis.safe k, vis.block k with
  | some s, _ => View.safelist v1 s
  | none, some b => if b.isEmpty then v1 else View.blocklist v1 b
  | none, none => v1

/-- the `PrefixedMapView` part of `forwarded_map` (mod.rs:168) -/
def prefixBy (keysBug : Bool) (pfx : Option Ident) (v : View) : View :=
  match pfx with
  | some p => View.prefixed keysBug v p
  | none => v

/-- `ForwardedModule::forwarded_map` (mod.rs:156). -/
def forwardedMap (sw : Switches) (k : Kind) (r : FwdRule) (v : View) : View :=
  let v1 := prefixBy sw.prefixedKeysBug r.pfx v
  if sw.ignoreLists then v1 else limitBy r.vis k v1

structure Fwd where
  rule : FwdRule
  target : Nat
  deriving DecidableEq, Repr, Inhabited

inductive FnBody where
  | const
  | getter (v : Ident)
  deriving DecidableEq, Repr, Inhabited

/-- A completed module (`Module::Environment`): its own global members and the modules it
    forwards, in order (`env.forwarded_modules`). -/
structure Mod where
  path : Ident
  vars : List (Ident × Val)
  fns : List (Ident × FnBody)
  mixins : List Ident
  fwds : List Fwd
  /-- `env.global_modules` of the module (`as *`): where its own functions look up free variables -/
  globals : List Nat
  /-- `env.modules` of the module (namespace ↦ module); kept so that the whole dependency graph of
      the completed modules can be read off the cache (`ModsWF`) -/
  nss : List (Ident × Nat)
  deriving DecidableEq, Repr, Inhabited

def Mod.names (m : Mod) : Kind → List Ident
  | .var => m.vars.map (·.1)
  | .fn => m.fns.map (·.1)
  | .mixin => m.mixins

/-- `member_map` (mod.rs:304). -/
def memberMap (loc : View) (others : List View) : View :=
  let l := View.pub loc
  if others.isEmpty then l else View.merged (others.filter (·.nonempty) ++ [l])

/-- `Module::scope()` of the module with id `id`.  Completed modules are kept newest first; the id
    of a module is the number of modules completed before it, so the forwards of a module refer to
    the tail of the list (`Module::new_env`, mod.rs:324). -/
def scopeView (sw : Switches) (k : Kind) : List Mod → Nat → View
  | [], _ => View.empty
  | m :: rest, id =>
    if id = rest.length then
      memberMap (View.base id (m.names k))
        (m.fwds.map fun f => forwardedMap sw k f.rule (scopeView sw k rest f.target))
    else scopeView sw k rest id

def setAssoc (l : List (Ident × Val)) (n : Ident) (v : Val) : List (Ident × Val) :=
  if l.any (·.1 == n) then l.map (fun e => if e.1 == n then (n, v) else e) else l ++ [(n, v)]

def readVar : List Mod → Nat → Ident → Option Val
  | [], _, _ => none
  | m :: rest, id, n => if id = rest.length then m.vars.lookup n else readVar rest id n

/-- `BaseMapView::insert` on an existing key of module `id`. -/
def setVar : List Mod → Nat → Ident → Val → List Mod
  | [], _, _, _ => []
  | m :: rest, id, n, v =>
    if id = rest.length then { m with vars := setAssoc m.vars n v } :: rest
    else m :: setVar rest id n v

def modAt : List Mod → Nat → Option Mod
  | [], _ => none
  | m :: rest, id => if id = rest.length then some m else modAt rest id

/-! ### configuration (ast/stmt.rs:302) -/

inductive CfgLayer where
  | unprefixed (p : Ident)
  | limited (keys : List Ident)
  deriving DecidableEq, Repr, Inhabited

/-- A `Configuration`: the shared `BaseMapView` plus the view layers through which this
    configuration sees it (innermost first), and whether it has a span (explicit). -/
structure Cfg where
  base : List (Ident × Val)
  layers : List CfgLayer
  explicit : Bool
  deriving DecidableEq, Repr, Inhabited

def Cfg.empty : Cfg := ⟨[], [], false⟩

/-- the name in the base map a view name stands for (`UnprefixedMapView::get` :100,
    `LimitedMapView::get` :224) -/
def viaLayers : List CfgLayer → Ident → Option Ident
  | [], n => some n
  | .limited ks :: ls, n => if ks.contains n then viaLayers ls n else none
  | .unprefixed p :: ls, n => viaLayers ls (p ++ n)

def Cfg.get (c : Cfg) (n : Ident) : Option Val :=
  (viaLayers c.layers n).bind (fun b => c.base.lookup b)

def eraseKey (l : List (Ident × Val)) (n : Ident) : List (Ident × Val) := l.filter (fun e => e.1 != n)

def Cfg.remove (c : Cfg) (n : Ident) : Option Val × Cfg :=
  match viaLayers c.layers n with
  | none => (none, c)
  | some b => (c.base.lookup b, { c with base := eraseKey c.base b })

def layerKeys : List CfgLayer → List Ident → List Ident
  | [], bk => bk
  | .limited ks :: _, _ => ks
  | .unprefixed p :: ls, bk => ((layerKeys ls bk).filter (fun k => p.isPrefixOf k)).map (fun k => k.drop p.length)

def Cfg.keys (c : Cfg) : List Ident := layerKeys c.layers (c.base.map (·.1))

/-- `is_empty` = `len() == 0`; `UnprefixedMapView::len` is the underlying length (:115),
    `LimitedMapView::len` the size of the fixed key set (:248). -/
def layersEmpty : List CfgLayer → Bool → Bool
  | [], b => b
  | .limited ks :: _, _ => ks.isEmpty
  | .unprefixed _ :: ls, b => layersEmpty ls b

def Cfg.isEmpty (c : Cfg) : Bool := layersEmpty c.layers c.base.isEmpty

/-- `Configuration::through_forward` (:310).  Second component: the result shares the base map
    with the argument (removals are seen by it). -/
def throughForward (sw : Switches) (c : Cfg) (r : FwdRule) : Cfg × Bool :=
  if c.isEmpty then (Cfg.empty, false) else
  let ls1 := match r.pfx with
    | some p => CfgLayer.unprefixed p :: c.layers
    | none => c.layers
  let c1 : Cfg := { c with layers := ls1 }
  let ls2 := match r.vis with
    | .allow vs _ => CfgLayer.limited (vs.filter fun k => (c1.get k).isSome) :: ls1
    | .hide vs _ => CfgLayer.limited (c1.keys.filter fun k => !vs.contains k) :: ls1
    | .all => ls1
  ({ base := c.base, layers := ls2, explicit := if sw.fwdCfgImplicit then false else c.explicit }, true)

/-- `assert_configuration_is_empty` (visitor.rs:765) -/
def Cfg.leftover (c : Cfg) : Bool := !(c.isEmpty || !c.explicit)

/-! ### sources -/

/-- A path: its components (`..` is kept as a component, `.` is dropped — `Path::components`). -/
abbrev FsPath := List Ident

/-- The URL of a `@use`/`@forward` together with the static context it is resolved in. -/
structure Url where
  /-- directory of the importing file: the parent of its *canonical* path (`current_import_path`) -/
  dir : FsPath
  /-- directory part of the URL as written (`../x`, `x/..`, …) -/
  segs : FsPath
  base : Ident
  underscore : Bool          -- spelled with a leading `_`
  /-- spelled with `.scss` (tried literally and as a partial, relative first and then in every
      load path, visitor.rs:846; for this core the same candidates as without the extension) -/
  ext : Bool
  /-- `Options::load_paths`, in order -/
  loadPaths : List FsPath
  /-- what `Fs::canonicalize` does: `false` = the identity (the trait's default, the in-memory Fs),
      `true` = `..` is resolved lexically (the real disk without symlinks) -/
  lexical : Bool
  deriving DecidableEq, Repr, Inhabited

def Url.flat (base : Ident) (underscore : Bool) : Url := ⟨[], [], base, underscore, false, [], false⟩

inductive UseNs where
  | dflt | named (n : Ident) | star
  deriving DecidableEq, Repr, Inhabited

/-- What the inclusion of an `@import`ed / `load-css`ed sheet can fail with before any of its
    statements runs (`expandStmt` below decides it from the project text). -/
inductive ImpErr where
  | notFound | privateAccess | importLoop | unsupported
  deriving DecidableEq, Repr, Inhabited

inductive Stmt where
  /-- `$name: val [!default]` at the root -/
  | var (name : Ident) (val : Val) (guarded : Bool)
  | fn (name : Ident) (body : FnBody)
  | mixin (name : Ident)
  /-- the CSS marker rule -/
  | css
  /-- `@debug` marker -/
  | dbg
  | use (url : Url) (ns : UseNs) (cfg : List (Ident × Val))
  | forward (url : Url) (rule : FwdRule) (cfg : List (Ident × Val × Bool))
  /-- `ns.$name: val [!default]` -/
  | assign (ns : Ident) (name : Ident) (val : Val) (guarded : Bool)
  /-- member reference: `ns.$n`, `ns.n()`, `@include ns.n` or the bare forms; `guarded` wraps it in
      `@if meta.global-variable-exists/function-exists/mixin-exists(n, ns)` -/
  | probe (id : Nat) (guarded : Bool) (k : Kind) (ns : Option Ident) (name : Ident)
  /-- `meta.module-variables(ns)` / `meta.module-functions(ns)` key set -/
  | pkeys (id : Nat) (k : Kind) (ns : Ident)
  /-- a `$name: val !default` that is NOT at the root of the stylesheet, followed by a read of `$name`:
      inside a style rule (`ctx` 0), a top-level `@if` (1) or `@each` (2) block, or the body of a mixin (3)
      or function (4) the module calls while loading.  `env.at_root()` (env.rs:394: one scope only) is
      false in all of these, so `visit_variable_decl` (visitor.rs:1980) does not consult the `with`
      configuration; the declaration is local and creates no module member. -/
  | nested (id : Nat) (ctx : Nat) (name : Ident) (val : Val)
  /-- an `@import` / `meta.load-css` that fails where it stands (file not found, syntax error in the
      sheet, sheet already being imported, or outside the model); produced by `expandStmt` only -/
  | fail (e : ImpErr)
  /-- `@include meta.load-css(url, $with: cfg)` as SPECIFIED: the sheet is loaded as a module exactly
      like `@use url with (cfg)` (once per compilation, same cache, same configuration rules) but no
      namespace is added — none of its members becomes visible to the caller.  The code as it stands
      does not do this (known finding C12-loadCssIsImport, `XSwitches.loadCssIsImport`). -/
  | loadCssSpec (url : Url) (cfg : List (Ident × Val))
  deriving DecidableEq, Repr, Inhabited

/-- A source file. `name` identifies it in traces and in the cache; `path` is its canonical path —
    what `Fs::canonicalize` returns for it — as components, the last one being the file stem
    (`_a` for the partial `_a.scss`).  "The same module" means: the same canonical path. -/
structure ModSrc where
  name : Ident
  path : FsPath
  body : List Stmt
  deriving DecidableEq, Repr, Inhabited

def ModSrc.flat (name : Ident) (partialFile : Bool) (body : List Stmt) : ModSrc :=
  ⟨name, [if partialFile then '_' :: name else name], body⟩

abbrev Project := List ModSrc

/-- lexical resolution of `..` -/
def normPath : FsPath → FsPath → FsPath
  | acc, [] => acc.reverse
  | acc, c :: rest => if c = ['.', '.'] then normPath (acc.drop 1) rest else normPath (c :: acc) rest

/-- the literal paths `find_import` probes, in order (visitor.rs:809; `.scss` only, no index files):
    relative to the importing file first — the file, then the partial — then every load path -/
def candidates (u : Url) : List FsPath :=
  let stem : Ident := if u.underscore then '_' :: u.base else u.base
  let dirs := (u.dir ++ u.segs) :: u.loadPaths.map (· ++ u.segs)
  dirs.flatMap fun d => [d ++ [stem], d ++ [('_' :: stem)]]

/-- `find_import` + `Fs::canonicalize` (visitor.rs:898): the first candidate that is a file; the
    module is the one with that canonical path.  On the in-memory Fs a literal path is a file iff it
    is a key (component-wise), and canonicalisation is the identity; on the real disk (no symlinks,
    every directory mentioned exists) iff its lexical normal form is a file. -/
def resolve (proj : Project) (u : Url) : Option ModSrc :=
  (candidates u).findSome? fun c =>
    let canon := if u.lexical then normPath [] c else c
    proj.find? fun m => m.path == canon

/-- Namespaced references to private names are rejected by the parser (`assert_public`). -/
def Stmt.privateRef : Stmt → Bool
  | .assign _ n _ _ => isPrivate n
  | .probe _ false _ (some _) n => isPrivate n     -- a guarded probe of a private name is an existence check only
  | _ => false

def ModSrc.parseError (m : ModSrc) : Bool := m.body.any Stmt.privateRef

/-! ### evaluation -/

inductive Err where
  | moduleLoop | notFound | nsExists | noSuchNs | undefVar | undefFn | undefMixin
  | privateAccess | withNotDefault | starConflict | panic | outOfFuel
  /-- "This file is already being loaded." (visitor.rs:968, `@import` of a sheet that is being imported) -/
  | importLoop
  /-- the input is outside what this model covers (never an answer about grass) -/
  | unsupported
  deriving DecidableEq, Repr, Inhabited

inductive PRes where
  | absent
  | val (v : Val)
  | fn (ownerPath : Ident) (name : Ident)
  | mixin (ownerPath : Ident) (name : Ident)
  | plain
  | keys (ks : List Ident)
  deriving DecidableEq, Repr, Inhabited

inductive Event where
  | dbg (p : Ident)
  | css (p : Ident)
  | probe (id : Nat) (r : PRes)
  deriving DecidableEq, Repr, Inhabited

/-- Visitor state shared by all modules of one compilation. -/
structure St where
  /-- completed modules, newest first (`visitor.modules`, keyed by `Mod.path`) -/
  mods : List Mod
  /-- `visitor.active_modules` -/
  active : List Ident
  /-- paths whose evaluation has started, in order (ghost: what `loads_once` is about) -/
  entered : List Ident
  trace : List Event
  deriving Repr, Inhabited

/-- The environment of the module being evaluated. -/
structure Env where
  path : Ident
  vars : List (Ident × Val)
  fns : List (Ident × FnBody)
  mixins : List Ident
  fwds : List Fwd
  /-- `env.modules`: namespace ↦ module -/
  nss : List (Ident × Nat)
  /-- `env.global_modules` (`as *`) -/
  globals : List Nat
  deriving Repr, Inhabited

def Env.new (p : Ident) : Env := ⟨p, [], [], [], [], [], []⟩

def Env.toMod (e : Env) : Mod := ⟨e.path, e.vars, e.fns, e.mixins, e.fwds, e.globals, e.nss⟩

structure Out (α : Type) where
  st : St
  res : Except Err α

def St.emit (st : St) (e : Event) : St := { st with trace := st.trace ++ [e] }
def St.withMods (st : St) (ms : List Mod) : St := { st with mods := ms }

/-- `from_one_module` over `global_modules` (env.rs:489): the last module that has it wins. -/
def fromGlobals (sw : Switches) (k : Kind) (ms : List Mod) (globals : List Nat) (n : Ident) : Option Origin :=
  globals.reverse.findSome? fun g => (scopeView sw k ms g).get n

def findLoaded : List Mod → Ident → Option Nat
  | [], _ => none
  | m :: rest, p => if m.path == p then some rest.length else findLoaded rest p

def pathOf (ms : List Mod) (id : Nat) : Ident :=
  match modAt ms id with
  | some m => m.path
  | none => []

/-- `$v` evaluated in the environment of a module: own globals first, then its global modules
    (env.rs:329) -/
def envVar (sw : Switches) (ms : List Mod) (vars : List (Ident × Val)) (globals : List Nat) (v : Ident) : PRes :=
  match vars.lookup v with
  | some x => .val x
  | none =>
    match fromGlobals sw .var ms globals v with
    | some o => match readVar ms o.owner o.name with
      | some x => .val x
      | none => .absent
    | none => .absent

/-- value of a function call: a constant naming the function, or a variable of its module -/
def callFn (sw : Switches) (ms : List Mod) (o : Origin) : PRes :=
  match modAt ms o.owner with
  | none => .absent
  | some m =>
    match m.fns.lookup o.name with
    | some (.getter v) => envVar sw ms m.vars m.globals v
    | _ => .fn m.path o.name

/-- `insert_var` at the root without a namespace (env.rs:356). -/
def insertRoot (sw : Switches) (env : Env) (st : St) (n : Ident) (v : Val) : Env × St :=
  if env.vars.any (·.1 == n) then ({ env with vars := setAssoc env.vars n v }, st) else
  match fromGlobals sw .var st.mods env.globals n with
  | some o => (env, st.withMods (setVar st.mods o.owner o.name v))
  | none => ({ env with vars := setAssoc env.vars n v }, st)

def undefErr : Kind → Err
  | .var => .undefVar | .fn => .undefFn | .mixin => .undefMixin

def resOf (sw : Switches) (ms : List Mod) (k : Kind) (o : Origin) : PRes :=
  match k with
  | .var => match readVar ms o.owner o.name with
    | some v => .val v
    | none => .absent
  | .fn => callFn sw ms o
  | .mixin => .mixin (pathOf ms o.owner) o.name

/-- a member reference from the module being evaluated -/
def lookupMember (sw : Switches) (env : Env) (st : St) (k : Kind) (ns : Option Ident) (n : Ident) :
    Except Err (Option PRes) :=
  match ns with
  | some s =>
    match env.nss.lookup s with
    | none => .error .noSuchNs
    | some id => .ok (((scopeView sw k st.mods id).get n).map (resOf sw st.mods k))
  | none =>
    -- own scope first, then the global modules (env.rs:267/298/329)
    let own : Option PRes := match k with
      | .var => (env.vars.lookup n).map .val
      | .fn => (env.fns.lookup n).map fun b => match b with
        | .getter v => envVar sw st.mods env.vars env.globals v
        | .const => .fn env.path n
      | .mixin => if env.mixins.contains n then some (.mixin env.path n) else none
    match own with
    | some r => .ok (some r)
    | none => .ok ((fromGlobals sw k st.mods env.globals n).map (resOf sw st.mods k))

abbrev LoadF := Url → Cfg → St → Out (Nat × Cfg)

def ImpErr.toErr : ImpErr → Err
  | .notFound => .notFound | .privateAccess => .privateAccess | .importLoop => .importLoop
  | .unsupported => .unsupported

def removeAll : List Ident → Cfg → Cfg
  | [], c => c
  | n :: ns, c => removeAll ns (c.remove n).2

/-- `remove_used_configuration` (visitor.rs:389) -/
def removeUsed (upstream downstream : Cfg) (except_ : List Ident) : Cfg :=
  let dk := downstream.keys
  removeAll (upstream.keys.filter fun n => !except_.contains n && !dk.contains n) upstream

/-- the loop of `add_forward_configuration` (visitor.rs:350): a guarded (`!default`) entry takes
    the value the incoming configuration has for it (and removes it there), any other entry its own -/
def fwdCfgLoop : List (Ident × Val × Bool) → Cfg → List (Ident × Val) → Cfg × List (Ident × Val)
  | [], adj, nv => (adj, nv)
  | e :: rest, adj, nv =>
    if e.2.2 then
      match adj.remove e.1 with
      | (some old, adj') => fwdCfgLoop rest adj' (setAssoc nv e.1 old)
      | (none, adj') => fwdCfgLoop rest adj' (setAssoc nv e.1 e.2.1)
    else fwdCfgLoop rest adj (setAssoc nv e.1 e.2.1)

/-- `add_forward_configuration` (visitor.rs:343): the new configuration starts as a copy of what is
    visible of the incoming one (`values.iter()`, map_view.rs:24 = `keys().filter_map(get)`). -/
def addForwardCfg (adj : Cfg) (cfg : List (Ident × Val × Bool)) : Cfg × Cfg :=
  let start : List (Ident × Val) := adj.keys.filterMap fun k => (adj.get k).map fun v => (k, v)
  let r := fwdCfgLoop cfg adj start
  -- explicit iff the incoming configuration is explicit or (now, after the guarded removals) empty
  (r.1, { base := r.2, layers := [], explicit := r.1.explicit || r.1.isEmpty })

/-- `add_module` (env.rs:430): a namespace must be new; `as *` must not clash with a variable this
    module has already declared. -/
def addModule (sw : Switches) (env : Env) (ns : UseNs) (dflt : Ident) (id : Nat) (ms : List Mod) : Except Err Env :=
  match ns with
  | .star =>
    if env.vars.any (fun e => ((scopeView sw .var ms id).get e.1).isSome) then .error .starConflict
    else .ok { env with globals := env.globals ++ [id] }
  | .named n => if env.nss.any (·.1 == n) then .error .nsExists else .ok { env with nss := env.nss ++ [(n, id)] }
  | .dflt => if env.nss.any (·.1 == dflt) then .error .nsExists else .ok { env with nss := env.nss ++ [(dflt, id)] }

def step (sw : Switches) (loadF : LoadF) (s : Stmt) (env : Env) (cfg : Cfg) (st : St) : Out (Env × Cfg) :=
  match s with
  | .var n v guarded =>
    if guarded then
      match cfg.remove n with
      | (some cv, cfg') => let (env', st') := insertRoot sw env st n cv; ⟨st', .ok (env', cfg')⟩
      | (none, cfg') =>
        if env.vars.any (·.1 == n) then ⟨st, .ok (env, cfg')⟩
        else let (env', st') := insertRoot sw env st n v; ⟨st', .ok (env', cfg')⟩
    else let (env', st') := insertRoot sw env st n v; ⟨st', .ok (env', cfg)⟩
  | .fn n b => ⟨st, .ok ({ env with fns := env.fns.filter (·.1 != n) ++ [(n, b)] }, cfg)⟩
  | .mixin n => ⟨st, .ok ({ env with mixins := if env.mixins.contains n then env.mixins else env.mixins ++ [n] }, cfg)⟩
  | .css => ⟨st.emit (.css env.path), .ok (env, cfg)⟩
  | .dbg => ⟨st.emit (.dbg env.path), .ok (env, cfg)⟩
  | .use url ns withs =>
    let c0 : Cfg := if withs.isEmpty then Cfg.empty else ⟨withs, [], true⟩
    let o := loadF url c0 st
    match o.res with
    | .error e => ⟨o.st, .error e⟩
    | .ok (id, c1) =>
      let added := addModule sw env ns url.base id o.st.mods
      match added with
      | .error e => ⟨o.st, .error e⟩
      | .ok env' => if c1.leftover then ⟨o.st, .error .withNotDefault⟩ else ⟨o.st, .ok (env', cfg)⟩
  | .forward url rule withs =>
    let (adj, shared) := throughForward sw cfg rule
    if withs.isEmpty then
      let o := loadF url adj st
      match o.res with
      | .error e => ⟨o.st, .error e⟩
      | .ok (id, adj') =>
        let cfg' := if shared then { cfg with base := adj'.base } else cfg
        ⟨o.st, .ok ({ env with fwds := env.fwds ++ [⟨rule, id⟩] }, cfg')⟩
    else
      if sw.viewIterPanics && !adj.layers.isEmpty then ⟨st, .error .panic⟩ else
      let (adj1, newCfg) := addForwardCfg adj withs
      let o := loadF url newCfg st
      match o.res with
      | .error e => ⟨o.st, .error e⟩
      | .ok (id, new1) =>
        let env' := { env with fwds := env.fwds ++ [⟨rule, id⟩] }
        let adj2 := removeUsed adj1 new1 ((withs.filter fun e => !e.2.2).map (·.1))
        let names := withs.map (·.1)
        let new2 : Cfg := { new1 with base := new1.base.filter fun e => names.contains e.1 }
        let cfg' := if shared then { cfg with base := adj2.base } else cfg
        if new2.leftover then ⟨o.st, .error .withNotDefault⟩ else ⟨o.st, .ok (env', cfg')⟩
  | .assign ns n v guarded =>
    match env.nss.lookup ns with
    | none => ⟨st, .error .noSuchNs⟩
    | some id =>
      match (scopeView sw .var st.mods id).get n with
      | some o => if guarded then ⟨st, .ok (env, cfg)⟩ else ⟨st.withMods (setVar st.mods o.owner o.name v), .ok (env, cfg)⟩
      | none =>
        -- `update_var` (mod.rs:402): `MergedMapView::insert` of an unknown key is `unreachable!()`
        let merged := match modAt st.mods id with
          | some m => !m.fwds.isEmpty
          | none => false
        ⟨st, .error (if sw.mergedInsertPanics && merged then .panic else .undefVar)⟩
  | .probe pid guarded k ns n =>
    match lookupMember sw env st k ns n with
    | .error e => ⟨st, .error e⟩
    | .ok (some r) => ⟨st.emit (.probe pid r), .ok (env, cfg)⟩
    | .ok none =>
      if guarded then ⟨st.emit (.probe pid .absent), .ok (env, cfg)⟩
      else if k = .fn && ns.isNone then ⟨st.emit (.probe pid .plain), .ok (env, cfg)⟩   -- unknown bare function = plain CSS
      else ⟨st, .error (undefErr k)⟩
  | .nested pid _ n v =>
    -- `var_exists` looks through the scopes only (own globals, not `as *` modules): an existing own
    -- global keeps its value, otherwise the local gets `v`; nothing else changes
    ⟨st.emit (.probe pid (.val ((env.vars.lookup n).getD v))), .ok (env, cfg)⟩
  | .pkeys pid k ns =>
    match env.nss.lookup ns with
    | none => ⟨st, .error .noSuchNs⟩
    | some id =>
      -- `Module::variables` / `functions` (mod.rs:483): `iter()` over the key set, minus private names
      let ks := ((scopeView sw k st.mods id).keys.filter fun x => !isPrivate x)
      ⟨st.emit (.probe pid (.keys ks)), .ok (env, cfg)⟩
  | .fail e => ⟨st, .error e.toErr⟩
  | .loadCssSpec url withs =>
    let c0 : Cfg := if withs.isEmpty then Cfg.empty else ⟨withs, [], true⟩
    let o := loadF url c0 st
    match o.res with
    | .error e => ⟨o.st, .error e⟩
    | .ok (_, c1) => if c1.leftover then ⟨o.st, .error .withNotDefault⟩ else ⟨o.st, .ok (env, cfg)⟩

def evalStmts (sw : Switches) (loadF : LoadF) : List Stmt → Env → Cfg → St → Out (Env × Cfg)
  | [], env, cfg, st => ⟨st, .ok (env, cfg)⟩
  | s :: rest, env, cfg, st =>
    let o := step sw loadF s env cfg st
    match o.res with
    | .error e => ⟨o.st, .error e⟩
    | .ok (env', cfg') => evalStmts sw loadF rest env' cfg' o.st

/-- `load_module` (visitor.rs:651) + `execute` (:550) for a user module.  `cfg` is the
    configuration in effect while the module body runs; the remaining configuration is returned.
    Fuel bounds the nesting depth of module evaluations only (`C12_fuel_suffices`). -/
def load (sw : Switches) (proj : Project) : Nat → LoadF
  | 0 => fun _ _ st => ⟨st, .error .outOfFuel⟩
  | fuel + 1 => fun url cfg st =>
    match resolve proj url with
    | none => ⟨st, .error .notFound⟩
    | some src =>
      if src.parseError then ⟨st, .error .privateAccess⟩ else
      if st.active.contains src.name then ⟨st, .error .moduleLoop⟩ else
      match findLoaded st.mods src.name with
      | some id => ⟨st, .ok (id, cfg)⟩
      | none =>
        let st1 : St := { st with active := src.name :: st.active, entered := st.entered ++ [src.name] }
        let o := evalStmts sw (load sw proj fuel) src.body (Env.new src.name) cfg st1
        match o.res with
        | .error e => ⟨o.st, .error e⟩
        | .ok (env, cfg') =>
          ⟨{ o.st with mods := env.toMod :: o.st.mods, active := o.st.active.erase src.name },
           .ok (o.st.mods.length, cfg')⟩

/-- Compile the project from `entry` (`from_path`). -/
def run (sw : Switches) (proj : Project) (entry : Ident) : Out Unit :=
  match proj.find? (fun m => m.name == entry) with
  | none => ⟨⟨[], [], [], []⟩, .error .notFound⟩
  | some src =>
    let st0 : St := ⟨[], [entry], [entry], []⟩
    if src.parseError then ⟨⟨[], [], [], []⟩, .error .privateAccess⟩ else
    let o := evalStmts sw (load sw proj (proj.length + 1)) src.body (Env.new entry) Cfg.empty st0
    match o.res with
    | .error e => ⟨o.st, .error e⟩
    | .ok _ => ⟨o.st, .ok ()⟩

/-! ### `@import` of plain sheets and `meta.load-css` (visitor.rs:962 visit_dynamic_import_rule,
    builtin/modules/meta.rs:17 load_css)

  As the code stands both are *inclusion*: `visit_dynamic_import_rule` of a sheet without top-level
  `@use`/`@forward` (visitor.rs:977) and `load_css` of any sheet (meta.rs:70) call
  `visit_stylesheet` on the sheet in the environment and under the configuration of the module that
  contains the rule, with `current_import_path` = the sheet (so its URLs resolve from its own
  directory — the `Url`s of its statements carry that directory already).  `expandStmts` performs the
  inclusion on the project text; everything else is the loader above, so every theorem about `run`
  holds for `runX` (`C12_x_…`).  What inclusion cannot express is answered `unsupported`:
  `@import` of a sheet that has `@use`/`@forward` (for_import environment, import_forwards),
  `@import` nested in a rule, a file that is both imported and used as a module, a module below a
  sheet that imports again, and sheets with statements whose rendering names the file
  (markers, constant functions, mixins).
-/

structure XSwitches where
  base : Switches
  /-- known finding C12-loadCssIsImport (meta.rs:70; the `load_module` call below it is commented
      out): `true` = `load-css` includes the sheet into the caller like `@import` and ignores `$with`;
      `false` = the specified behaviour `Stmt.loadCssSpec`. -/
  loadCssIsImport : Bool
  deriving DecidableEq, Repr

def XSwitches.spec : XSwitches := ⟨.spec, false⟩
def XSwitches.now : XSwitches := ⟨.now, true⟩

inductive XStmt where
  | base (s : Stmt)
  /-- `@import "url";` at the root of the file -/
  | imp (url : Url)
  /-- `@include meta.load-css("url", $with: (cfg));` at the root of the file -/
  | loadCss (url : Url) (cfg : List (Ident × Val))
  deriving DecidableEq, Repr, Inhabited

structure XSrc where
  name : Ident
  path : FsPath
  /-- a sheet is only ever `@import`ed / `load-css`ed, a non-sheet only `@use`d / `@forward`ed
      (`XProject.ok` checks it) -/
  sheet : Bool
  body : List XStmt
  deriving DecidableEq, Repr, Inhabited

abbrev XProject := List XSrc

def XProject.skeleton (xp : XProject) : Project := xp.map fun f => ⟨f.name, f.path, []⟩

/-- `find_import` (+ canonicalize) for `@import` / `load-css`: the same candidates as for `@use`
    (`.import` siblings are C13's and not in these projects) -/
def resolveX (xp : XProject) (u : Url) : Option XSrc :=
  (resolve xp.skeleton u).bind fun m => xp.find? fun f => f.name == m.name

def XStmt.privateRef : XStmt → Bool
  | .base b => b.privateRef
  | _ => false

def XSrc.parseError (f : XSrc) : Bool := f.body.any XStmt.privateRef

def XStmt.isLoad : XStmt → Bool
  | .base (.use _ _ _) => true
  | .base (.forward _ _ _) => true
  | _ => false

/-- statements whose rendering names the file they stand in (or that this inclusion does not cover)
    may not occur in a sheet -/
def sheetStmtOK : XStmt → Bool
  | .base .css => false
  | .base .dbg => false
  | .base (.mixin _) => false
  | .base (.fn _ .const) => false
  | .base (.nested _ _ _ _) => false
  | .base (.fail _) => false
  | .base (.loadCssSpec _ _) => false
  | _ => true

/-- Inclusion.  `stack`: the sheets being included at this point (`active_modules` holds them while
    `visit_stylesheet` runs, visitor.rs:185/198), innermost first, below them the file itself. -/
def expandStmts (asFound : Bool) (xp : XProject) : Nat → List Ident → List XStmt → List Stmt
  | 0, _, _ => [.fail .unsupported]
  | fuel + 1, stack, ss => ss.flatMap fun s =>
    match s with
    | .base b => [b]
    | .imp u =>
      match resolveX xp u with
      | none => [.fail .notFound]                              -- "Can't find stylesheet to import."
      | some f =>
        if f.parseError then [.fail .privateAccess]            -- the sheet is parsed before anything else (:934)
        else if stack.contains f.name then [.fail .importLoop] -- "This file is already being loaded." (:967)
        else if !f.sheet || !f.body.all sheetStmtOK || f.body.any XStmt.isLoad then [.fail .unsupported]
        else expandStmts asFound xp fuel (f.name :: stack) f.body
    | .loadCss u w =>
      if asFound then
        match resolveX xp u with
        | none => [.fail .notFound]
        | some f =>
          if f.parseError then [.fail .privateAccess]
          -- no `active_modules` test (meta.rs:68-70), `$with` only warned about (:37)
          else if !f.sheet || !f.body.all sheetStmtOK then [.fail .unsupported]
          else expandStmts asFound xp fuel (f.name :: stack) f.body
      else [.loadCssSpec u w]

def expandProj (asFound : Bool) (xp : XProject) : Project :=
  xp.map fun f => ⟨f.name, f.path, expandStmts asFound xp (xp.length + 1) [f.name] f.body⟩

/-- no `@import` / `load-css` in the file nor in any module it loads -/
def importFree (xp : XProject) : Nat → XSrc → Bool
  | 0, _ => false
  | fuel + 1, f => f.body.all fun s =>
    match s with
    | .imp _ => false
    | .loadCss _ _ => false
    | .base (.use u _ _) => match resolveX xp u with | some g => importFree xp fuel g | none => true
    | .base (.forward u _ _) => match resolveX xp u with | some g => importFree xp fuel g | none => true
    | _ => true

def loadTargetOK (xp : XProject) (fromSheet : Bool) (u : Url) : Bool :=
  match resolveX xp u with
  | some g => !g.sheet && (!fromSheet || importFree xp (xp.length + 1) g)
  | none => true

/-- sheets and modules are disjoint, and no module below a sheet imports again (then the sheets in
    `active_modules` are exactly the `stack` of `expandStmts`) -/
def XProject.ok (xp : XProject) : Bool :=
  xp.all fun f => f.body.all fun s =>
    match s with
    | .base (.use u _ _) => loadTargetOK xp f.sheet u
    | .base (.forward u _ _) => loadTargetOK xp f.sheet u
    | _ => true

def runX (xsw : XSwitches) (xp : XProject) (entry : Ident) : Out Unit :=
  if xp.ok && !(xp.any fun f => f.sheet && f.name == entry) then
    run xsw.base (expandProj xsw.loadCssIsImport xp) entry
  else ⟨⟨[], [], [], []⟩, .error .unsupported⟩

/-! ### the per-input property predicates P̂ (used by the theorems and, through the driver, on
    the implementation's own observations) -/

/-- every module evaluated at most once, every marker emitted at most once -/
def onceOK (enters : List Ident) (css : List Ident) : Bool :=
  decide enters.Nodup && decide css.Nodup

def cssOf (t : List Event) : List Ident := t.filterMap fun e => match e with | .css p => some p | _ => none
def dbgOf (t : List Event) : List Ident := t.filterMap fun e => match e with | .dbg p => some p | _ => none

/-- what a `@forward` rule lets through for one kind: the forwarded (prefixed) name is allowed -/
def FwdRule.allows (r : FwdRule) (k : Kind) (n : Ident) : Bool := visAllows r.vis k n

/-- a name seen through `as p*`: it must start with the prefix, the rest names the upstream member -/
def stripPfx (pfx : Option Ident) (up : Ident → Option Origin) (n : Ident) : Option Origin :=
  match pfx with
  | some p => if p.isPrefixOf n then up (n.drop p.length) else none
  | none => up n

/-- `prefix ∘ filter(show/hide)` of an upstream `get` — the specification of a forward view -/
def fwdSpecGet (r : FwdRule) (k : Kind) (up : Ident → Option Origin) (n : Ident) : Option Origin :=
  if r.allows k n then stripPfx r.pfx up n else none

/-- The specification of what module `id` exposes, written without views: its own public members,
    else the last `@forward` whose prefix and show/hide lists let the name through, applied to what
    the forwarded module exposes. -/
def specGet (k : Kind) : List Mod → Nat → Ident → Option Origin
  | [], _, _ => none
  | m :: rest, id, n =>
    if id = rest.length then
      (if !isPrivate n && (m.names k).contains n then some ⟨id, n⟩ else none).or
        (m.fwds.reverse.findSome? fun f => fwdSpecGet f.rule k (specGet k rest f.target) n)
    else specGet k rest id n

/-- every reference a completed module holds (forwards, `as *`, namespaces) points to a module
    completed before it: the dependency graph of the cache is well-founded, hence acyclic -/
def ModsWF (ms : List Mod) : Prop :=
  ∀ i m, modAt ms i = some m →
    (∀ f ∈ m.fwds, f.target < i) ∧ (∀ g ∈ m.globals, g < i) ∧ (∀ e ∈ m.nss, e.2 < i)

def cssCount (p : Ident) (t : List Event) : Nat := (cssOf t).count p

def nCss (ss : List Stmt) : Nat := (ss.filter fun s => s == Stmt.css).length

/-- what the generator promises: distinct module names, at most one CSS marker per module -/
def Project.wf (p : Project) : Bool :=
  decide (p.map (·.name)).Nodup && p.all fun m => decide (nCss m.body ≤ 1)

/-- names and canonical paths identify each other (what the generator promises in addition; the
    cache and the active set of the code are keyed by the canonical path, those of the model by the
    name) -/
def Project.pathsDistinct (p : Project) : Bool := decide (p.map (·.path)).Nodup

/-! ### built-in modules and their global aliases (tables generated from builtin/modules/*.rs and
    builtin/functions/**.rs by tools/translate_module_aliases.py) -/

/-- the Rust fn behind `module.member` -/
def moduleImpl (m f : String) : Option String :=
  (Grass.Generated.moduleTable.find? fun e => e.1 == m && e.2.1 == f).map (·.2.2)

/-- the Rust fn behind the global function `g` -/
def globalImpl (g : String) : Option String := Grass.Generated.globalTable.lookup g

/-- the global names that run the same Rust fn as `module.member` -/
def builtinAliases (m f : String) : List String :=
  match moduleImpl m f with
  | none => []
  | some impl => (Grass.Generated.globalTable.filter fun e => e.2 == impl).map (·.1)

/-! ### driver -/

open Grass.Proto

def showId (s : Ident) : String := if s.isEmpty then "-" else String.ofList s

def errStr : Err → String
  | .moduleLoop => "moduleLoop" | .notFound => "notFound" | .nsExists => "nsExists"
  | .noSuchNs => "noSuchNs" | .undefVar => "undefVar" | .undefFn => "undefFn"
  | .undefMixin => "undefMixin" | .privateAccess => "privateAccess"
  | .withNotDefault => "withNotDefault" | .starConflict => "starConflict" | .panic => "panic"
  | .outOfFuel => "outOfFuel" | .importLoop => "importLoop" | .unsupported => "unsupported"

def presStr : PRes → String
  | .absent => "absent"
  | .val v => s!"v{v}"
  | .fn p n => s!"f:{showId p}:{showId n}"
  | .mixin p n => s!"x:{showId p}:{showId n}"
  | .plain => "plain"
  | .keys ks => "k:" ++ ",".intercalate (ks.map showId)

def eventStr : Event → String
  | .dbg p => s!"D:{showId p}"
  | .css p => s!"C:{showId p}"
  | .probe i r => s!"P{i}={presStr r}"

def rdId (s : String) : Ident := if s == "-" then [] else norm s.toList
def rdIds (s : String) : List Ident := if s == "-" then [] else (s.splitOn ",").map rdId
def rdKind (s : String) : Option Kind :=
  if s == "v" then some .var else if s == "f" then some .fn else if s == "m" then some .mixin else none
def rdPath (s : String) : FsPath := if s == "-" || s == "" then [] else (s.splitOn "/").map (·.toList)
/-- `<E|N>:<segs a/b/..>:<stem>` in the context (importer directory, load paths, canonicalisation) -/
def rdUrl (dir : FsPath) (lps : List FsPath) (lexical : Bool) (s : String) : Option Url :=
  match s.splitOn ":" with
  | [e, segs, stem] =>
    let us := stem.startsWith "_"
    let base := norm (if us then (stem.drop 1).toString.toList else stem.toList)
    some ⟨dir, rdPath segs, base, us, e == "E", lps, lexical⟩
  | _ => none
def rdVis (s : String) : Option Vis :=
  match s.splitOn ":" with
  | ["A"] => some .all
  | ["S", vs, fs] => some (.allow (rdIds vs).eraseDups (rdIds fs).eraseDups)
  | ["H", vs, fs] => some (.hide (rdIds vs).eraseDups (rdIds fs).eraseDups)
  | _ => none

def rdPairs : Nat → List String → Option (List (Ident × Val) × List String)
  | 0, ts => some ([], ts)
  | n + 1, a :: b :: ts => do
    let v ← b.toNat?
    let (r, ts') ← rdPairs n ts
    pure ((rdId a, v) :: r, ts')
  | _, _ => none

def rdTriples : Nat → List String → Option (List (Ident × Val × Bool) × List String)
  | 0, ts => some ([], ts)
  | n + 1, a :: b :: c :: ts => do
    let v ← b.toNat?
    let g ← parseBool? c
    let (r, ts') ← rdTriples n ts
    pure ((rdId a, v, g) :: r, ts')
  | _, _ => none

/-- one statement from the token stream; prefix strings are *not* normalised (`String` in the AST) -/
def rdStmt (rdU : String → Option Url) : List String → Option (Stmt × List String)
  | "V" :: n :: v :: g :: ts => do pure (.var (rdId n) (← v.toNat?) (← parseBool? g), ts)
  | "F" :: n :: b :: ts => some (.fn (rdId n) (if b == "-" then .const else .getter (rdId b)), ts)
  | "X" :: n :: ts => some (.mixin (rdId n), ts)
  | "C" :: ts => some (.css, ts)
  | "D" :: ts => some (.dbg, ts)
  | "U" :: u :: ns :: k :: ts => do
    let k ← k.toNat?
    let (ps, ts') ← rdPairs k ts
    let ns := if ns == "=" then UseNs.dflt else if ns == "*" then .star else .named (rdId ns)
    pure (.use (← rdU u) ns ps, ts')
  | "W" :: u :: p :: vis :: k :: ts => do
    let k ← k.toNat?
    let vis ← rdVis vis
    let (ps, ts') ← rdTriples k ts
    pure (.forward (← rdU u) ⟨if p == "-" then none else some p.toList, vis⟩ ps, ts')
  | "A" :: ns :: n :: v :: g :: ts => do pure (.assign (rdId ns) (rdId n) (← v.toNat?) (← parseBool? g), ts)
  | "P" :: i :: g :: k :: ns :: n :: ts => do
    pure (.probe (← i.toNat?) (← parseBool? g) (← rdKind k) (if ns == "-" then none else some (rdId ns)) (rdId n), ts)
  | "K" :: i :: k :: ns :: ts => do pure (.pkeys (← i.toNat?) (← rdKind k) (rdId ns), ts)
  | "N" :: i :: c :: n :: v :: ts => do pure (.nested (← i.toNat?) (← c.toNat?) (rdId n) (← v.toNat?), ts)
  | _ => none

def rdStmts (rdU : String → Option Url) : Nat → List String → Option (List Stmt × List String)
  | 0, ts => some ([], ts)
  | n + 1, ts => do
    let (s, ts1) ← rdStmt rdU ts
    let (r, ts2) ← rdStmts rdU n ts1
    pure (s :: r, ts2)

/-- `M <name> <canonical path a/b/_stem> <k> stmt…`; the URLs in the body are resolved from the
    parent of the canonical path -/
def rdMods (lps : List FsPath) (lexical : Bool) : Nat → List String → Option (Project × List String)
  | 0, ts => some ([], ts)
  | n + 1, "M" :: name :: path :: k :: ts => do
    let k ← k.toNat?
    let p := rdPath path
    let (ss, ts1) ← rdStmts (rdUrl p.dropLast lps lexical) k ts
    let (r, ts2) ← rdMods lps lexical n ts1
    pure (⟨rdId name, p, ss⟩ :: r, ts2)
  | _, _ => none

def rdXStmt (rdU : String → Option Url) : List String → Option (XStmt × List String)
  | "I" :: u :: ts => do pure (.imp (← rdU u), ts)
  | "L" :: u :: k :: ts => do
    let k ← k.toNat?
    let (ps, ts') ← rdPairs k ts
    pure (.loadCss (← rdU u) ps, ts')
  | ts => do
    let (s, ts') ← rdStmt rdU ts
    pure (.base s, ts')

def rdXStmts (rdU : String → Option Url) : Nat → List String → Option (List XStmt × List String)
  | 0, ts => some ([], ts)
  | n + 1, ts => do
    let (s, ts1) ← rdXStmt rdU ts
    let (r, ts2) ← rdXStmts rdU n ts1
    pure (s :: r, ts2)

/-- `M|S <name> <canonical path> <k> stmt…` (`S` = sheet) -/
def rdXMods (lps : List FsPath) (lexical : Bool) : Nat → List String → Option (XProject × List String)
  | 0, ts => some ([], ts)
  | n + 1, kind :: name :: path :: k :: ts => do
    let k ← k.toNat?
    let sheet ← if kind == "S" then some true else if kind == "M" then some false else none
    let p := rdPath path
    let (ss, ts1) ← rdXStmts (rdUrl p.dropLast lps lexical) k ts
    let (r, ts2) ← rdXMods lps lexical n ts1
    pure (⟨rdId name, p, sheet, ss⟩ :: r, ts2)
  | _, _ => none

def rdSwitches (s : String) : Option Switches :=
  if s == "spec" then some .spec else if s == "now" then some .now else if s == "pinned" then some .pinned
  else if s == "beforeFixes" then some .beforeFixes
  else if s == "only:ignoreLists" then some { Switches.spec with ignoreLists := true }
  else if s == "only:prefixedKeysBug" then some { Switches.spec with prefixedKeysBug := true }
  else if s == "only:fwdCfgImplicit" then some { Switches.spec with fwdCfgImplicit := true }
  else if s == "only:viewIterPanics" then some { Switches.spec with viewIterPanics := true }
  else if s == "only:mergedInsertPanics" then some { Switches.spec with mergedInsertPanics := true }
  else match s.splitOn ":" with
    -- bits:<ignoreLists><prefixedKeysBug><fwdCfgImplicit><viewIterPanics><mergedInsertPanics>
    | ["bits", b] =>
      match b.toList.map (· == '1') with
      | [a, b, c, d, e] => some ⟨a, b, c, d, e⟩
      | _ => none
    | _ => none

def outStr (o : Out Unit) : String :=
  let evs := " ".intercalate (o.st.trace.map eventStr)
  let ent := ",".intercalate (o.st.entered.map showId)
  let once := boolStr (onceOK o.st.entered (cssOf o.st.trace))
  match o.res with
  | .ok _ => s!"ok once={once} entered={ent} | {evs}"
  | .error e => s!"err {errStr e} once={once} entered={ent} | {evs}"

def handle : List String → String
  -- run <switches> <entry> <lexical 0|1> <load paths a/b,c or -> <nmods> M …
  | "run" :: sw :: entry :: lex :: lps :: n :: ts =>
    match rdSwitches sw, n.toNat?, parseBool? lex with
    | some sw, some n, some lex =>
      let lps := if lps == "-" then [] else (lps.splitOn ",").map rdPath
      match rdMods lps lex n ts with
      | some (proj, []) => if proj.wf && proj.pathsDistinct then outStr (run sw proj (rdId entry)) else "unsupported"
      | _ => "bad-op"
    | _, _, _ => "bad-op"
  -- runx <switches> <entry> <lexical 0|1> <load paths> <nfiles> (M|S) …: projects with @import / load-css;
  -- `spec` = everything as specified, anything else = those base switches with load-css as found
  | "runx" :: sw :: entry :: lex :: lps :: n :: ts =>
    match rdSwitches sw, n.toNat?, parseBool? lex with
    | some bsw, some n, some lex =>
      let lps := if lps == "-" then [] else (lps.splitOn ",").map rdPath
      match rdXMods lps lex n ts with
      | some (xp, []) =>
        let proj := expandProj (sw != "spec") xp
        if proj.wf && proj.pathsDistinct then
          let o := runX ⟨bsw, sw != "spec"⟩ xp (rdId entry)
          match o.res with
          | .error .unsupported => "unsupported"
          | _ => outStr o
        else "unsupported"
      | _ => "bad-op"
    | _, _, _ => "bad-op"
  -- once <enters,…> <css,…>: P̂ of loads-once on observed lists
  | ["once", a, b] => "ok " ++ boolStr (onceOK (rdIds a) (rdIds b))
  -- private <name>: is the (raw) name private after normalisation
  | ["private", n] => "ok " ++ boolStr (isPrivate (rdId n))
  -- allows <pfx> <vis> <kind> <name>: does the rule let the forwarded name through
  | ["allows", p, vis, k, n] =>
    match rdVis vis, rdKind k with
    | some vis, some k =>
      let r : FwdRule := ⟨if p == "-" then none else some p.toList, vis⟩
      "ok " ++ boolStr (r.allows k (rdId n) && (match r.pfx with | some p => p.isPrefixOf (rdId n) | none => true))
    | _, _ => "bad-op"
  -- aliases: every `module.member=global` pair of the generated tables
  | ["aliases"] =>
    "ok " ++ " ".intercalate (Grass.Generated.moduleTable.flatMap fun e =>
      (builtinAliases e.1 e.2.1).map fun g => s!"{e.1}.{e.2.1}={g}")
  -- only: module members without a global alias
  | ["only"] =>
    "ok " ++ " ".intercalate ((Grass.Generated.moduleTable.filter fun e => (builtinAliases e.1 e.2.1).isEmpty).map
      fun e => s!"{e.1}.{e.2.1}")
  | _ => "bad-op"

end Grass.Module
