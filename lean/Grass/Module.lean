import Grass.Proto
/- Core `Module` — stub; replaced by the model (see DESIGN.md §8). -/
namespace Grass.Module

def handle : List String → String
  | _ => "bad-op"

end Grass.Module
