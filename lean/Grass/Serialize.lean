import Grass.Proto
/-
  Core `Serialize` — model of grass's CSS serializer for C05 / C06.

  Modelled Rust (file:line of /repo at the time of writing):
    crates/compiler/src/lib.rs:199-221          top-level loop (is_invisible, group-end / semicolon bookkeeping)
    crates/compiler/src/serializer.rs:607-628   visit_group
    crates/compiler/src/serializer.rs:635-657   finish (charset / BOM decision)
    crates/compiler/src/serializer.rs:659-668   write_indentation
    crates/compiler/src/serializer.rs:264-293   write_compound/complex_selector, write_selector_list
    crates/compiler/src/serializer.rs:517-541   write_media_query (incl. the "(not " slice)
    crates/compiler/src/serializer.rs:703-760   visit_list (non-inspect branch, unbracketed)
    crates/compiler/src/serializer.rs:826-846   visit_unquoted_string
    crates/compiler/src/serializer.rs:848-918   visit_quoted_string
    crates/compiler/src/serializer.rs:965-983   write_style
    crates/compiler/src/serializer.rs:985-996   write_import
    crates/compiler/src/serializer.rs:997-1031  write_comment
    crates/compiler/src/serializer.rs:1024-1030 requires_semicolon
    crates/compiler/src/serializer.rs:1032-1081 write_children
    crates/compiler/src/serializer.rs:1111-1183 visit_stmt
    crates/compiler/src/ast/css.rs:54-67        CssStmt::is_invisible
    crates/compiler/src/selector/{simple,compound,complex,list}.rs  is_invisible (placeholders)

  Text is `List Char` (code points).  The Rust code works on UTF-8 bytes; every byte it inspects
  is an ASCII byte, and in UTF-8 all bytes of a non-ASCII character are >= 0x80, so looking at
  code points < 0x80 is the same as looking at ASCII bytes (this is the only byte/char argument
  the model relies on; byte lengths are used where Rust uses `str::len`, see `utf8Len`).

  Values are opaque: a declaration value is one atom or an unbracketed list of atoms; an atom is
  an unquoted string (printed by `visit_unquoted_string`) or a quoted string (printed by
  `visit_quoted_string`).  Numbers, colours, maps, calculations are outside this model (C07/C15).
-/
namespace Grass.Serialize

abbrev Str := List Char

inductive Style | expanded | compressed
  deriving DecidableEq, Repr

def Style.isCompressed : Style → Bool
  | .compressed => true
  | .expanded => false

def lit (s : String) : Str := s.toList

/-! ## small writers -/

def spaces (n : Nat) : Str := List.replicate n ' '

/-- `write_indentation` (serializer.rs:659). -/
def indentOut (st : Style) (ind : Nat) : Str :=
  if st.isCompressed then [] else spaces ind

/-- `write_optional_newline` (serializer.rs:1090). -/
def optNl (st : Style) : Str := if st.isCompressed then [] else ['\n']

/-- `write_optional_space` (serializer.rs:1084). -/
def optSp (st : Style) : Str := if st.isCompressed then [] else [' ']

/-! ## selectors -/

/-- A simple selector: opaque visible text (`.a`, `#b`, `a`, `:hover`, `[x=y]`) or a placeholder. -/
inductive Simple
  | text (s : Str)
  | placeholder (name : Str)
  deriving DecidableEq, Repr

/-- selector/simple.rs:121 (restricted to the modelled simple selectors). -/
def Simple.isInvisible : Simple → Bool
  | .placeholder _ => true
  | .text _ => false

/-- `write_simple_selector` (serializer.rs:201). -/
def Simple.out : Simple → Str
  | .text s => s
  | .placeholder n => '%' :: n

inductive Component
  | comb (c : Char)                   -- '+', '>' or '~'
  | compound (ss : List Simple)
  deriving DecidableEq, Repr

/-- selector/compound.rs:65. -/
def compoundInvisible (ss : List Simple) : Bool := ss.any Simple.isInvisible

/-- `write_compound_selector` (serializer.rs:231): an empty result becomes `*`. -/
def compoundOut (ss : List Simple) : Str :=
  let o := (ss.map Simple.out).flatten
  if o.isEmpty then ['*'] else o

def Component.isInvisible : Component → Bool
  | .comb _ => false
  | .compound ss => compoundInvisible ss

def Component.isComb : Component → Bool
  | .comb _ => true
  | .compound _ => false

def Component.out : Component → Str
  | .comb c => [c]
  | .compound ss => compoundOut ss

/-- `omit_spaces_around_complex_component` (serializer.rs:149). -/
def omitSpaces (st : Style) (c : Component) : Bool := st.isCompressed && c.isComb

/-- `write_complex_selector` (serializer.rs:261). -/
def complexOut (st : Style) : Option Component → List Component → Str
  | _, [] => []
  | last, c :: cs =>
    (match last with
      | some l => if !omitSpaces st l && !omitSpaces st c then [' '] else []
      | none => []) ++ c.out ++ complexOut st (some c) cs

structure Complex where
  lineBreak : Bool
  comps : List Component
  deriving DecidableEq, Repr

/-- selector/complex.rs:131. -/
def Complex.isInvisible (cx : Complex) : Bool := cx.comps.any Component.isInvisible

abbrev Selector := List Complex

/-- selector/list.rs:69. -/
def selectorInvisible (sel : Selector) : Bool := sel.all Complex.isInvisible

/-- loop of `write_selector_list` (serializer.rs:277) over the visible complexes. -/
def selectorLoop (st : Style) : Bool → List Complex → Str
  | _, [] => []
  | first, cx :: cs =>
    (if first then [] else
      ',' :: (if cx.lineBreak then optNl st else optSp st)) ++
    complexOut st none cx.comps ++ selectorLoop st false cs

def selectorOut (st : Style) (sel : Selector) : Str :=
  selectorLoop st true (sel.filter (fun c => !c.isInvisible))

/-! ## media queries -/

structure Query where
  modifier : Option Str
  mediaType : Option Str
  conditions : List Str
  conjunction : Bool
  deriving DecidableEq, Repr

def joinWith (sep : Str) : List Str → Str
  | [] => []
  | [x] => x
  | x :: y :: r => x ++ sep ++ joinWith sep (y :: r)

def startsWith (s p : Str) : Bool := p.isPrefixOf s

/-- `write_media_query` (serializer.rs:517).  The slice `condition["(not ".len()..len-1]` drops the
    five leading characters and the last one. -/
def queryOut (q : Query) : Str :=
  (match q.modifier with | some m => m ++ [' '] | none => []) ++
  (match q.mediaType with
    | some t => t ++ (if q.conditions.isEmpty then [] else lit " and ")
    | none => []) ++
  (match q.conditions with
    | [c] =>
      if startsWith c (lit "(not ") then lit "not " ++ ((c.drop 5).dropLast)
      else c
    | cs => joinWith (if q.conjunction then lit " and " else lit " or ") cs)

/-! ## values -/

inductive Atom
  | raw (s : Str)       -- Value::String(_, QuoteKind::None)
  | quoted (s : Str)    -- Value::String(_, QuoteKind::Quoted)
  deriving DecidableEq, Repr

inductive Sep | space | comma | slash
  deriving DecidableEq, Repr

inductive Value
  | atom (a : Atom)
  | list (sep : Sep) (items : List Atom)   -- Value::List(items, sep, Brackets::None)
  deriving DecidableEq, Repr

/-- value/mod.rs:211 `is_blank`. -/
def Atom.isBlank : Atom → Bool
  | .raw s => s.isEmpty
  | .quoted _ => false

def Value.isBlank : Value → Bool
  | .atom a => a.isBlank
  | .list _ items => items.all Atom.isBlank

/-- `visit_unquoted_string` (serializer.rs:826): a newline becomes one space and swallows the
    spaces that follow it. -/
def unquotedLoop : Bool → Str → Str
  | _, [] => []
  | afterNl, c :: cs =>
    if c = '\n' then ' ' :: unquotedLoop true cs
    else if c = ' ' then (if afterNl then [] else [' ']) ++ unquotedLoop afterNl cs
    else c :: unquotedLoop false cs

def unquotedOut (s : Str) : Str := unquotedLoop false s

/-- utils/chars.rs:1 `hex_char_for`. -/
def hexCharFor (n : Nat) : Char :=
  if n < 10 then Char.ofNat (0x30 + n) else Char.ofNat (0x61 - 10 + n)

def isAsciiHexDigit (c : Char) : Bool :=
  ('0' ≤ c && c ≤ '9') || ('a' ≤ c && c ≤ 'f') || ('A' ≤ c && c ≤ 'F')

/-- The characters escaped numerically: `b'\x00'..=b'\x08' | b'\x0A'..=b'\x1F'` (serializer.rs:884). -/
def isEscapedControl (c : Char) : Bool :=
  c.toNat ≤ 0x08 || (0x0A ≤ c.toNat && c.toNat ≤ 0x1F)

/-- The numeric escape of one control character, with the separating space when the next
    character could be read as part of the escape (serializer.rs:884-899). -/
def controlEscape (c : Char) (next : Option Char) : Str :=
  ['\\'] ++ (if c.toNat > 0xF then [hexCharFor (c.toNat / 16)] else []) ++ [hexCharFor (c.toNat % 16)] ++
  (match next with
    | some n => if isAsciiHexDigit n || n = ' ' || n = '\t' then [' '] else []
    | none => [])

/-- Bytes pushed for one character by the loop of `visit_quoted_string` (serializer.rs:860-903);
    `next` is the peeked following character. -/
def escChar (force : Bool) (c : Char) (next : Option Char) : Str :=
  if c = '\'' then ['\'']
  else if c = '"' then (if force then ['\\', '"'] else ['"'])
  else if isEscapedControl c then controlEscape c next
  else if c = '\\' then ['\\', '\\']
  else [c]

/-- The local `buffer` of `visit_quoted_string` after the loop ran over the whole string. -/
def escBody (force : Bool) : Str → Str
  | [] => []
  | c :: cs => escChar force c cs.head? ++ escBody force cs

/-- The flag bookkeeping of the same loop when `force_double_quote = false`
    (`has_single_quote`, `has_double_quote`): `none` = the loop met the second kind of quote and
    the function restarts with `force_double_quote = true` (the buffer built so far is dropped);
    `some hd` = it ran to the end with `has_double_quote = hd`.
    (The Rust loop interleaves this with `escBody`; the two do not influence each other.) -/
def quoteFlags : (hasSingle hasDouble : Bool) → Str → Option Bool
  | _, hd, [] => some hd
  | hs, hd, c :: cs =>
    if c = '\'' then (if hd then none else quoteFlags true hd cs)
    else if c = '"' then (if hs then none else quoteFlags hs true cs)
    else quoteFlags hs hd cs

/-- `visit_quoted_string(false, s)` (serializer.rs:848). -/
def quote (s : Str) : Str :=
  match quoteFlags false false s with
  | some hasDouble =>
    let q := if hasDouble then '\'' else '"'
    q :: escBody false s ++ [q]
  | none => '"' :: escBody true s ++ ['"']

def Atom.out : Atom → Str
  | .raw s => unquotedOut s
  | .quoted s => quote s

/-- `write_list_separator` (serializer.rs:670). -/
def sepOut (st : Style) : Sep → Str
  | .space => [' ']
  | .comma => if st.isCompressed then [','] else lit ", "
  | .slash => if st.isCompressed then ['/'] else lit " / "

def listLoop (st : Style) (sep : Sep) : List Atom → Str
  | [] => []
  | [a] => a.out
  | a :: b :: r => a.out ++ sepOut st sep ++ listLoop st sep (b :: r)

/-- `visit_value` on the modelled values (serializer.rs:937; lists: 703, blank elements skipped). -/
def Value.out (st : Style) : Value → Str
  | .atom a => a.out
  | .list sep items => listLoop st sep (items.filter (fun a => !a.isBlank))

/-! ## comments -/

def utf8Len (c : Char) : Nat :=
  if c.toNat < 0x80 then 1 else if c.toNat < 0x800 then 2 else if c.toNat < 0x10000 then 3 else 4

/-- Rust `char::is_whitespace` (Unicode White_Space). -/
def isRustWhitespace (c : Char) : Bool :=
  let n := c.toNat
  (0x09 ≤ n && n ≤ 0x0D) || n = 0x20 || n = 0x85 || n = 0xA0 || n = 0x1680 ||
  (0x2000 ≤ n && n ≤ 0x200A) || n = 0x2028 || n = 0x2029 || n = 0x202F || n = 0x205F || n = 0x3000

def trimStart : Str → Str
  | [] => []
  | c :: cs => if isRustWhitespace c then trimStart cs else c :: cs

def byteLen (s : Str) : Nat := (s.map utf8Len).sum

/-- Split at '\n' (all pieces, including a trailing empty one). -/
def splitNl : Str → List Str
  | [] => [[]]
  | c :: cs =>
    match splitNl cs with
    | [] => [[c]]     -- unreachable, `splitNl` is never empty
    | l :: ls => if c = '\n' then [] :: l :: ls else (c :: l) :: ls

def stripCr (l : Str) : Str :=
  match l.getLast? with
  | some '\r' => l.dropLast
  | _ => l

/-- Rust `str::lines`: split at '\n', a final empty piece is not a line, a trailing '\r' of a
    line is dropped. -/
def linesOf (s : Str) : List Str :=
  let ps := splitNl s
  let ps := if ps.getLast? = some [] then ps.dropLast else ps
  ps.map stripCr

/-- `write_comment` body (serializer.rs:1002-1028): first line left-trimmed; every further line
    re-indented by its own indentation (in bytes) minus `col`.  Since e81c3e6 `col` is the number of
    characters between the start of the comment's own source line (a line ends at `\n`, `\r` or
    form feed; a leading BOM is not counted) and the comment — no longer `codemap`'s column. -/
def commentOut (text : Str) (col : Nat) : Str :=
  match linesOf text with
  | [] => []
  | l :: ls =>
    let rest := joinWith ['\n'] (ls.map fun line =>
      spaces ((byteLen line - byteLen (trimStart line)) - col) ++ trimStart line)
    trimStart l ++ (if rest.isEmpty then [] else '\n' :: rest)

/-! ## the statement tree -/

mutual
inductive Stmt
  | rule (ge : Bool) (sel : Selector) (body : Stmts)          -- CssStmt::RuleSet
  | decl (name : Str) (custom : Bool) (v : Value)              -- CssStmt::Style
  | media (ge : Bool) (qs : List Query) (body : Stmts)         -- CssStmt::Media
  | supports (ge : Bool) (params : Str) (body : Stmts)         -- CssStmt::Supports
  | unknown (ge : Bool) (name params : Str) (hasBody : Bool) (body : Stmts)  -- CssStmt::UnknownAtRule
  | kf (sels : List Str) (body : Stmts)                        -- CssStmt::KeyframesRuleSet
  | comment (text : Str) (col : Nat)                           -- CssStmt::Comment (col = column of its start)
  | import (url : Str) (mods : Option Str)                     -- CssStmt::Import
inductive Stmts
  | nil
  | cons (s : Stmt) (ss : Stmts)
end

def Stmts.toList : Stmts → List Stmt
  | .nil => []
  | .cons s ss => s :: ss.toList

def Stmts.ofList : List Stmt → Stmts
  | [] => .nil
  | s :: ss => .cons s (Stmts.ofList ss)

/-- ast/css.rs:44 `is_group_end`. -/
def Stmt.isGroupEnd : Stmt → Bool
  | .rule ge _ _ => ge
  | .media ge _ _ => ge
  | .supports ge _ _ => ge
  | .unknown ge _ _ _ _ => ge
  | _ => false

/-- serializer.rs:1024 `requires_semicolon`. -/
def Stmt.requiresSemicolon : Stmt → Bool
  | .decl _ _ _ => true
  | .import _ _ => true
  | .unknown _ _ _ hasBody _ => !hasBody
  | _ => false

mutual
/-- ast/css.rs:54 `is_invisible`. -/
def Stmt.isInvisible : Stmt → Bool
  | .rule _ sel body => selectorInvisible sel || body.allInvisible
  | .decl _ _ v => v.isBlank
  | .media _ _ body => body.allInvisible
  | .supports _ _ body => body.allInvisible
  | .kf _ body => body.allInvisible
  | .unknown _ _ _ _ _ => false
  | .comment _ _ => false
  | .import _ _ => false
def Stmts.allInvisible : Stmts → Bool
  | .nil => true
  | .cons s ss => s.isInvisible && ss.allInvisible
end

/-- Opening of `write_children` (serializer.rs:1033). -/
def openBlock (st : Style) : Str := if st.isCompressed then ['{'] else lit " {\n"

/-- Closing of `write_children` (serializer.rs:1072). -/
def closeBlock (st : Style) (ind : Nat) : Str := indentOut st ind ++ ['}']

/-- The `;` written after a child (serializer.rs:1050 / 1064): the last child's is omitted in
    compressed mode. -/
def childSemi (st : Style) (isLast : Bool) (s : Stmt) : Str :=
  if s.requiresSemicolon && !(isLast && st.isCompressed) then [';'] else []

/-- The separator-free rendering of `write_comment`'s guard: compressed output keeps only `/*!`. -/
def commentKept (st : Style) (text : Str) : Bool :=
  !(st.isCompressed && !startsWith text (lit "/*!"))

/-- `write_children` (serializer.rs:1032) around the already rendered children. -/
def blockOut (st : Style) (ind : Nat) (inner : Str) : Str :=
  openBlock st ++ inner ++ closeBlock st ind

mutual
/-- `visit_stmt` (serializer.rs:1111): (did_write, bytes written). `ind` = `self.indentation`.
    `blockOut st ind (childrenLoop st (ind + 2) body)` is the call `self.write_children(body)`. -/
def visitStmt (st : Style) (ind : Nat) : Stmt → Bool × Str
  | .rule ge sel body =>
    if (Stmt.rule ge sel body).isInvisible then (false, []) else
    (true, indentOut st ind ++ selectorOut st sel ++ blockOut st ind (childrenLoop st (ind + 2) body))
  | .decl name custom v =>
    if v.isBlank then (false, []) else
    (true, indentOut st ind ++ name ++ [':'] ++
      (if !custom && !st.isCompressed then [' '] else []) ++ v.out st)
  | .media ge qs body =>
    if (Stmt.media ge qs body).isInvisible then (false, []) else
    (true, indentOut st ind ++ lit "@media " ++ joinWith (',' :: optSp st) (qs.map queryOut) ++
      blockOut st ind (childrenLoop st (ind + 2) body))
  | .supports ge params body =>
    if (Stmt.supports ge params body).isInvisible then (false, []) else
    (true, indentOut st ind ++ lit "@supports" ++ (if params.isEmpty then [] else ' ' :: params) ++
      blockOut st ind (childrenLoop st (ind + 2) body))
  | .unknown _ name params hasBody body =>
    (true, indentOut st ind ++ '@' :: name ++ (if params.isEmpty then [] else ' ' :: params) ++
      (if !hasBody then []
       else if body.allInvisible then lit " {}"
       else blockOut st ind (childrenLoop st (ind + 2) body)))
  | .kf sels body =>
    if (Stmt.kf sels body).isInvisible then (false, []) else
    (true, indentOut st ind ++ joinWith (lit ", ") sels ++ blockOut st ind (childrenLoop st (ind + 2) body))
  | .comment text col =>
    if commentKept st text then (true, indentOut st ind ++ commentOut text col) else (true, [])
  | .import url mods =>
    (true, indentOut st ind ++ lit "@import " ++ url ++
      (match mods with | some m => ' ' :: m | none => []))
/-- The two loops of `write_children` (all but the last child, then the last child). -/
def childrenLoop (st : Style) (ind : Nat) : Stmts → Str
  | .nil => []
  | .cons s ss =>
    let r := visitStmt st ind s
    (if r.1 then r.2 ++ childSemi st (match ss with | .nil => true | _ => false) s ++ optNl st else []) ++
    childrenLoop st ind ss
end

/-- `write_children` (serializer.rs:1032). -/
def writeChildren (st : Style) (ind : Nat) (body : Stmts) : Str :=
  blockOut st ind (childrenLoop st (ind + 2) body)

/-! ## top level -/

structure Top where
  buf : Str
  prevGroupEnd : Bool
  prevSemi : Bool
  deriving Repr

def Top.init : Top := ⟨[], false, false⟩

/-- `visit_group` (serializer.rs:607) followed by the bookkeeping of lib.rs:216-217. -/
def visitGroup (st : Style) (t : Top) (s : Stmt) : Top :=
  let b1 := if t.prevSemi then t.buf ++ [';'] else t.buf
  let b2 := if !b1.isEmpty then b1 ++ optNl st else b1
  let b3 := if t.prevGroupEnd && !b2.isEmpty then b2 ++ optNl st else b2
  ⟨b3 ++ (visitStmt st 0 s).2, s.isGroupEnd, s.requiresSemicolon⟩

/-- lib.rs:204-218. -/
def topLoop (st : Style) : Top → List Stmt → Top
  | t, [] => t
  | t, s :: ss => if s.isInvisible then topLoop st t ss else topLoop st (visitGroup st t s) ss

def isNonAscii (c : Char) : Bool := c.toNat ≥ 128

def charsetPrefix : Str := lit "@charset \"UTF-8\";\n"
def bom : Char := Char.ofNat 0xFEFF

/-- `finish` (serializer.rs:635). -/
def finish (st : Style) (allowsCharset : Bool) (t : Top) : Str :=
  let nonAscii := t.buf.any isNonAscii
  let b1 := if t.prevSemi then t.buf ++ [';'] else t.buf
  let b2 := if !b1.isEmpty then b1 ++ optNl st else b1
  if nonAscii && st.isCompressed && allowsCharset then bom :: b2
  else if nonAscii && allowsCharset then charsetPrefix ++ b2
  else b2

/-- The whole of lib.rs:199-221 on an already flattened tree. -/
def serialize (st : Style) (allowsCharset : Bool) (t : List Stmt) : Str :=
  finish st allowsCharset (topLoop st Top.init t)

/-- The buffer just before `finish` (what the charset decision looks at). -/
def body (st : Style) (t : List Stmt) : Str := (topLoop st Top.init t).buf

/-! ## P̂: predicates on output text (used by the theorems and, through the driver, on grass's output) -/

/-- Inverse of the escaping done by `visit_quoted_string`: CSS string unescaping.
    `\` + 1–6 hex digits (+ one optional whitespace) is a code point, `\` + anything else is that
    character.  `hexRun k acc` reads up to `k` further hex digits. -/
def hexVal (c : Char) : Nat :=
  if '0' ≤ c && c ≤ '9' then c.toNat - 48
  else if 'a' ≤ c && c ≤ 'f' then c.toNat - 87
  else c.toNat - 55

/-- One scanner for both modes, structural on the text: `none` = ordinary text, `some (k, acc)` =
    inside a numeric escape with value `acc` so far and at most `k` more hex digits. -/
def unesc : Option (Nat × Nat) → Str → Str
  | none, [] => []
  | some (_, acc), [] => [Char.ofNat acc]
  | none, c :: cs =>
    if c = '\\' then
      match cs with
      | [] => []
      | d :: ds => if isAsciiHexDigit d then unesc (some (5, hexVal d)) ds else d :: unesc none ds
    else c :: unesc none cs
  | some (k, acc), c :: cs =>
    if k ≠ 0 && isAsciiHexDigit c then unesc (some (k - 1, acc * 16 + hexVal c)) cs
    else Char.ofNat acc ::
      (if c = ' ' || c = '\t' || c = '\n' then unesc none cs
       else if c = '\\' then
         match cs with
         | [] => []
         | d :: ds => if isAsciiHexDigit d then unesc (some (5, hexVal d)) ds else d :: unesc none ds
       else c :: unesc none cs)

def unescapeBody (s : Str) : Str := unesc none s
def hexRun (k acc : Nat) (s : Str) : Str := unesc (some (k, acc)) s

/-- Strip the surrounding quotes of a quoted token and unescape; `none` if the token is not
    `q … q` with `q` a quote character. -/
def unescape (tok : Str) : Option Str :=
  match tok with
  | q :: rest =>
    if (q = '"' || q = '\'') && rest.getLast? = some q then some (unescapeBody rest.dropLast) else none
  | [] => none

/-- Scanner modes of the well-formedness check: normal, after `/`, after `\`, inside a string
    (with its quote), after `\` inside a string, inside a comment, after `*` inside a comment. -/
inductive Mode
  | normal | slash | esc | str (q : Char) | strEsc (q : Char) | comment | commentStar
  deriving DecidableEq, Repr

structure Scan where
  mode : Mode
  depth : Nat
  deriving DecidableEq, Repr

def stepNormal (d : Nat) (c : Char) : Option Scan :=
  if c = '"' || c = '\'' then some ⟨.str c, d⟩
  else if c = '/' then some ⟨.slash, d⟩
  else if c = '\\' then some ⟨.esc, d⟩
  else if c = '{' then some ⟨.normal, d + 1⟩
  else if c = '}' then (if d = 0 then none else some ⟨.normal, d - 1⟩)
  else some ⟨.normal, d⟩

/-- One character of the scanner; `none` = ill-formed (a `}` without `{`, a raw newline in a string). -/
def step (s : Scan) (c : Char) : Option Scan :=
  match s.mode with
  | .normal => stepNormal s.depth c
  | .slash => if c = '*' then some ⟨.comment, s.depth⟩ else stepNormal s.depth c
  | .esc => some ⟨.normal, s.depth⟩
  | .str q =>
    if c = '\\' then some ⟨.strEsc q, s.depth⟩
    else if c = q then some ⟨.normal, s.depth⟩
    else if c = '\n' then none
    else some ⟨.str q, s.depth⟩
  | .strEsc q => some ⟨.str q, s.depth⟩
  | .comment => if c = '*' then some ⟨.commentStar, s.depth⟩ else some ⟨.comment, s.depth⟩
  | .commentStar =>
    if c = '/' then some ⟨.normal, s.depth⟩
    else if c = '*' then some ⟨.commentStar, s.depth⟩
    else some ⟨.comment, s.depth⟩

def run : Scan → Str → Option Scan
  | s, [] => some s
  | s, c :: cs => match step s c with | some s' => run s' cs | none => none

/-- P̂ (well-formedness): every block, string and comment of the text is closed and no `}` is
    unmatched. -/
def wellFormed (out : Str) : Bool :=
  match run ⟨.normal, 0⟩ out with
  | some s => (s.mode = .normal || s.mode = .slash) && s.depth = 0
  | none => false

/-- A piece of text that the scanner reads from "normal" back to "normal" without changing depth. -/
def neutral (s : Str) : Bool := run ⟨.normal, 0⟩ s = some ⟨.normal, 0⟩

/-! Guard of `C05_blocks_balanced`: every opaque leaf text of the tree (selector, property name,
    unquoted value text, query, at-rule name/parameters, import url/modifiers, comment — as
    rendered) is read by the scanner from "normal" back to "normal" (balanced braces, closed strings
    and comments).  Quoted strings are NOT constrained. -/
def Atom.ok : Atom → Bool
  | .raw s => neutral (unquotedOut s)
  | .quoted _ => true

/-- A slash-separated list is constrained as a whole (compressed `a/*b` would open a comment). -/
def Value.ok (st : Style) : Value → Bool
  | .atom a => a.ok
  | .list .slash items => neutral (Value.out st (.list .slash items))
  | .list _ items => items.all Atom.ok

mutual
def Stmt.leavesOk (st : Style) : Stmt → Bool
  | .rule _ sel body => neutral (selectorOut st sel) && body.leavesOk st
  | .decl name _ v => neutral name && v.ok st
  | .media _ qs body => neutral (joinWith (',' :: optSp st) (qs.map queryOut)) && body.leavesOk st
  | .supports _ params body => neutral params && body.leavesOk st
  | .unknown _ name params _ body => neutral name && neutral params && body.leavesOk st
  | .kf sels body => neutral (joinWith (lit ", ") sels) && body.leavesOk st
  | .comment text col => neutral (commentOut text col)
  | .import url mods => neutral url && (match mods with | some m => neutral m | none => true)
def Stmts.leavesOk (st : Style) : Stmts → Bool
  | .nil => true
  | .cons s ss => s.leavesOk st && ss.leavesOk st
end

def treeOk (st : Style) (t : List Stmt) : Bool := t.all (Stmt.leavesOk st)

/-- P̂ (charset): the text starts with the `@charset` rule or with a BOM. -/
def hasCharsetOrBom (out : Str) : Bool :=
  startsWith out charsetPrefix || out.head? = some bom

/-- P̂ (charset rule): header present exactly when allowed and the rest has a non-ASCII character. -/
def charsetOk (allowsCharset : Bool) (out : Str) : Bool :=
  let rest := if startsWith out charsetPrefix then out.drop charsetPrefix.length
              else if out.head? = some bom then out.drop 1 else out
  hasCharsetOrBom out = (allowsCharset && rest.any isNonAscii)

/-- P̂ (quoted token): starts and ends with the same quote `q`, and in between there is no raw
    control character that `visit_quoted_string` escapes (in particular no newline) and every
    occurrence of `q` or `\` is part of an escape. -/
def quotedBodyOk (q : Char) : Bool → Str → Bool
  | esc, [] => !esc
  | true, c :: cs => !isEscapedControl c && quotedBodyOk q false cs
  | false, c :: cs =>
    if c = '\\' then quotedBodyOk q true cs
    else if c = q || isEscapedControl c then false
    else quotedBodyOk q false cs

def quotedOk (tok : Str) : Bool :=
  match tok with
  | q :: rest =>
    (q = '"' || q = '\'') && rest.getLast? = some q && rest.length ≥ 1 && quotedBodyOk q false rest.dropLast
  | [] => false

/-! ## Sass-free alphabet (`C05_sass_free`) -/

/-- All opaque texts of a selector. -/
def simpleTexts : List Simple → List Str
  | [] => []
  | .text s :: r => s :: simpleTexts r
  | .placeholder _ :: r => simpleTexts r

def compTexts : List Component → List Str
  | [] => []
  | .comb c :: r => [c] :: compTexts r
  | .compound ss :: r => simpleTexts ss ++ compTexts r

def selTexts (sel : Selector) : List Str := (sel.map (fun cx => compTexts cx.comps)).flatten

/-- The characters of Sass-only syntax: `&` (parent selector), `$` (variable), `%` (placeholder),
    `#` (interpolation `#{`). -/
def sassChar (c : Char) : Bool := c = '&' || c = '$' || c = '%' || c = '#'

/-- No Sass character in a piece of text. -/
def plainText (x : Str) : Bool := x.all (fun c => !sassChar c)

def Atom.leafFree (c : Char) : Atom → Bool
  | .raw s => !s.contains c
  | .quoted s => !s.contains c

def Value.leafFree (c : Char) : Value → Bool
  | .atom a => a.leafFree c
  | .list _ items => items.all (Atom.leafFree c)

def optFree (c : Char) : Option Str → Bool
  | some m => !m.contains c
  | none => true

mutual
/-- No opaque leaf of the statement contains the character `c` (selector texts and combinators,
    property names, unquoted AND quoted atoms, rendered queries, at-rule names and parameters,
    keyframe selectors, import url/modifiers, rendered comments). -/
def Stmt.leafFree (c : Char) : Stmt → Bool
  | .rule _ sel body => (selTexts sel).all (fun s => !s.contains c) && body.leafFree c
  | .decl name _ v => !name.contains c && v.leafFree c
  | .media _ qs body => (qs.map queryOut).all (fun s => !s.contains c) && body.leafFree c
  | .supports _ params body => !params.contains c && body.leafFree c
  | .unknown _ name params _ body => !name.contains c && !params.contains c && body.leafFree c
  | .kf sels body => sels.all (fun s => !s.contains c) && body.leafFree c
  | .comment text col => !(commentOut text col).contains c
  | .import url mods => !url.contains c && optFree c mods
def Stmts.leafFree (c : Char) : Stmts → Bool
  | .nil => true
  | .cons s ss => s.leafFree c && ss.leafFree c
end

def treeLeafFree (c : Char) (t : List Stmt) : Bool := t.all (Stmt.leafFree c)


/-! ## CssRead for the declaration-only subset
    (`C06_style_equiv_model_partial`; also run by the driver on grass's own output) -/

def isWs (c : Char) : Bool := c = ' ' || c = '\n'

def dropWs (s : Str) : Str := s.filter (fun c => !isWs c)

/-- Split at every `c` (all pieces, including empty ones). -/
def splitOnC (c : Char) : Str → List Str
  | [] => [[]]
  | x :: xs =>
    match splitOnC c xs with
    | [] => [[x]]
    | l :: ls => if x = c then [] :: l :: ls else (x :: l) :: ls

def readDecl (d : Str) : Option (Str × Str) :=
  match splitOnC ':' d with
  | [n, v] => some (n, v)
  | _ => none

def readRule (r : Str) : Option (Str × List (Str × Str)) :=
  match splitOnC '{' r with
  | [sel, body] => (((splitOnC ';' body).filter (fun d => !d.isEmpty)).mapM readDecl).map (fun ds => (sel, ds))
  | _ => none

/-- Reader for `sel{name:value;…}…` texts: whitespace dropped, rules end at `}`, selector before `{`,
    declarations separated by `;` (a final `;` is optional), name before the first `:`. -/
def readCss (s : Str) : Option (List (Str × List (Str × Str))) :=
  let parts := splitOnC '}' (dropWs s)
  if parts.getLast? = some [] then parts.dropLast.mapM readRule else none

/-! simple trees -/

structure SRule where
  sel : Str
  decls : List (Str × Str)

def declStmt (d : Str × Str) : Stmt := .decl d.1 false (.atom (.raw d.2))

def SRule.toStmt (r : SRule) : Stmt :=
  .rule true [⟨false, [.compound [.text r.sel]]⟩] (Stmts.ofList (r.decls.map declStmt))

/-- A leaf of the subset: non-empty, no whitespace and none of `{ } ; :`. -/
def word (x : Str) : Bool :=
  !x.isEmpty && x.all (fun c => c ≠ ' ' && c ≠ '\n' && c ≠ '{' && c ≠ '}' && c ≠ ';' && c ≠ ':')

def SRule.ok (r : SRule) : Bool := word r.sel && r.decls.all (fun d => word d.1 && word d.2)

/-- What the reader is expected to return: the rules that have declarations. -/
def rulesOf (t : List SRule) : List (Str × List (Str × Str)) :=
  (t.filter (fun r => !r.decls.isEmpty)).map (fun r => (r.sel, r.decls))


/-! ## CssRead — reader for the whole serialised subset
    (`C05_read_roundtrip`, `C06_style_equiv_model`; also run by the driver on grass's own output).
    The canonical text of a prelude / item (`nm`) normalises whitespace OUTSIDE strings, comments and
    escapes: a run of spaces/newlines becomes one space, and disappears at the ends and next to the
    punctuation after/around which the serializer's whitespace is optional (`, > + ~` in preludes,
    `, / :` in items).  `a b` and `ab` stay different. -/

/-- Mode transitions of the scanner without the depth (total). -/
def mstepN (c : Char) : Mode :=
  if c = '"' || c = '\'' then .str c
  else if c = '/' then .slash
  else if c = '\\' then .esc
  else .normal

def mstep (m : Mode) (c : Char) : Mode :=
  match m with
  | .normal => mstepN c
  | .slash => if c = '*' then .comment else mstepN c
  | .esc => .normal
  | .str q => if c = '\\' then .strEsc q else if c = q then .normal else .str q
  | .strEsc q => .str q
  | .comment => if c = '*' then .commentStar else .comment
  | .commentStar => if c = '/' then .normal else if c = '*' then .commentStar else .comment

def mrun : Mode → Str → Mode
  | m, [] => m
  | m, c :: cs => mrun (mstep m c) cs

/-- Outside strings, comments and escapes. -/
def Mode.isTop : Mode → Bool
  | .normal => true
  | .slash => true
  | _ => false

def structural (c : Char) : Bool := c = '{' || c = '}' || c = ';'

def isWsC (c : Char) : Bool := c = ' ' || c = '\n'

/-- `x` read from mode `m`: no `{ } ;` is met outside strings/comments/escapes and the scan ends
    in mode normal. -/
def flatFrom : Mode → Str → Bool
  | m, [] => m == .normal
  | m, c :: cs => !(m.isTop && structural c) && flatFrom (mstep m c) cs

def flat (x : Str) : Bool := flatFrom .normal x

/-- Auxiliary squeeze (used by the flatness lemmas only): spaces and newlines outside
    strings/comments/escapes dropped. -/
def sqFrom : Mode → Str → Str
  | _, [] => []
  | m, c :: cs => if m.isTop && isWsC c then sqFrom (mstep m c) cs else c :: sqFrom (mstep m c) cs

def sq (x : Str) : Str := sqFrom .normal x

/-! The canonical text proper: whitespace normalised, not deleted. -/

inductive Kind | start | punct | word
  deriving DecidableEq, Repr

structure NS where
  mode : Mode
  k : Kind
  pend : Bool
  deriving DecidableEq, Repr

/-- One character of the normaliser.  Outside strings/comments/escapes: whitespace is never copied,
    it only marks a pending separator after a word; a punctuation character (`P`) cancels a pending
    separator and whitespace after it is ignored; any other character is preceded by ONE space when a
    separator is pending.  Inside strings/comments/escapes everything is copied. -/
def nstep (P : Char → Bool) (s : NS) (c : Char) : Str × NS :=
  if s.mode.isTop then
    if isWsC c then ([], ⟨mstep s.mode c, s.k, s.pend || s.k == .word⟩)
    else if P c then ([c], ⟨mstep s.mode c, .punct, false⟩)
    else ((if s.pend then [' ', c] else [c]), ⟨mstep s.mode c, .word, false⟩)
  else ([c], ⟨mstep s.mode c, .word, false⟩)

def nrun (P : Char → Bool) : NS → Str → Str × NS
  | s, [] => ([], s)
  | s, c :: cs =>
    let r := nstep P s c
    let r2 := nrun P r.2 cs
    (r.1 ++ r2.1, r2.2)

def NS.init : NS := ⟨.normal, .start, false⟩

/-- Canonical text of a prelude / item: whitespace runs outside strings and comments become one
    space, and disappear at the ends and next to the punctuation `P`. -/
def nm (P : Char → Bool) (x : Str) : Str := (nrun P NS.init x).1

/-- Optional-whitespace punctuation of preludes (selectors, at-rule parameters). -/
def Ppre (c : Char) : Bool := c = ',' || c = '>' || c = '+' || c = '~'
/-- … and of items (declarations, body-less at-rules). -/
def Pitem (c : Char) : Bool := c = ',' || c = '/' || c = ':'


mutual
inductive RNode
  | block (prelude : Str) (kids : RNodes)
  | item (text : Str)
  | comment (text : Str)
inductive RNodes
  | nil
  | cons (n : RNode) (ns : RNodes)
end

inductive Delim | opn | cls | semi | eof
  deriving DecidableEq, Repr

def delimOf (c : Char) : Delim := if c = '{' then .opn else if c = '}' then .cls else .semi

/-- One segment: the RAW text up to the next `{ } ;` outside strings/comments, the delimiter, and
    the text after it. -/
def scanSeg : Mode → Str → Str × Delim × Str
  | _, [] => ([], .eof, [])
  | m, c :: cs =>
    if m.isTop && structural c then ([], delimOf c, cs)
    else
      let r := scanSeg (mstep m c) cs
      (c :: r.1, r.2.1, r.2.2)

def skipWs : Str → Str
  | [] => []
  | c :: cs => if isWsC c then skipWs cs else c :: cs

/-- After `/*`: everything up to and including the first `*/`, and the rest. -/
def commentBody : Str → Option (Str × Str)
  | [] => none
  | c :: r =>
    if c = '*' && r.head? = some '/' then some (['*', '/'], r.drop 1)
    else (commentBody r).map (fun x => (c :: x.1, x.2))

def takeComment : Str → Option (Str × Str)
  | '/' :: '*' :: r => (commentBody r).map (fun x => ('/' :: '*' :: x.1, x.2))
  | _ => none

def isLoud (c : Str) : Bool := startsWith c ['/', '*', '!']

def consItem (seg : Str) (ns : RNodes) : RNodes := if seg.isEmpty then ns else .cons (.item seg) ns
def consComment (c : Str) (ns : RNodes) : RNodes := if isLoud c then .cons (.comment c) ns else ns

/-- Reads statements until the `}` that closes the current block (consumed; `top = false`) or the
    end of the text (`top = true`).  Comments that are not `/*!` are dropped; empty items (a final
    optional `;`) are dropped. -/
def readNodes : Nat → Bool → Str → Option (RNodes × Str)
  | 0, _, _ => none
  | f + 1, top, text =>
    let t := skipWs text
    if t.isEmpty then (if top then some (.nil, []) else none)
    else if startsWith t ['/', '*'] then
      match takeComment t with
      | some (c, rest) => (readNodes f top rest).map (fun r => (consComment c r.1, r.2))
      | none => none
    else
      match scanSeg .normal t with
      | (seg, .semi, rest) => (readNodes f top rest).map (fun r => (consItem (nm Pitem seg) r.1, r.2))
      | (seg, .cls, rest) => if top then none else some (consItem (nm Pitem seg) .nil, rest)
      | (seg, .eof, _) => if top then some (consItem (nm Pitem seg) .nil, []) else none
      | (seg, .opn, rest) =>
        match readNodes f false rest with
        | some (kids, rest') => (readNodes f top rest').map (fun r => (.cons (.block (nm Ppre seg) kids) r.1, r.2))
        | none => none

/-- Drop a leading BOM or `@charset "UTF-8";` line. -/
def stripHeader (out : Str) : Str :=
  if startsWith out charsetPrefix then out.drop charsetPrefix.length
  else if out.head? = some bom then out.drop 1 else out

/-- CssRead: the statement tree of a serialised text. -/
def readTree (out : Str) : Option RNodes :=
  let t := stripHeader out
  match readNodes (t.length + 1) true t with
  | some (ns, _) => some ns
  | none => none

/-! ### what the reader is expected to return -/

def rulePrelude (st : Style) (sel : Selector) : Str := selectorOut st sel
def declText (st : Style) (name : Str) (custom : Bool) (v : Value) : Str :=
  name ++ [':'] ++ (if !custom && !st.isCompressed then [' '] else []) ++ v.out st
def mediaPrelude (st : Style) (qs : List Query) : Str := lit "@media " ++ joinWith (',' :: optSp st) (qs.map queryOut)
def supportsPrelude (params : Str) : Str := lit "@supports" ++ (if params.isEmpty then [] else ' ' :: params)
def unknownPrelude (name params : Str) : Str := '@' :: name ++ (if params.isEmpty then [] else ' ' :: params)
def kfPrelude (sels : List Str) : Str := joinWith (lit ", ") sels
def importText (url : Str) (mods : Option Str) : Str :=
  lit "@import " ++ url ++ (match mods with | some m => ' ' :: m | none => [])

def consOpt (n : Option RNode) (ns : RNodes) : RNodes :=
  match n with
  | some n => .cons n ns
  | none => ns

mutual
/-- The node the reader returns for a statement printed in style `st` (none: nothing is read). -/
def canonStmt (st : Style) : Stmt → Option RNode
  | .rule ge sel body =>
    if (Stmt.rule ge sel body).isInvisible then none
    else some (.block (nm Ppre (rulePrelude st sel)) (canonKids st body))
  | .decl name custom v => if v.isBlank then none else some (.item (nm Pitem (declText st name custom v)))
  | .media ge qs body =>
    if (Stmt.media ge qs body).isInvisible then none
    else some (.block (nm Ppre (mediaPrelude st qs)) (canonKids st body))
  | .supports ge params body =>
    if (Stmt.supports ge params body).isInvisible then none
    else some (.block (nm Ppre (supportsPrelude params)) (canonKids st body))
  | .unknown _ name params hasBody body =>
    if !hasBody then some (.item (nm Pitem (unknownPrelude name params)))
    else some (.block (nm Ppre (unknownPrelude name params)) (if body.allInvisible then .nil else canonKids st body))
  | .kf sels body =>
    if (Stmt.kf sels body).isInvisible then none
    else some (.block (nm Ppre (kfPrelude sels)) (canonKids st body))
  | .comment text col => if isLoud (commentOut text col) then some (.comment (commentOut text col)) else none
  | .import url mods => some (.item (nm Pitem (importText url mods)))
def canonKids (st : Style) : Stmts → RNodes
  | .nil => .nil
  | .cons s ss => consOpt (canonStmt st s) (canonKids st ss)
end

def canonTop (st : Style) : List Stmt → RNodes
  | [] => .nil
  | s :: ss => consOpt (canonStmt st s) (canonTop st ss)

/-! ### guard: what the reader can read back -/

def headOk (x : Str) : Bool :=
  match x with
  | c :: _ => c != '/' && !isWsC c
  | [] => false

/-- A header / item text: flat and starting with a character that is neither whitespace nor `/`. -/
def hdrOk (x : Str) : Bool := flat x && headOk x

/-- A comment token: `/* … */` whose first `*/` is its end. -/
def commentTok (c : Str) : Bool := takeComment c == some (c, [])

mutual
/-- (statements that are invisible are never printed and need no guard) -/
def Stmt.readable (st : Style) : Stmt → Bool
  | .rule ge sel body => (Stmt.rule ge sel body).isInvisible || (hdrOk (rulePrelude st sel) && body.readable st)
  | .decl name custom v => v.isBlank || hdrOk (declText st name custom v)
  | .media ge qs body => (Stmt.media ge qs body).isInvisible || (hdrOk (mediaPrelude st qs) && body.readable st)
  | .supports ge params body =>
    (Stmt.supports ge params body).isInvisible || (hdrOk (supportsPrelude params) && body.readable st)
  | .unknown _ name params _ body => hdrOk (unknownPrelude name params) && body.readable st
  | .kf sels body => (Stmt.kf sels body).isInvisible || (hdrOk (kfPrelude sels) && body.readable st)
  | .comment text col =>
    commentTok (commentOut text col) && (isLoud (commentOut text col) == startsWith text (lit "/*!"))
  | .import url mods => hdrOk (importText url mods)
def Stmts.readable (st : Style) : Stmts → Bool
  | .nil => true
  | .cons s ss => s.readable st && ss.readable st
end

def treeReadable (st : Style) (t : List Stmt) : Bool := t.all (Stmt.readable st)



/-! ### style-free guard of `C06_style_equiv_model` -/

def combOk (c : Char) : Bool := c = '>' || c = '+' || c = '~'

def compOk : Component → Bool
  | .comb c => combOk c
  | .compound ss => flat (compoundOut ss)

/-- selector guard: combinators are `>` `+` `~`, compounds are flat, the printed selector starts
    with a non-blank character other than `/` -/
def selG (sel : Selector) : Bool :=
  (sel.filter (fun c => !c.isInvisible)).all (fun cx => cx.comps.all compOk) &&
  headOk (selectorOut .expanded sel) && headOk (selectorOut .compressed sel)

def headNotStar (x : Str) : Bool :=
  match x with
  | c :: _ => c != '*'
  | [] => false

def Atom.g : Atom → Bool
  | .raw s => flat (unquotedOut s) && headNotStar (unquotedOut s)
  | .quoted _ => true

def Value.g : Value → Bool
  | .atom a => a.isBlank || a.g
  | .list _ items => items.all (fun a => a.isBlank || a.g)


mutual
/-- Guard of the style-equivalence theorem, independent of the style: the opaque pieces are flat
    (selector components, property names, unquoted atoms, queries, at-rule headers), unquoted atoms
    do not start with `*` (compressed `a/*b` would open a comment), headers do not start with
    whitespace or `/`, comments are `/* … */` tokens.  Quoted strings are NOT constrained. -/
def Stmt.g : Stmt → Bool
  | .rule ge sel body => (Stmt.rule ge sel body).isInvisible || (selG sel && body.g)
  | .decl name _ v => v.isBlank || (flat name && headOk name && v.g)
  | .media ge qs body => (Stmt.media ge qs body).isInvisible || ((qs.map queryOut).all flat && body.g)
  | .supports ge params body => (Stmt.supports ge params body).isInvisible || (hdrOk (supportsPrelude params) && body.g)
  | .unknown _ name params _ body => hdrOk (unknownPrelude name params) && body.g
  | .kf sels body => (Stmt.kf sels body).isInvisible || (hdrOk (kfPrelude sels) && body.g)
  | .comment text col =>
    commentTok (commentOut text col) && (isLoud (commentOut text col) == startsWith text (lit "/*!"))
  | .import url mods => hdrOk (importText url mods)
def Stmts.g : Stmts → Bool
  | .nil => true
  | .cons s ss => s.g && ss.g
end

def treeG (t : List Stmt) : Bool := t.all Stmt.g


/-! ### embedding a read tree back into the statement tree (`C05_fixed_point_model`) -/

/-- Split at the first `:` (not string-aware; used on declaration items `name:value`). -/
def splitColon : Str → Option (Str × Str)
  | [] => none
  | c :: cs => if c = ':' then some ([], cs) else (splitColon cs).map (fun r => (c :: r.1, r.2))

def isAtText (t : Str) : Bool := t.head? = some '@'

mutual
def RNode.embed : RNode → Stmt
  | .block p kids =>
    if isAtText p then .unknown false (p.drop 1) [] true kids.embed
    else .rule true [⟨false, [.compound [.text p]]⟩] kids.embed
  | .item t =>
    if isAtText t then .unknown false (t.drop 1) [] false .nil
    else match splitColon t with
      | some (n, v) => .decl n true (.atom (.raw v))
      | none => .decl t true (.atom (.raw []))
  | .comment c => .comment c 0
def RNodes.embed : RNodes → Stmts
  | .nil => .nil
  | .cons n ns => .cons n.embed ns.embed
end

/-- A canonical text that survives another print → read: flat, already normalised (`nm P`), starts with a
    non-blank character other than `/`, and has no raw newline. -/
def textOk (P : Char → Bool) (p : Str) : Bool := hdrOk p && nm P p == p && !p.contains '\n'

mutual
/-- Guard of `C05_fixed_point_model`: the read tree can be embedded and read again unchanged. -/
def RNode.embedOk : RNode → Bool
  | .block p kids =>
    textOk Ppre p && kids.embedOk && (isAtText p || !kids.embed.allInvisible)
  | .item t =>
    textOk Pitem t && (isAtText t ||
      (match splitColon t with
       | some (n, v) => !v.isEmpty && hdrOk n
       | none => false))
  | .comment c => commentTok c && isLoud c && commentOut c 0 == c
def RNodes.embedOk : RNodes → Bool
  | .nil => true
  | .cons n ns => n.embedOk && ns.embedOk
end

def RNodes.toList : RNodes → List RNode
  | .nil => []
  | .cons n ns => n :: ns.toList

def embedTop (c : RNodes) : List Stmt := c.toList.map RNode.embed


/-! ## driver: tree decoding -/

open Grass.Proto

def hexStr (h : String) : Option Str := (hexDecode h).map String.toList

def optHexStr (h : String) : Option (Option Str) :=
  if h == "_" then some none else (hexStr h).map some

def takeN {α} (f : List String → Option (α × List String)) : Nat → List String → Option (List α × List String)
  | 0, ts => some ([], ts)
  | n + 1, ts =>
    match f ts with
    | some (a, ts') => (takeN f n ts').map fun r => (a :: r.1, r.2)
    | none => none

def parseSimple : List String → Option (Simple × List String)
  | "s" :: h :: r => (hexStr h).map fun s => (Simple.text s, r)
  | "ph" :: h :: r => (hexStr h).map fun s => (Simple.placeholder s, r)
  | _ => none

def parseComponent : List String → Option (Component × List String)
  | "cb" :: c :: r =>
    match c.toList with
    | [ch] => if ch = '>' || ch = '+' || ch = '~' then some (Component.comb ch, r) else none
    | _ => none
  | "cp" :: n :: r =>
    match n.toNat? with
    | some n => (takeN parseSimple n r).map fun x => (Component.compound x.1, x.2)
    | none => none
  | _ => none

def parseComplex : List String → Option (Complex × List String)
  | "cx" :: lb :: n :: r =>
    match parseBool? lb, n.toNat? with
    | some lb, some n => (takeN parseComponent n r).map fun x => (⟨lb, x.1⟩, x.2)
    | _, _ => none
  | _ => none

def parseHexStrTok : List String → Option (Str × List String)
  | h :: r => (hexStr h).map fun s => (s, r)
  | _ => none

def parseQuery : List String → Option (Query × List String)
  | "q" :: m :: t :: conj :: n :: r =>
    match optHexStr m, optHexStr t, parseBool? conj, n.toNat? with
    | some m, some t, some conj, some n =>
      (takeN parseHexStrTok n r).map fun x => (⟨m, t, x.1, conj⟩, x.2)
    | _, _, _, _ => none
  | _ => none

def parseAtom : List String → Option (Atom × List String)
  | "r" :: h :: r => (hexStr h).map fun s => (Atom.raw s, r)
  | "qs" :: h :: r => (hexStr h).map fun s => (Atom.quoted s, r)
  | _ => none

def parseSep : String → Option Sep
  | "s" => some .space
  | "c" => some .comma
  | "l" => some .slash
  | _ => none

def parseValue : List String → Option (Value × List String)
  | "a" :: r => (parseAtom r).map fun x => (Value.atom x.1, x.2)
  | "l" :: sep :: n :: r =>
    match parseSep sep, n.toNat? with
    | some sep, some n => (takeN parseAtom n r).map fun x => (Value.list sep x.1, x.2)
    | _, _ => none
  | _ => none

mutual
def parseStmt : Nat → List String → Option (Stmt × List String)
  | 0, _ => none
  | fuel + 1, ts =>
    match ts with
    | "rule" :: ge :: n :: r =>
      match parseBool? ge, n.toNat? with
      | some ge, some n =>
        match takeN parseComplex n r with
        | some (sel, r) => (parseBody fuel r).map fun x => (Stmt.rule ge sel x.1, x.2)
        | none => none
      | _, _ => none
    | "decl" :: name :: custom :: r =>
      match hexStr name, parseBool? custom with
      | some name, some custom => (parseValue r).map fun x => (Stmt.decl name custom x.1, x.2)
      | _, _ => none
    | "media" :: ge :: n :: r =>
      match parseBool? ge, n.toNat? with
      | some ge, some n =>
        match takeN parseQuery n r with
        | some (qs, r) => (parseBody fuel r).map fun x => (Stmt.media ge qs x.1, x.2)
        | none => none
      | _, _ => none
    | "supports" :: ge :: params :: r =>
      match parseBool? ge, hexStr params with
      | some ge, some params => (parseBody fuel r).map fun x => (Stmt.supports ge params x.1, x.2)
      | _, _ => none
    | "at" :: ge :: name :: params :: hasBody :: r =>
      match parseBool? ge, hexStr name, hexStr params, parseBool? hasBody with
      | some ge, some name, some params, some hasBody =>
        (parseBody fuel r).map fun x => (Stmt.unknown ge name params hasBody x.1, x.2)
      | _, _, _, _ => none
    | "kf" :: n :: r =>
      match n.toNat? with
      | some n =>
        match takeN parseHexStrTok n r with
        | some (sels, r) => (parseBody fuel r).map fun x => (Stmt.kf sels x.1, x.2)
        | none => none
      | none => none
    | "comment" :: col :: text :: r =>
      match col.toNat?, hexStr text with
      | some col, some text => some (Stmt.comment text col, r)
      | _, _ => none
    | "import" :: url :: mods :: r =>
      match hexStr url, optHexStr mods with
      | some url, some mods => some (Stmt.import url mods, r)
      | _, _ => none
    | _ => none
/-- `<n> stmt*` -/
def parseBody : Nat → List String → Option (Stmts × List String)
  | 0, _ => none
  | fuel + 1, ts =>
    match ts with
    | n :: r =>
      match n.toNat? with
      | some n => parseStmtsN fuel n r
      | none => none
    | [] => none
def parseStmtsN : Nat → Nat → List String → Option (Stmts × List String)
  | 0, _, _ => none
  | _ + 1, 0, ts => some (.nil, ts)
  | fuel + 1, n + 1, ts =>
    match parseStmt fuel ts with
    | some (s, r) => (parseStmtsN fuel n r).map fun x => (Stmts.cons s x.1, x.2)
    | none => none
end

def parseTree (ts : List String) : Option (List Stmt) :=
  match parseBody (2 * ts.length + 4) ts with
  | some (ss, []) => some ss.toList
  | _ => none

def parseStyle : String → Option Style
  | "e" => some .expanded
  | "c" => some .compressed
  | _ => none

def outHex (s : Str) : String := hexEncode (String.ofList s)

/-! ### driver encoding of a read tree -/
mutual
def RNode.enc : RNode → String
  | .block p kids => "B" ++ outHex p ++ "(" ++ kids.enc ++ ")"
  | .item t => "I" ++ outHex t
  | .comment t => "C" ++ outHex t
def RNodes.enc : RNodes → String
  | .nil => ""
  | .cons n ns => n.enc ++ "," ++ ns.enc
end


/-- Sass-only syntax scanner (P̂ `sassFree`), see below. -/
def isNameStart (c : Char) : Bool :=
  c.isAlpha || c = '_' || c = '-' || c.toNat ≥ 128

def sassAtRules : List Str :=
  ["mixin", "include", "function", "return", "if", "else", "each", "for", "while", "use", "forward",
   "extend", "debug", "warn", "error", "at-root", "content"].map lit

/-- Scanner state for `sassFree`: string/comment tracking as in `Mode`, plus what has been seen in
    the current segment (text since the last `{`, `}` or `;` outside strings and comments):
    `seg` = the segment's non-string characters in reverse. -/
structure SassScan where
  mode : Mode
  seg : Str          -- reversed
  prev : Option Char -- previous character in normal mode (for `#{`, `$x`)
  deriving Repr

def segIsAtRule (seg : Str) : Bool := (trimStart seg.reverse).head? = some '@'

def atRuleName (seg : Str) : Str :=
  ((trimStart seg.reverse).drop 1).takeWhile (fun c => c.isAlphanum || c = '-' || c = '_')

def percentAfterDigit : Option Char → Bool
  | some p => p.isDigit
  | none => false

def selBad (seg : Str) : Bool :=
  -- `seg` is the forward text; a `%` directly after a digit is a percentage (keyframe selector)
  let rec go : Option Char → Str → Bool
    | _, [] => false
    | p, c :: cs =>
      if c = '&' then true
      else if c = '%' && !percentAfterDigit p && (match cs with | d :: _ => isNameStart d | [] => false) then true
      else go (some c) cs
  go none seg

/-- P̂ (Sass-free): outside strings and comments there is no `#{`, no `$name`, no Sass-only
    at-rule, and no `&` / `%placeholder` in a rule prelude that is not an at-rule. -/
def sassFreeStep (s : SassScan) (c : Char) : Option SassScan :=
  match s.mode with
  | .normal | .slash =>
    if s.mode = .slash && c = '*' then some { s with mode := .comment, prev := none }
    else if c = '"' || c = '\'' then some { s with mode := .str c, seg := c :: s.seg, prev := some c }
    else if c = '\\' then some { s with mode := .esc, seg := c :: s.seg, prev := some c }
    else if c = '{' then
      if s.prev = some '#' then none
      else
        let fwd := s.seg.reverse
        if segIsAtRule s.seg then
          (if sassAtRules.contains (atRuleName s.seg) then none else some { mode := .normal, seg := [], prev := some c })
        else if selBad fwd then none else some { mode := .normal, seg := [], prev := some c }
    else if c = '}' || c = ';' then
      if segIsAtRule s.seg && sassAtRules.contains (atRuleName s.seg) then none
      else some { mode := .normal, seg := [], prev := some c }
    else if s.prev = some '$' && isNameStart c then none
    else some { mode := (if c = '/' then .slash else .normal), seg := c :: s.seg, prev := some c }
  | .esc => some { s with mode := .normal, seg := c :: s.seg, prev := some c }
  | .str q =>
    if c = '\\' then some { s with mode := .strEsc q }
    else if c = q then some { s with mode := .normal, prev := some c }
    else some s
  | .strEsc q => some { s with mode := .str q }
  | .comment => if c = '*' then some { s with mode := .commentStar } else some s
  | .commentStar =>
    if c = '/' then some { s with mode := .normal }
    else if c = '*' then some s
    else some { s with mode := .comment }

def sassFreeRun : SassScan → Str → Option SassScan
  | s, [] => some s
  | s, c :: cs => match sassFreeStep s c with | some s' => sassFreeRun s' cs | none => none

def sassFree (out : Str) : Bool :=
  match sassFreeRun ⟨.normal, [], none⟩ out with
  | some s => !(segIsAtRule s.seg && sassAtRules.contains (atRuleName s.seg))
  | none => false

/-! ## byte level (C05_output_valid_utf8, C05_charset_iff_bytes)

  The Rust serializer assembles a `Vec<u8>` and turns it into a `String` with
  `String::from_utf8_unchecked` (serializer.rs:633, :648).  The text model above is `List Char`; the
  functions below model what Rust does on BYTES: `str::as_bytes` of a text (`encodeUtf8`, the encoder
  of core/src/char/methods.rs `encode_utf8_raw`), the validity test that `from_utf8_unchecked` skips
  (`validUtf8`, the automaton of core/src/str/validations.rs `run_utf8_validation`: no overlong forms,
  no surrogates, nothing above U+10FFFF), `str::is_char_boundary`, and byte-level versions of the places
  of serializer.rs that index or test bytes: `write_media_query`'s `condition["(not ".len()..len - 1]`
  (:535), `finish`'s `is_not_ascii` / `push(b';')` / `insert(0, '\u{FEFF}')` (:637-654) and `str::len` in
  `write_comment` (:1020, `byteLen`). -/

abbrev Bytes := List UInt8

/-- `char::encode_utf8` (core/src/char/methods.rs `encode_utf8_raw`). -/
def encodeChar (c : Char) : Bytes :=
  let n := c.toNat
  if n < 0x80 then [UInt8.ofNat n]
  else if n < 0x800 then [UInt8.ofNat (0xC0 + n / 64), UInt8.ofNat (0x80 + n % 64)]
  else if n < 0x10000 then
    [UInt8.ofNat (0xE0 + n / 4096), UInt8.ofNat (0x80 + n / 64 % 64), UInt8.ofNat (0x80 + n % 64)]
  else
    [UInt8.ofNat (0xF0 + n / 262144), UInt8.ofNat (0x80 + n / 4096 % 64), UInt8.ofNat (0x80 + n / 64 % 64),
     UInt8.ofNat (0x80 + n % 64)]

/-- `str::as_bytes` of a text. -/
def encodeUtf8 : Str → Bytes
  | [] => []
  | c :: cs => encodeChar c ++ encodeUtf8 cs

/-- State of the UTF-8 validator: continuation bytes still expected and the range allowed for the
    NEXT one (the second byte of E0 / ED / F0 / F4 sequences is restricted: no overlong forms, no
    surrogates, nothing above U+10FFFF). -/
structure U8St where
  need : Nat
  lo : Nat
  hi : Nat
  deriving DecidableEq, Repr

def U8St.init : U8St := ⟨0, 0x80, 0xBF⟩

/-- One byte of `run_utf8_validation` (core/src/str/validations.rs; table of RFC 3629 §4). -/
def utf8Step (s : U8St) (b : UInt8) : Option U8St :=
  let n := b.toNat
  if s.need = 0 then
    if n < 0x80 then some ⟨0, 0x80, 0xBF⟩
    else if 0xC2 ≤ n && n ≤ 0xDF then some ⟨1, 0x80, 0xBF⟩
    else if n = 0xE0 then some ⟨2, 0xA0, 0xBF⟩
    else if n = 0xED then some ⟨2, 0x80, 0x9F⟩
    else if 0xE1 ≤ n && n ≤ 0xEF then some ⟨2, 0x80, 0xBF⟩
    else if n = 0xF0 then some ⟨3, 0x90, 0xBF⟩
    else if n = 0xF4 then some ⟨3, 0x80, 0x8F⟩
    else if 0xF1 ≤ n && n ≤ 0xF3 then some ⟨3, 0x80, 0xBF⟩
    else none
  else if s.lo ≤ n && n ≤ s.hi then some ⟨s.need - 1, 0x80, 0xBF⟩
  else none

def utf8Run : U8St → Bytes → Option U8St
  | s, [] => some s
  | s, b :: bs => match utf8Step s b with | some s' => utf8Run s' bs | none => none

/-- P̂ (valid UTF-8): what `str::from_utf8` checks and `from_utf8_unchecked` assumes. -/
def validUtf8 (bs : Bytes) : Bool :=
  match utf8Run U8St.init bs with
  | some s => s.need == 0
  | none => false

/-- A continuation byte `10xxxxxx`. -/
def isContByte (b : UInt8) : Bool := 0x80 ≤ b.toNat && b.toNat ≤ 0xBF

/-- `str::is_char_boundary` (core/src/str/mod.rs): index 0, the length, or a byte that is not a
    continuation byte (`(b as i8) >= -0x40`). -/
def isCharBoundary (bs : Bytes) (i : Nat) : Bool :=
  if i = 0 then true
  else match bs[i]? with
    | some b => !isContByte b
    | none => i == bs.length

/-- The byte range `bs[i..j]`. -/
def sliceB (bs : Bytes) (i j : Nat) : Bytes := (bs.take j).drop i

def isAsciiStr (p : Str) : Bool := p.all (fun c => c.toNat < 0x80)

/-- `!u8::is_ascii` (serializer.rs:637). -/
def nonAsciiB (b : UInt8) : Bool := 0x80 ≤ b.toNat

/-- The three bytes of U+FEFF. -/
def bomB : Bytes := [0xEF, 0xBB, 0xBF]

def charsetPrefixB : Bytes := encodeUtf8 charsetPrefix

/-- P̂ (charset, on bytes): the output starts with the bytes of `@charset "UTF-8";\n` or with EF BB BF. -/
def hasCharsetOrBomB (out : Bytes) : Bool :=
  charsetPrefixB.isPrefixOf out || bomB.isPrefixOf out

/-- P̂ (charset rule, on bytes): header present exactly when allowed and a byte ≥ 0x80 follows it. -/
def charsetOkB (allowsCharset : Bool) (out : Bytes) : Bool :=
  let rest := if charsetPrefixB.isPrefixOf out then out.drop charsetPrefixB.length
              else if bomB.isPrefixOf out then out.drop 3 else out
  hasCharsetOrBomB out == (allowsCharset && rest.any nonAsciiB)

def optNlB (st : Style) : Bytes := if st.isCompressed then [] else [0x0A]

/-- `finish` (serializer.rs:635-657) on the byte buffer: `is_not_ascii` looks at bytes, `;` and the
    newline are pushed as bytes, the BOM / `@charset` rule is inserted at byte index 0. -/
def finishB (st : Style) (allowsCharset : Bool) (buf : Bytes) (prevSemi : Bool) : Bytes :=
  let nonAscii := buf.any nonAsciiB
  let b1 := if prevSemi then buf ++ [0x3B] else buf
  let b2 := if !b1.isEmpty then b1 ++ optNlB st else b1
  if nonAscii && st.isCompressed && allowsCharset then bomB ++ b2
  else if nonAscii && allowsCharset then charsetPrefixB ++ b2
  else b2

/-- The bytes handed to `from_utf8_unchecked` + header: the buffer of the top-level loop as bytes,
    finished by the byte-level `finish`. -/
def serializeB (st : Style) (allowsCharset : Bool) (t : List Stmt) : Bytes :=
  finishB st allowsCharset (encodeUtf8 (topLoop st Top.init t).buf) (topLoop st Top.init t).prevSemi

structure QueryB where
  modifier : Option Bytes
  mediaType : Option Bytes
  conditions : List Bytes
  conjunction : Bool

def Query.toB (q : Query) : QueryB :=
  ⟨q.modifier.map encodeUtf8, q.mediaType.map encodeUtf8, q.conditions.map encodeUtf8, q.conjunction⟩

def joinWithB (sep : Bytes) : List Bytes → Bytes
  | [] => []
  | [x] => x
  | x :: y :: r => x ++ sep ++ joinWithB sep (y :: r)

def notPrefixB : Bytes := encodeUtf8 (lit "(not ")

/-- `write_media_query` (serializer.rs:517-541) on bytes; the slice is
    `condition["(not ".len()..condition.len() - 1]` with BYTE indices. -/
def queryOutB (q : QueryB) : Bytes :=
  (match q.modifier with | some m => m ++ [0x20] | none => []) ++
  (match q.mediaType with
    | some t => t ++ (if q.conditions.isEmpty then [] else encodeUtf8 (lit " and "))
    | none => []) ++
  (match q.conditions with
    | [c] =>
      if notPrefixB.isPrefixOf c then encodeUtf8 (lit "not ") ++ sliceB c notPrefixB.length (c.length - 1)
      else c
    | cs => joinWithB (if q.conjunction then encodeUtf8 (lit " and ") else encodeUtf8 (lit " or ")) cs)

def lastAscii (c : Str) : Bool :=
  match c.getLast? with
  | some x => x.toNat < 0x80
  | none => false

/-- What the slice `condition["(not ".len()..condition.len() - 1]` needs in order not to panic: at
    least one character after the prefix, and the last character is one byte long (it is the `)` that
    closes the condition). -/
def notSliceOk (c : Str) : Bool := decide (6 ≤ c.length) && lastAscii c

def Query.sliceOk (q : Query) : Bool :=
  match q.conditions with
  | [c] => !startsWith c (lit "(not ") || notSliceOk c
  | _ => true

/-- Driver entry.  Requests (after the `ser` token):
    `print <e|c> <0|1> <tree…>`   → `ok <hex of serialize> <wellFormed> <charsetOk> <treeOk> <sassFree> <treeReadable> <treeG> <bodyHasHeader> <embedOk of the canonical tree> <treeLeafFree for & $ % #>`
    `wf <hex>`                     → `ok <0|1>`   P̂ well-formedness of a text
    `charset <0|1> <hex>`          → `ok <0|1>`   P̂ charset rule
    `sassfree <hex>`               → `ok <0|1>`
    `read <hex>`                   → `ok <rules>` | `none`   CssRead (declaration-only subset)
    `readtree <hex>`               → `ok <tree>` | `none`    CssRead (whole serialised subset)
    `canon <e|c> <tree…>`          → `ok <tree>`             what `readtree` must return for that tree
    `quote <hex>`                  → `ok <hex of quote s> <quotedOk> <roundtrip ok>`
    `quotedok <hex of token>`      → `ok <0|1> <hex of unescape or _>`
    `printb <e|c> <0|1> <tree…>`   → `ok <hex of serializeB> <validUtf8> <= encodeUtf8 (serialize)> <hasCharsetOrBomB> <charsetOkB>`
    `utf8 <0|1> <hex bytes>`       → `ok <validUtf8> <charsetOkB> <length>`   P̂ on raw bytes
    `mqb q …`                      → `ok <hex of queryOutB> <sliceOk> <= encodeUtf8 (queryOut)>`  -/
def handle : List String → String
  | "print" :: st :: cs :: tree =>
    match parseStyle st, parseBool? cs, parseTree tree with
    | some st, some cs, some t =>
      let out := serialize st cs t
      "ok " ++ outHex out ++ " " ++ boolStr (wellFormed out) ++ " " ++ boolStr (charsetOk cs out) ++ " " ++
        boolStr (treeOk st t) ++ " " ++ boolStr (sassFree out) ++ " " ++ boolStr (treeReadable st t) ++ " " ++
        boolStr (treeG t) ++ " " ++ boolStr (hasCharsetOrBom (serialize st false t)) ++ " " ++
        boolStr (canonTop st t).embedOk ++ " " ++
        String.ofList (['&', '$', '%', '#'].map fun c => if treeLeafFree c t then '1' else '0')
    | _, _, _ => "bad-op"
  | ["wf", h] =>
    match hexStr h with
    | some s => "ok " ++ boolStr (wellFormed s)
    | none => "bad-op"
  | ["charset", cs, h] =>
    match parseBool? cs, hexStr h with
    | some cs, some s => "ok " ++ boolStr (charsetOk cs s)
    | _, _ => "bad-op"
  | ["sassfree", h] =>
    match hexStr h with
    | some s => "ok " ++ boolStr (sassFree s)
    | none => "bad-op"
  | ["readtree", h] =>
    match hexStr h with
    | some s => (match readTree s with | some ns => "ok " ++ ns.enc | none => "none")
    | none => "bad-op"
  | "canon" :: st :: tree =>
    match parseStyle st, parseTree tree with
    | some st, some t => "ok " ++ (canonTop st t).enc
    | _, _ => "bad-op"
  | ["read", h] =>
    -- `read <hex>` → `ok <sel>=<name>:<value>,…|…` with hex fields, or `none`
    match hexStr h with
    | some s =>
      match readCss s with
      | some rules =>
        "ok " ++ String.intercalate "|" (rules.map fun r =>
          outHex r.1 ++ "=" ++ String.intercalate "," (r.2.map fun d => outHex d.1 ++ ":" ++ outHex d.2))
      | none => "none"
    | none => "bad-op"
  | ["quote", h] =>
    match hexStr h with
    | some s =>
      let q := quote s
      "ok " ++ outHex q ++ " " ++ boolStr (quotedOk q) ++ " " ++ boolStr (unescape q == some s)
    | none => "bad-op"
  | ["quotedok", h] =>
    match hexStr h with
    | some s => "ok " ++ boolStr (quotedOk s) ++ " " ++ (match unescape s with | some u => outHex u | none => "_")
    | none => "bad-op"
  | "printb" :: st :: cs :: tree =>
    -- byte level: `ok <hex of serializeB> <validUtf8> <serializeB == encodeUtf8 (serialize)> <hasCharsetOrBomB> <charsetOkB>`
    match parseStyle st, parseBool? cs, parseTree tree with
    | some st, some cs, some t =>
      let bs := serializeB st cs t
      "ok " ++ hexEncodeBytes bs ++ " " ++ boolStr (validUtf8 bs) ++ " " ++
        boolStr (bs == encodeUtf8 (serialize st cs t)) ++ " " ++ boolStr (hasCharsetOrBomB bs) ++ " " ++
        boolStr (charsetOkB cs bs)
    | _, _, _ => "bad-op"
  | ["utf8", cs, h] =>
    -- P̂ on raw bytes: `ok <validUtf8> <charsetOkB> <number of bytes>`
    match parseBool? cs, hexDecodeBytes h with
    | some cs, some bs => "ok " ++ boolStr (validUtf8 bs) ++ " " ++ boolStr (charsetOkB cs bs) ++ " " ++ toString bs.length
    | _, _ => "bad-op"
  | "mqb" :: q =>
    -- byte-level write_media_query: `ok <hex of queryOutB> <sliceOk> <queryOutB == encodeUtf8 (queryOut)>`
    match parseQuery q with
    | some (q, []) =>
      "ok " ++ hexEncodeBytes (queryOutB q.toB) ++ " " ++ boolStr q.sliceOk ++ " " ++
        boolStr (queryOutB q.toB == encodeUtf8 (queryOut q))
    | _ => "bad-op"
  | _ => "bad-op"

end Grass.Serialize
