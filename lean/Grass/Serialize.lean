import Grass.Proto
/- Core `Serialize` — stub; replaced by the model (see DESIGN.md §8). -/
namespace Grass.Serialize

def handle : List String → String
  | _ => "bad-op"

end Grass.Serialize
