import Grass.Proto
/-
  C17 core — media queries and their merge.
  Mirrors crates/compiler/src/ast/media.rs (`MediaQuery::merge`, line 52 ff.) and
  evaluate/visitor.rs `merge_media_queries` (line 1348) / `visit_media_rule` (line 1377).

  Media types and modifiers are compared case-insensitively by the code; the model works
  on the already lower-cased vocabulary, as enums.  Feature conditions are opaque: grass
  keeps their text and compares it for string equality; the model uses natural numbers.
-/
namespace Grass.Media

inductive MType where
  | all | screen | print | other (n : Nat)
  deriving DecidableEq, Repr, Inhabited

inductive Modifier where
  | not | only
  deriving DecidableEq, Repr, Inhabited

structure Query where
  modifier : Option Modifier
  mtype    : Option MType
  conds    : List Nat
  conj     : Bool          -- `conjunction`: true = `and`, false = `or`
  deriving DecidableEq, Repr, Inhabited

inductive Merge where
  | empty | unrepresentable | ok (q : Query)
  deriving DecidableEq, Repr, Inhabited

/-- A media environment: the concrete device type and the truth of each feature. -/
structure Env where
  device : MType            -- never `.all` for a real device; `sat` treats `.all` as a wildcard type
  feat   : Nat → Bool

def typeSat (t : Option MType) (e : Env) : Bool :=
  match t with
  | none => true
  | some .all => true
  | some t => decide (t = e.device)

def condsSat (conj : Bool) (cs : List Nat) (e : Env) : Bool :=
  if conj then cs.all e.feat else (cs.isEmpty || cs.any e.feat)

/-- Truth-table semantics of a query (Media Queries 4 restricted to the alphabet).
    `not T and (f)` means `not (T and f)`; `only` has no effect. -/
def Query.sat (q : Query) (e : Env) : Bool :=
  let body := typeSat q.mtype e && condsSat q.conj q.conds e
  match q.modifier with
  | some .not => !body
  | _ => body

def satList (qs : List Query) (e : Env) : Bool := qs.any (·.sat e)

def Query.isNot (q : Query) : Bool := q.modifier = some .not

def Query.matchesAllTypes (q : Query) : Bool :=
  match q.mtype with
  | none => true
  | some .all => true
  | _ => false

/-- Well-formed queries as the parser produces them: a modifier needs a type;
    `or` lists have no type.  (`parse/media_query.rs`.) -/
def Query.wf (q : Query) : Bool :=
  (q.modifier.isNone || q.mtype.isSome) && (q.conj || (q.mtype.isNone && q.modifier.isNone))

/-- The property excludes modifiers applied to `all` (or to no type). -/
def Query.noModOnAll (q : Query) : Bool :=
  q.modifier.isNone || !q.matchesAllTypes

def subset (a b : List Nat) : Bool := a.all (fun x => b.contains x)

/-- `MediaQuery::merge` (media.rs:61).  `typesCompared = true` is the code as it stands now;
    `false` is the variant found on the pinned tree (the `not`/positive branch compared the two
    modifiers, which can never be equal there) and is used only in `AsFound`. -/
def merge (typesCompared : Bool) (a b : Query) : Merge :=
  if !a.conj || !b.conj then .unrepresentable else
  if a.mtype.isNone && b.mtype.isNone then
    .ok { modifier := none, mtype := none, conds := a.conds ++ b.conds, conj := true }
  else if a.isNot != b.isNot then
    if (if typesCompared then decide (a.mtype = b.mtype) else decide (a.modifier = b.modifier)) then
      let neg := if a.isNot then a.conds else b.conds
      let pos := if a.isNot then b.conds else a.conds
      if subset neg pos then .empty else .unrepresentable
    else if a.matchesAllTypes || b.matchesAllTypes then .unrepresentable
    else if a.isNot then
      .ok { modifier := b.modifier, mtype := b.mtype, conds := b.conds, conj := true }
    else
      .ok { modifier := a.modifier, mtype := a.mtype, conds := a.conds, conj := true }
  else if a.isNot then
    if a.mtype ≠ b.mtype then .unrepresentable else
    let more  := if a.conds.length > b.conds.length then a.conds else b.conds
    let fewer := if a.conds.length > b.conds.length then b.conds else a.conds
    if subset fewer more then
      .ok { modifier := a.modifier, mtype := a.mtype, conds := more, conj := true }
    else .unrepresentable
  else if a.matchesAllTypes then
    .ok { modifier := b.modifier,
          mtype := if b.matchesAllTypes && a.mtype.isNone then none else b.mtype,
          conds := a.conds ++ b.conds, conj := true }
  else if b.matchesAllTypes then
    .ok { modifier := a.modifier, mtype := a.mtype, conds := a.conds ++ b.conds, conj := true }
  else if a.mtype ≠ b.mtype then .empty
  else
    .ok { modifier := if a.modifier.isSome then a.modifier else b.modifier,
          mtype := a.mtype, conds := a.conds ++ b.conds, conj := true }

/-- Inner loop of `merge_media_queries` for one outer query. -/
def mergeRow (tc : Bool) (a : Query) : List Query → Option (List Query)
  | [] => some []
  | b :: bs =>
    match merge tc a b with
    | .unrepresentable => none
    | .empty => mergeRow tc a bs
    | .ok q => (mergeRow tc a bs).map (q :: ·)

/-- `merge_media_queries` (visitor.rs:1348): `none` = unrepresentable (rules stay nested). -/
def mergeLists (tc : Bool) : List Query → List Query → Option (List Query)
  | [], _ => some []
  | a :: as, bs =>
    match mergeRow tc a bs, mergeLists tc as bs with
    | some r, some rs => some (r ++ rs)
    | _, _ => none

/-- What `visit_media_rule` emits for `@media A { @media B { body } }`:
    nothing, one merged rule, or the two rules nested. -/
inductive Emitted where
  | dropped
  | levels (ls : List (List Query))     -- outermost first; the body is inside all of them
  deriving DecidableEq, Repr, Inhabited

def nest (tc : Bool) (outer inner : List Query) : Emitted :=
  match mergeLists tc outer inner with
  | some [] => .dropped
  | some r => .levels [r]
  | none => .levels [outer, inner]

/-- An environment reaches the body. -/
def Emitted.sat (em : Emitted) (e : Env) : Bool :=
  match em with
  | .dropped => false
  | .levels ls => ls.all (fun qs => satList qs e)

/-! ### chains of nested `@media` rules (`visit_media_rule`, visitor.rs:1377–1480)

  State carried by the visitor: `self.media_queries` (`mq`), `self.media_query_sources` (`srcs`)
  and the enclosing media rules already emitted (`levels`, outermost first).  A new rule is
  attached below the nearest enclosing rule the `through` predicate does not skip.
  `byEquality = true` is the code as it stands: an enclosing media rule is skipped when all its
  queries are *equal to* queries in the merged-sources set.  `byEquality = false` is the
  specified behaviour: exactly the rule whose queries were merged (the innermost one) is
  replaced. -/

structure ChainSt where
  mq     : Option (List Query)
  srcs   : List Query
  levels : List (List Query)
  deriving Repr

def ChainSt.init : ChainSt := { mq := none, srcs := [], levels := [] }

/-- Drop trailing levels all of whose queries are members of `srcs`. -/
def popThrough (srcs : List Query) (levels : List (List Query)) : List (List Query) :=
  (levels.reverse.dropWhile (fun l => l.all (fun q => srcs.contains q))).reverse

def chainStep (tc byEquality : Bool) (st : ChainSt) (l : List Query) : Option ChainSt :=
  match st.mq with
  | none => some { mq := some l, srcs := [], levels := st.levels ++ [l] }
  | some cur =>
    match mergeLists tc cur l with
    | some [] => none                                   -- empty intersection: rule dropped
    | some r =>
      let srcs' := st.srcs ++ cur ++ l
      some { mq := some r, srcs := srcs',
             levels := (if byEquality then popThrough srcs' st.levels else st.levels.dropLast) ++ [r] }
    | none => some { mq := some l, srcs := [], levels := st.levels ++ [l] }

def chainRun (tc byEquality : Bool) : ChainSt → List (List Query) → Option ChainSt
  | st, [] => some st
  | st, l :: ls => (chainStep tc byEquality st l).bind (chainRun tc byEquality · ls)

def chain (tc byEquality : Bool) (ls : List (List Query)) : Emitted :=
  match chainRun tc byEquality .init ls with
  | none => .dropped
  | some st => .levels st.levels

/-- Scope of the property along a chain: every operand admissible and no excluded pair is ever
    merged (decidable; evaluated by the driver to classify generated cases). -/
def Query.adm (q : Query) : Bool := q.wf && q.noModOnAll
def Excl (a b : Query) : Bool := a.isNot && b.isNot && decide (a.mtype = b.mtype)

def stepInScope (st : ChainSt) (l : List Query) : Bool :=
  l.all Query.adm &&
  match st.mq with
  | none => true
  | some cur => cur.all Query.adm && cur.all (fun a => l.all (fun b => !Excl a b))

def chainInScope (tc byEq : Bool) : ChainSt → List (List Query) → Bool
  | _, [] => true
  | st, l :: ls =>
    stepInScope st l &&
    match chainStep tc byEq st l with
    | none => true
    | some st' => chainInScope tc byEq st' ls

/-! ### driver entry points -/
open Grass.Proto

def mtypeOfStr (s : String) : Option (Option MType) :=
  if s == "_" then some none
  else if s == "all" then some (some .all)
  else if s == "screen" then some (some .screen)
  else if s == "print" then some (some .print)
  else if s.startsWith "o" then (s.drop 1).toString.toNat?.map (fun n => some (.other n))
  else none

def modOfStr (s : String) : Option (Option Modifier) :=
  if s == "_" then some none
  else if s == "not" then some (some .not)
  else if s == "only" then some (some .only)
  else none

def natsOfStr (s : String) : Option (List Nat) :=
  if s == "_" then some [] else (s.splitOn ".").mapM (·.toNat?)

/-- `mod:type:c1.c2:conj` -/
def queryOfStr (s : String) : Option Query :=
  match s.splitOn ":" with
  | [m, t, cs, cj] => do
    let m ← modOfStr m; let t ← mtypeOfStr t; let cs ← natsOfStr cs; let cj ← parseBool? cj
    some { modifier := m, mtype := t, conds := cs, conj := cj }
  | _ => none

/-- `q1;q2;…`  (`-` = empty list) -/
def listOfStr (s : String) : Option (List Query) :=
  if s == "-" then some [] else (s.splitOn ";").mapM queryOfStr

def mtypeStr : Option MType → String
  | none => "_" | some .all => "all" | some .screen => "screen" | some .print => "print"
  | some (.other n) => s!"o{n}"
def modStr : Option Modifier → String
  | none => "_" | some .not => "not" | some .only => "only"
def natsStr (l : List Nat) : String := if l.isEmpty then "_" else ".".intercalate (l.map toString)
def queryStr (q : Query) : String :=
  s!"{modStr q.modifier}:{mtypeStr q.mtype}:{natsStr q.conds}:{boolStr q.conj}"
def listStr (l : List Query) : String := if l.isEmpty then "-" else ";".intercalate (l.map queryStr)

def emittedStr : Emitted → String
  | .dropped => "dropped"
  | .levels ls => "levels " ++ " ".intercalate (ls.map listStr)

/-- All environments over devices {screen, print, other 0} and features `0 … k-1`. -/
def envs (k : Nat) : List Env :=
  let devs := [MType.screen, .print, .other 0]
  (List.range (2 ^ k)).flatMap fun bits =>
    devs.map fun d => { device := d, feat := fun i => (bits / 2 ^ i) % 2 == 1 }

/-- The per-input property predicate P̂: the emitted structure is satisfied by exactly the
    environments satisfying both lists.  Returns the index of the first refuting environment. -/
def checkEmitted (k : Nat) (outer inner : List Query) (em : Emitted) : Option Nat :=
  let es := envs k
  (List.range es.length).find? fun i =>
    match es[i]? with
    | some e => em.sat e != (satList outer e && satList inner e)
    | none => false

def checkChain (k : Nat) (ins : List (List Query)) (em : Emitted) : Option Nat :=
  let es := envs k
  (List.range es.length).find? fun i =>
    match es[i]? with
    | some e => em.sat e != ins.all (fun qs => satList qs e)
    | none => false

def handle : List String → String
  | ["nest", a, b] =>
    match listOfStr a, listOfStr b with
    | some a, some b => "ok " ++ emittedStr (nest true a b)
    | _, _ => "bad-op"
  | "chain" :: ls =>
    match ls.mapM listOfStr with
    | some ls => "ok " ++ boolStr (chainInScope true true .init ls) ++ " " ++ emittedStr (chain true true ls) ++ " | " ++ emittedStr (chain true false ls)
    | none => "bad-op"
  | "checkn" :: k :: n :: rest =>
    -- checkn <k> <n> <L1> … <Ln> (dropped | levels <E1> …): P̂ for a chain of n nested rules
    match k.toNat?, n.toNat? with
    | some k, some n =>
      match (rest.take n).mapM listOfStr, rest.drop n with
      | some ins, "dropped" :: [] =>
        match checkChain k ins .dropped with
        | none => "ok holds" | some i => s!"ok fails {i}"
      | some ins, "levels" :: ls =>
        match ls.mapM listOfStr with
        | some ls =>
          match checkChain k ins (.levels ls) with
          | none => "ok holds" | some i => s!"ok fails {i}"
        | none => "bad-op"
      | _, _ => "bad-op"
    | _, _ => "bad-op"
  | "check" :: k :: a :: b :: "dropped" :: [] =>
    match k.toNat?, listOfStr a, listOfStr b with
    | some k, some a, some b =>
      match checkEmitted k a b .dropped with
      | none => "ok holds" | some i => s!"ok fails {i}"
    | _, _, _ => "bad-op"
  | "check" :: k :: a :: b :: "levels" :: ls =>
    match k.toNat?, listOfStr a, listOfStr b, ls.mapM listOfStr with
    | some k, some a, some b, some ls =>
      match checkEmitted k a b (.levels ls) with
      | none => "ok holds" | some i => s!"ok fails {i}"
    | _, _, _, _ => "bad-op"
  | _ => "bad-op"

end Grass.Media
