import Grass.Proto
/-
  C17 core — media queries and their merge.
  Mirrors crates/compiler/src/ast/media.rs (`MediaQuery::merge`, line 52 ff.) and
  evaluate/visitor.rs `merge_media_queries` (line 1348) / `visit_media_rule` (line 1377).

  Media types and modifiers are compared case-insensitively by the code; the model works
  on the already lower-cased vocabulary, as enums.  Feature conditions are opaque: grass
  keeps their text and compares it for string equality; the model uses natural numbers.
-/
namespace Grass.Media

inductive MType where
  | all | screen | print | other (n : Nat)
  deriving DecidableEq, Repr, Inhabited

inductive Modifier where
  | not | only
  deriving DecidableEq, Repr, Inhabited

structure Query where
  modifier : Option Modifier
  mtype    : Option MType
  conds    : List Nat
  conj     : Bool          -- `conjunction`: true = `and`, false = `or`
  deriving DecidableEq, Repr, Inhabited

inductive Merge where
  | empty | unrepresentable | ok (q : Query)
  deriving DecidableEq, Repr, Inhabited

/-- A media environment: the concrete device type and the truth of each feature. -/
structure Env where
  device : MType            -- never `.all` for a real device; `sat` treats `.all` as a wildcard type
  feat   : Nat → Bool

def typeSat (t : Option MType) (e : Env) : Bool :=
  match t with
  | none => true
  | some .all => true
  | some t => decide (t = e.device)

def condsSat (conj : Bool) (cs : List Nat) (e : Env) : Bool :=
  if conj then cs.all e.feat else (cs.isEmpty || cs.any e.feat)

/-- Truth-table semantics of a query (Media Queries 4 restricted to the alphabet).
    `not T and (f)` means `not (T and f)`; `only` has no effect. -/
def Query.sat (q : Query) (e : Env) : Bool :=
  let body := typeSat q.mtype e && condsSat q.conj q.conds e
  match q.modifier with
  | some .not => !body
  | _ => body

def satList (qs : List Query) (e : Env) : Bool := qs.any (·.sat e)

def Query.isNot (q : Query) : Bool := q.modifier = some .not

def Query.matchesAllTypes (q : Query) : Bool :=
  match q.mtype with
  | none => true
  | some .all => true
  | _ => false

/-- Well-formed queries as the parser produces them: a modifier needs a type;
    `or` lists have no type.  (`parse/media_query.rs`.) -/
def Query.wf (q : Query) : Bool :=
  (q.modifier.isNone || q.mtype.isSome) && (q.conj || (q.mtype.isNone && q.modifier.isNone))

/-- The property excludes modifiers applied to `all` (or to no type). -/
def Query.noModOnAll (q : Query) : Bool :=
  q.modifier.isNone || !q.matchesAllTypes

def subset (a b : List Nat) : Bool := a.all (fun x => b.contains x)

/-- `MediaQuery::merge` (media.rs:61).  `typesCompared = true` is the code as it stands now;
    `false` is the variant found on the pinned tree (the `not`/positive branch compared the two
    modifiers, which can never be equal there) and is used only in `AsFound`. -/
def merge (typesCompared : Bool) (a b : Query) : Merge :=
  if !a.conj || !b.conj then .unrepresentable else
  if a.mtype.isNone && b.mtype.isNone then
    .ok { modifier := none, mtype := none, conds := a.conds ++ b.conds, conj := true }
  else if a.isNot != b.isNot then
    if (if typesCompared then decide (a.mtype = b.mtype) else decide (a.modifier = b.modifier)) then
      let neg := if a.isNot then a.conds else b.conds
      let pos := if a.isNot then b.conds else a.conds
      if subset neg pos then .empty else .unrepresentable
    else if a.matchesAllTypes || b.matchesAllTypes then .unrepresentable
    else if a.isNot then
      .ok { modifier := b.modifier, mtype := b.mtype, conds := b.conds, conj := true }
    else
      .ok { modifier := a.modifier, mtype := a.mtype, conds := a.conds, conj := true }
  else if a.isNot then
    if a.mtype ≠ b.mtype then .unrepresentable else
    let more  := if a.conds.length > b.conds.length then a.conds else b.conds
    let fewer := if a.conds.length > b.conds.length then b.conds else a.conds
    if subset fewer more then
      .ok { modifier := a.modifier, mtype := a.mtype, conds := more, conj := true }
    else .unrepresentable
  else if a.matchesAllTypes then
    .ok { modifier := b.modifier,
          mtype := if b.matchesAllTypes && a.mtype.isNone then none else b.mtype,
          conds := a.conds ++ b.conds, conj := true }
  else if b.matchesAllTypes then
    .ok { modifier := a.modifier, mtype := a.mtype, conds := a.conds ++ b.conds, conj := true }
  else if a.mtype ≠ b.mtype then .empty
  else
    .ok { modifier := if a.modifier.isSome then a.modifier else b.modifier,
          mtype := a.mtype, conds := a.conds ++ b.conds, conj := true }

/-- Inner loop of `merge_media_queries` for one outer query. -/
def mergeRow (tc : Bool) (a : Query) : List Query → Option (List Query)
  | [] => some []
  | b :: bs =>
    match merge tc a b with
    | .unrepresentable => none
    | .empty => mergeRow tc a bs
    | .ok q => (mergeRow tc a bs).map (q :: ·)

/-- `merge_media_queries` (visitor.rs:1348): `none` = unrepresentable (rules stay nested). -/
def mergeLists (tc : Bool) : List Query → List Query → Option (List Query)
  | [], _ => some []
  | a :: as, bs =>
    match mergeRow tc a bs, mergeLists tc as bs with
    | some r, some rs => some (r ++ rs)
    | _, _ => none

/-- What `visit_media_rule` emits for `@media A { @media B { body } }`:
    nothing, one merged rule, or the two rules nested. -/
inductive Emitted where
  | dropped
  | levels (ls : List (List Query))     -- outermost first; the body is inside all of them
  deriving DecidableEq, Repr, Inhabited

def nest (tc : Bool) (outer inner : List Query) : Emitted :=
  match mergeLists tc outer inner with
  | some [] => .dropped
  | some r => .levels [r]
  | none => .levels [outer, inner]

/-- An environment reaches the body. -/
def Emitted.sat (em : Emitted) (e : Env) : Bool :=
  match em with
  | .dropped => false
  | .levels ls => ls.all (fun qs => satList qs e)

/-! ### chains of nested `@media` rules (`visit_media_rule`, visitor.rs:1377–1480)

  State carried by the visitor: `self.media_queries` (`mq`), `self.media_query_sources` (`srcs`)
  and the enclosing media rules already emitted (`levels`, outermost first).  A new rule is
  attached below the nearest enclosing rule the `through` predicate does not skip.
  `byEquality = true` is the code as it stands: an enclosing media rule is skipped when all its
  queries are *equal to* queries in the merged-sources set.  `byEquality = false` is the
  specified behaviour: exactly the rule whose queries were merged (the innermost one) is
  replaced. -/

structure ChainSt where
  mq     : Option (List Query)
  srcs   : List Query
  levels : List (List Query)
  deriving Repr

def ChainSt.init : ChainSt := { mq := none, srcs := [], levels := [] }

/-- Drop trailing levels all of whose queries are members of `srcs`. -/
def popThrough (srcs : List Query) (levels : List (List Query)) : List (List Query) :=
  (levels.reverse.dropWhile (fun l => l.all (fun q => srcs.contains q))).reverse

def chainStep (tc byEquality : Bool) (st : ChainSt) (l : List Query) : Option ChainSt :=
  match st.mq with
  | none => some { mq := some l, srcs := [], levels := st.levels ++ [l] }
  | some cur =>
    match mergeLists tc cur l with
    | some [] => none                                   -- empty intersection: rule dropped
    | some r =>
      let srcs' := st.srcs ++ cur ++ l
      some { mq := some r, srcs := srcs',
             levels := (if byEquality then popThrough srcs' st.levels else st.levels.dropLast) ++ [r] }
    | none => some { mq := some l, srcs := [], levels := st.levels ++ [l] }

def chainRun (tc byEquality : Bool) : ChainSt → List (List Query) → Option ChainSt
  | st, [] => some st
  | st, l :: ls => (chainStep tc byEquality st l).bind (chainRun tc byEquality · ls)

def chain (tc byEquality : Bool) (ls : List (List Query)) : Emitted :=
  match chainRun tc byEquality .init ls with
  | none => .dropped
  | some st => .levels st.levels

/-- Scope of the property along a chain: every operand admissible and no excluded pair is ever
    merged (decidable; evaluated by the driver to classify generated cases). -/
def Query.adm (q : Query) : Bool := q.wf && q.noModOnAll
def Excl (a b : Query) : Bool := a.isNot && b.isNot && decide (a.mtype = b.mtype)

def stepInScope (st : ChainSt) (l : List Query) : Bool :=
  l.all Query.adm &&
  match st.mq with
  | none => true
  | some cur => cur.all Query.adm && cur.all (fun a => l.all (fun b => !Excl a b))

def chainInScope (tc byEq : Bool) : ChainSt → List (List Query) → Bool
  | _, [] => true
  | st, l :: ls =>
    stepInScope st l &&
    match chainStep tc byEq st l with
    | none => true
    | some st' => chainInScope tc byEq st' ls

/-- D22 class.  The level just outside the innermost one has all its queries among the merged
    sources: then (and only then, `C17_popThrough_exact`) the as-found `through` test removes more
    than the innermost level. -/
def overPop (srcs : List Query) (levels : List (List Query)) : Bool :=
  match levels.dropLast.getLast? with
  | some l => l.all (fun q => srcs.contains q)
  | none => false

/-- Along the (specified) run, no merge step finds the next level out covered by the sources. -/
def noOverPop : ChainSt → List (List Query) → Bool
  | _, [] => true
  | st, l :: ls =>
    (match st.mq with
     | some cur => !overPop (st.srcs ++ cur ++ l) st.levels
     | none => true) &&
    match chainStep true false st l with
    | none => true
    | some st' => noOverPop st' ls

/-! ### driver entry points -/
open Grass.Proto

def mtypeOfStr (s : String) : Option (Option MType) :=
  if s == "_" then some none
  else if s == "all" then some (some .all)
  else if s == "screen" then some (some .screen)
  else if s == "print" then some (some .print)
  else if s.startsWith "o" then (s.drop 1).toString.toNat?.map (fun n => some (.other n))
  else none

def modOfStr (s : String) : Option (Option Modifier) :=
  if s == "_" then some none
  else if s == "not" then some (some .not)
  else if s == "only" then some (some .only)
  else none

def natsOfStr (s : String) : Option (List Nat) :=
  if s == "_" then some [] else (s.splitOn ".").mapM (·.toNat?)

/-- `mod:type:c1.c2:conj` -/
def queryOfStr (s : String) : Option Query :=
  match s.splitOn ":" with
  | [m, t, cs, cj] => do
    let m ← modOfStr m; let t ← mtypeOfStr t; let cs ← natsOfStr cs; let cj ← parseBool? cj
    some { modifier := m, mtype := t, conds := cs, conj := cj }
  | _ => none

/-- `q1;q2;…`  (`-` = empty list) -/
def listOfStr (s : String) : Option (List Query) :=
  if s == "-" then some [] else (s.splitOn ";").mapM queryOfStr

def mtypeStr : Option MType → String
  | none => "_" | some .all => "all" | some .screen => "screen" | some .print => "print"
  | some (.other n) => s!"o{n}"
def modStr : Option Modifier → String
  | none => "_" | some .not => "not" | some .only => "only"
def natsStr (l : List Nat) : String := if l.isEmpty then "_" else ".".intercalate (l.map toString)
def queryStr (q : Query) : String :=
  s!"{modStr q.modifier}:{mtypeStr q.mtype}:{natsStr q.conds}:{boolStr q.conj}"
def listStr (l : List Query) : String := if l.isEmpty then "-" else ";".intercalate (l.map queryStr)

def emittedStr : Emitted → String
  | .dropped => "dropped"
  | .levels ls => "levels " ++ " ".intercalate (ls.map listStr)

/-- All environments over devices {screen, print, other 0} and features `0 … k-1`. -/
def envs (k : Nat) : List Env :=
  let devs := [MType.screen, .print, .other 0]
  (List.range (2 ^ k)).flatMap fun bits =>
    devs.map fun d => { device := d, feat := fun i => (bits / 2 ^ i) % 2 == 1 }

/-- The per-input property predicate P̂: the emitted structure is satisfied by exactly the
    environments satisfying both lists.  Returns the index of the first refuting environment. -/
def checkEmitted (k : Nat) (outer inner : List Query) (em : Emitted) : Option Nat :=
  let es := envs k
  (List.range es.length).find? fun i =>
    match es[i]? with
    | some e => em.sat e != (satList outer e && satList inner e)
    | none => false

def checkChain (k : Nat) (ins : List (List Query)) (em : Emitted) : Option Nat :=
  let es := envs k
  (List.range es.length).find? fun i =>
    match es[i]? with
    | some e => em.sat e != ins.all (fun qs => satList qs e)
    | none => false

/-! ## Text level: the media-query parser and printer (round 3)

  `parse/media_query.rs` (`MediaQueryParser`, run on the text left after interpolation —
  visitor.rs:1406 `visit_media_queries`) and `serializer.rs:517 write_media_query`.
  Texts are `List Char`.  The scanner is the sub-scanners of `parse/base.rs` that the parser
  calls (`whitespace` :24, `parse_identifier` :135, `looking_at_identifier` :507,
  `declaration_value` :381); because the parser always calls the same sub-scanner at a given
  first character, scanning is done first (`lex`) and the grammar runs on the tokens.

  Outside the model (`supported = false`, the driver answers `unsupported`): escapes `\`, quoted
  strings, comments and `/`, `#`, `;`, braces, `url(`, control characters other than tab and
  newline, non-ASCII characters. -/

def lowerC (s : List Char) : List Char := s.map Char.toLower

structure TQuery where
  modifier : Option (List Char)
  mtype    : Option (List Char)
  conds    : List (List Char)
  conj     : Bool
  deriving DecidableEq, Repr, Inhabited

inductive Tok where
  | id (ws : Bool) (s : List Char)    -- identifier; `ws`: white space precedes it
  | par (ws : Bool) (s : List Char)   -- `( declaration_value )`, text as kept by the parser
  | comma
  deriving DecidableEq, Repr, Inhabited

/-- `whitespace_without_comments` (base.rs:12). -/
def isWs (c : Char) : Bool := c == ' ' || c == '\t' || c == '\n'
/-- Rust `char::is_ascii_whitespace`. -/
def isAsciiWs (c : Char) : Bool := c == ' ' || c == '\t' || c == '\n' || c == '\r' || c.toNat == 12
/-- utils/chars.rs:15 restricted to ASCII. -/
def isNameStart (c : Char) : Bool := c == '_' || c.isAlpha
def isName (c : Char) : Bool := isNameStart c || c.isDigit || c == '-'

/-- `looking_at_identifier` (base.rs:507). -/
def looksIdent : List Char → Bool
  | c :: rest =>
    if isNameStart c then true
    else if c == '-' then
      match rest with
      | d :: _ => isNameStart d || d == '-'
      | [] => false
    else false
  | [] => false

def takeName : List Char → List Char × List Char
  | [] => ([], [])
  | c :: rest => if isName c then let (a, b) := takeName rest; (c :: a, b) else ([], c :: rest)

/-- `parse_identifier(false, false)` (base.rs:135) on escape-free ASCII text. -/
def parseIdent (cs : List Char) : Option (List Char × List Char) :=
  match cs with
  | '-' :: '-' :: rest => let (a, b) := takeName rest; some ('-' :: '-' :: a, b)
  | '-' :: c :: rest =>
    if isNameStart c then let (a, b) := takeName rest; some ('-' :: c :: a, b) else none
  | c :: rest =>
    if isNameStart c then let (a, b) := takeName rest; some (c :: a, b) else none
  | [] => none

/-- `declaration_value(false)` (base.rs:381) on the supported alphabet.  `br`: expected closing
    brackets, `nl`: `wrote_newline`, `acc`: the buffer, reversed.  Stops before an unmatched
    closing bracket. -/
def declValue : List Char → List Char → Bool → List Char → Except String (List Char × List Char)
  | [], br, _, acc =>
    if !br.isEmpty then .error "expected closing bracket"
    else if acc.isEmpty then .error "Expected token." else .ok (acc.reverse, [])
  | c :: rest, br, nl, acc =>
    if c == ' ' || c == '\t' then
      let nextWs := match rest with | d :: _ => isAsciiWs d | [] => false
      declValue rest br nl (if nl || !nextWs then c :: acc else acc)
    else if c == '\n' then declValue rest br true (if nl then acc else '\n' :: acc)
    else if c == '(' then declValue rest (')' :: br) false (c :: acc)
    else if c == '[' then declValue rest (']' :: br) false (c :: acc)
    else if c == ')' || c == ']' then
      match br with
      | [] => if acc.isEmpty then .error "Expected token." else .ok (acc.reverse, c :: rest)
      | e :: br' => if c == e then declValue rest br' false (c :: acc) else .error "expected closing bracket"
    else declValue rest br false (c :: acc)

/-- The scanner: white space, `,`, identifiers, `parse_media_in_parens` (media_query.rs:120). -/
def lexAux : Nat → List Char → Bool → List Tok → Except String (List Tok)
  | 0, _, _, _ => .error "fuel"
  | _ + 1, [], _, acc => .ok acc.reverse
  | fuel + 1, c :: rest, ws, acc =>
    if isWs c then lexAux fuel rest true acc
    else if c == ',' then lexAux fuel rest false (.comma :: acc)
    else if c == '(' then
      match declValue rest [] false [] with
      | .error e => .error e
      | .ok (v, ')' :: rest') => lexAux fuel rest' false (.par ws ('(' :: v ++ [')']) :: acc)
      | .ok _ => .error "expected \")\"."
    else if looksIdent (c :: rest) then
      match parseIdent (c :: rest) with
      | some (s, rest') => lexAux fuel rest' false (.id ws s :: acc)
      | none => .error "Expected identifier."
    else .error "Expected identifier."

def lex (cs : List Char) : Except String (List Tok) := lexAux (cs.length + 1) cs false []

def kw (s : List Char) (k : String) : Bool := lowerC s == k.toList

/-- `expect_whitespace` (base.rs:118) seen from the token that follows. -/
def needWs : List Tok → Bool
  | .id ws _ :: _ => ws
  | .par ws _ :: _ => ws
  | _ => false

def notWrap (s : List Char) : List Char := "(not ".toList ++ s ++ [')']

/-- `parse_media_logic_sequence` (media_query.rs:127); the caller has done `expect_whitespace`. -/
def logicSeq (op : String) : List Tok → Except String (List (List Char) × List Tok)
  | .par _ s :: .id w' k :: rest =>
    if kw k op then
      match rest with
      | .par true _ :: _ =>
        match logicSeq op rest with
        | .ok (cs, r) => .ok (s :: cs, r)
        | .error e => .error e
      | _ => .error "Expected whitespace."
    else .ok ([s], .id w' k :: rest)
  | .par _ s :: rest => .ok ([s], rest)
  | _ => .error "expected \"(\"."

/-- After `IDENTIFIER "and"` / `IDENTIFIER IDENTIFIER "and"` (media_query.rs:100–117). -/
def afterAnd (m t : Option (List Char)) (r : List Tok) : Except String (TQuery × List Tok) :=
  if !needWs r then .error "Expected whitespace." else
  match r with
  | .id _ k :: r' =>
    if kw k "not" then
      match r' with
      | .par true s :: r'' => .ok ({ modifier := m, mtype := t, conds := [notWrap s], conj := true }, r'')
      | _ => .error "Expected whitespace."
    else .error "expected \"(\"."
  | _ =>
    match logicSeq "and" r with
    | .ok (cs, r') => .ok ({ modifier := m, mtype := t, conds := cs, conj := true }, r')
    | .error e => .error e

/-- Lines 76–98 of `parse_media_query`, after the first identifier. -/
def afterIdent1 (i1 : List Char) (rest : List Tok) : Except String (TQuery × List Tok) :=
  match rest with
  | .id _ i2 :: rest' =>
    if kw i2 "and" then afterAnd none (some i1) rest'
    else
      match rest' with
      | .id _ k :: rest'' =>
        if kw k "and" then afterAnd (some i1) (some i2) rest''
        else .ok ({ modifier := some i1, mtype := some i2, conds := [], conj := true }, rest')
      | _ => .ok ({ modifier := some i1, mtype := some i2, conds := [], conj := true }, rest')
  | _ => .ok ({ modifier := none, mtype := some i1, conds := [], conj := true }, rest)

/-- `parse_media_query` (media_query.rs:43). -/
def parseQuery : List Tok → Except String (TQuery × List Tok)
  | .par _ s :: rest =>
    match rest with
    | .id w k :: rest' =>
      if kw k "and" then
        if !needWs rest' then .error "Expected whitespace." else
        match logicSeq "and" rest' with
        | .ok (cs, r) => .ok ({ modifier := none, mtype := none, conds := s :: cs, conj := true }, r)
        | .error e => .error e
      else if kw k "or" then
        if !needWs rest' then .error "Expected whitespace." else
        match logicSeq "or" rest' with
        | .ok (cs, r) => .ok ({ modifier := none, mtype := none, conds := s :: cs, conj := false }, r)
        | .error e => .error e
      else .ok ({ modifier := none, mtype := none, conds := [s], conj := true }, .id w k :: rest')
    | _ => .ok ({ modifier := none, mtype := none, conds := [s], conj := true }, rest)
  | .id _ i1 :: rest =>
    if kw i1 "not" then
      if !needWs rest then .error "Expected whitespace." else
      match rest with
      | .par _ s :: rest' =>
        .ok ({ modifier := none, mtype := none, conds := [notWrap s], conj := true }, rest')
      | _ => afterIdent1 i1 rest
    else afterIdent1 i1 rest
  | _ => .error "Expected identifier."

/-- `MediaQueryParser::parse` (media_query.rs:24) on tokens. -/
def parseToks : Nat → List Tok → Except String (List TQuery)
  | 0, _ => .error "fuel"
  | fuel + 1, ts =>
    match parseQuery ts with
    | .error e => .error e
    | .ok (q, []) => .ok [q]
    | .ok (q, .comma :: rest) =>
      match parseToks fuel rest with
      | .ok qs => .ok (q :: qs)
      | .error e => .error e
    | .ok _ => .error "expected no more input."

def supportedChar (c : Char) : Bool :=
  c.toNat < 128 && (c.toNat ≥ 32 || c == '\t' || c == '\n') && c.toNat != 127 &&
  !(c == '\\' || c == '"' || c == '\'' || c == '/' || c == '#' || c == ';' || c == '{' || c == '}')

def hasUrl : List Char → Bool
  | a :: b :: c :: d :: rest =>
    (a.toLower == 'u' && b.toLower == 'r' && c.toLower == 'l' && d == '(') || hasUrl (b :: c :: d :: rest)
  | _ => false

def supported (cs : List Char) : Bool := cs.all supportedChar && !hasUrl cs

def parseText (cs : List Char) : Except String (List TQuery) :=
  match lex cs with
  | .error e => .error e
  | .ok ts => parseToks (ts.length + 1) ts

def startsWithL : List Char → List Char → Bool
  | _, [] => true
  | [], _ :: _ => false
  | c :: cs, p :: ps => c == p && startsWithL cs ps

def joinWith (sep : List Char) : List (List Char) → List Char
  | [] => []
  | [x] => x
  | x :: y :: r => x ++ sep ++ joinWith sep (y :: r)

/-- `write_media_query` (serializer.rs:517). -/
def printQ (q : TQuery) : List Char :=
  (match q.modifier with | some m => m ++ [' '] | none => []) ++
  (match q.mtype with
   | some t => t ++ (if q.conds.isEmpty then [] else " and ".toList)
   | none => []) ++
  (match q.conds with
   | [c] =>
     if startsWithL c "(not ".toList then "not ".toList ++ (c.drop 5).dropLast
     else c
   | cs => joinWith (if q.conj then " and ".toList else " or ".toList) cs)

/-- The prelude after `@media ` in expanded style (serializer.rs:1132–1146). -/
def printList (qs : List TQuery) : List Char := joinWith ", ".toList (qs.map printQ)

/-! ### text-level merge (`MediaQuery::merge`, media.rs:63–222, spelling kept as the code keeps it) -/

inductive TMerge where
  | empty | unrepresentable | ok (q : TQuery)
  deriving DecidableEq, Repr, Inhabited

def TQuery.lmod (q : TQuery) : Option (List Char) := q.modifier.map lowerC
def TQuery.ltype (q : TQuery) : Option (List Char) := q.mtype.map lowerC
def TQuery.isNot (q : TQuery) : Bool := q.lmod == some "not".toList
/-- `matches_all_types` (media.rs:22). -/
def TQuery.matchesAll (q : TQuery) : Bool :=
  match q.ltype with
  | none => true
  | some t => t == "all".toList

def subsetT (a b : List (List Char)) : Bool := a.all (fun x => b.contains x)

/-- media.rs:208–221: the spelling of the chosen type / modifier. -/
def finishT (a b : TQuery) (m t : Option (List Char)) (cs : List (List Char)) : TMerge :=
  .ok { mtype := if t == a.ltype then a.mtype else b.mtype,
        modifier := if m == a.lmod then a.modifier else b.modifier,
        conds := cs, conj := true }

def mergeT (a b : TQuery) : TMerge :=
  if !a.conj || !b.conj then .unrepresentable else
  if a.ltype.isNone && b.ltype.isNone then
    .ok { modifier := none, mtype := none, conds := a.conds ++ b.conds, conj := true }
  else if a.isNot != b.isNot then
    if a.ltype == b.ltype then
      let neg := if a.isNot then a.conds else b.conds
      let pos := if a.isNot then b.conds else a.conds
      if subsetT neg pos then .empty else .unrepresentable
    else if a.matchesAll || b.matchesAll then .unrepresentable
    else if a.isNot then finishT a b b.lmod b.ltype b.conds
    else finishT a b a.lmod a.ltype a.conds
  else if a.isNot then
    if a.ltype != b.ltype then .unrepresentable else
    let more  := if a.conds.length > b.conds.length then a.conds else b.conds
    let fewer := if a.conds.length > b.conds.length then b.conds else a.conds
    if subsetT fewer more then finishT a b a.lmod a.ltype more else .unrepresentable
  else if a.matchesAll then
    finishT a b b.lmod (if b.matchesAll && a.ltype.isNone then none else b.ltype) (a.conds ++ b.conds)
  else if b.matchesAll then finishT a b a.lmod a.ltype (a.conds ++ b.conds)
  else if a.ltype != b.ltype then .empty
  else finishT a b (if a.lmod.isSome then a.lmod else b.lmod) a.ltype (a.conds ++ b.conds)

def mergeRowT (a : TQuery) : List TQuery → Option (List TQuery)
  | [] => some []
  | b :: bs =>
    match mergeT a b with
    | .unrepresentable => none
    | .empty => mergeRowT a bs
    | .ok q => (mergeRowT a bs).map (q :: ·)

def mergeListsT : List TQuery → List TQuery → Option (List TQuery)
  | [], _ => some []
  | a :: as, bs =>
    match mergeRowT a bs, mergeListsT as bs with
    | some r, some rs => some (r ++ rs)
    | _, _ => none

/-! ### text-level chain (`visit_media_rule`; queries are compared as spelled, `MediaQuery: PartialEq`) -/

/-- `levels`: the enclosing CSS nodes already emitted, outermost first: `some l` a media rule,
    `none` a node the parent search of `with_parent` does not pass (`@supports`, visitor.rs:1501:
    only style rules and media rules whose queries are all merged sources are passed). -/
structure TChainSt where
  mq     : Option (List TQuery)
  srcs   : List TQuery
  levels : List (Option (List TQuery))
  deriving Repr

def TChainSt.init : TChainSt := { mq := none, srcs := [], levels := [] }

def throughT (srcs : List TQuery) : Option (List TQuery) → Bool
  | some l => l.all (fun q => srcs.contains q)
  | none => false

def popThroughT (srcs : List TQuery) (levels : List (Option (List TQuery))) : List (Option (List TQuery)) :=
  (levels.reverse.dropWhile (throughT srcs)).reverse

/-- Specified behaviour: exactly the innermost media rule (whose queries were merged) is
    replaced, when no barrier lies between. -/
def popSpecT (levels : List (Option (List TQuery))) : List (Option (List TQuery)) :=
  match levels.getLast? with
  | some (some _) => levels.dropLast
  | _ => levels

def chainStepT (byEquality : Bool) (st : TChainSt) (l : List TQuery) : Option TChainSt :=
  match st.mq with
  | none => some { mq := some l, srcs := [], levels := st.levels ++ [some l] }
  | some cur =>
    match mergeListsT cur l with
    | some [] => none
    | some r =>
      let srcs' := st.srcs ++ cur ++ l
      some { mq := some r, srcs := srcs',
             levels := (if byEquality then popThroughT srcs' st.levels else popSpecT st.levels) ++ [some r] }
    | none => some { mq := some l, srcs := [], levels := st.levels ++ [some l] }

/-- One element of a nesting chain as the visitor meets it: a `@media` rule with the text left
    after interpolation; a style rule or an `@at-root` that keeps the media context (`style`:
    nothing changes for media); `@supports` (`barrier`: the media context is kept, but the parent
    search stops there); `@at-root (without: media)` / `(without: all)` (`escape`,
    visitor.rs:1265: the media context is taken away and the body leaves every enclosing
    `@media`). -/
inductive Item where
  | media (text : List Char)
  | style
  | barrier
  | onlyMedia     -- `@at-root (with: media)`: every enclosing node that is not a media rule is left
  | escape
  deriving Repr

inductive TRun where
  | ok (st : TChainSt)
  | dropped
  | error (e : String)
  deriving Repr

/-- The queries are parsed when the visitor reaches the rule (an unreachable rule's text is never
    parsed: visitor.rs:1425 runs only when the enclosing rule's body is visited). -/
def chainRunT (byEq : Bool) : TChainSt → List Item → TRun
  | st, [] => .ok st
  | st, .style :: is => chainRunT byEq st is
  | st, .barrier :: is => chainRunT byEq { st with levels := st.levels ++ [none] } is
  | st, .onlyMedia :: is => chainRunT byEq { st with levels := st.levels.filter Option.isSome } is
  | _, .escape :: is => chainRunT byEq .init is
  | st, .media t :: is =>
    match parseText t with
    | .error e => .error e
    | .ok l =>
      match chainStepT byEq st l with
      | none => .dropped
      | some st' => chainRunT byEq st' is

/-! ### abstraction of text queries to the truth-table model -/

def absMod (m : Option (List Char)) : Option (Option Modifier) :=
  match m with
  | none => some none
  | some s => if lowerC s == "not".toList then some (some .not)
              else if lowerC s == "only".toList then some (some .only) else none

/-- `ty` interns lower-cased type names, `cd` condition texts. -/
def absQ (ty : List Char → MType) (cd : List Char → Nat) (q : TQuery) : Option Query :=
  match absMod q.modifier with
  | none => none
  | some m => some { modifier := m, mtype := q.ltype.map ty, conds := q.conds.map cd, conj := q.conj }

def absL (ty : List Char → MType) (cd : List Char → Nat) (l : List TQuery) : Option (List Query) :=
  l.mapM (absQ ty cd)

/-- The driver's interning of types: `all`, `screen`, `print`, anything else by its position in `tab`. -/
def tyOf (tab : List (List Char)) (s : List Char) : MType :=
  if s == "all".toList then .all else if s == "screen".toList then .screen
  else if s == "print".toList then .print else .other (tab.idxOf s)

def cdOf (tab : List (List Char)) (s : List Char) : Nat := tab.idxOf s

/-! ### driver helpers for the text level -/

def hexL (cs : List Char) : String := hexEncode (String.ofList cs)

def itemOfStr (s : String) : Option Item :=
  if s == "s" then some .style
  else if s == "b" then some .barrier
  else if s == "o" then some .onlyMedia
  else if s == "e" then some .escape
  else if s.startsWith "m:" then (hexDecode (s.drop 2).toString).map (fun t => .media t.toList)
  else none

def itemSupported : Item → Bool
  | .media t => supported t
  | _ => true

def trunStr : TRun → String
  | .dropped => "dropped"
  | .error _ => "error"
  | .ok st => "levels" ++ String.join (st.levels.filterMap (fun l => l.map (fun l => " " ++ hexL (printList l))))

/-- The media lists of the items after the last `escape`, parsed (`none`: some text does not parse). -/
def mediaTexts : List Item → List (List Char) → List (List Char)
  | [], acc => acc.reverse
  | .media t :: is, acc => mediaTexts is (t :: acc)
  | .style :: is, acc => mediaTexts is acc
  | .barrier :: is, acc => mediaTexts is acc
  | .onlyMedia :: is, acc => mediaTexts is acc
  | .escape :: is, _ => mediaTexts is []

def condTab (ls : List (List TQuery)) : List (List Char) :=
  (ls.flatMap (fun l => l.flatMap (·.conds))).eraseDups
def typeTab (ls : List (List TQuery)) : List (List Char) :=
  (ls.flatMap (fun l => l.filterMap (·.ltype))).eraseDups

def parseAll (ts : List (List Char)) : Option (List (List TQuery)) :=
  ts.mapM (fun t => match parseText t with | .ok l => some l | .error _ => none)

/-- In-scope test of a text chain: every list abstracts (known modifiers only) and the abstract
    chain is in the property's scope. -/
def tInScope (ls : List (List TQuery)) : Bool :=
  let tt := typeTab ls; let ct := condTab ls
  match ls.mapM (absL (tyOf tt) (cdOf ct)) with
  | some als => chainInScope true false .init als
  | none => false

/-- Text clause of the property as a predicate on parsed queries: every condition text, type
    spelling and modifier spelling of `q` occurs in one of the source queries `qs`. -/
def TQuery.textFrom (qs : List TQuery) (q : TQuery) : Bool :=
  q.conds.all (fun c => qs.any (fun s => s.conds.contains c)) &&
  (match q.mtype with | none => true | some t => qs.any (fun s => s.mtype == some t)) &&
  (match q.modifier with | none => true | some m => qs.any (fun s => s.modifier == some m))

def textPreserved (pin pout : List (List TQuery)) : Bool :=
  pout.flatten.all (TQuery.textFrom pin.flatten)

/-- `checkChain` with the environments walked once (same verdict; `checkChain` indexes a list). -/
def checkChainL (k : Nat) (ins : List (List Query)) (em : Emitted) : Option Nat :=
  ((envs k).zipIdx.find? fun (e, _) => em.sat e != ins.all (fun qs => satList qs e)).map (·.2)

/-- P̂ on texts: inputs and emitted preludes are parsed by the model parser, conditions and
    unknown types interned, then `checkChain` over all environments. -/
def tCheck (ins : List (List Char)) (outs : Option (List (List Char))) : String :=
  match parseAll ins, (match outs with | none => some none | some o => (parseAll o).map some) with
  | some pin, some pout =>
    let all := pin ++ (pout.getD [])
    let tt := typeTab all; let ct := condTab all
    if ct.length > 12 then "unsupported" else
    match pin.mapM (absL (tyOf tt) (cdOf ct)), (match pout with
        | none => some Emitted.dropped
        | some o => (o.mapM (absL (tyOf tt) (cdOf ct))).map Emitted.levels) with
    | some ain, some em =>
      match checkChainL ct.length ain em with
      | none => if textPreserved pin (pout.getD []) then "ok holds" else "ok fails text"
      | some i => s!"ok fails {i}"
    | _, _ => "unsupported"
  | _, _ => "bad-parse"

def handle : List String → String
  | ["nest", a, b] =>
    match listOfStr a, listOfStr b with
    | some a, some b => "ok " ++ emittedStr (nest true a b)
    | _, _ => "bad-op"
  | "chain" :: ls =>
    match ls.mapM listOfStr with
    | some ls => "ok " ++ boolStr (chainInScope true true .init ls) ++ " " ++ emittedStr (chain true true ls) ++ " | " ++ emittedStr (chain true false ls)
    | none => "bad-op"
  | "nop" :: ls =>
    match ls.mapM listOfStr with
    | some ls => "ok " ++ boolStr (noOverPop .init ls)
    | none => "bad-op"
  | "checkn" :: k :: n :: rest =>
    -- checkn <k> <n> <L1> … <Ln> (dropped | levels <E1> …): P̂ for a chain of n nested rules
    match k.toNat?, n.toNat? with
    | some k, some n =>
      match (rest.take n).mapM listOfStr, rest.drop n with
      | some ins, "dropped" :: [] =>
        match checkChain k ins .dropped with
        | none => "ok holds" | some i => s!"ok fails {i}"
      | some ins, "levels" :: ls =>
        match ls.mapM listOfStr with
        | some ls =>
          match checkChain k ins (.levels ls) with
          | none => "ok holds" | some i => s!"ok fails {i}"
        | none => "bad-op"
      | _, _ => "bad-op"
    | _, _ => "bad-op"
  | "check" :: k :: a :: b :: "dropped" :: [] =>
    match k.toNat?, listOfStr a, listOfStr b with
    | some k, some a, some b =>
      match checkEmitted k a b .dropped with
      | none => "ok holds" | some i => s!"ok fails {i}"
    | _, _, _ => "bad-op"
  | "check" :: k :: a :: b :: "levels" :: ls =>
    match k.toNat?, listOfStr a, listOfStr b, ls.mapM listOfStr with
    | some k, some a, some b, some ls =>
      match checkEmitted k a b (.levels ls) with
      | none => "ok holds" | some i => s!"ok fails {i}"
    | _, _, _, _ => "bad-op"
  | ["mq", h] =>
    match hexDecode h with
    | some t =>
      if !supported t.toList then "unsupported" else
      match parseText t.toList with
      | .ok l => "ok " ++ hexL (printList l)
      | .error _ => "err"
    | none => "bad-op"
  | "tchain" :: its =>
    match its.mapM itemOfStr with
    | some is =>
      if !is.all itemSupported then "unsupported" else
      let init : TChainSt := .init
      let scope := match parseAll (mediaTexts is []) with
        | some ls => tInScope ls
        | none => false
      "ok " ++ boolStr scope ++ " " ++ trunStr (chainRunT true init is) ++ " | " ++ trunStr (chainRunT false init is)
    | none => "bad-op"
  | "tcheck" :: n :: rest =>
    match n.toNat? with
    | some n =>
      match (rest.take n).mapM hexDecode, rest.drop n with
      | some ins, ["dropped"] => tCheck (ins.map String.toList) none
      | some ins, "levels" :: os =>
        match os.mapM hexDecode with
        | some os => tCheck (ins.map String.toList) (some (os.map String.toList))
        | none => "bad-op"
      | _, _ => "bad-op"
    | none => "bad-op"
  | _ => "bad-op"

end Grass.Media
