import Grass.Proto
/- Core `Diag` — stub; replaced by the model (see DESIGN.md §8). -/
namespace Grass.Diag

def handle : List String → String
  | _ => "bad-op"

end Grass.Diag
