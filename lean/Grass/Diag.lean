import Grass.Proto
/-
  C19 core — diagnostics: where they point, how they are rendered, how they reach the Logger.

  Part 1  span arithmetic of `Lexer`            crates/compiler/src/lexer.rs:15-68, 116-181
          (re-lex sites: evaluate/visitor.rs:1126 @at-root query, :1286 selectors/@extend/selector
          functions, :2919 keyframes selectors, ast/media.rs:57 media queries, parse/stylesheet.rs:1547
          @use namespace) + codemap-0.1.3 `Span::subspan/merge`, `File::find_line_col`
          (lib.rs:65-100, 238-262)
  Part 2  `impl Display for SassError`          crates/compiler/src/error.rs:122-176
  Part 2b where the span of a directive begins  parse/stylesheet.rs:397-455,1394,1680; parse/base.rs:12-93
  Part 3  logger routing of @debug/@warn/@error crates/compiler/src/evaluate/visitor.rs:1062-1077
          (`visit_debug_rule`), :1379 (`visit_error_rule`), :1623-1641 (`emit_warning`,
          `visit_warn_rule`), :1873-1944 (`visit_for_stmt`), :1834 (`visit_each_stmt`), :1946
          (`visit_while_stmt`), :1771 (`visit_include_stmt`), :1079 (`visit_content_rule`), :723/:268/:651
          (`visit_use_rule`, `visit_forward_rule`, `load_module`) over a mini statement language.

  Text is `List Char` (code points); byte offsets are UTF-8 offsets (`Char.utf8Size`), relative to
  the start of the file (codemap's global `Pos` is the file's `low` plus this offset).
-/
namespace Grass.Diag

/-! ## Part 1 — bytes, boundaries, spans -/

/-- UTF-8 length of a text. -/
def byteLen : List Char → Nat
  | [] => 0
  | c :: cs => c.utf8Size + byteLen cs

/-- `n` is a character boundary of the text (0 and the total length included).  This is what
    `str::is_char_boundary` answers; slicing at any other offset panics in Rust. -/
def isBoundary : List Char → Nat → Bool
  | _, 0 => true
  | [], _ + 1 => false
  | c :: cs, n + 1 => if n + 1 < c.utf8Size then false else isBoundary cs (n + 1 - c.utf8Size)

/-- Characters from byte offset `n` on; `none` when `n` is not a boundary (Rust: slice panic). -/
def dropBytes : List Char → Nat → Option (List Char)
  | cs, 0 => some cs
  | [], _ + 1 => none
  | c :: cs, n + 1 => if n + 1 < c.utf8Size then none else dropBytes cs (n + 1 - c.utf8Size)

/-- The first `n` bytes as characters; `none` when `n` is not a boundary. -/
def takeBytes : List Char → Nat → Option (List Char)
  | _, 0 => some []
  | [], _ + 1 => none
  | c :: cs, n + 1 =>
    if n + 1 < c.utf8Size then none else (takeBytes cs (n + 1 - c.utf8Size)).map (c :: ·)

/-- codemap `Span`, file-relative: `lo` first byte, `hi` one past the last. -/
structure Span where
  lo : Nat
  hi : Nat
  deriving DecidableEq, Repr, Inhabited

def Span.len (s : Span) : Nat := s.hi - s.lo

/-- `Span::subspan` (codemap lib.rs:65): asserts `end >= begin` and `low + end <= high`;
    `none` = the assertion fails (panic). -/
def Span.subspan (s : Span) (b e : Nat) : Option Span :=
  if b ≤ e ∧ s.lo + e ≤ s.hi then some ⟨s.lo + b, s.lo + e⟩ else none

/-- `Span::merge` (codemap lib.rs:95). -/
def Span.merge (a b : Span) : Span := ⟨min a.lo b.lo, max a.hi b.hi⟩

/-- `File::source_slice` restricted to a span (`none` = not inside / not on boundaries). -/
def slice (file : List Char) (sp : Span) : Option (List Char) :=
  if sp.lo ≤ sp.hi then (dropBytes file sp.lo).bind (takeBytes · (sp.hi - sp.lo)) else none

/-- `Token` (lexer.rs:8): the character and its byte position in the lexed text. -/
structure Tok where
  kind : Char
  pos : Nat
  deriving DecidableEq, Repr, Inhabited

def Tok.stop (t : Tok) : Nat := t.pos + t.kind.utf8Size

/-- `TokenLexer::next` (lexer.rs:128-146): form feed and `\r`, `\r\n` become `\n`; for `\r\n` the
    token sits on the `\n` byte.  `cur` is the byte cursor. -/
def tokenize : List Char → Nat → List Tok
  | [], _ => []
  | c :: cs, cur =>
    if c = '\x0c' then ⟨'\n', cur⟩ :: tokenize cs (cur + 1)
    else if c = '\r' then
      match cs with
      | [] => [⟨'\n', cur⟩]
      | d :: cs' =>
        if d = '\n' then ⟨'\n', cur + 1⟩ :: tokenize cs' (cur + 2)
        else ⟨'\n', cur⟩ :: tokenize (d :: cs') (cur + 1)
    else ⟨c, cur⟩ :: tokenize cs (cur + c.utf8Size)
termination_by cs => cs.length

/-- `Lexer` (lexer.rs:14). -/
structure Lexer where
  buf : List Tok
  entire : Span
  cursor : Nat
  isExpanded : Bool
  deriving Repr

/-- `span_at_index` (lexer.rs:38-53). -/
def Lexer.spanAtIndex (lx : Lexer) (idx : Nat) : Option Span :=
  if lx.isExpanded then some lx.entire else
  match lx.buf[idx]? with
  | some t => lx.entire.subspan t.pos t.stop
  | none =>
    match lx.buf.getLast? with
    | some t => lx.entire.subspan t.pos t.stop
    | none => lx.entire.subspan 0 0

/-- `prev_span` (lexer.rs:62): `cursor.saturating_sub(1)`. -/
def Lexer.prevSpan (lx : Lexer) : Option Span := lx.spanAtIndex (lx.cursor - 1)

/-- `current_span` (lexer.rs:66). -/
def Lexer.currentSpan (lx : Lexer) : Option Span := lx.spanAtIndex lx.cursor

/-- `span_from` (lexer.rs:55). -/
def Lexer.spanFrom (lx : Lexer) (start : Nat) : Option Span :=
  match lx.spanAtIndex start, lx.prevSpan with
  | some a, some b => some (a.merge b)
  | _, _ => none

/-- When does re-lexed text count as "expanded" (spans fall back to the whole source span)?
    * `onlyWhenLonger`     — as found on the pinned tree (`s.len() > entire_span.len()`), D19;
    * `whenLengthDiffers`  — the first repair (`s.len() != entire_span.len()`), still wrong for text
                             of equal byte length but different character layout, D23;
    * `whenTextDiffers`    — the code as it stands (lexer.rs:163-171): offsets into the text are
                             meaningful for the source only when the text *is* the source text of
                             the span (`map.find_file(..).source_slice(entire_span) != s`). -/
inductive ExpandRule where
  | onlyWhenLonger | whenLengthDiffers | whenTextDiffers
  deriving DecidableEq, Repr, Inhabited

/-- Names of the two as-found switches. -/
abbrev expandedOnlyWhenLonger : ExpandRule := .onlyWhenLonger
abbrev expandedWhenLengthDiffers : ExpandRule := .whenLengthDiffers

def isExpandedBy (rule : ExpandRule) (file s : List Char) (entire : Span) : Bool :=
  match rule with
  | .onlyWhenLonger => decide (byteLen s > entire.len)
  | .whenLengthDiffers => decide (byteLen s ≠ entire.len)
  | .whenTextDiffers => decide (slice file entire ≠ some s)

/-- `Lexer::new_from_file` (lexer.rs:154). -/
def Lexer.ofFile (file : List Char) : Lexer :=
  { buf := tokenize file 0, entire := ⟨0, byteLen file⟩, cursor := 0, isExpanded := false }

/-- `Lexer::new_from_string` (lexer.rs:163): `s` is text produced at evaluation time (resolved
    interpolation of a selector, media query, @at-root query, keyframes selector, …) and `entire`
    the span of the source it came from. -/
def Lexer.ofString (rule : ExpandRule) (file s : List Char) (entire : Span) : Lexer :=
  { buf := tokenize s 0, entire := entire, cursor := 0, isExpanded := isExpandedBy rule file s entire }

/-- `Lexer::new_from_detached_string` (lexer.rs:175): text that is never the source text of the
    span (the namespace derived from a `@use` URL); always expanded. -/
def Lexer.ofDetached (s : List Char) (entire : Span) : Lexer :=
  { buf := tokenize s 0, entire := entire, cursor := 0, isExpanded := true }

/-- `set_cursor` (lexer.rs:90): any value is accepted. -/
def Lexer.setCursor (lx : Lexer) (c : Nat) : Lexer := { lx with cursor := c }

/-! ### codemap look-up (`find_line_col`, lib.rs:253) -/

/-- Line and column (both 0-based, column in characters) of byte offset `n`; `none` = the offset
    is past the end or inside a character (codemap panics). `l c` is the position of the head. -/
def lineColAux : List Char → Nat → Nat → Nat → Option (Nat × Nat)
  | _, 0, l, c => some (l, c)
  | [], _ + 1, _, _ => none
  | ch :: cs, n + 1, l, c =>
    if n + 1 < ch.utf8Size then none
    else if ch = '\n' then lineColAux cs (n + 1 - ch.utf8Size) (l + 1) 0
    else lineColAux cs (n + 1 - ch.utf8Size) l (c + 1)

def lookUpPos (file : List Char) (off : Nat) : Option (Nat × Nat) := lineColAux file off 0 0

/-- All (line, column) pairs that are the image of a position of the file, in order. -/
def positionsAux : List Char → Nat → Nat → List (Nat × Nat)
  | [], l, c => [(l, c)]
  | ch :: cs, l, c => (l, c) :: (if ch = '\n' then positionsAux cs (l + 1) 0 else positionsAux cs l (c + 1))

def positions (file : List Char) : List (Nat × Nat) := positionsAux file 0 0

def lexLe (a b : Nat × Nat) : Bool := a.1 < b.1 || (a.1 == b.1 && a.2 ≤ b.2)

/-- **P̂ for locations**: a reported `begin`/`end` pair names two real positions of the file's
    text, in order.  Evaluated by the driver on what grass reports. -/
def spanLocOk (file : List Char) (b e : Nat × Nat) : Bool :=
  (positions file).contains b && (positions file).contains e && lexLe b e

/-- `CodeMap::look_up_span` for a span of this file: `none` = codemap panics. -/
def lookUpSpan (file : List Char) (sp : Span) : Option ((Nat × Nat) × (Nat × Nat)) :=
  match lookUpPos file sp.lo, lookUpPos file sp.hi with
  | some b, some e => some (b, e)
  | _, _ => none

/-! ## Part 2 — the renderer (`impl Display for SassError`, error.rs:122-176) -/

def natStr (n : Nat) : List Char := (Nat.repr n).toList

/-- `trim_end_matches(&['\n', '\r'])`. -/
def trimEol (l : List Char) : List Char :=
  (l.reverse.dropWhile (fun c => c = '\n' || c = '\r')).reverse

/-- Lines as codemap sees them: split on `\n` only. -/
def splitLines : List Char → List (List Char)
  | [] => [[]]
  | c :: cs =>
    match splitLines cs with
    | [] => [[]]                       -- unreachable
    | l :: ls => if c = '\n' then [] :: l :: ls else (c :: l) :: ls

/-- `File::source_line` (codemap lib.rs:302). -/
def sourceLine (file : List Char) (line : Nat) : Option (List Char) :=
  (splitLines file)[line]?.map trimEol

structure RenderLoc where
  name : List Char
  srcLine : List Char
  bl : Nat
  bc : Nat
  el : Nat
  ec : Nat

/-- error.rs:164: `loc.end.column.max(loc.begin.column) - loc.begin.column.min(loc.end.column)`. -/
def caretCount (bc ec : Nat) : Nat := max ec bc - min bc ec

/-- error.rs:147: one space per digit of the 1-based line number, plus one. -/
def padding (line1 : Nat) : List Char := List.replicate ((natStr line1).length + 1) ' '

def errorPrefix : List Char := ['E', 'r', 'r', 'o', 'r', ':', ' ']

def render (unicode : Bool) (msg : List Char) (loc : RenderLoc) : List Char :=
  let firstBar := if unicode then '╷' else ','
  let midBar := if unicode then '│' else '|'
  let lastBar := if unicode then '╵' else '\''
  let line := loc.bl + 1
  let col := loc.bc + 1
  let pad := padding line
  errorPrefix ++ msg ++ ['\n']
    ++ (pad ++ [firstBar] ++ ['\n'])
    ++ (natStr line ++ [' ', midBar, ' '] ++ loc.srcLine ++ ['\n'])
    ++ (pad ++ [midBar, ' '] ++ List.replicate loc.bc ' ' ++ List.replicate (caretCount loc.bc loc.ec) '^' ++ ['\n'])
    ++ (pad ++ [lastBar] ++ ['\n'])
    ++ (if unicode then
          ['.', '/'] ++ loc.name ++ [':'] ++ natStr line ++ [':'] ++ natStr col ++ ['\n']
        else
          [' ', ' '] ++ loc.name ++ [' '] ++ natStr line ++ [':'] ++ natStr col
            ++ "  root stylesheet".toList ++ ['\n'])

/-! ## Part 2b — where the span of `@debug` / `@warn` / `@error` begins

  The span the visitor hands to the Logger (`debug_rule.span`, `warn_rule.span`; `error_rule.span`
  for the error) is the span of the directive's *value*: `parse_debug_rule` / `parse_warn_rule` /
  `parse_error_rule` (parse/stylesheet.rs:397-404, 1394-1401, 448-455) store `value.span`, and
  `parse_expression` (parse/value.rs:53, :83) computes it as `span_from(start)` with `start` the
  cursor after `parse_at_rule` (parse/stylesheet.rs:1680-1684) consumed `@`, the name and
  `whitespace()` (parse/base.rs:12-93: blanks, `//` and `/* */` comments).  Its begin is the
  position of the token at `start` (lexer.rs:38-60). -/

/-- base.rs:16. -/
def isBlankTok (t : Tok) : Bool := t.kind = ' ' || t.kind = '\t' || t.kind = '\n'

/-- `whitespace_without_comments` (base.rs:12-22). -/
def skipBlank : List Tok → List Tok
  | [] => []
  | t :: ts => if isBlankTok t then skipBlank ts else t :: ts

/-- `skip_silent_comment` after its `//` (base.rs:58-60): up to, not including, the next newline
    token (`\r`, `\r\n` and form feed are newline tokens, lexer.rs:128-146). -/
def skipLine : List Tok → List Tok
  | [] => []
  | t :: ts => if t.kind = '\n' then t :: ts else skipLine ts

/-- `skip_loud_comment` after its `/*` (base.rs:80-92); `star` = the previous tokens were a run of
    `*`.  `none` = unterminated ("expected more input."). -/
def skipLoud : Bool → List Tok → Option (List Tok)
  | _, [] => none
  | star, t :: ts =>
    if t.kind = '*' then skipLoud true ts
    else if star && t.kind = '/' then some ts
    else skipLoud false ts

/-- `whitespace` (base.rs:24-34, `scan_comment` :36-52). -/
def skipWs : Nat → List Tok → Option (List Tok)
  | 0, _ => none
  | fuel + 1, ts =>
    match skipBlank ts with
    | a :: b :: rest =>
      if a.kind = '/' && b.kind = '/' then skipWs fuel (skipLine rest)
      else if a.kind = '/' && b.kind = '*' then
        match skipLoud false rest with
        | some r => skipWs fuel r
        | none => none
      else some (a :: b :: rest)
    | r => some r

/-- Characters that continue an identifier (so that `@debugx` is not `@debug`). -/
def isNameChar (c : Char) : Bool :=
  c.isAlphanum || c = '-' || c = '_' || c = '\\' || c.toNat ≥ 128

/-- The at-rule's name, exactly. -/
def expectName : List Char → List Tok → Option (List Tok)
  | [], [] => some []
  | [], t :: ts => if isNameChar t.kind then none else some (t :: ts)
  | _ :: _, [] => none
  | c :: cs, t :: ts => if t.kind = c then expectName cs ts else none

/-- Byte offset at which the value of the directive `@name`, whose `@` is the byte `site` of the
    file, begins.  `none`: no such directive there, an unterminated comment, or no value. -/
def exprStart (file : List Char) (site : Nat) (name : List Char) : Option Nat :=
  match (tokenize file 0).dropWhile (fun t => decide (t.pos < site)) with
  | [] => none
  | t :: ts =>
    if t.pos = site ∧ t.kind = '@' then
      match expectName name ts with
      | none => none
      | some r =>
        match skipWs (r.length + 1) r with
        | some (u :: _) => some u.pos
        | _ => none
    else none

/-- The location (0-based line, column in characters) the Logger receives for that directive:
    `CodeMap::look_up_span(span).begin`. -/
def eventLoc (file : List Char) (site : Nat) (name : List Char) : Option (Nat × Nat) :=
  match exprStart file site name with
  | some off => lookUpPos file off
  | none => none

/-! ## Part 3 — which diagnostics reach the Logger (mini statement language) -/

inductive Kind where
  | debug | warn
  deriving DecidableEq, Repr, Inhabited

/-- `line` identifies the directive inside its file: the byte offset of its `@` (driver op
    `tracex`; line and column are then computed from the file's text by `eventLoc`). -/
structure Event where
  kind : Kind
  file : Nat
  line : Nat
  msg : List Char
  deriving DecidableEq, Repr, Inhabited

/-- What identifies one directive: kind, file, site (also the key of `warnings_emitted`). -/
def Event.key (e : Event) : Kind × Nat × Nat := (e.kind, e.file, e.line)

inductive Val where
  | int (n : Int)
  | str (id : Nat)               -- the quoted string "s<id>"
  | pair (a b : Val)             -- the space-separated list `a b` (elements are not lists)
  deriving DecidableEq, Repr, Inhabited

def Val.isPair : Val → Bool
  | .pair _ _ => true
  | _ => false

inductive Expr where
  | int (n : Int)
  | str (id : Nat)
  | var (x : Nat)                -- `$v<x>`
  | call (f : Nat) (arg : Expr)  -- `f<f>(arg)`, a user-defined function
  | pair (a b : Expr)            -- `a b`: both evaluated, left to right
  deriving Repr, Inhabited

inductive Cond where
  | lit (b : Bool)
  | varEq (x : Nat) (n : Int)    -- `$v<x> == n`
  deriving Repr, Inhabited

mutual
inductive Stmt where
  | debug (line : Nat) (e : Expr)
  | warn (line : Nat) (e : Expr)
  | error (line : Nat) (e : Expr)
  | forLoop (line : Nat) (x : Nat) (frm to : Int) (inclusive : Bool) (body : Stmts)
  | ifElse (line : Nat) (c : Cond) (thn els : Stmts)
  | block (body : Stmts)                                  -- a style rule around the body
  | mixinDef (m : Nat) (param : Option Nat) (body : Stmts)
  | funcDef (f : Nat) (param : Nat) (body : Stmts) (retLine : Nat) (ret : Expr)
  | incl (line : Nat) (m : Nat) (arg : Option Expr)
  | letCall (line : Nat) (e : Expr)                       -- `$tmp: <expr>;`
  | importFile (line : Nat) (file : Nat)
  | each (line : Nat) (x : Nat) (vals : List Val) (body : Stmts)     -- `@each $v<x> in v1, v2, … {`
  /-- `$v<x>: init; @while $v<x> < bound { body  $v<x>: $v<x> + step; }` — the counting loop. -/
  | whileLoop (line : Nat) (x : Nat) (init bound step : Int) (body : Stmts)
  /-- `@use "<file>" as *;` (`forward = false`) or `@forward "<file>";`. -/
  | loadMod (line : Nat) (file : Nat) (forward : Bool)
  | inclContent (line : Nat) (m : Nat) (arg : Option Expr) (content : Stmts)  -- `@include m(arg) { … }`
  | content (line : Nat)                                                      -- `@content;`
inductive Stmts where
  | nil
  | cons (s : Stmt) (rest : Stmts)
end

instance : Inhabited Stmts := ⟨.nil⟩

/-- Where code runs: the file (for locations) and the module whose members it sees (`@import`
    changes the file but not the module; `@use`/`@forward` load a file as its own module). -/
structure Ctx where
  file : Nat
  mod : Nat
  deriving DecidableEq, Repr, Inhabited

abbrev Env := List (Nat × Val)

structure MixinDef where
  param : Option Nat
  body : Stmts
  ctx : Ctx
  hasContent : Bool            -- `AstMixin::has_content`: an `@content` occurs in the declaration

structure FuncDef where
  param : Nat
  body : Stmts
  retLine : Nat
  ret : Expr
  ctx : Ctx

/-- `CallableContentBlock` (visitor.rs:1793): the block and the environment of the `@include`. -/
structure Content where
  body : Stmts
  env : Env
  ctx : Ctx

/-- Configuration: `quiet` is `Options::quiet`; `warnDedupBySpan = true` is the behaviour found on
    the pinned tree (D12: `if self.warnings_emitted.insert(span) { … }` around `visit_warn_rule`). -/
structure Cfg where
  quiet : Bool
  warnDedupBySpan : Bool
  deriving Repr

structure St where
  mixins : List (Nat × MixinDef)
  funcs : List (Nat × FuncDef)
  emitted : List (Nat × Nat)               -- `warnings_emitted`
  log : List Event                         -- what reached the Logger, oldest first
  visited : List (Kind × Nat × Nat)        -- ghost: every completed @debug/@warn execution
  loaded : List Nat                        -- files already loaded as modules (`self.modules`)
  vis : List (Nat × Nat)                   -- (a, b): members owned by module b are visible in module a
  fwd : List (Nat × Nat)                   -- (a, b): module a forwards the members owned by module b
  contents : List (Option Content)         -- `env.content` of the running mixins, innermost first

def St.init : St :=
  { mixins := [], funcs := [], emitted := [], log := [], visited := [], loaded := [], vis := [],
    fwd := [], contents := [] }

inductive Err where
  | user (file line : Nat) (msg : List Char)     -- @error
  | undefinedVar (file line : Nat)
  | undefinedMixin (file line : Nat)
  | noContentAccepted (file line : Nat)          -- "Mixin doesn't accept a content block."
  deriving DecidableEq, Repr, Inhabited

inductive Res (α : Type) where
  | ok (a : α) (st : St)
  | err (e : Err) (st : St)
  | outOfFuel
  | unsupported

def intStr (n : Int) : List Char :=
  match n with
  | .ofNat k => natStr k
  | .negSucc k => '-' :: natStr (k + 1)

/-- `Value::inspect` on the value shapes of the fragment; `to_css_string` (used by @warn) agrees
    with it on them (quoted strings keep their quotes, also inside a list). -/
def inspect : Val → List Char
  | .int n => intStr n
  | .str id => ['"', 's'] ++ natStr id ++ ['"']
  | .pair a b => inspect a ++ [' '] ++ inspect b

/-- The text `@debug` and `@warn` hand to the Logger (visitor.rs:1067-1071 `visit_debug_rule`,
    :1633-1636 `visit_warn_rule`): a string is logged as its text, WITHOUT quotes; every other
    value as `inspect` / `to_css_string` prints it.  `@error` keeps `inspect` (with quotes). -/
def logText : Val → List Char
  | .int n => intStr n
  | .str id => ['s'] ++ natStr id
  | .pair a b => inspect (.pair a b)

def lookupVar (env : Env) (x : Nat) : Option Val := (env.find? (·.1 == x)).map (·.2)

/-- `visit_debug_rule` after a successful evaluation / under quiet (visitor.rs:1062-1077). -/
def St.doDebug (cfg : Cfg) (st : St) (file line : Nat) (msg : List Char) : St :=
  { st with
    log := if cfg.quiet then st.log else st.log ++ [⟨.debug, file, line, msg⟩]
    visited := st.visited ++ [(.debug, file, line)] }

/-- `emit_warning` (visitor.rs:1623-1629) for an executed `@warn`. -/
def St.doWarn (cfg : Cfg) (st : St) (file line : Nat) (msg : List Char) : St :=
  { st with
    log := if cfg.quiet then st.log else st.log ++ [⟨.warn, file, line, msg⟩]
    emitted := if cfg.warnDedupBySpan then (file, line) :: st.emitted else st.emitted
    visited := st.visited ++ [(.warn, file, line)] }

/-- As found (D12): a `@warn` whose span is already in `warnings_emitted` does nothing. -/
def St.skipWarn (st : St) (file line : Nat) : St :=
  { st with visited := st.visited ++ [(.warn, file, line)] }

def St.defMixin (st : St) (m : Nat) (d : MixinDef) : St := { st with mixins := (m, d) :: st.mixins }
def St.defFunc (st : St) (f : Nat) (d : FuncDef) : St := { st with funcs := (f, d) :: st.funcs }

/-- Leaving a style rule: the mixins and functions declared inside it go out of scope. -/
def St.restoreDefs (st old : St) : St := { st with mixins := old.mixins, funcs := old.funcs }

/-- `with_content` (visitor.rs:1801). -/
def St.pushContent (st : St) (c : Option Content) : St := { st with contents := c :: st.contents }
def St.popContent (st : St) : St := { st with contents := st.contents.drop 1 }
def St.setContents (st : St) (cs : List (Option Content)) : St := { st with contents := cs }

/-- A file has been loaded as a module (visitor.rs:651 `load_module`, the `self.modules` cache). -/
def St.markLoaded (st : St) (k : Nat) : St := { st with loaded := k :: st.loaded }

/-- `@use "k" as *` in module `a`: the members of `k` and everything `k` forwards become visible. -/
def St.addVis (st : St) (a k : Nat) : St :=
  { st with vis := (a, k) :: ((st.fwd.filter (·.1 == k)).map (fun p => (a, p.2)) ++ st.vis) }

/-- `@forward "k"` in module `a`. -/
def St.addFwd (st : St) (a k : Nat) : St :=
  { st with fwd := (a, k) :: ((st.fwd.filter (·.1 == k)).map (fun p => (a, p.2)) ++ st.fwd) }

def St.canSee (st : St) (mod owner : Nat) : Bool := mod == owner || st.vis.contains (mod, owner)

def St.findMixin (st : St) (mod m : Nat) : Option MixinDef :=
  (st.mixins.find? (fun p => p.1 == m && st.canSee mod p.2.ctx.mod)).map (·.2)

def St.findFunc (st : St) (mod f : Nat) : Option FuncDef :=
  (st.funcs.find? (fun p => p.1 == f && st.canSee mod p.2.ctx.mod)).map (·.2)

def Res.popContent {α : Type} : Res α → Res α
  | .ok a st => .ok a st.popContent
  | r => r

/-- `visit_for_stmt` (visitor.rs:1873-1944): direction, inclusive adjustment, iteration count. -/
def forDir (frm to : Int) : Int := if frm > to then -1 else 1
def forCount (frm to : Int) (inclusive : Bool) : Nat :=
  let to' := if inclusive then to + forDir frm to else to
  (to' - frm).natAbs

mutual
/-- Does an `@content` occur in the declaration (parse flag `FOUND_CONTENT_RULE`,
    parse/stylesheet.rs:392)? -/
def Stmt.mentionsContent : Stmt → Bool
  | .content _ => true
  | .forLoop _ _ _ _ _ b => b.mentionsContent
  | .ifElse _ _ t e => t.mentionsContent || e.mentionsContent
  | .block b => b.mentionsContent
  | .each _ _ _ b => b.mentionsContent
  | .whileLoop _ _ _ _ _ b => b.mentionsContent
  | .inclContent _ _ _ b => b.mentionsContent
  | _ => false
def Stmts.mentionsContent : Stmts → Bool
  | .nil => false
  | .cons s r => s.mentionsContent || r.mentionsContent
end

mutual
/-- Expression evaluation (function calls run their body, which may log). -/
def evalExpr (cfg : Cfg) (prog : List Stmts) : Nat → Ctx → Nat → Env → Expr → St → Res Val
  | 0, _, _, _, _, _ => .outOfFuel
  | fuel + 1, ctx, line, env, e, st =>
    match e with
    | .int n => .ok (.int n) st
    | .str id => .ok (.str id) st
    | .var x =>
      match lookupVar env x with
      | some v => .ok v st
      | none => .err (.undefinedVar ctx.file line) st
    | .call f arg =>
      match evalExpr cfg prog fuel ctx line env arg st with
      | .ok v st1 =>
        match st1.findFunc ctx.mod f with
        | none => .unsupported            -- plain CSS function: outside the fragment
        | some d =>
          match execStmts cfg prog fuel d.ctx [(d.param, v)] d.body st1 with
          | .ok _ st2 => evalExpr cfg prog fuel d.ctx d.retLine [(d.param, v)] d.ret st2
          | .err e st2 => .err e st2
          | .outOfFuel => .outOfFuel
          | .unsupported => .unsupported
      | r => r
    | .pair a b =>
      match evalExpr cfg prog fuel ctx line env a st with
      | .ok va st1 =>
        match evalExpr cfg prog fuel ctx line env b st1 with
        | .ok vb st2 => if va.isPair || vb.isPair then .unsupported else .ok (.pair va vb) st2
        | r => r
      | r => r

def execStmt (cfg : Cfg) (prog : List Stmts) : Nat → Ctx → Env → Stmt → St → Res Unit
  | 0, _, _, _, _ => .outOfFuel
  | fuel + 1, ctx, env, s, st =>
    match s with
    | .debug line e =>
      -- visitor.rs:1063: under quiet the expression is not even evaluated
      if cfg.quiet then .ok () (st.doDebug cfg ctx.file line [])
      else
        match evalExpr cfg prog fuel ctx line env e st with
        | .ok v st1 => .ok () (st1.doDebug cfg ctx.file line (logText v))
        | .err e st1 => .err e st1
        | .outOfFuel => .outOfFuel
        | .unsupported => .unsupported
    | .warn line e =>
      if cfg.warnDedupBySpan && st.emitted.contains (ctx.file, line) then .ok () (st.skipWarn ctx.file line)
      else
        match evalExpr cfg prog fuel ctx line env e st with
        | .ok v st1 => .ok () (st1.doWarn cfg ctx.file line (logText v))
        | .err e st1 => .err e st1
        | .outOfFuel => .outOfFuel
        | .unsupported => .unsupported
    | .error line e =>
      match evalExpr cfg prog fuel ctx line env e st with
      | .ok v st1 => .err (.user ctx.file line (inspect v)) st1
      | .err e st1 => .err e st1
      | .outOfFuel => .outOfFuel
      | .unsupported => .unsupported
    | .forLoop _ x frm to inclusive body =>
      execFor cfg prog fuel ctx env x body frm (forDir frm to) (forCount frm to inclusive) st
    | .ifElse line c thn els =>
      match c with
      | .lit b => execStmts cfg prog fuel ctx env (if b then thn else els) st
      | .varEq x n =>
        match lookupVar env x with
        | none => .err (.undefinedVar ctx.file line) st
        | some v => execStmts cfg prog fuel ctx env (if v = .int n then thn else els) st
    | .block body =>
      match execStmts cfg prog fuel ctx env body st with
      | .ok _ st1 => .ok () (st1.restoreDefs st)
      | r => r
    | .mixinDef m p body => .ok () (st.defMixin m ⟨p, body, ctx, body.mentionsContent⟩)
    | .funcDef f p body rl ret => .ok () (st.defFunc f ⟨p, body, rl, ret, ctx⟩)
    | .incl line m arg => execIncl cfg prog fuel ctx line env m arg none st
    | .inclContent line m arg body => execIncl cfg prog fuel ctx line env m arg (some ⟨body, env, ctx⟩) st
    | .content _ =>
      -- visit_content_rule (visitor.rs:1079-1101): the block runs in the environment of its
      -- `@include`, where `@content` means the content that was current there
      match st.contents with
      | some c :: rest =>
        match execStmts cfg prog fuel c.ctx c.env c.body (st.setContents rest) with
        | .ok _ st1 => .ok () (st1.setContents (some c :: rest))
        | r => r
      | _ => .ok () st
    | .letCall line e =>
      match evalExpr cfg prog fuel ctx line env e st with
      | .ok _ st1 => .ok () st1
      | .err e st1 => .err e st1
      | .outOfFuel => .outOfFuel
      | .unsupported => .unsupported
    | .importFile _ k =>
      match prog[k]? with
      | none => .unsupported
      | some (.cons (.loadMod _ _ _) _) => .unsupported   -- `@import` of a file with `@use`: outside
      | some body => execStmts cfg prog fuel ⟨k, ctx.mod⟩ env body st
    | .each _ x vals body => execEach cfg prog fuel ctx env x body vals st
    | .whileLoop _ x init bound step body => execWhile cfg prog fuel ctx env x body init bound step st
    | .loadMod _ k forward =>
      -- visit_use_rule (visitor.rs:723) / visit_forward_rule (:268) → load_module (:651) → execute
      -- (:550): a file is executed the first time it is loaded, in its own environment
      if k ≤ ctx.mod then .unsupported         -- only later files (no module loops)
      else if st.loaded.contains k then
        .ok () (if forward then st.addFwd ctx.mod k else st.addVis ctx.mod k)
      else
        match prog[k]? with
        | none => .unsupported
        | some body =>
          match execStmts cfg prog fuel ⟨k, k⟩ [] body st with
          | .ok _ st1 =>
            .ok () (if forward then (st1.markLoaded k).addFwd ctx.mod k else (st1.markLoaded k).addVis ctx.mod k)
          | r => r

def execStmts (cfg : Cfg) (prog : List Stmts) : Nat → Ctx → Env → Stmts → St → Res Unit
  | 0, _, _, _, _ => .outOfFuel
  | fuel + 1, ctx, env, ss, st =>
    match ss with
    | .nil => .ok () st
    | .cons s rest =>
      match execStmt cfg prog fuel ctx env s st with
      | .ok _ st1 => execStmts cfg prog fuel ctx env rest st1
      | r => r

/-- The `while i != to` loop of `visit_for_stmt`, `count` iterations left. -/
def execFor (cfg : Cfg) (prog : List Stmts) : Nat → Ctx → Env → Nat → Stmts → Int → Int → Nat → St → Res Unit
  | 0, _, _, _, _, _, _, _, _ => .outOfFuel
  | fuel + 1, ctx, env, x, body, i, dir, count, st =>
    match count with
    | 0 => .ok () st
    | count + 1 =>
      match execStmts cfg prog fuel ctx ((x, .int i) :: env) body st with
      | .ok _ st1 => execFor cfg prog fuel ctx env x body (i + dir) dir count st1
      | r => r

/-- `visit_each_stmt` (visitor.rs:1834-1871), one variable, the values still to visit. -/
def execEach (cfg : Cfg) (prog : List Stmts) : Nat → Ctx → Env → Nat → Stmts → List Val → St → Res Unit
  | 0, _, _, _, _, _, _ => .outOfFuel
  | fuel + 1, ctx, env, x, body, vals, st =>
    match vals with
    | [] => .ok () st
    | v :: vs =>
      match execStmts cfg prog fuel ctx ((x, v) :: env) body st with
      | .ok _ st1 => execEach cfg prog fuel ctx env x body vs st1
      | r => r

/-- `visit_while_stmt` (visitor.rs:1946-1965) for the counting loop: the condition `$v<x> < bound`
    is evaluated before every iteration; the body's last statement adds `step`.  Nothing bounds
    the number of iterations but the fuel. -/
def execWhile (cfg : Cfg) (prog : List Stmts) : Nat → Ctx → Env → Nat → Stmts → Int → Int → Int → St → Res Unit
  | 0, _, _, _, _, _, _, _, _ => .outOfFuel
  | fuel + 1, ctx, env, x, body, i, bound, step, st =>
    if i < bound then
      match execStmts cfg prog fuel ctx ((x, .int i) :: env) body st with
      | .ok _ st1 => execWhile cfg prog fuel ctx env x body (i + step) bound step st1
      | r => r
    else .ok () st

/-- `visit_include_stmt` (visitor.rs:1771-1824) with the content block `cnt` (if any). -/
def execIncl (cfg : Cfg) (prog : List Stmts) : Nat → Ctx → Nat → Env → Nat → Option Expr → Option Content → St → Res Unit
  | 0, _, _, _, _, _, _, _ => .outOfFuel
  | fuel + 1, ctx, line, env, m, arg, cnt, st =>
    match st.findMixin ctx.mod m with
    | none => .err (.undefinedMixin ctx.file line) st
    | some d =>
      if cnt.isSome && !d.hasContent then .err (.noContentAccepted ctx.file line) st
      else
        match d.param, arg with
        | none, none => (execStmts cfg prog fuel d.ctx [] d.body (st.pushContent cnt)).popContent
        | some x, some a =>
          match evalExpr cfg prog fuel ctx line env a st with
          | .ok v st1 => (execStmts cfg prog fuel d.ctx [(x, v)] d.body (st1.pushContent cnt)).popContent
          | .err e st1 => .err e st1
          | .outOfFuel => .outOfFuel
          | .unsupported => .unsupported
        | _, _ => .unsupported
end

/-- Run a project: `prog[0]` is the entry file. -/
def run (cfg : Cfg) (fuel : Nat) (prog : List Stmts) : Res Unit :=
  match prog with
  | [] => .unsupported
  | entry :: _ => execStmts cfg prog fuel ⟨0, 0⟩ [] entry St.init

def Res.st? {α : Type} : Res α → Option St
  | .ok _ st => some st
  | .err _ st => some st
  | _ => none

/-- The code as it stands now. -/
def Cfg.current (quiet : Bool) : Cfg := { quiet := quiet, warnDedupBySpan := false }

/-! ### programs the interpreter is meant for (what grass's parser accepts of the constructs) -/

mutual
/-- `@content` only inside a mixin declaration (`inMixin`); `@use`/`@forward` never nested;
    `@import` (`imp`) only at the top level of a file or in style rules there — inside a mixin, a
    function or a control directive the parser answers "This at-rule is not allowed here."
    (parse/stylesheet.rs `parse_import_rule` via `parse_disallowed_at_rule`). -/
def Stmt.wf (inMixin imp : Bool) : Stmt → Bool
  | .content _ => inMixin
  | .loadMod _ _ _ => false
  | .importFile _ _ => imp
  | .forLoop _ _ _ _ _ b => b.wf inMixin false
  | .ifElse _ _ t e => t.wf inMixin false && e.wf inMixin false
  | .block b => b.wf inMixin imp
  | .each _ _ _ b => b.wf inMixin false
  | .whileLoop _ _ _ _ _ b => b.wf inMixin false
  | .inclContent _ _ _ b => b.wf inMixin false
  | .mixinDef _ _ b => b.wf true false
  | .funcDef _ _ b _ _ => b.wf false false
  | _ => true
def Stmts.wf (inMixin imp : Bool) : Stmts → Bool
  | .nil => true
  | .cons s r => s.wf inMixin imp && r.wf inMixin imp
end

/-- A file: `@use`/`@forward` first (parse/stylesheet.rs `IS_USE_ALLOWED`), then the rest. -/
def Stmts.wfTop : Stmts → Bool
  | .cons (.loadMod _ _ _) r => r.wfTop
  | ss => ss.wf false true

/-! ## driver entry points -/
open Grass.Proto

def hexOfChars (l : List Char) : String := hexEncode (String.ofList l)

def charsOfHex (s : String) : Option (List Char) := (hexDecode s).map String.toList

def ruleOfStr (s : String) : Option ExpandRule :=
  if s == "longer" then some .onlyWhenLonger
  else if s == "lendiff" then some .whenLengthDiffers
  else if s == "textdiff" then some .whenTextDiffers
  else none

/-! ### reading a program (prefix notation, one token per item)

    stmts := "[" stmt* "]"
    stmt  := D site expr | W site expr | E site expr | F site x from to incl stmts
           | I site cond stmts stmts | B stmts | M m param stmts | U f param stmts retsite expr
           | N site m arg | L site expr | P site file
           | C site x n val^n stmts | H site x init bound step stmts | Y site file fwd
           | K site m arg stmts | T site
    expr  := i n | s id | v x | c f expr | p expr expr      cond := t | f | q x n
    val   := i n | s id        param := _ | x               arg := _ | expr -/

def readExpr : Nat → List String → Option (Expr × List String)
  | 0, _ => none
  | fuel + 1, toks =>
    match toks with
    | "i" :: n :: r => n.toInt?.map (fun n => (.int n, r))
    | "s" :: n :: r => n.toNat?.map (fun n => (.str n, r))
    | "v" :: n :: r => n.toNat?.map (fun n => (.var n, r))
    | "c" :: f :: r =>
      match f.toNat?, readExpr fuel r with
      | some f, some (a, r') => some (.call f a, r')
      | _, _ => none
    | "p" :: r =>
      match readExpr fuel r with
      | some (a, r1) =>
        match readExpr fuel r1 with
        | some (b, r2) => some (.pair a b, r2)
        | none => none
      | none => none
    | _ => none

def readCond : List String → Option (Cond × List String)
  | "t" :: r => some (.lit true, r)
  | "f" :: r => some (.lit false, r)
  | "q" :: x :: n :: r =>
    match x.toNat?, n.toInt? with
    | some x, some n => some (.varEq x n, r)
    | _, _ => none
  | _ => none

def readVals : Nat → List String → Option (List Val × List String)
  | 0, r => some ([], r)
  | n + 1, "i" :: k :: r =>
    match k.toInt?, readVals n r with
    | some k, some (vs, r') => some (.int k :: vs, r')
    | _, _ => none
  | n + 1, "s" :: k :: r =>
    match k.toNat?, readVals n r with
    | some k, some (vs, r') => some (.str k :: vs, r')
    | _, _ => none
  | _ + 1, _ => none

def readArg (fuel : Nat) : List String → Option (Option Expr × List String)
  | "_" :: r => some (none, r)
  | toks => (readExpr fuel toks).map (fun (e, r) => (some e, r))

mutual
def readStmt : Nat → List String → Option (Stmt × List String)
  | 0, _ => none
  | fuel + 1, toks =>
    match toks with
    | "D" :: l :: r =>
      match l.toNat?, readExpr (fuel + 1) r with
      | some l, some (e, r') => some (.debug l e, r')
      | _, _ => none
    | "W" :: l :: r =>
      match l.toNat?, readExpr (fuel + 1) r with
      | some l, some (e, r') => some (.warn l e, r')
      | _, _ => none
    | "E" :: l :: r =>
      match l.toNat?, readExpr (fuel + 1) r with
      | some l, some (e, r') => some (.error l e, r')
      | _, _ => none
    | "L" :: l :: r =>
      match l.toNat?, readExpr (fuel + 1) r with
      | some l, some (e, r') => some (.letCall l e, r')
      | _, _ => none
    | "F" :: l :: x :: a :: b :: inc :: r =>
      match l.toNat?, x.toNat?, a.toInt?, b.toInt?, parseBool? inc, readStmts fuel r with
      | some l, some x, some a, some b, some inc, some (body, r') => some (.forLoop l x a b inc body, r')
      | _, _, _, _, _, _ => none
    | "I" :: l :: r =>
      match l.toNat?, readCond r with
      | some l, some (c, r1) =>
        match readStmts fuel r1 with
        | some (t, r2) =>
          match readStmts fuel r2 with
          | some (e, r3) => some (.ifElse l c t e, r3)
          | none => none
        | none => none
      | _, _ => none
    | "B" :: r => (readStmts fuel r).map (fun (b, r') => (.block b, r'))
    | "M" :: m :: p :: r =>
      match m.toNat?, (if p == "_" then some none else p.toNat?.map some), readStmts fuel r with
      | some m, some p, some (b, r') => some (.mixinDef m p b, r')
      | _, _, _ => none
    | "U" :: f :: p :: r =>
      match f.toNat?, p.toNat?, readStmts fuel r with
      | some f, some p, some (b, rl :: r1) =>
        match rl.toNat?, readExpr (fuel + 1) r1 with
        | some rl, some (e, r2) => some (.funcDef f p b rl e, r2)
        | _, _ => none
      | _, _, _ => none
    | "N" :: l :: m :: r =>
      match l.toNat?, m.toNat?, readArg (fuel + 1) r with
      | some l, some m, some (a, r') => some (.incl l m a, r')
      | _, _, _ => none
    | "K" :: l :: m :: r =>
      match l.toNat?, m.toNat?, readArg (fuel + 1) r with
      | some l, some m, some (a, r1) =>
        match readStmts fuel r1 with
        | some (b, r2) => some (.inclContent l m a b, r2)
        | none => none
      | _, _, _ => none
    | "T" :: l :: r => l.toNat?.map (fun l => (.content l, r))
    | "P" :: l :: k :: r =>
      match l.toNat?, k.toNat? with
      | some l, some k => some (.importFile l k, r)
      | _, _ => none
    | "Y" :: l :: k :: fw :: r =>
      match l.toNat?, k.toNat?, parseBool? fw with
      | some l, some k, some fw => some (.loadMod l k fw, r)
      | _, _, _ => none
    | "C" :: l :: x :: n :: r =>
      match l.toNat?, x.toNat?, n.toNat? with
      | some l, some x, some n =>
        match readVals n r with
        | some (vs, r1) =>
          match readStmts fuel r1 with
          | some (b, r2) => some (.each l x vs b, r2)
          | none => none
        | none => none
      | _, _, _ => none
    | "H" :: l :: x :: a :: b :: c :: r =>
      match l.toNat?, x.toNat?, a.toInt?, b.toInt?, c.toInt?, readStmts fuel r with
      | some l, some x, some a, some b, some c, some (body, r') => some (.whileLoop l x a b c body, r')
      | _, _, _, _, _, _ => none
    | _ => none

def readStmts : Nat → List String → Option (Stmts × List String)
  | 0, _ => none
  | fuel + 1, toks =>
    match toks with
    | "[" :: r => readItems fuel r
    | _ => none

def readItems : Nat → List String → Option (Stmts × List String)
  | 0, _ => none
  | fuel + 1, toks =>
    match toks with
    | "]" :: r => some (.nil, r)
    | _ =>
      match readStmt fuel toks with
      | some (s, r) =>
        match readItems fuel r with
        | some (ss, r') => some (.cons s ss, r')
        | none => none
      | none => none
end

def readFiles : Nat → List String → Option (List Stmts)
  | 0, _ => none
  | fuel + 1, toks =>
    match toks with
    | [] => some []
    | _ =>
      match readStmts (toks.length + 2) toks with
      | some (f, r) => (readFiles fuel r).map (f :: ·)
      | none => none

def readTexts : Nat → List String → Option (List (List Char) × List String)
  | 0, r => some ([], r)
  | n + 1, h :: r =>
    match charsOfHex h, readTexts n r with
    | some t, some (ts, r') => some (t :: ts, r')
    | _, _ => none
  | _ + 1, [] => none

def kindStr : Kind → String
  | .debug => "debug" | .warn => "warn"

def kindName : Kind → List Char
  | .debug => "debug".toList | .warn => "warn".toList

/-- 1-based `line:col` of the value of the directive `@name` at byte `site` of file `f`. -/
def locStr1 (texts : List (List Char)) (f site : Nat) (name : List Char) : Option String :=
  match texts[f]? with
  | none => none
  | some t => (eventLoc t site name).map (fun p => s!"{p.1 + 1}:{p.2 + 1}")

/-- 1-based line of byte `site` of file `f`. -/
def lineStr1 (texts : List (List Char)) (f site : Nat) : Option String :=
  match texts[f]? with
  | none => none
  | some t => (lookUpPos t site).map (fun p => s!"{p.1 + 1}")

def eventStr (texts : List (List Char)) (e : Event) : Option String :=
  (locStr1 texts e.file e.line (kindName e.kind)).map
    (fun l => s!"{kindStr e.kind}:{e.file}:{l}:{hexOfChars e.msg}")

def errStr (texts : List (List Char)) : Err → Option String
  | .user f l m => (locStr1 texts f l "error".toList).map (fun p => s!"err:user:{f}:{p}:{hexOfChars m}")
  | .undefinedVar f l => (lineStr1 texts f l).map (fun p => s!"err:undefvar:{f}:{p}:-:-")
  | .undefinedMixin f l => (lineStr1 texts f l).map (fun p => s!"err:undefmixin:{f}:{p}:-:-")
  | .noContentAccepted f l => (lineStr1 texts f l).map (fun p => s!"err:nocontent:{f}:{p}:-:-")

def eventsStr (texts : List (List Char)) : List Event → Option String
  | [] => some ""
  | e :: es =>
    match eventStr texts e, eventsStr texts es with
    | some a, some b => some (" " ++ a ++ b)
    | _, _ => none

def resStr (texts : List (List Char)) (r : Res Unit) : String :=
  match r with
  | .ok _ st =>
    match eventsStr texts st.log with
    | some evs => s!"ok ok {st.visited.length} |" ++ evs
    | none => "unsupported location"
  | .err e st =>
    match errStr texts e, eventsStr texts st.log with
    | some es, some evs => s!"ok {es} {st.visited.length} |" ++ evs
    | _, _ => "unsupported location"
  | .outOfFuel => "unsupported fuel"
  | .unsupported => "unsupported"

def locStr (p : (Nat × Nat) × (Nat × Nat)) : String := s!"{p.1.1} {p.1.2} {p.2.1} {p.2.2}"

def handle : List String → String
  -- tracex <quiet> <dedup> <n> <hex text of file 0> … <hex text of file n-1> <file0 stmts> … :
  -- outcome and events with 1-based line:col computed from the texts
  | "tracex" :: q :: d :: n :: rest =>
    match parseBool? q, parseBool? d, n.toNat? with
    | some q, some d, some n =>
      match readTexts n rest with
      | some (texts, rest') =>
        match readFiles (rest'.length + 2) rest' with
        | some prog =>
          if prog.length = n && prog.all Stmts.wfTop then
            resStr texts (run { quiet := q, warnDedupBySpan := d } 4000 prog)
          else "unsupported ill-formed"
        | none => "bad-op"
      | none => "bad-op"
    | _, _, _ => "bad-op"
  -- evloc <hexfile> <site> <hexname> : where the value of the directive at byte `site` begins
  | ["evloc", f, site, name] =>
    match charsOfHex f, site.toNat?, charsOfHex name with
    | some f, some site, some name =>
      match exprStart f site name with
      | none => "ok none"
      | some off =>
        match lookUpPos f off with
        | some p => s!"ok {off} {p.1 + 1} {p.2 + 1}"
        | none => s!"ok splits-char {off}"
    | _, _, _ => "bad-op"
  -- locok <hexfile> bl bc el ec : P̂ on a reported location
  | ["locok", f, bl, bc, el, ec] =>
    match charsOfHex f, bl.toNat?, bc.toNat?, el.toNat?, ec.toNat? with
    | some f, some bl, some bc, some el, some ec => "ok " ++ boolStr (spanLocOk f (bl, bc) (el, ec))
    | _, _, _, _, _ => "bad-op"
  -- render <unicode> <hexmsg> <hexname> <hexfile> bl bc el ec : the model's rendering
  | ["render", u, m, n, f, bl, bc, el, ec] =>
    match parseBool? u, charsOfHex m, charsOfHex n, charsOfHex f, bl.toNat?, bc.toNat?, el.toNat?, ec.toNat? with
    | some u, some m, some n, some f, some bl, some bc, some el, some ec =>
      match sourceLine f bl with
      | some ln => "ok " ++ hexOfChars (render u m ⟨n, ln, bl, bc, el, ec⟩)
      | none => "ok no-such-line"
    | _, _, _, _, _, _, _, _ => "bad-op"
  -- relex <rule> <hexfile> <lo> <hi> <hextext> <idx> : span_at_index of re-lexed text + look-up
  | ["relex", rule, f, lo, hi, s, idx] =>
    match ruleOfStr rule, charsOfHex f, lo.toNat?, hi.toNat?, charsOfHex s, idx.toNat? with
    | some rule, some f, some lo, some hi, some s, some idx =>
      let lx := Lexer.ofString rule f s ⟨lo, hi⟩
      match lx.spanAtIndex idx with
      | none => "ok subspan-panics"
      | some sp =>
        match lookUpSpan f sp with
        | none => s!"ok splits-char {sp.lo} {sp.hi} {boolStr lx.isExpanded}"
        | some p => s!"ok span {sp.lo} {sp.hi} {locStr p} {boolStr lx.isExpanded}"
    | _, _, _, _, _, _ => "bad-op"
  -- filespan <hexfile> <idx> : span_at_index of the file lexer + look-up
  | ["filespan", f, idx] =>
    match charsOfHex f, idx.toNat? with
    | some f, some idx =>
      match (Lexer.ofFile f).spanAtIndex idx with
      | none => "ok subspan-panics"
      | some sp =>
        match lookUpSpan f sp with
        | none => s!"ok splits-char {sp.lo} {sp.hi}"
        | some p => s!"ok span {sp.lo} {sp.hi} {locStr p}"
    | _, _ => "bad-op"
  | _ => "bad-op"

end Grass.Diag
