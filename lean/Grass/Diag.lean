import Grass.Proto
/-
  C19 core — diagnostics: where they point, how they are rendered, how they reach the Logger.

  Part 1  span arithmetic of `Lexer`            crates/compiler/src/lexer.rs:15-68, 116-181
          (re-lex sites: evaluate/visitor.rs:1126 @at-root query, :1286 selectors/@extend/selector
          functions, :2919 keyframes selectors, ast/media.rs:57 media queries, parse/stylesheet.rs:1547
          @use namespace) + codemap-0.1.3 `Span::subspan/merge`, `File::find_line_col`
          (lib.rs:65-100, 238-262)
  Part 2  `impl Display for SassError`          crates/compiler/src/error.rs:122-176
  Part 3  logger routing of @debug/@warn/@error crates/compiler/src/evaluate/visitor.rs:1041-1053
          (`visit_debug_rule`), :1340 (`visit_error_rule`), :1584-1598 (`emit_warning`,
          `visit_warn_rule`), :1831-1896 (`visit_for_stmt`) over a mini statement language.

  Text is `List Char` (code points); byte offsets are UTF-8 offsets (`Char.utf8Size`), relative to
  the start of the file (codemap's global `Pos` is the file's `low` plus this offset).
-/
namespace Grass.Diag

/-! ## Part 1 — bytes, boundaries, spans -/

/-- UTF-8 length of a text. -/
def byteLen : List Char → Nat
  | [] => 0
  | c :: cs => c.utf8Size + byteLen cs

/-- `n` is a character boundary of the text (0 and the total length included).  This is what
    `str::is_char_boundary` answers; slicing at any other offset panics in Rust. -/
def isBoundary : List Char → Nat → Bool
  | _, 0 => true
  | [], _ + 1 => false
  | c :: cs, n + 1 => if n + 1 < c.utf8Size then false else isBoundary cs (n + 1 - c.utf8Size)

/-- Characters from byte offset `n` on; `none` when `n` is not a boundary (Rust: slice panic). -/
def dropBytes : List Char → Nat → Option (List Char)
  | cs, 0 => some cs
  | [], _ + 1 => none
  | c :: cs, n + 1 => if n + 1 < c.utf8Size then none else dropBytes cs (n + 1 - c.utf8Size)

/-- The first `n` bytes as characters; `none` when `n` is not a boundary. -/
def takeBytes : List Char → Nat → Option (List Char)
  | _, 0 => some []
  | [], _ + 1 => none
  | c :: cs, n + 1 =>
    if n + 1 < c.utf8Size then none else (takeBytes cs (n + 1 - c.utf8Size)).map (c :: ·)

/-- codemap `Span`, file-relative: `lo` first byte, `hi` one past the last. -/
structure Span where
  lo : Nat
  hi : Nat
  deriving DecidableEq, Repr, Inhabited

def Span.len (s : Span) : Nat := s.hi - s.lo

/-- `Span::subspan` (codemap lib.rs:65): asserts `end >= begin` and `low + end <= high`;
    `none` = the assertion fails (panic). -/
def Span.subspan (s : Span) (b e : Nat) : Option Span :=
  if b ≤ e ∧ s.lo + e ≤ s.hi then some ⟨s.lo + b, s.lo + e⟩ else none

/-- `Span::merge` (codemap lib.rs:95). -/
def Span.merge (a b : Span) : Span := ⟨min a.lo b.lo, max a.hi b.hi⟩

/-- `File::source_slice` restricted to a span (`none` = not inside / not on boundaries). -/
def slice (file : List Char) (sp : Span) : Option (List Char) :=
  if sp.lo ≤ sp.hi then (dropBytes file sp.lo).bind (takeBytes · (sp.hi - sp.lo)) else none

/-- `Token` (lexer.rs:8): the character and its byte position in the lexed text. -/
structure Tok where
  kind : Char
  pos : Nat
  deriving DecidableEq, Repr, Inhabited

def Tok.stop (t : Tok) : Nat := t.pos + t.kind.utf8Size

/-- `TokenLexer::next` (lexer.rs:128-146): form feed and `\r`, `\r\n` become `\n`; for `\r\n` the
    token sits on the `\n` byte.  `cur` is the byte cursor. -/
def tokenize : List Char → Nat → List Tok
  | [], _ => []
  | c :: cs, cur =>
    if c = '\x0c' then ⟨'\n', cur⟩ :: tokenize cs (cur + 1)
    else if c = '\r' then
      match cs with
      | [] => [⟨'\n', cur⟩]
      | d :: cs' =>
        if d = '\n' then ⟨'\n', cur + 1⟩ :: tokenize cs' (cur + 2)
        else ⟨'\n', cur⟩ :: tokenize (d :: cs') (cur + 1)
    else ⟨c, cur⟩ :: tokenize cs (cur + c.utf8Size)
termination_by cs => cs.length

/-- `Lexer` (lexer.rs:14). -/
structure Lexer where
  buf : List Tok
  entire : Span
  cursor : Nat
  isExpanded : Bool
  deriving Repr

/-- `span_at_index` (lexer.rs:38-53). -/
def Lexer.spanAtIndex (lx : Lexer) (idx : Nat) : Option Span :=
  if lx.isExpanded then some lx.entire else
  match lx.buf[idx]? with
  | some t => lx.entire.subspan t.pos t.stop
  | none =>
    match lx.buf.getLast? with
    | some t => lx.entire.subspan t.pos t.stop
    | none => lx.entire.subspan 0 0

/-- `prev_span` (lexer.rs:62): `cursor.saturating_sub(1)`. -/
def Lexer.prevSpan (lx : Lexer) : Option Span := lx.spanAtIndex (lx.cursor - 1)

/-- `current_span` (lexer.rs:66). -/
def Lexer.currentSpan (lx : Lexer) : Option Span := lx.spanAtIndex lx.cursor

/-- `span_from` (lexer.rs:55). -/
def Lexer.spanFrom (lx : Lexer) (start : Nat) : Option Span :=
  match lx.spanAtIndex start, lx.prevSpan with
  | some a, some b => some (a.merge b)
  | _, _ => none

/-- When does re-lexed text count as "expanded" (spans fall back to the whole source span)?
    * `onlyWhenLonger`     — as found on the pinned tree (`s.len() > entire_span.len()`), D19;
    * `whenLengthDiffers`  — the first repair (`s.len() != entire_span.len()`), still wrong for text
                             of equal byte length but different character layout, D23;
    * `whenTextDiffers`    — the code as it stands (lexer.rs:163-171): offsets into the text are
                             meaningful for the source only when the text *is* the source text of
                             the span (`map.find_file(..).source_slice(entire_span) != s`). -/
inductive ExpandRule where
  | onlyWhenLonger | whenLengthDiffers | whenTextDiffers
  deriving DecidableEq, Repr, Inhabited

/-- Names of the two as-found switches. -/
abbrev expandedOnlyWhenLonger : ExpandRule := .onlyWhenLonger
abbrev expandedWhenLengthDiffers : ExpandRule := .whenLengthDiffers

def isExpandedBy (rule : ExpandRule) (file s : List Char) (entire : Span) : Bool :=
  match rule with
  | .onlyWhenLonger => decide (byteLen s > entire.len)
  | .whenLengthDiffers => decide (byteLen s ≠ entire.len)
  | .whenTextDiffers => decide (slice file entire ≠ some s)

/-- `Lexer::new_from_file` (lexer.rs:154). -/
def Lexer.ofFile (file : List Char) : Lexer :=
  { buf := tokenize file 0, entire := ⟨0, byteLen file⟩, cursor := 0, isExpanded := false }

/-- `Lexer::new_from_string` (lexer.rs:163): `s` is text produced at evaluation time (resolved
    interpolation of a selector, media query, @at-root query, keyframes selector, …) and `entire`
    the span of the source it came from. -/
def Lexer.ofString (rule : ExpandRule) (file s : List Char) (entire : Span) : Lexer :=
  { buf := tokenize s 0, entire := entire, cursor := 0, isExpanded := isExpandedBy rule file s entire }

/-- `Lexer::new_from_detached_string` (lexer.rs:175): text that is never the source text of the
    span (the namespace derived from a `@use` URL); always expanded. -/
def Lexer.ofDetached (s : List Char) (entire : Span) : Lexer :=
  { buf := tokenize s 0, entire := entire, cursor := 0, isExpanded := true }

/-- `set_cursor` (lexer.rs:90): any value is accepted. -/
def Lexer.setCursor (lx : Lexer) (c : Nat) : Lexer := { lx with cursor := c }

/-! ### codemap look-up (`find_line_col`, lib.rs:253) -/

/-- Line and column (both 0-based, column in characters) of byte offset `n`; `none` = the offset
    is past the end or inside a character (codemap panics). `l c` is the position of the head. -/
def lineColAux : List Char → Nat → Nat → Nat → Option (Nat × Nat)
  | _, 0, l, c => some (l, c)
  | [], _ + 1, _, _ => none
  | ch :: cs, n + 1, l, c =>
    if n + 1 < ch.utf8Size then none
    else if ch = '\n' then lineColAux cs (n + 1 - ch.utf8Size) (l + 1) 0
    else lineColAux cs (n + 1 - ch.utf8Size) l (c + 1)

def lookUpPos (file : List Char) (off : Nat) : Option (Nat × Nat) := lineColAux file off 0 0

/-- All (line, column) pairs that are the image of a position of the file, in order. -/
def positionsAux : List Char → Nat → Nat → List (Nat × Nat)
  | [], l, c => [(l, c)]
  | ch :: cs, l, c => (l, c) :: (if ch = '\n' then positionsAux cs (l + 1) 0 else positionsAux cs l (c + 1))

def positions (file : List Char) : List (Nat × Nat) := positionsAux file 0 0

def lexLe (a b : Nat × Nat) : Bool := a.1 < b.1 || (a.1 == b.1 && a.2 ≤ b.2)

/-- **P̂ for locations**: a reported `begin`/`end` pair names two real positions of the file's
    text, in order.  Evaluated by the driver on what grass reports. -/
def spanLocOk (file : List Char) (b e : Nat × Nat) : Bool :=
  (positions file).contains b && (positions file).contains e && lexLe b e

/-- `CodeMap::look_up_span` for a span of this file: `none` = codemap panics. -/
def lookUpSpan (file : List Char) (sp : Span) : Option ((Nat × Nat) × (Nat × Nat)) :=
  match lookUpPos file sp.lo, lookUpPos file sp.hi with
  | some b, some e => some (b, e)
  | _, _ => none

/-! ## Part 2 — the renderer (`impl Display for SassError`, error.rs:122-176) -/

def natStr (n : Nat) : List Char := (Nat.repr n).toList

/-- `trim_end_matches(&['\n', '\r'])`. -/
def trimEol (l : List Char) : List Char :=
  (l.reverse.dropWhile (fun c => c = '\n' || c = '\r')).reverse

/-- Lines as codemap sees them: split on `\n` only. -/
def splitLines : List Char → List (List Char)
  | [] => [[]]
  | c :: cs =>
    match splitLines cs with
    | [] => [[]]                       -- unreachable
    | l :: ls => if c = '\n' then [] :: l :: ls else (c :: l) :: ls

/-- `File::source_line` (codemap lib.rs:302). -/
def sourceLine (file : List Char) (line : Nat) : Option (List Char) :=
  (splitLines file)[line]?.map trimEol

structure RenderLoc where
  name : List Char
  srcLine : List Char
  bl : Nat
  bc : Nat
  el : Nat
  ec : Nat

/-- error.rs:164: `loc.end.column.max(loc.begin.column) - loc.begin.column.min(loc.end.column)`. -/
def caretCount (bc ec : Nat) : Nat := max ec bc - min bc ec

/-- error.rs:147: one space per digit of the 1-based line number, plus one. -/
def padding (line1 : Nat) : List Char := List.replicate ((natStr line1).length + 1) ' '

def errorPrefix : List Char := ['E', 'r', 'r', 'o', 'r', ':', ' ']

def render (unicode : Bool) (msg : List Char) (loc : RenderLoc) : List Char :=
  let firstBar := if unicode then '╷' else ','
  let midBar := if unicode then '│' else '|'
  let lastBar := if unicode then '╵' else '\''
  let line := loc.bl + 1
  let col := loc.bc + 1
  let pad := padding line
  errorPrefix ++ msg ++ ['\n']
    ++ (pad ++ [firstBar] ++ ['\n'])
    ++ (natStr line ++ [' ', midBar, ' '] ++ loc.srcLine ++ ['\n'])
    ++ (pad ++ [midBar, ' '] ++ List.replicate loc.bc ' ' ++ List.replicate (caretCount loc.bc loc.ec) '^' ++ ['\n'])
    ++ (pad ++ [lastBar] ++ ['\n'])
    ++ (if unicode then
          ['.', '/'] ++ loc.name ++ [':'] ++ natStr line ++ [':'] ++ natStr col ++ ['\n']
        else
          [' ', ' '] ++ loc.name ++ [' '] ++ natStr line ++ [':'] ++ natStr col
            ++ "  root stylesheet".toList ++ ['\n'])

/-! ## Part 3 — which diagnostics reach the Logger (mini statement language) -/

inductive Kind where
  | debug | warn
  deriving DecidableEq, Repr, Inhabited

structure Event where
  kind : Kind
  file : Nat
  line : Nat
  msg : List Char
  deriving DecidableEq, Repr, Inhabited

/-- What identifies one directive: kind, file, line (the generator prints one directive per line,
    so (file, line) also identifies the directive's span — the key of `warnings_emitted`). -/
def Event.key (e : Event) : Kind × Nat × Nat := (e.kind, e.file, e.line)

inductive Val where
  | int (n : Int)
  | str (id : Nat)               -- the quoted string "s<id>"
  deriving DecidableEq, Repr, Inhabited

inductive Expr where
  | int (n : Int)
  | str (id : Nat)
  | var (x : Nat)                -- `$v<x>`
  | call (f : Nat) (arg : Expr)  -- `f<f>(arg)`, a user-defined function
  deriving Repr, Inhabited

inductive Cond where
  | lit (b : Bool)
  | varEq (x : Nat) (n : Int)    -- `$v<x> == n`
  deriving Repr, Inhabited

mutual
inductive Stmt where
  | debug (line : Nat) (e : Expr)
  | warn (line : Nat) (e : Expr)
  | error (line : Nat) (e : Expr)
  | forLoop (line : Nat) (x : Nat) (frm to : Int) (inclusive : Bool) (body : Stmts)
  | ifElse (line : Nat) (c : Cond) (thn els : Stmts)
  | block (body : Stmts)                                  -- a style rule around the body
  | mixinDef (m : Nat) (param : Option Nat) (body : Stmts)
  | funcDef (f : Nat) (param : Nat) (body : Stmts) (retLine : Nat) (ret : Expr)
  | incl (line : Nat) (m : Nat) (arg : Option Expr)
  | letCall (line : Nat) (e : Expr)                       -- `$tmp: <expr>;`
  | importFile (line : Nat) (file : Nat)
inductive Stmts where
  | nil
  | cons (s : Stmt) (rest : Stmts)
end

instance : Inhabited Stmts := ⟨.nil⟩

structure MixinDef where
  param : Option Nat
  body : Stmts
  file : Nat

structure FuncDef where
  param : Nat
  body : Stmts
  retLine : Nat
  ret : Expr
  file : Nat

/-- Configuration: `quiet` is `Options::quiet`; `warnDedupBySpan = true` is the behaviour found on
    the pinned tree (D12: `if self.warnings_emitted.insert(span) { … }` around `visit_warn_rule`). -/
structure Cfg where
  quiet : Bool
  warnDedupBySpan : Bool
  deriving Repr

structure St where
  mixins : List (Nat × MixinDef)
  funcs : List (Nat × FuncDef)
  emitted : List (Nat × Nat)               -- `warnings_emitted`
  log : List Event                         -- what reached the Logger, oldest first
  visited : List (Kind × Nat × Nat)        -- ghost: every completed @debug/@warn execution

def St.init : St := { mixins := [], funcs := [], emitted := [], log := [], visited := [] }

inductive Err where
  | user (file line : Nat) (msg : List Char)     -- @error
  | undefinedVar (file line : Nat)
  | undefinedMixin (file line : Nat)
  deriving DecidableEq, Repr, Inhabited

inductive Res (α : Type) where
  | ok (a : α) (st : St)
  | err (e : Err) (st : St)
  | outOfFuel
  | unsupported

def intStr (n : Int) : List Char :=
  match n with
  | .ofNat k => natStr k
  | .negSucc k => '-' :: natStr (k + 1)

/-- `Value::inspect` on the two value shapes of the fragment; `to_css_string` (used by @warn)
    agrees with it on them (quoted strings keep their quotes). -/
def inspect : Val → List Char
  | .int n => intStr n
  | .str id => ['"', 's'] ++ natStr id ++ ['"']

/-- The text `@debug` and `@warn` hand to the Logger (visitor.rs `visit_debug_rule` /
    `visit_warn_rule`, as repaired): a string is logged as its text, WITHOUT quotes; every other
    value as `inspect` / `to_css_string` prints it.  `@error` keeps `inspect` (with quotes). -/
def logText : Val → List Char
  | .int n => intStr n
  | .str id => ['s'] ++ natStr id

abbrev Env := List (Nat × Val)

def lookupVar (env : Env) (x : Nat) : Option Val := (env.find? (·.1 == x)).map (·.2)

/-- `visit_debug_rule` after a successful evaluation / under quiet (visitor.rs:1041-1053). -/
def St.doDebug (cfg : Cfg) (st : St) (file line : Nat) (msg : List Char) : St :=
  { st with
    log := if cfg.quiet then st.log else st.log ++ [⟨.debug, file, line, msg⟩]
    visited := st.visited ++ [(.debug, file, line)] }

/-- `emit_warning` (visitor.rs:1584-1590) for an executed `@warn`. -/
def St.doWarn (cfg : Cfg) (st : St) (file line : Nat) (msg : List Char) : St :=
  { st with
    log := if cfg.quiet then st.log else st.log ++ [⟨.warn, file, line, msg⟩]
    emitted := if cfg.warnDedupBySpan then (file, line) :: st.emitted else st.emitted
    visited := st.visited ++ [(.warn, file, line)] }

/-- As found (D12): a `@warn` whose span is already in `warnings_emitted` does nothing. -/
def St.skipWarn (st : St) (file line : Nat) : St :=
  { st with visited := st.visited ++ [(.warn, file, line)] }

def St.defMixin (st : St) (m : Nat) (d : MixinDef) : St := { st with mixins := (m, d) :: st.mixins }
def St.defFunc (st : St) (f : Nat) (d : FuncDef) : St := { st with funcs := (f, d) :: st.funcs }

/-- `visit_for_stmt` (visitor.rs:1831-1896): direction, inclusive adjustment, iteration count. -/
def forDir (frm to : Int) : Int := if frm > to then -1 else 1
def forCount (frm to : Int) (inclusive : Bool) : Nat :=
  let to' := if inclusive then to + forDir frm to else to
  (to' - frm).natAbs

mutual
/-- Expression evaluation (function calls run their body, which may log). -/
def evalExpr (cfg : Cfg) (prog : List Stmts) : Nat → Nat → Nat → Env → Expr → St → Res Val
  | 0, _, _, _, _, _ => .outOfFuel
  | fuel + 1, file, line, env, e, st =>
    match e with
    | .int n => .ok (.int n) st
    | .str id => .ok (.str id) st
    | .var x =>
      match lookupVar env x with
      | some v => .ok v st
      | none => .err (.undefinedVar file line) st
    | .call f arg =>
      match evalExpr cfg prog fuel file line env arg st with
      | .ok v st1 =>
        match (st1.funcs.find? (·.1 == f)).map (·.2) with
        | none => .unsupported            -- plain CSS function: outside the fragment
        | some d =>
          match execStmts cfg prog fuel d.file [(d.param, v)] d.body st1 with
          | .ok _ st2 => evalExpr cfg prog fuel d.file d.retLine [(d.param, v)] d.ret st2
          | .err e st2 => .err e st2
          | .outOfFuel => .outOfFuel
          | .unsupported => .unsupported
      | r => r

def execStmt (cfg : Cfg) (prog : List Stmts) : Nat → Nat → Env → Stmt → St → Res Unit
  | 0, _, _, _, _ => .outOfFuel
  | fuel + 1, file, env, s, st =>
    match s with
    | .debug line e =>
      -- visitor.rs:1042: under quiet the expression is not even evaluated
      if cfg.quiet then .ok () (st.doDebug cfg file line [])
      else
        match evalExpr cfg prog fuel file line env e st with
        | .ok v st1 => .ok () (st1.doDebug cfg file line (logText v))
        | .err e st1 => .err e st1
        | .outOfFuel => .outOfFuel
        | .unsupported => .unsupported
    | .warn line e =>
      if cfg.warnDedupBySpan && st.emitted.contains (file, line) then .ok () (st.skipWarn file line)
      else
        match evalExpr cfg prog fuel file line env e st with
        | .ok v st1 => .ok () (st1.doWarn cfg file line (logText v))
        | .err e st1 => .err e st1
        | .outOfFuel => .outOfFuel
        | .unsupported => .unsupported
    | .error line e =>
      match evalExpr cfg prog fuel file line env e st with
      | .ok v st1 => .err (.user file line (inspect v)) st1
      | .err e st1 => .err e st1
      | .outOfFuel => .outOfFuel
      | .unsupported => .unsupported
    | .forLoop _ x frm to inclusive body =>
      execFor cfg prog fuel file env x body frm (forDir frm to) (forCount frm to inclusive) st
    | .ifElse line c thn els =>
      match c with
      | .lit b => execStmts cfg prog fuel file env (if b then thn else els) st
      | .varEq x n =>
        match lookupVar env x with
        | none => .err (.undefinedVar file line) st
        | some v => execStmts cfg prog fuel file env (if v = .int n then thn else els) st
    | .block body => execStmts cfg prog fuel file env body st
    | .mixinDef m p body => .ok () (st.defMixin m ⟨p, body, file⟩)
    | .funcDef f p body rl ret => .ok () (st.defFunc f ⟨p, body, rl, ret, file⟩)
    | .incl line m arg =>
      match (st.mixins.find? (·.1 == m)).map (·.2) with
      | none => .err (.undefinedMixin file line) st
      | some d =>
        match d.param, arg with
        | none, none => execStmts cfg prog fuel d.file [] d.body st
        | some x, some a =>
          match evalExpr cfg prog fuel file line env a st with
          | .ok v st1 => execStmts cfg prog fuel d.file [(x, v)] d.body st1
          | .err e st1 => .err e st1
          | .outOfFuel => .outOfFuel
          | .unsupported => .unsupported
        | _, _ => .unsupported
    | .letCall line e =>
      match evalExpr cfg prog fuel file line env e st with
      | .ok _ st1 => .ok () st1
      | .err e st1 => .err e st1
      | .outOfFuel => .outOfFuel
      | .unsupported => .unsupported
    | .importFile _ k =>
      match prog[k]? with
      | none => .unsupported
      | some body => execStmts cfg prog fuel k env body st

def execStmts (cfg : Cfg) (prog : List Stmts) : Nat → Nat → Env → Stmts → St → Res Unit
  | 0, _, _, _, _ => .outOfFuel
  | fuel + 1, file, env, ss, st =>
    match ss with
    | .nil => .ok () st
    | .cons s rest =>
      match execStmt cfg prog fuel file env s st with
      | .ok _ st1 => execStmts cfg prog fuel file env rest st1
      | r => r

/-- The `while i != to` loop of `visit_for_stmt`, `count` iterations left. -/
def execFor (cfg : Cfg) (prog : List Stmts) : Nat → Nat → Env → Nat → Stmts → Int → Int → Nat → St → Res Unit
  | 0, _, _, _, _, _, _, _, _ => .outOfFuel
  | fuel + 1, file, env, x, body, i, dir, count, st =>
    match count with
    | 0 => .ok () st
    | count + 1 =>
      match execStmts cfg prog fuel file ((x, .int i) :: env) body st with
      | .ok _ st1 => execFor cfg prog fuel file env x body (i + dir) dir count st1
      | r => r
end

/-- Run a project: `prog[0]` is the entry file. -/
def run (cfg : Cfg) (fuel : Nat) (prog : List Stmts) : Res Unit :=
  match prog with
  | [] => .unsupported
  | entry :: _ => execStmts cfg prog fuel 0 [] entry St.init

def Res.st? {α : Type} : Res α → Option St
  | .ok _ st => some st
  | .err _ st => some st
  | _ => none

/-- The code as it stands now. -/
def Cfg.current (quiet : Bool) : Cfg := { quiet := quiet, warnDedupBySpan := false }

/-! ## driver entry points -/
open Grass.Proto

def hexOfChars (l : List Char) : String := hexEncode (String.ofList l)

def charsOfHex (s : String) : Option (List Char) := (hexDecode s).map String.toList

def ruleOfStr (s : String) : Option ExpandRule :=
  if s == "longer" then some .onlyWhenLonger
  else if s == "lendiff" then some .whenLengthDiffers
  else if s == "textdiff" then some .whenTextDiffers
  else none

/-! ### reading a program (prefix notation, one token per item)

    stmts := "[" stmt* "]"
    stmt  := D line expr | W line expr | E line expr | F line x from to incl stmts
           | I line cond stmts stmts | B stmts | M m param stmts | U f param stmts retline expr
           | N line m arg | L line expr | P line file
    expr  := i n | s id | v x | c f expr          cond := t | f | q x n
    param := _ | x                                 arg := _ | expr -/

def readExpr : Nat → List String → Option (Expr × List String)
  | 0, _ => none
  | fuel + 1, toks =>
    match toks with
    | "i" :: n :: r => n.toInt?.map (fun n => (.int n, r))
    | "s" :: n :: r => n.toNat?.map (fun n => (.str n, r))
    | "v" :: n :: r => n.toNat?.map (fun n => (.var n, r))
    | "c" :: f :: r =>
      match f.toNat?, readExpr fuel r with
      | some f, some (a, r') => some (.call f a, r')
      | _, _ => none
    | _ => none

def readCond : List String → Option (Cond × List String)
  | "t" :: r => some (.lit true, r)
  | "f" :: r => some (.lit false, r)
  | "q" :: x :: n :: r =>
    match x.toNat?, n.toInt? with
    | some x, some n => some (.varEq x n, r)
    | _, _ => none
  | _ => none

mutual
def readStmt : Nat → List String → Option (Stmt × List String)
  | 0, _ => none
  | fuel + 1, toks =>
    match toks with
    | "D" :: l :: r =>
      match l.toNat?, readExpr (fuel + 1) r with
      | some l, some (e, r') => some (.debug l e, r')
      | _, _ => none
    | "W" :: l :: r =>
      match l.toNat?, readExpr (fuel + 1) r with
      | some l, some (e, r') => some (.warn l e, r')
      | _, _ => none
    | "E" :: l :: r =>
      match l.toNat?, readExpr (fuel + 1) r with
      | some l, some (e, r') => some (.error l e, r')
      | _, _ => none
    | "L" :: l :: r =>
      match l.toNat?, readExpr (fuel + 1) r with
      | some l, some (e, r') => some (.letCall l e, r')
      | _, _ => none
    | "F" :: l :: x :: a :: b :: inc :: r =>
      match l.toNat?, x.toNat?, a.toInt?, b.toInt?, parseBool? inc, readStmts fuel r with
      | some l, some x, some a, some b, some inc, some (body, r') => some (.forLoop l x a b inc body, r')
      | _, _, _, _, _, _ => none
    | "I" :: l :: r =>
      match l.toNat?, readCond r with
      | some l, some (c, r1) =>
        match readStmts fuel r1 with
        | some (t, r2) =>
          match readStmts fuel r2 with
          | some (e, r3) => some (.ifElse l c t e, r3)
          | none => none
        | none => none
      | _, _ => none
    | "B" :: r => (readStmts fuel r).map (fun (b, r') => (.block b, r'))
    | "M" :: m :: p :: r =>
      match m.toNat?, (if p == "_" then some none else p.toNat?.map some), readStmts fuel r with
      | some m, some p, some (b, r') => some (.mixinDef m p b, r')
      | _, _, _ => none
    | "U" :: f :: p :: r =>
      match f.toNat?, p.toNat?, readStmts fuel r with
      | some f, some p, some (b, rl :: r1) =>
        match rl.toNat?, readExpr (fuel + 1) r1 with
        | some rl, some (e, r2) => some (.funcDef f p b rl e, r2)
        | _, _ => none
      | _, _, _ => none
    | "N" :: l :: m :: "_" :: r =>
      match l.toNat?, m.toNat? with
      | some l, some m => some (.incl l m none, r)
      | _, _ => none
    | "N" :: l :: m :: r =>
      match l.toNat?, m.toNat?, readExpr (fuel + 1) r with
      | some l, some m, some (e, r') => some (.incl l m (some e), r')
      | _, _, _ => none
    | "P" :: l :: k :: r =>
      match l.toNat?, k.toNat? with
      | some l, some k => some (.importFile l k, r)
      | _, _ => none
    | _ => none

def readStmts : Nat → List String → Option (Stmts × List String)
  | 0, _ => none
  | fuel + 1, toks =>
    match toks with
    | "[" :: r => readItems fuel r
    | _ => none

def readItems : Nat → List String → Option (Stmts × List String)
  | 0, _ => none
  | fuel + 1, toks =>
    match toks with
    | "]" :: r => some (.nil, r)
    | _ =>
      match readStmt fuel toks with
      | some (s, r) =>
        match readItems fuel r with
        | some (ss, r') => some (.cons s ss, r')
        | none => none
      | none => none
end

def readFiles : Nat → List String → Option (List Stmts)
  | 0, _ => none
  | fuel + 1, toks =>
    match toks with
    | [] => some []
    | _ =>
      match readStmts (toks.length + 2) toks with
      | some (f, r) => (readFiles fuel r).map (f :: ·)
      | none => none

def kindStr : Kind → String
  | .debug => "debug" | .warn => "warn"

def eventStr (e : Event) : String := s!"{kindStr e.kind}:{e.file}:{e.line}:{hexOfChars e.msg}"

def errStr : Err → String
  | .user f l m => s!"err:user:{f}:{l}:{hexOfChars m}"
  | .undefinedVar f l => s!"err:undefvar:{f}:{l}:-"
  | .undefinedMixin f l => s!"err:undefmixin:{f}:{l}:-"

def resStr (r : Res Unit) : String :=
  match r with
  | .ok _ st => s!"ok ok {st.visited.length} |" ++ String.join (st.log.map (fun e => " " ++ eventStr e))
  | .err e st => s!"ok {errStr e} {st.visited.length} |" ++ String.join (st.log.map (fun e => " " ++ eventStr e))
  | .outOfFuel => "unsupported fuel"
  | .unsupported => "unsupported"

def locStr (p : (Nat × Nat) × (Nat × Nat)) : String := s!"{p.1.1} {p.1.2} {p.2.1} {p.2.2}"

def handle : List String → String
  -- trace <quiet> <dedup> <file0 stmts> <file1 stmts> …
  | "trace" :: q :: d :: rest =>
    match parseBool? q, parseBool? d, readFiles (rest.length + 2) rest with
    | some q, some d, some prog => resStr (run { quiet := q, warnDedupBySpan := d } 4000 prog)
    | _, _, _ => "bad-op"
  -- locok <hexfile> bl bc el ec : P̂ on a reported location
  | ["locok", f, bl, bc, el, ec] =>
    match charsOfHex f, bl.toNat?, bc.toNat?, el.toNat?, ec.toNat? with
    | some f, some bl, some bc, some el, some ec => "ok " ++ boolStr (spanLocOk f (bl, bc) (el, ec))
    | _, _, _, _, _ => "bad-op"
  -- render <unicode> <hexmsg> <hexname> <hexfile> bl bc el ec : the model's rendering
  | ["render", u, m, n, f, bl, bc, el, ec] =>
    match parseBool? u, charsOfHex m, charsOfHex n, charsOfHex f, bl.toNat?, bc.toNat?, el.toNat?, ec.toNat? with
    | some u, some m, some n, some f, some bl, some bc, some el, some ec =>
      match sourceLine f bl with
      | some ln => "ok " ++ hexOfChars (render u m ⟨n, ln, bl, bc, el, ec⟩)
      | none => "ok no-such-line"
    | _, _, _, _, _, _, _, _ => "bad-op"
  -- relex <rule> <hexfile> <lo> <hi> <hextext> <idx> : span_at_index of re-lexed text + look-up
  | ["relex", rule, f, lo, hi, s, idx] =>
    match ruleOfStr rule, charsOfHex f, lo.toNat?, hi.toNat?, charsOfHex s, idx.toNat? with
    | some rule, some f, some lo, some hi, some s, some idx =>
      let lx := Lexer.ofString rule f s ⟨lo, hi⟩
      match lx.spanAtIndex idx with
      | none => "ok subspan-panics"
      | some sp =>
        match lookUpSpan f sp with
        | none => s!"ok splits-char {sp.lo} {sp.hi} {boolStr lx.isExpanded}"
        | some p => s!"ok span {sp.lo} {sp.hi} {locStr p} {boolStr lx.isExpanded}"
    | _, _, _, _, _, _ => "bad-op"
  -- filespan <hexfile> <idx> : span_at_index of the file lexer + look-up
  | ["filespan", f, idx] =>
    match charsOfHex f, idx.toNat? with
    | some f, some idx =>
      match (Lexer.ofFile f).spanAtIndex idx with
      | none => "ok subspan-panics"
      | some sp =>
        match lookUpSpan f sp with
        | none => s!"ok splits-char {sp.lo} {sp.hi}"
        | some p => s!"ok span {sp.lo} {sp.hi} {locStr p}"
    | _, _ => "bad-op"
  | _ => "bad-op"

end Grass.Diag
