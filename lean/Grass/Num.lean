import Grass.Proto
/- Core `Num` — stub; replaced by the model (see DESIGN.md §8). -/
namespace Grass.Num

def handle : List String → String
  | _ => "bad-op"

end Grass.Num
