import Grass.Proto
/-
  C07 core — Sass numbers: IEEE doubles with Sass rounding, modulo and printing rules.

  Mirrors (file:line of /repo/crates/compiler/src):
    value/number.rs:16-46    PRECISION, epsilon, inverse_epsilon, fuzzy_equals
    value/number.rs:48-61    fuzzy_as_int
    value/number.rs:63-85    fuzzy_round, fuzzy_less_than, fuzzy_less_than_or_equals
    value/number.rs:121-135  round / ceil / floor / abs
    value/number.rs:265-300  Number::to_string   (second copy of the printing rule)
    value/number.rs:378-398  real_mod, modulo
    serializer.rs:568-606    write_float
    parse/value.rs:980-1092  parse_number, try_decimal, try_exponent
    value/mod.rs:341-393     Value::cmp          (ordering of numbers, tolerance-aware)
    evaluate/bin_op.rs       add / sub / mul / div / rem on unitless numbers
    builtin/functions/math.rs round / ceil / floor / abs, list.rs:11 nth

  A finite double is its exact rational value (`Rat`); IEEE round-to-nearest-even to 53
  significant bits is the explicit function `rnd53`.  `Float` is never used.
  Out-of-range magnitudes (subnormal results) are answered `unsupported`, never guessed.
-/
namespace Grass.Num

/-! ## exact helpers on `Rat` -/

def absQ (q : Rat) : Rat := if q < 0 then -q else q

/-- `f64::round`: nearest integer, halves away from zero. -/
def roundHA (q : Rat) : Int :=
  if q < 0 then -((-q + 1/2).floor) else (q + 1/2).floor

def ceilQ (q : Rat) : Int := -((-q).floor)

/-- truncation toward zero (the quotient used by C `fmod` / Rust `%` on floats) -/
def truncQ (q : Rat) : Int := if q < 0 then -((-q).floor) else q.floor

/-- round-half-even of `num/den` (`den > 0`) -/
def divRoundEven (num den : Nat) : Nat :=
  let q := num / den
  let r := num % den
  if 2 * r < den then q else if den < 2 * r then q + 1 else if q % 2 = 0 then q else q + 1

/-! ## `rnd53`: round to nearest double (53 significant bits, ties to even, unbounded exponent) -/

/-- `num/den ≥ 2^d` -/
def geP2 (num den : Nat) (d : Int) : Bool :=
  if d ≥ 0 then decide (den * 2 ^ d.toNat ≤ num) else decide (den ≤ num * 2 ^ (-d).toNat)

/-- `⌊log₂ (num/den)⌋` for `num, den > 0` -/
def binExp (num den : Nat) : Int :=
  let d : Int := (Nat.log2 num : Int) - (Nat.log2 den : Int)
  if geP2 num den d then d else d - 1

/-- mantissa/exponent of the nearest 53-bit value: `m·2^e`, `2^52 ≤ m ≤ 2^53`. -/
def rndPosME (num den : Nat) : Nat × Int :=
  let e := binExp num den - 52
  let m := if e ≥ 0 then divRoundEven num (den * 2 ^ e.toNat)
           else divRoundEven (num * 2 ^ (-e).toNat) den
  (m, e)

def pow2 (e : Int) : Rat :=
  if e ≥ 0 then ((2 ^ e.toNat : Nat) : Rat) else 1 / ((2 ^ (-e).toNat : Nat) : Rat)

def rndPos (q : Rat) : Rat :=
  let me := rndPosME q.num.natAbs q.den
  (me.1 : Rat) * pow2 me.2

def rnd53 (q : Rat) : Rat :=
  if q = 0 then 0 else if q < 0 then -(rndPos (-q)) else rndPos q

/-- binary exponent of a non-zero rational -/
def expOf (q : Rat) : Int := binExp q.num.natAbs q.den

/-- a non-zero value lies in the normal range of f64 -/
def normalRange (q : Rat) : Bool := decide (-1022 ≤ expOf q) && decide (absQ q < pow2 1024)

/-! ## doubles with the IEEE specials -/

inductive D where
  | fin (q : Rat)      -- finite, `fin 0` is +0
  | nz                 -- −0
  | pinf | ninf | nan
  deriving DecidableEq, Repr, Inhabited

namespace D

def isNeg : D → Bool          -- the sign bit (`is_sign_negative`), NaN counted positive
  | fin q => decide (q < 0) | nz => true | ninf => true | _ => false

def toRat? : D → Option Rat
  | fin q => some q | nz => some 0 | _ => none

def isZero : D → Bool         -- IEEE `== 0.0`
  | fin q => decide (q = 0) | nz => true | _ => false

def isFinite : D → Bool
  | fin _ => true | nz => true | _ => false

def isNan : D → Bool
  | nan => true | _ => false

def isInf : D → Bool
  | pinf => true | ninf => true | _ => false

def zero (neg : Bool) : D := if neg then nz else fin 0

def inf (neg : Bool) : D := if neg then ninf else pinf

/-- Round a non-zero exact result into a double; `none` = below the normal range (not modelled). -/
def ofNonzero (q : Rat) : Option D :=
  let r := rnd53 q
  if absQ r ≥ pow2 1024 then some (inf (decide (q < 0)))
  else if expOf r < -1022 then none
  else some (fin r)

/-- exact result `q`, with the sign an exact zero takes -/
def ofExact (q : Rat) (zeroNeg : Bool) : Option D :=
  if q = 0 then some (zero zeroNeg) else ofNonzero q

def neg : D → D
  | fin q => if q = 0 then nz else fin (-q)
  | nz => fin 0 | pinf => ninf | ninf => pinf | nan => nan

def abs : D → D
  | fin q => fin (absQ q) | nz => fin 0 | pinf => pinf | ninf => pinf | nan => nan

def add (a b : D) : Option D :=
  match a, b with
  | nan, _ => some nan | _, nan => some nan
  | pinf, ninf => some nan | ninf, pinf => some nan
  | pinf, _ => some pinf | _, pinf => some pinf
  | ninf, _ => some ninf | _, ninf => some ninf
  | nz, nz => some nz
  | fin x, fin y => ofExact (x + y) false
  | fin x, nz => some (fin x)
  | nz, fin y => some (fin y)

def sub (a b : D) : Option D := add a (neg b)

def mul (a b : D) : Option D :=
  let s := a.isNeg != b.isNeg
  match a, b with
  | nan, _ => some nan | _, nan => some nan
  | _, _ =>
    if a.isInf || b.isInf then
      (if a.isZero || b.isZero then some nan else some (inf s))
    else
      match a.toRat?, b.toRat? with
      | some x, some y => ofExact (x * y) s
      | _, _ => some nan

def div (a b : D) : Option D :=
  let s := a.isNeg != b.isNeg
  match a, b with
  | nan, _ => some nan | _, nan => some nan
  | _, _ =>
    if a.isInf then (if b.isInf then some nan else some (inf s))
    else if b.isInf then some (zero s)
    else if b.isZero then (if a.isZero then some nan else some (inf s))
    else
      match a.toRat?, b.toRat? with
      | some x, some y => ofExact (x / y) s
      | _, _ => some nan

/-- IEEE `==` -/
def eq (a b : D) : Bool :=
  match a, b with
  | nan, _ => false | _, nan => false
  | pinf, pinf => true | ninf, ninf => true
  | _, _ => match a.toRat?, b.toRat? with
    | some x, some y => decide (x = y)
    | _, _ => false

/-- IEEE `<` -/
def lt (a b : D) : Bool :=
  match a, b with
  | nan, _ => false | _, nan => false
  | pinf, _ => false | _, ninf => false
  | _, pinf => true | ninf, _ => true
  | _, _ => match a.toRat?, b.toRat? with
    | some x, some y => decide (x < y)
    | _, _ => false

/-- `f64::round` keeping the sign of zero -/
def round : D → D
  | fin q => let r := roundHA q; if r = 0 ∧ q < 0 then nz else fin r
  | d => d

def ceil : D → D
  | fin q => let r := ceilQ q; if r = 0 ∧ q < 0 then nz else fin r
  | d => d

def floor : D → D
  | fin q => fin q.floor
  | d => d

end D

/-! ## fuzzy comparison (number.rs:16-85)

  `…F` is the code as written, every floating-point operation followed by `rnd53`;
  `…X` is the same formula in exact arithmetic (the Sass rule the property speaks about). -/

/-- `epsilon()` = `10f64.powi(-11)` = the double nearest 10⁻¹¹ -/
def epsF : Rat := rnd53 (1 / 100000000000)
/-- `inverse_epsilon()` = 10¹¹ (exact) -/
def invEps : Rat := 100000000000

/-- number.rs:40 `fuzzy_equals`, floating point as executed -/
def fuzzyEqF (a b : Rat) : Bool :=
  a == b ||
    (decide (absQ (rnd53 (a - b)) ≤ epsF) &&
      roundHA (rnd53 (a * invEps)) == roundHA (rnd53 (b * invEps)))

/-- the same rule in exact arithmetic -/
def fuzzyEqX (a b : Rat) : Bool :=
  a == b ||
    (decide (absQ (a - b) ≤ 1 / invEps) && roundHA (a * invEps) == roundHA (b * invEps))

/-- the 10⁻¹¹ bucket a number falls in -/
def bucket (a : Rat) : Int := roundHA (a * invEps)

/-- number.rs:79 -/
def fuzzyLt (eq : Rat → Rat → Bool) (a b : Rat) : Bool := decide (a < b) && !eq a b
/-- number.rs:83 -/
def fuzzyLe (eq : Rat → Rat → Bool) (a b : Rat) : Bool := decide (a < b) || eq a b

/-- number.rs:48 `fuzzy_as_int` (finite argument) -/
def fuzzyAsInt (eq : Rat → Rat → Bool) (x : Rat) : Option Int :=
  let r := roundHA x
  if eq x r then some r else none

/-- Rust `%` on floats (C `fmod`), exact: the result has the sign of `a`, `|r| < |b|`. `b ≠ 0`. -/
def fmodQ (a b : Rat) : Rat := a - b * (truncQ (a / b) : Rat)

/-- number.rs:63 `fuzzy_round` in exact arithmetic (`x % 1.0` is `fmodQ x 1`). -/
def fuzzyRoundX (x : Rat) : Int :=
  if 0 < x then
    (if fuzzyLt fuzzyEqX (fmodQ x 1) (1/2) then x.floor else ceilQ x)
  else if fuzzyLe fuzzyEqX (fmodQ x 1) (1/2) then x.floor else ceilQ x

/-! ## modulo (number.rs:378-398) -/

/-- `f64::rem_euclid` in exact arithmetic -/
def remEuclidX (a b : Rat) : Rat :=
  let r := fmodQ a b
  if r < 0 then r + absQ b else r

/-- Sass `%` in exact arithmetic; `none` = NaN (zero divisor) -/
def moduloX (a b : Rat) : Option Rat :=
  if 0 < b then some (remEuclidX a b)
  else if b = 0 then none
  else
    let r := remEuclidX a b
    if r = 0 then some 0 else some (r + b)

/-- C `fmod` on doubles, keeping the sign of zero (exact: the result is always representable) -/
def fmodD (a : D) (x y : Rat) : D :=
  let r := fmodQ x y
  if r = 0 then D.zero a.isNeg else D.fin r

/-- `f64::rem_euclid` as executed (`r + rhs.abs()` is rounded) -/
def remEuclidD (a b : D) : Option D :=
  match a.toRat?, b.toRat? with
  | some x, some y =>
    if y = 0 then some D.nan else
    let r := fmodD a x y
    if D.lt r (D.fin 0) then D.add r (D.abs b) else some r
  | _, _ => none          -- non-finite operands of `%`: not modelled

/-- number.rs:382 `modulo` as executed -/
def moduloD (a b : D) : Option D :=
  if D.lt (D.fin 0) b then remEuclidD a b
  else if b.isZero then some D.nan
  else
    match remEuclidD a b with
    | none => none
    | some r => if r.isZero then some (D.fin 0) else D.add r b

/-! ## printing (serializer.rs:568 `write_float`, number.rs:265 `to_string`) -/

def digitChar (d : Nat) : Char := Char.ofNat (48 + d)

/-- decimal digits of a natural number, no leading zeros, `"0"` for 0 (fuel = structural recursion,
    so that the kernel can evaluate it) -/
def natDigitsAux : Nat → Nat → List Char
  | 0, _ => []
  | f + 1, n => if n < 10 then [digitChar n] else natDigitsAux f (n / 10) ++ [digitChar (n % 10)]

def natDigits (n : Nat) : List Char := natDigitsAux (n + 1) n

/-- exactly `k` digits (most significant first) of `n % 10^k` -/
def fracDigits : Nat → Nat → List Char
  | 0, _ => []
  | k + 1, n => fracDigits k (n / 10) ++ [digitChar (n % 10)]

def trimStart (c : Char) (l : List Char) : List Char := l.dropWhile (· == c)
def trimEnd (c : Char) (l : List Char) : List Char := (l.reverse.dropWhile (· == c)).reverse

/-- `|x|·10¹⁰` rounded half-even to a natural number — what `format!("{:.10}")` prints -/
def scaled10 (x : Rat) : Nat := divRoundEven (x.num.natAbs * 10000000000) x.den

/-- `format!("{:.10}", |x|)` -/
def fixed10 (s : Nat) : List Char :=
  natDigits (s / 10000000000) ++ '.' :: fracDigits 10 (s % 10000000000)

/-- The text pushed after the sign.  `sliceOne = true` is the variant found on the pinned tree
    (`format!(…)[1..]`, the first byte assumed to be a leading zero); `false` is the code as it
    stands (`trim_start_matches('0')`). -/
def printAbs (sliceOne compressed lt1 : Bool) (s : Nat) : List Char :=
  let t := fixed10 s
  let t := if compressed && lt1 then (if sliceOne then t.drop 1 else trimStart '0' t) else t
  trimEnd '.' (trimEnd '0' t)

/-- `write_float` for a finite value: `neg` is `float < 0.0`, `lt1` is `|float| < 1.0`. -/
def printFinite (sliceOne compressed : Bool) (x : Rat) : List Char :=
  let buf := (if x < 0 then ['-'] else []) ++ printAbs sliceOne compressed (decide (absQ x < 1)) (scaled10 x)
  if buf = [] ∨ buf = ['-'] ∨ buf = ['-', '0'] then ['0'] else buf

def printD (sliceOne compressed : Bool) : D → List Char
  | .fin q => printFinite sliceOne compressed q
  | .nz => ['0']
  | .pinf => "Infinity".toList
  | .ninf => "-Infinity".toList
  | .nan => "NaN".toList

/-- the number the printed text is supposed to denote: `x` rounded to 10 fractional digits -/
def round10 (x : Rat) : Rat :=
  let v : Rat := (scaled10 x : Rat) / 10000000000
  if x < 0 then -v else v

/-! ## number literals (parse/value.rs:980) and re-reading printed text -/

def isDigit (c : Char) : Bool := decide ('0' ≤ c ∧ c ≤ '9')

def valDigits (ds : List Char) : Nat := ds.foldl (fun a c => 10 * a + (c.toNat - 48)) 0

structure Lit where
  neg  : Bool
  int  : List Char
  frac : List Char
  exp  : Int
  deriving DecidableEq, Repr

/-- exact value of a literal -/
def Lit.value (l : Lit) : Rat :=
  let m : Rat := (valDigits (l.int ++ l.frac) : Rat) / ((10 ^ l.frac.length : Nat) : Rat)
  let m := if l.exp ≥ 0 then m * ((10 ^ l.exp.toNat : Nat) : Rat) else m / ((10 ^ (-l.exp).toNat : Nat) : Rat)
  if l.neg then -m else m

/-- `try_exponent` (value.rs:1049) on the rest of the text; the whole rest must be consumed. -/
def parseExp (s : List Char) : Option Int :=
  match s with
  | [] => some 0
  | c :: r =>
    if c == 'e' || c == 'E' then
      match r with
      | '+' :: ds => if ds ≠ [] ∧ ds.all isDigit then some (valDigits ds : Int) else none
      | '-' :: ds => if ds ≠ [] ∧ ds.all isDigit then some (-(valDigits ds : Int)) else none
      | ds => if ds ≠ [] ∧ ds.all isDigit then some (valDigits ds : Int) else none
    else none

/-- body of `parse_number` after the sign: `digits? (. digits+)? ([eE] [+-]? digits+)?`, at least one
    digit before the exponent, everything consumed. -/
def parseBody (neg : Bool) (s : List Char) : Option Lit :=
  let int := s.takeWhile isDigit
  let s := s.dropWhile isDigit
  -- `consume_natural_number` is skipped only when the next char is '.'
  if int = [] ∧ s.head? ≠ some '.' then none else
  match s with
  | '.' :: r =>
    let frac := r.takeWhile isDigit
    if frac = [] then none else
    (parseExp (r.dropWhile isDigit)).map fun e => { neg, int, frac, exp := e }
  | _ => (parseExp s).map fun e => { neg, int, frac := [], exp := e }

/-- `parse_number` (value.rs:980) restricted to unit-less literals that are consumed completely. -/
def parseLit (s : List Char) : Option Lit :=
  match s with
  | '-' :: r => parseBody true r
  | '+' :: r => parseBody false r
  | _ => parseBody false s

/-- the double a literal denotes (`str::parse::<f64>` is correctly rounded); `-0` literals give −0 -/
def litD (l : Lit) : Option D := D.ofExact l.value l.neg

/-! ## the property predicates P̂ evaluated on a printed text -/

/-- plain decimal notation: optional '-', digits, optional '.' followed by 1–10 digits the last of
    which is not '0'; at least one digit overall; not "-0"; (so: no exponent, no '+', no trailing
    zeros, at most 10 fractional digits, no negative zero). -/
def shapeOK (s : List Char) : Bool :=
  let body := match s with
    | '-' :: r => r
    | _ => s
  let int := body.takeWhile isDigit
  let rest := body.dropWhile isDigit
  let fracOK := match rest with
    | [] => int ≠ []
    | '.' :: f => f ≠ [] && f.all isDigit && f.length ≤ 10 && f.getLast? ≠ some '0'
    | _ => false
  let allZero := (int ++ rest).all (fun c => c == '0' || c == '.')
  fracOK && !(s.head? == some '-' && allZero)

/-- no superfluous leading zero in the integer part (`007`), expanded style keeps a single `0` -/
def leadOK (compressed : Bool) (s : List Char) : Bool :=
  let body := match s with
    | '-' :: r => r
    | _ => s
  match body with
  | '0' :: c :: _ => if compressed then false else c == '.'
  | _ => true

/-- correctly rounded: the text denotes a number within ½·10⁻¹⁰ of `x` -/
def roundedOK (x : Rat) (s : List Char) : Bool :=
  match parseLit s with
  | some l => decide (2 * absQ (l.value - x) * 10000000000 ≤ 1)
  | none => false

/-- re-reading the text gives a number `==` to `x` (as Sass would execute it) -/
def rereadF (x : Rat) (s : List Char) : Option Bool :=
  match parseLit s with
  | some l =>
    match litD l with
    | some d => match d.toRat? with
      | some y => some (fuzzyEqF y x)
      | none => some false
    | none => none
  | none => some false

/-- re-reading in exact arithmetic -/
def rereadX (x : Rat) (s : List Char) : Bool :=
  match parseLit s with
  | some l => fuzzyEqX l.value x
  | none => false

/-- The class of known finding D15, decided on the number alone: the correctly rounded 10-digit
    decimal of `x` is not fuzzy-equal to `x` (Sass prints 10 digits and compares 11). -/
def d15Class (x : Rat) : Bool := !fuzzyEqF (rnd53 (round10 x)) x
/-- the exact-arithmetic characterisation (theorem `C07_reread_fuzzyEq_iff`) -/
def d15ClassX (x : Rat) : Bool := !(bucket x == 10 * (if x < 0 then -(scaled10 x : Int) else (scaled10 x : Int)))

/-! ## expressions (what the correspondence run sends) -/

inductive Err where
  | unsupported | toInt | notInt | zeroIdx | badIdx | type
  deriving DecidableEq, Repr

inductive V where
  | num (d : D)
  | bool (b : Bool)
  | str (s : List Char)
  deriving DecidableEq, Repr

inductive Op1 where
  | neg | pos | round | ceil | floor | abs | cat | interp
  | nth (len : Nat)       -- `nth(<list 1 … len>, x)`
  deriving DecidableEq, Repr

inductive Op2 where
  | add | sub | mul | div | mod | eq | ne | lt | le | gt | ge
  deriving DecidableEq, Repr

inductive Expr where
  | lit (l : Lit)
  | un (o : Op1) (a : Expr)
  | bin (o : Op2) (a b : Expr)
  deriving Repr

def liftO (o : Option D) : Except Err V :=
  match o with
  | some d => .ok (.num d)
  | none => .error .unsupported

/-- `Number == Number` on doubles (number.rs:32 → `fuzzy_equals`) -/
def eqD (a b : D) : Bool :=
  match a.toRat?, b.toRat? with
  | some x, some y => fuzzyEqF x y
  | _, _ => D.eq a b

/-- Ordering of two numbers, value/mod.rs:341 `Value::cmp`.  `exactOrder = false` is the code as it
    stands (numbers that are `==` within tolerance give `Ordering::Equal`, otherwise the raw
    `partial_cmp` of the doubles); `exactOrder = true` is the variant found on the pinned tree
    (plain IEEE order although `==` is fuzzy; fixed since) and is used only in the as-found witness. -/
def cmpD (exactOrder : Bool) (a b : D) : Option Ordering :=
  if a.isNan || b.isNan then none
  else if !exactOrder && eqD a b then some .eq
  else if D.lt a b then some .lt
  else if D.lt b a then some .gt
  else some .eq

def cmpResult (o : Op2) (r : Option Ordering) : Bool :=
  match r with
  | none => false                       -- bin_op.rs:416
  | some ord =>
    match o with
    | .lt => ord == .lt
    | .le => ord != .gt
    | .gt => ord == .gt
    | .ge => ord != .lt
    | _ => false

def printV (compressed : Bool) : V → List Char
  | .num d => printD false compressed d
  | .bool b => (if b then "true" else "false").toList
  | .str s => '"' :: s ++ ['"']

/-- list.rs:11 `nth` on the list `1 2 … len`.  `exactOrder = false` is the code as it stands: zero
    test, integer check (`fuzzy_as_int`, which rejects non-finite numbers), range test on the integer,
    position by the sign bit.  `exactOrder = true` is the variant found on the pinned tree: the range
    test `index.abs() > len` was the exact IEEE comparison and ran before the integer check. -/
def nthV (exactOrder : Bool) (len : Nat) (d : D) : Except Err V :=
  match d with
  | .nan => .error .notInt      -- NaN: `is_zero` false, fuzzy_as_int none
  | _ =>
  if eqD d (.fin 0) then .error .zeroIdx else
  match d.toRat? with
  | none => if exactOrder then .error .badIdx else .error .notInt    -- ±∞
  | some x =>
    if exactOrder then
      if (len : Rat) < absQ x then .error .badIdx else
      match fuzzyAsInt fuzzyEqF x with
      | none => .error .notInt
      | some i =>
        -- `is_positive` = sign bit clear && !is_zero ; index_int - 1  |  len - |index_int|
        let pos : Int := if d.isNeg then (len : Int) - i.natAbs + 1 else i
        if 1 ≤ pos ∧ pos ≤ len then .ok (.num (.fin (pos : Rat))) else .error .unsupported
    else
      match fuzzyAsInt fuzzyEqF x with
      | none => .error .notInt
      | some i =>
        if (len : Int) < i.natAbs then .error .badIdx else
        let pos : Int := if d.isNeg then (len : Int) - i.natAbs + 1 else i
        if 1 ≤ pos ∧ pos ≤ len then .ok (.num (.fin (pos : Rat))) else .error .unsupported

def evalUn (exactOrder : Bool) (o : Op1) (v : V) : Except Err V :=
  match o, v with
  | .neg, .num d => .ok (.num d.neg)
  | .pos, .num d => .ok (.num d)
  | .round, .num d => if d.isFinite then .ok (.num d.round) else .error .toInt
  | .ceil, .num d => if d.isFinite then .ok (.num d.ceil) else .error .toInt
  | .floor, .num d => if d.isFinite then .ok (.num d.floor) else .error .toInt
  | .abs, .num d => .ok (.num d.abs)
  | .cat, .num d => .ok (.str (printD false false d))        -- number.rs:265 to_string(false)
  | .cat, .bool b => .ok (.str (printV false (.bool b)))
  | .interp, .num d => .ok (.str ('x' :: printD false false d))
  | .interp, .bool b => .ok (.str ('x' :: printV false (.bool b)))
  | .nth len, .num d => nthV exactOrder len d
  | _, _ => .error .type

def evalBin (exactOrder : Bool) (o : Op2) (a b : V) : Except Err V :=
  match a, b with
  | .num x, .num y =>
    match o with
    | .add => liftO (D.add x y)
    | .sub => liftO (D.sub x y)
    | .mul => liftO (D.mul x y)
    | .div => liftO (D.div x y)
    | .mod => liftO (moduloD x y)
    | .eq => .ok (.bool (eqD x y))
    | .ne => .ok (.bool (!eqD x y))
    | o => .ok (.bool (cmpResult o (cmpD exactOrder x y)))
  | .bool x, .bool y =>
    match o with
    | .eq => .ok (.bool (x == y))
    | .ne => .ok (.bool (x != y))
    | _ => .error .type
  | _, _ => .error .type

def eval (exactOrder : Bool) : Expr → Except Err V
  | .lit l => liftO (litD l)
  | .un o a =>
    match eval exactOrder a with
    | .ok v => evalUn exactOrder o v
    | .error e => .error e
  | .bin o a b =>
    match eval exactOrder a with
    | .error e => .error e
    | .ok va =>
      match eval exactOrder b with
      | .error e => .error e
      | .ok vb => evalBin exactOrder o va vb

/-! ## `parse_number` as a PREFIX scanner (parse/value.rs:949-1092)

  `parseLit` above is the grammar of a literal that is consumed completely; `scanNumber` is the
  function as written: it consumes the longest prefix the three helpers accept, leaves the rest
  (unit, `%`, a second number …) and fails with "Expected digit." where the Rust code does.
  Theorems `C07_scan_complete` / `C07_scan_sound` relate the two. -/

inductive Scan where
  | ok (l : Lit) (rest : List Char)
  | expectedDigit
  deriving DecidableEq, Repr

/-- `try_exponent` (value.rs:1049-1092).  `none` = `Err("Expected digit.")`; `some (0, s)` with the
    text untouched = `Ok(None)`: `e`/`E` is consumed only when followed by a digit, `+` or `-`
    (value.rs:1059-1065), and after a sign a digit is demanded (value.rs:1074-1079). -/
def scanExp (s : List Char) : Option (Int × List Char) :=
  match s with
  | [] => some (0, [])
  | c :: r =>
    if c == 'e' || c == 'E' then
      match r with
      | '+' :: ds =>
        if ds.takeWhile isDigit = [] then none
        else some ((valDigits (ds.takeWhile isDigit) : Int), ds.dropWhile isDigit)
      | '-' :: ds =>
        if ds.takeWhile isDigit = [] then none
        else some (-(valDigits (ds.takeWhile isDigit) : Int), ds.dropWhile isDigit)
      | ds =>
        if ds.takeWhile isDigit = [] then some (0, s)
        else some ((valDigits (ds.takeWhile isDigit) : Int), ds.dropWhile isDigit)
    else some (0, s)

/-- the body of `parse_number` after the sign (value.rs:987-994): `consume_natural_number` unless the
    next char is `.` (value.rs:989; it fails with "Expected digit." on a non-digit, value.rs:949-965),
    `try_decimal` with `allow_trailing_dot = (some digit was consumed)` (value.rs:993, 1016-1047: a `.`
    at the very end of the input is an error even then, value.rs:1030), then `try_exponent`. -/
def scanBody (neg : Bool) (s1 : List Char) : Scan :=
  let int := s1.takeWhile isDigit
  let s2 := s1.dropWhile isDigit
  if int = [] ∧ s1.head? ≠ some '.' then .expectedDigit else
  match s2 with
  | '.' :: r =>
    match r with
    | [] => .expectedDigit
    | c :: _ =>
      if isDigit c then
        match scanExp (r.dropWhile isDigit) with
        | none => .expectedDigit
        | some (e, rest) => .ok { neg, int, frac := r.takeWhile isDigit, exp := e } rest
      else if int ≠ [] then .ok { neg, int, frac := [], exp := 0 } s2    -- the dot is left; `try_exponent` sees `.`
      else .expectedDigit
  | _ =>
    match scanExp s2 with
    | none => .expectedDigit
    | some (e, rest) => .ok { neg, int, frac := [], exp := e } rest

/-- `parse_number` up to the unit (value.rs:980-996): `+` is tried first, `-` only if there was no `+`. -/
def scanNumber (s : List Char) : Scan :=
  match s with
  | '+' :: r => scanBody false r
  | '-' :: r => scanBody true r
  | _ => scanBody false s

/-- guard of the driver: the exact value of a literal is computed as a rational, so the exponent is
    bounded (beyond it the driver answers `unsupported`) -/
def litGuard (l : Lit) : Bool := decide (l.exp.natAbs ≤ 1200) && decide (l.int.length + l.frac.length ≤ 1200)

def isAlpha (c : Char) : Bool := decide ('a' ≤ c ∧ c ≤ 'z') || decide ('A' ≤ c ∧ c ≤ 'Z')

/-- what follows the number in the driver's `scan` request: nothing, `%`, or a unit made of letters
    (value.rs:998-1007); a rest that starts with `.` is handed to `parse_number` again by the
    expression parser (value.rs parse_single_expression: `.` starts a number) -/
inductive Rest where
  | unit (u : List Char) | again | other
  deriving DecidableEq, Repr

def classifyRest (rest : List Char) : Rest :=
  match rest with
  | [] => .unit []
  | ['%'] => .unit ['%']
  | '.' :: _ => .again
  | _ => if rest.all isAlpha then .unit rest else .other

/-! ## sass:math functions that need no libm (builtin/functions/math.rs, builtin/modules/math.rs) -/

/-- `math.min` (functions/math.rs:122-166): the running minimum is replaced only when the next
    number is `<` it — the tolerance-aware `<` of `evaluate::cmp`. -/
def minD : D → List D → D
  | m, [] => m
  | m, x :: xs => minD (if cmpResult .lt (cmpD false x m) then x else m) xs

/-- `math.max` (functions/math.rs:168-213) -/
def maxD : D → List D → D
  | m, [] => m
  | m, x :: xs => maxD (if cmpResult .gt (cmpD false x m) then x else m) xs

/-- `math.clamp` on unit-less numbers (modules/math.rs:28-120): `min > number` → min, `min == number`
    → number (without looking at max), otherwise `max < number` → max, else number. -/
def clampD (mn x mx : D) : D :=
  match cmpD false mn x with
  | some .gt => mn
  | some .eq => x
  | _ =>
    match cmpD false mx x with
    | some .lt => mx
    | _ => x

/-- `percentage` (functions/math.rs:3-15): `num * 100.0`, unit `%` -/
def percentageD (d : D) : Option D := D.mul d (.fin 100)

/-! ## driver -/
open Grass.Proto

def op1OfStr (s : String) : Option Op1 :=
  if s == "neg" then some .neg else if s == "pos" then some .pos
  else if s == "round" then some .round else if s == "ceil" then some .ceil
  else if s == "floor" then some .floor else if s == "abs" then some .abs
  else if s == "cat" then some .cat else if s == "interp" then some .interp
  else if s.startsWith "nth" then (s.drop 3).toString.toNat?.map Op1.nth
  else none

def op2OfStr (s : String) : Option Op2 :=
  if s == "add" then some .add else if s == "sub" then some .sub
  else if s == "mul" then some .mul else if s == "div" then some .div
  else if s == "mod" then some .mod else if s == "eq" then some .eq
  else if s == "ne" then some .ne else if s == "lt" then some .lt
  else if s == "le" then some .le else if s == "gt" then some .gt
  else if s == "ge" then some .ge else none

/-- reverse-polish token list → expression; literals are `L<text>` -/
def rpn : List String → List Expr → Option Expr
  | [], [e] => some e
  | [], _ => none
  | t :: ts, st =>
    if t.startsWith "L" then
      match parseLit (t.drop 1).toString.toList with
      | some l => rpn ts (.lit l :: st)
      | none => none
    else match op1OfStr t with
      | some o =>
        match st with
        | a :: st => rpn ts (.un o a :: st)
        | _ => none
      | none =>
        match op2OfStr t with
        | some o =>
          match st with
          | b :: a :: st => rpn ts (.bin o a b :: st)
          | _ => none
        | none => none

def errStr : Err → String
  | .unsupported => "unsupported" | .toInt => "err toInt" | .notInt => "err notInt"
  | .zeroIdx => "err zeroIdx" | .badIdx => "err badIdx" | .type => "unsupported"

def resStr (compressed : Bool) : Except Err V → String
  | .ok v => "ok " ++ hexEncode (String.ofList (printV compressed v))
  | .error e => errStr e

/-- exact rational as `num/den` -/
def ratStr (q : Rat) : String := s!"{q.num}/{q.den}"

/-- verdicts of P̂ on a text `s` claimed to print the finite number `x` -/
def verdicts (compressed : Bool) (x : Rat) (s : List Char) : String :=
  let rr := match rereadF x s with
    | some b => boolStr b
    | none => "u"
  s!"shape={boolStr (shapeOK s && leadOK compressed s)} round={boolStr (roundedOK x s)} reread={rr} rereadX={boolStr (rereadX x s)} d15={boolStr (d15Class x)} d15X={boolStr (d15ClassX x)} exact={boolStr (parseLit s |>.map (fun l => decide (l.value = round10 x)) |>.getD false)}"

def handle : List String → String
  -- eval <c|e> <rpn…> : the model of the code as it stands | the variant found on the pinned tree (exact order)
  | "eval" :: st :: toks =>
    match parseBool? (if st == "c" then "1" else if st == "e" then "0" else st), rpn toks [] with
    | some c, some e => resStr c (eval false e) ++ " | " ++ resStr c (eval true e)
    | _, _ => "bad-op"
  -- value <rpn…> : exact value of the model's result (finite numbers only)
  | "value" :: toks =>
    match rpn toks [] with
    | some e =>
      match eval false e with
      | .ok (.num (.fin q)) => "ok " ++ ratStr q
      | .ok (.num .nz) => "ok -0"
      | .ok (.num .pinf) => "ok inf" | .ok (.num .ninf) => "ok -inf" | .ok (.num .nan) => "ok nan"
      | .ok _ => "ok nonnum"
      | .error e => errStr e
    | none => "bad-op"
  -- check <c|e> <hex text> <rpn…> : P̂ on the implementation's text for the model's value of the expression
  | "check" :: st :: hx :: toks =>
    match parseBool? (if st == "c" then "1" else if st == "e" then "0" else st), hexDecode hx, rpn toks [] with
    | some c, some txt, some e =>
      match eval false e with
      | .ok (.num (.fin q)) => "ok fin " ++ verdicts c q txt.toList
      | .ok (.num .nz) => "ok fin " ++ verdicts c 0 txt.toList
      | .ok (.num d) => "ok special " ++ boolStr (txt.toList == printD false c d)
      | .ok _ => "ok nonnum"
      | .error e => errStr e
    | _, _, _ => "bad-op"
  -- print <c|e> <asfound-slice 0|1> <num> <den> : print an exact rational (used by other cores / replay)
  | ["print", st, sl, n, d] =>
    match parseBool? (if st == "c" then "1" else if st == "e" then "0" else st), parseBool? sl, n.toInt?, d.toNat? with
    | some c, some sl, some n, some d =>
      if d = 0 then "bad-op" else "ok " ++ hexEncode (String.ofList (printFinite sl c ((n : Rat) / (d : Rat))))
    | _, _, _, _ => "bad-op"
  -- scan <c|e> <hex text> : `parse_number` as a prefix scanner on the text, then print number ++ unit
  | ["scan", st, hx] =>
    match parseBool? (if st == "c" then "1" else if st == "e" then "0" else st), hexDecode hx with
    | some c, some txt =>
      -- the text is scanned as grass sees it in `v: <text>;` — never at the very end of the input
      match scanNumber (txt.toList ++ [';']) with
      | .expectedDigit => "err digit"
      | .ok l rest0 =>
        let rest := if rest0.getLast? = some ';' then rest0.dropLast else rest0
        match classifyRest rest with
        | .other => "unsupported"
        | .again =>
          (match scanNumber rest0 with
           | .expectedDigit => "err digit"
           | _ => "unsupported")
        | .unit u =>
          if !litGuard l then "unsupported" else
          match litD l with
          | some d => "ok " ++ hexEncode (String.ofList (printD false c d ++ u)) ++ " rest=" ++ toString u.length ++
              " same=" ++ boolStr (decide (parseLit (txt.toList.take (txt.toList.length - rest.length)) = some l))
          | none => "unsupported"
    | _, _ => "bad-op"
  -- mfn <c|e> <min|max|clamp|percentage> <literal>… : sass:math functions that need no libm
  | "mfn" :: st :: fn :: args =>
    match parseBool? (if st == "c" then "1" else if st == "e" then "0" else st) with
    | none => "bad-op"
    | some c =>
      let lits := args.map (fun a => parseLit a.toList)
      if lits.any (·.isNone) then "bad-op" else
      let ds := lits.filterMap (fun o => o.bind (fun l => if litGuard l then litD l else none))
      if ds.length ≠ args.length then "unsupported" else
      match fn, ds with
      | "min", m :: xs => "ok " ++ hexEncode (String.ofList (printD false c (minD m xs)))
      | "max", m :: xs => "ok " ++ hexEncode (String.ofList (printD false c (maxD m xs)))
      | "clamp", [a, b, d] => "ok " ++ hexEncode (String.ofList (printD false c (clampD a b d)))
      | "percentage", [a] =>
        (match percentageD a with
         | some d => "ok " ++ hexEncode (String.ofList (printD false c d ++ ['%']))
         | none => "unsupported")
      | _, _ => "bad-op"
  | ["fuzzyround", n, d] =>
    match n.toInt?, d.toNat? with
    | some n, some d => if d = 0 then "bad-op" else s!"ok {fuzzyRoundX ((n : Rat) / (d : Rat))}"
    | _, _ => "bad-op"
  | _ => "bad-op"

end Grass.Num
