import Grass.Proto
/- Core `Value` — stub; replaced by the model (see DESIGN.md §8). -/
namespace Grass.Value

def handle : List String → String
  | _ => "bad-op"

end Grass.Value
