import Grass.Proto
/-
  C09 core — SassScript values, `==`, `not_equals`, maps as insertion-ordered association lists.

  Mirrors (file:line of /repo at the time of writing)
    crates/compiler/src/value/mod.rs:48      `impl PartialEq for Value`
    (`Value::not_equals`, value/mod.rs:388 until /repo 61f3ffb, is gone; modelled for the old variants)
    crates/compiler/src/value/map.rs         `SassMap` (eq :13, get :42, remove :62, merge :66, contains :84, insert :96)
    crates/compiler/src/value/sass_number.rs:245  `impl PartialEq for SassNumber`
    crates/compiler/src/value/number.rs:40   `fuzzy_equals`, :158 `Number::convert`
    crates/compiler/src/unit/mod.rs:165      `comparable`, :178 `canonical`, :190 `kind`
    crates/compiler/src/unit/conversion.rs   `UNIT_CONVERSION_TABLE`
    crates/compiler/src/color/mod.rs:45      `impl PartialEq for Color`, :96 `impl PartialEq for Rgb`
    crates/compiler/src/value/arglist.rs:16  `impl PartialEq for ArgList`
    crates/compiler/src/evaluate/visitor.rs:2779  `visit_map` (duplicate keys in a map literal)
    crates/compiler/src/builtin/functions/list.rs:231  `index`

  Numbers: a finite double is modelled by its exact rational value; `±Infinity` and `NaN` are
  separate constructors.  Unit conversion multiplies by the exact CSS ratio (the f64 rounding of
  the table entries and of the product is outside the model; the correspondence universe stays
  away from bucket boundaries by more than that noise, except for the deliberately chosen
  boundary witnesses, whose distance from the boundary is ≥ 1e-13 relative).
  `π` is the double `std::f64::consts::PI`.
  `Value`/`veq` leave out complex units (`px*px`, `px/s`), calculations and function references;
  the extended universe `XV`/`xeq` further down (round 3) has them (a new type, so that the files
  of other properties that match on `Value` are untouched).
-/
namespace Grass.Value

/-! ### units -/

inductive Sep where
  | comma | space | slash | undecided
  deriving DecidableEq, Repr, Inhabited

/-- `unit/mod.rs:9` `enum Unit` without `Complex`. -/
inductive U where
  | px | mm | inch | cm | q | pt | pc
  | em | rem | lh | ex | ch | cap | ic | rlh
  | vw | vh | vmin | vmax | vi | vb
  | deg | grad | rad | turn
  | s | ms
  | hz | khz
  | dpi | dpcm | dppx
  | fr | percent
  | unknown (name : List Char)
  | none
  deriving DecidableEq, Repr, Inhabited

inductive Kind where
  | absolute | fontRel | viewRel | angle | time | freq | res | other | none
  deriving DecidableEq, Repr, Inhabited

/-- `Unit::kind` (unit/mod.rs:190). -/
def U.kind : U → Kind
  | .px | .mm | .inch | .cm | .q | .pt | .pc => .absolute
  | .em | .rem | .lh | .ex | .ch | .cap | .ic | .rlh => .fontRel
  | .vw | .vh | .vmin | .vmax | .vi | .vb => .viewRel
  | .deg | .grad | .rad | .turn => .angle
  | .s | .ms => .time
  | .hz | .khz => .freq
  | .dpi | .dpcm | .dppx => .res
  | .none => .none
  | .fr | .percent | .unknown _ => .other

/-- `Unit::comparable` (unit/mod.rs:165). -/
def comparable (u1 u2 : U) : Bool :=
  if u2 = .none then true else
  match u1.kind with
  | .fontRel | .viewRel | .other => decide (u1 = u2)
  | .none => true
  | k => decide (u2.kind = k)

/-- `Unit::canonical` (unit/mod.rs:178). -/
def U.canonical (u : U) : Option U :=
  match u.kind with
  | .absolute => some .px
  | .angle => some .deg
  | .time => some .s
  | .freq => some .hz
  | .res => some .dppx
  | _ => Option.none

/-- The double `std::f64::consts::PI`, exactly. -/
def piF64 : Rat := (884279719003555 : Rat) / 281474976710656

/-- Factor that turns a number of unit `u` into the canonical unit of its kind
    (`UNIT_CONVERSION_TABLE[canonical][u]`, conversion.rs); `1` for canonical and
    non-convertible units. -/
def U.toCanon : U → Rat
  | .inch => 96
  | .cm => (9600 : Rat) / 254
  | .pc => 16
  | .mm => (960 : Rat) / 254
  | .q => (960 : Rat) / 1016
  | .pt => (4 : Rat) / 3
  | .grad => (9 : Rat) / 10
  | .rad => 180 / piF64
  | .turn => 360
  | .ms => (1 : Rat) / 1000
  | .khz => 1000
  | .dpi => (1 : Rat) / 96
  | .dpcm => (254 : Rat) / 9600
  | _ => 1

/-- `UNIT_CONVERSION_TABLE[to][from]` for two units of one convertible kind. -/
def factor (frm to : U) : Rat := frm.toCanon / to.toCanon

/-! ### numbers -/

inductive Num where
  | fin (q : Rat) | nan | pinf | ninf
  deriving DecidableEq, Repr, Inhabited

/-- multiplication by a positive conversion factor -/
def Num.scale (n : Num) (f : Rat) : Num :=
  match n with
  | .fin q => .fin (q * f)
  | n => n

def Num.isNaN : Num → Bool
  | .nan => true
  | _ => false

/-- `f64::round`: half away from zero. -/
def roundHalfAway (x : Rat) : Int :=
  if 0 ≤ x then (x + 1 / 2).floor else -((-x + 1 / 2).floor)

def epsilon : Rat := (1 : Rat) / 100000000000
def inverseEpsilon : Rat := 100000000000

/-- `fuzzy_equals` (number.rs:40) on finite values:
    `a == b || ((a - b).abs() <= epsilon() && (a * inverse_epsilon()).round() == (b * inverse_epsilon()).round())`. -/
def fuzzyEq (a b : Rat) : Bool :=
  decide (a = b) ||
    (decide ((a - b).abs ≤ epsilon) &&
      decide (roundHalfAway (a * inverseEpsilon) = roundHalfAway (b * inverseEpsilon)))

/-- `fuzzy_equals` on doubles including the non-finite ones: `inf == inf`, `NaN` equals nothing,
    `|inf - x| <= eps` is false. -/
def fuzzyN : Num → Num → Bool
  | .fin a, .fin b => fuzzyEq a b
  | .pinf, .pinf => true
  | .ninf, .ninf => true
  | _, _ => false

/-- `Number::convert` (number.rs:158). -/
def conv (n : Num) (frm to : U) : Num :=
  if frm = .none ∨ to = .none ∨ frm = to then n else n.scale (factor frm to)

/-- Switches, one per deviation found.  `now` is /repo as it stands (all of D6, D20, K1, K2, K4
    are repaired there, so it coincides with `spec`, what the property demands); `beforeFix` is the
    tree after the D6/D20 repairs and before the K1/K2/K4 ones; `pinned` is the tree as first found. -/
structure Sw where
  /-- D6 (fixed): the `List == ArgList` arm exists (`value/mod.rs:76`). -/
  argSym : Bool
  /-- D20 (fixed): numbers of *different* convertible units are compared in the canonical unit
      of their kind (`sass_number.rs:255`); `false` = right operand converted into the left unit. -/
  canon : Bool
  /-- K1 (fixed, /repo 312c562): numbers of the *same* convertible unit are also compared in the
      canonical unit (`sass_number.rs:255`); `false` = at the unit's own scale. -/
  canonSame : Bool
  /-- K2 (fixed, /repo d046d73 + e36bfd5): an argument list is compared as the unbracketed list of
      its positional elements with its own separator (comma for arguments passed one by one, the
      separator of the list spread into it otherwise): `value/mod.rs:105` requires `Brackets::None`
      and equal separators, `arglist.rs:16` compares separator and `elems`, keywords never count;
      `false` = brackets of the list ignored, the list had to be a comma list whatever the argument
      list's hidden separator, keywords compared between two argument lists. -/
  argAsList : Bool
  /-- K4 (fixed, /repo 61f3ffb): `SassMap::remove` drops the keys that are `==` to the probe
      (`map.rs:63` `retain(|k| k.node != *key)`); `false` = it kept the keys for which the since
      deleted second inequality routine `Value::not_equals` held. -/
  removeEq : Bool
  deriving DecidableEq, Repr, Inhabited

def Sw.now : Sw := ⟨true, true, true, true, true⟩
def Sw.spec : Sw := ⟨true, true, true, true, true⟩
def Sw.beforeFix : Sw := ⟨true, true, false, false, false⟩
def Sw.pinned : Sw := ⟨false, false, false, false, false⟩

/-- `impl PartialEq for SassNumber` (sass_number.rs:245). -/
def numEq (sw : Sw) (n1 : Num) (u1 : U) (n2 : Num) (u2 : U) : Bool :=
  if !comparable u1 u2 then false
  else if (u2 = .none ∨ u1 = .none) ∧ u1 ≠ u2 then false
  else
    match (if sw.canon then u1.canonical else none) with
    | some c =>
      if u1 ≠ u2 ∨ sw.canonSame = true then fuzzyN (conv n1 u1 c) (conv n2 u2 c)
      else fuzzyN n1 (conv n2 u2 u1)
    | none => fuzzyN n1 (conv n2 u2 u1)

/-- The number arm of the deleted `Value::not_equals` (mod.rs:394–415 before 61f3ffb); it
    converted right into left. -/
def numNotEquals (sw : Sw) (n1 : Num) (u1 : U) (n2 : Num) (u2 : U) : Bool :=
  if n1.isNaN || n2.isNaN then !(numEq sw n1 u1 n2 u2)
  else if !comparable u1 u2 then true
  else if u1 = u2 then !(fuzzyN n1 n2)
  else if u1 = .none ∨ u2 = .none then true
  else !(fuzzyN n1 (conv n2 u2 u1))

/-! ### colours (`color/mod.rs:45`, `:96`) -/

def chanEq (lim x y : Rat) : Bool := fuzzyEq x y || (decide (lim ≤ x) && decide (lim ≤ y))

def colorEq (r1 g1 b1 a1 r2 g2 b2 a2 : Rat) : Bool :=
  if !(chanEq 1 a1 a2) then false
  else chanEq 255 r1 r2 && chanEq 255 g1 g2 && chanEq 255 b1 b2

/-! ### values -/

mutual
  inductive Value where
    | null
    | bool (b : Bool)
    | num (n : Num) (u : U)
    | str (s : List Char) (quoted : Bool)
    | color (r g b a : Rat)
    | list (es : VList) (sep : Sep) (bracketed : Bool)
    | map (ps : VPairs)
    /-- positional elements, keywords (keys are unquoted strings, in source order since /repo adef70c),
        separator (comma, or that of the list spread into the call; /repo e36bfd5) -/
    | arglist (es : VList) (kw : VPairs) (sep : Sep)
  inductive VList where
    | nil
    | cons (v : Value) (t : VList)
  inductive VPairs where
    | nil
    | cons (k v : Value) (t : VPairs)
end

instance : Inhabited Value := ⟨.null⟩
instance : Inhabited VList := ⟨.nil⟩
instance : Inhabited VPairs := ⟨.nil⟩

def VList.toList : VList → List Value
  | .nil => []
  | .cons v t => v :: t.toList

def VList.ofList : List Value → VList
  | [] => .nil
  | v :: t => .cons v (VList.ofList t)

def VPairs.toList : VPairs → List (Value × Value)
  | .nil => []
  | .cons k v t => (k, v) :: t.toList

def VPairs.ofList : List (Value × Value) → VPairs
  | [] => .nil
  | (k, v) :: t => .cons k v (VPairs.ofList t)

def VList.length : VList → Nat
  | .nil => 0
  | .cons _ t => t.length + 1

def VPairs.length : VPairs → Nat
  | .nil => 0
  | .cons _ _ t => t.length + 1

/-- `iter().any(|(k2, v2)| f k2 v2)` -/
def VPairs.any (f : Value → Value → Bool) : VPairs → Bool
  | .nil => false
  | .cons k v t => f k v || t.any f

mutual
  /-- `Value::eq` (value/mod.rs:49).  The `argAsList = true` branches are the code as it stands
      (an argument list equals exactly the unbracketed comma list of its positional elements and
      any argument list with equal positional elements).  In the `List == ArgList` arm the code
      evaluates `other == self`, i.e. compares each pair as (arglist element, list element); the
      model compares (list element, arglist element) — indistinguishable whenever element equality
      is symmetric (theorem `C09_veq_symm`). -/
  def veq (sw : Sw) : Value → Value → Bool
    | .null, .null => true
    | .bool a, .bool b => a == b
    | .num n1 u1, .num n2 u2 => numEq sw n1 u1 n2 u2
    | .str s1 _, .str s2 _ => decide (s1 = s2)
    | .color r1 g1 b1 a1, .color r2 g2 b2 a2 => colorEq r1 g1 b1 a1 r2 g2 b2 a2
    | .list l1 s1 b1, .list l2 s2 b2 => decide (s1 = s2) && decide (b1 = b2) && veqL sw l1 l2
    | .list l1 s1 b1, .arglist l2 _ s2 =>
      if sw.argAsList then decide (s1 = s2) && decide (b1 = false) && veqL sw l1 l2
      else sw.argSym && decide (s1 = .comma) && veqL sw l1 l2
    | .arglist l1 _ s1, .list l2 s2 b2 =>
      if sw.argAsList then decide (s1 = s2) && decide (false = b2) && veqL sw l1 l2
      else decide (s2 = .comma) && veqL sw l1 l2
    | .arglist l1 k1 s1, .arglist l2 k2 s2 =>
      if sw.argAsList then decide (s1 = s2) && veqL sw l1 l2
      else veqL sw l1 l2 && veqKw sw k1 k2 && decide (s1 = s2)
    | .map p1, .map p2 => decide (p1.length = p2.length) && subP sw p1 p2
    | _, _ => false
  /-- `Vec<Value> == Vec<Value>`: same length, pairwise equal. -/
  def veqL (sw : Sw) : VList → VList → Bool
    | .nil, .nil => true
    | .cons a t, .cons b u => veq sw a b && veqL sw t u
    | _, _ => false
  /-- `BTreeMap<Identifier, Value> == …`: same keys in order, pairwise equal values. -/
  def veqKw (sw : Sw) : VPairs → VPairs → Bool
    | .nil, .nil => true
    | .cons k1 v1 t, .cons k2 v2 u => veq sw k1 k2 && veq sw v1 v2 && veqKw sw t u
    | _, _ => false
  /-- `SassMap::eq` loop (map.rs:18): every entry of the left map has an equal entry in the right. -/
  def subP (sw : Sw) : VPairs → VPairs → Bool
    | .nil, _ => true
    | .cons k v t, q => q.any (fun k2 v2 => veq sw k k2 && veq sw v v2) && subP sw t q
end

mutual
  /-- `Value::not_equals` as it was before /repo 61f3ffb deleted it (value/mod.rs:388 of that
      tree); only the `removeEq = false` variants use it. -/
  def notEquals (sw : Sw) : Value → Value → Bool
    | .str s1 _, .str s2 _ => decide (s1 ≠ s2)
    | .str _ _, _ => true
    | .num n1 u1, .num n2 u2 => numNotEquals sw n1 u1 n2 u2
    | .list l1 s1 b1, .list l2 s2 b2 =>
      if s1 ≠ s2 ∨ b1 ≠ b2 ∨ l1.length ≠ l2.length then true else notEqualsL sw l1 l2
    | .list _ _ _, _ => true
    | a, b => !(veq sw a b)
  /-- `for (a, b) in zip { if a.not_equals(b) { return true } } false` -/
  def notEqualsL (sw : Sw) : VList → VList → Bool
    | .cons a t, .cons b u => notEquals sw a b || notEqualsL sw t u
    | _, _ => false
end

/-- the `!=` operator (evaluate/visitor.rs:2838: `Value::bool(left != right)`, Rust's default
    `PartialEq::ne`, i.e. the negation of `eq` — *not* `not_equals`). -/
def neOp (sw : Sw) (a b : Value) : Bool := !(veq sw a b)

/-! ### `SassMap` (value/map.rs): an insertion-ordered association list searched with `==` -/

/-- `SassMap::get` / `get_ref` (map.rs:42, :52): first entry whose key `== key`. -/
def get (sw : Sw) : VPairs → Value → Option Value
  | .nil, _ => none
  | .cons k v t, key => if veq sw k key then some v else get sw t key

/-- `SassMap::contains` (map.rs:84). -/
def contains (sw : Sw) (m : VPairs) (key : Value) : Bool := m.any (fun k _ => veq sw k key)

/-- `SassMap::insert` (map.rs:96): overwrite the value of the first entry whose key `== key`
    (the stored key is kept), else push. -/
def insert (sw : Sw) : VPairs → Value → Value → VPairs
  | .nil, key, val => .cons key val .nil
  | .cons k v t, key, val => if veq sw k key then .cons k val t else .cons k v (insert sw t key val)

/-- `SassMap::merge` (map.rs:66). -/
def merge (sw : Sw) (a : VPairs) : VPairs → VPairs
  | .nil => a
  | .cons k v t => merge sw (insert sw a k v) t

/-- the predicate `SassMap::remove` retains by (map.rs:63) -/
def keeps (sw : Sw) (k key : Value) : Bool :=
  if sw.removeEq then !(veq sw k key) else notEquals sw k key

/-- `SassMap::remove` (map.rs:62). -/
def remove (sw : Sw) : VPairs → Value → VPairs
  | .nil, _ => .nil
  | .cons k v t, key => if keeps sw k key then .cons k v (remove sw t key) else remove sw t key

def keys : VPairs → VList
  | .nil => .nil
  | .cons k _ t => .cons k (keys t)

def values : VPairs → VList
  | .nil => .nil
  | .cons _ v t => .cons v (values t)

/-- `visit_map` (visitor.rs:2779): `none` = "Duplicate key." -/
def literalFrom (sw : Sw) (acc : VPairs) : List (Value × Value) → Option VPairs
  | [] => some acc
  | (k, v) :: rest =>
    match get sw acc k with
    | some _ => none
    | none => literalFrom sw (insert sw acc k v) rest

def literal (sw : Sw) (es : List (Value × Value)) : Option VPairs := literalFrom sw .nil es

/-- `SassMap::as_list` (map.rs:88). -/
def pairsAsList : VPairs → VList
  | .nil => .nil
  | .cons k v t => .cons (.list (.cons k (.cons v .nil)) .space false) (pairsAsList t)

/-- `Value::as_list` (value/mod.rs:435). -/
def asList : Value → VList
  | .list es _ _ => es
  | .map ps => pairsAsList ps
  | .arglist es _ _ => es
  | v => .cons v .nil

/-- position (0-based) of the first `true` -/
def firstTrue : List Bool → Option Nat
  | [] => none
  | b :: t => if b then some 0 else (firstTrue t).map (· + 1)

/-- `index` (builtin/functions/list.rs:231): 0-based position of the first element `== v`. -/
def indexOf (sw : Sw) : VList → Value → Option Nat
  | .nil, _ => none
  | .cons e t, v => if veq sw e v then some 0 else (indexOf sw t v).map (· + 1)

/-! ### guards -/

mutual
  /-- no `NaN` anywhere inside -/
  def noNaN : Value → Bool
    | .num n _ => !n.isNaN
    | .list es _ _ => noNaNL es
    | .map ps => noNaNP ps
    | .arglist es kw _ => noNaNL es && noNaNP kw
    | _ => true
  def noNaNL : VList → Bool
    | .nil => true
    | .cons v t => noNaN v && noNaNL t
  def noNaNP : VPairs → Bool
    | .nil => true
    | .cons k v t => noNaN k && noNaN v && noNaNP t
end

mutual
  /-- no argument list anywhere inside -/
  def noArgList : Value → Bool
    | .arglist _ _ _ => false
    | .list es _ _ => noArgListL es
    | .map ps => noArgListP ps
    | _ => true
  def noArgListL : VList → Bool
    | .nil => true
    | .cons v t => noArgList v && noArgListL t
  def noArgListP : VPairs → Bool
    | .nil => true
    | .cons k v t => noArgList k && noArgList v && noArgListP t
end

/-- the unit is not convertible, or is the canonical unit of its kind -/
def U.isCanon (u : U) : Bool :=
  match u.canonical with
  | Option.none => true
  | some c => decide (u = c)

mutual
  /-- every number inside carries a non-convertible or canonical unit -/
  def unitsCanon : Value → Bool
    | .num _ u => u.isCanon
    | .list es _ _ => unitsCanonL es
    | .map ps => unitsCanonP ps
    | .arglist es kw _ => unitsCanonL es && unitsCanonP kw
    | _ => true
  def unitsCanonL : VList → Bool
    | .nil => true
    | .cons v t => unitsCanon v && unitsCanonL t
  def unitsCanonP : VPairs → Bool
    | .nil => true
    | .cons k v t => unitsCanon k && unitsCanon v && unitsCanonP t
end

mutual
  /-- colour channels within `[..255]`, alpha within `[..1]` (what the constructors clamp to) -/
  def inRange : Value → Bool
    | .color r g b a => decide (r ≤ 255) && decide (g ≤ 255) && decide (b ≤ 255) && decide (a ≤ 1)
    | .list es _ _ => inRangeL es
    | .map ps => inRangeP ps
    | .arglist es kw _ => inRangeL es && inRangeP kw
    | _ => true
  def inRangeL : VList → Bool
    | .nil => true
    | .cons v t => inRange v && inRangeL t
  def inRangeP : VPairs → Bool
    | .nil => true
    | .cons k v t => inRange k && inRange v && inRangeP t
end

/-- keys pairwise not `==` -/
def distinctKeys (sw : Sw) : VPairs → Bool
  | .nil => true
  | .cons k _ t => !(t.any (fun k2 _ => veq sw k k2)) && distinctKeys sw t

mutual
  /-- every map inside has pairwise non-`==` keys -/
  def mapWf (sw : Sw) : Value → Bool
    | .list es _ _ => mapWfL sw es
    | .map ps => distinctKeys sw ps && mapWfP sw ps
    | .arglist es kw _ => mapWfL sw es && mapWfP sw kw
    | _ => true
  def mapWfL (sw : Sw) : VList → Bool
    | .nil => true
    | .cons v t => mapWf sw v && mapWfL sw t
  def mapWfP (sw : Sw) : VPairs → Bool
    | .nil => true
    | .cons k v t => mapWf sw k && mapWf sw v && mapWfP sw t
end

/-- The values for which the variant `sw` is claimed to behave as the property demands:
    everything for `Sw.now` = `Sw.spec`; for a variant without the K1/K2 repairs, values without
    argument lists (K2) whose convertible numbers carry the canonical unit (K1). -/
def inScope (sw : Sw) (v : Value) : Bool :=
  (sw.argAsList || noArgList v) && (sw.canonSame || unitsCanon v)

/-! ### the per-input property predicates evaluated on an implementation's own answers -/

def matGet (m : List (List Bool)) (i j : Nat) : Bool := ((m.getD i []).getD j false)

/-- first `i` with `¬ m i i` among the indices listed in `dom` -/
def lawRefl (m : List (List Bool)) (dom : List Nat) : Option Nat :=
  dom.find? (fun i => !matGet m i i)

def pairsUpTo (n : Nat) : List (Nat × Nat) :=
  (List.range n).flatMap fun i => (List.range n).map fun j => (i, j)

def triplesUpTo (n : Nat) : List (Nat × Nat × Nat) :=
  (List.range n).flatMap fun i => (List.range n).flatMap fun j => (List.range n).map fun k => (i, j, k)

def lawSymm (m : List (List Bool)) (n : Nat) : Option (Nat × Nat) :=
  (pairsUpTo n).find? (fun p => matGet m p.1 p.2 != matGet m p.2 p.1)

def lawTrans (m : List (List Bool)) (n : Nat) : Option (Nat × Nat × Nat) :=
  (triplesUpTo n).find? (fun t => matGet m t.1 t.2.1 && matGet m t.2.1 t.2.2 && !matGet m t.1 t.2.2)

def symmPred (m : List (List Bool)) (p : Nat × Nat) : Bool := matGet m p.1 p.2 != matGet m p.2 p.1

def transPred (m : List (List Bool)) (t : Nat × Nat × Nat) : Bool :=
  matGet m t.1 t.2.1 && matGet m t.2.1 t.2.2 && !matGet m t.1 t.2.2

/-- every violation (the driver prints the count and the first few) -/
def lawSymmAll (m : List (List Bool)) (n : Nat) : List (Nat × Nat) := (pairsUpTo n).filter (symmPred m)
def lawTransAll (m : List (List Bool)) (n : Nat) : List (Nat × Nat × Nat) := (triplesUpTo n).filter (transPred m)

/-- What is observed for an ordered pair `(a, b)`: `a == b`, `a != b`, and what the one-entry map
    `(a: 1)` / list `(a,)` do when probed or extended with `b`. -/
structure PairObs where
  eq : Bool
  ne : Bool
  getFound : Bool          -- `map-get((a: 1), b)` is not null
  hasKey : Bool            -- `map-has-key((a: 1), b)`
  removed : Bool           -- `map-remove((a: 1), b)` is empty
  mergeLen : Nat           -- `length(map-merge((a: 1), (b: 2)))`
  dupRejected : Bool       -- the literal `(a: 1, b: 2)` is an error
  index : Option Nat       -- `index((a,), b)`, 0-based
  deriving DecidableEq, Repr

def numV (n : Nat) : Value := .num (.fin (n : Rat)) .none

/-- the model's observation -/
def pairObs (sw : Sw) (a b : Value) : PairObs :=
  let m := VPairs.cons a (numV 1) .nil
  { eq := veq sw a b, ne := neOp sw a b, getFound := (get sw m b).isSome, hasKey := contains sw m b,
    removed := (remove sw m b).length == 0, mergeLen := (merge sw m (.cons b (numV 2) .nil)).length,
    dupRejected := (literal sw [(a, numV 1), (b, numV 2)]).isNone, index := indexOf sw (.cons a .nil) b }

/-- P̂ for one ordered pair: every keyed operation agrees with `==`, `!=` is its negation.
    Returns the names of the clauses that fail. -/
def pairAgrees (o : PairObs) : List String :=
  (if o.ne != !o.eq then ["ne"] else []) ++
  (if o.getFound != o.eq then ["map-get"] else []) ++
  (if o.hasKey != o.eq then ["map-has-key"] else []) ++
  (if o.removed != o.eq then ["map-remove"] else []) ++
  (if o.mergeLen != (if o.eq then 1 else 2) then ["map-merge"] else []) ++
  (if o.dupRejected != o.eq then ["map-literal"] else []) ++
  (if o.index != (if o.eq then some 0 else none) then ["index"] else [])

/-- P̂ for one map operation, on the key sequences (any injective rendering of the keys) observed
    before and after it: a removal leaves a subsequence, `map-merge`/`map.set` leave the old keys
    as a prefix — "merging or removing never disturbs the order of the remaining keys". -/
def orderKept (removal : Bool) (before after : List String) : Bool :=
  if removal then after.isSublist before else before.isPrefixOf after

/-! ### driver: value encoding

  prefix tokens:  `N` | `T` | `F` | `n <rat> <unit>` | `s <0|1> <hex>` | `c <rat> <rat> <rat> <rat>`
                | `l <sep> <0|1> <k> v*k` | `m <k> (key val)*k` | `a <sep> <k> v*k <j> (key val)*j`
  rat = `nan` | `inf` | `-inf` | `p` | `p/q`;  unit = `-` | name | `u:<hex>`;  sep = `comma|space|slash|undecided`
-/
open Grass.Proto

def parseRat? (s : String) : Option Rat :=
  match s.splitOn "/" with
  | [p] => p.toInt?.map (fun (i : Int) => (i : Rat))
  | [p, q] =>
    match p.toInt?, q.toNat? with
    | some p, some q => if q = 0 then none else some ((p : Rat) / (q : Rat))
    | _, _ => none
  | _ => none

def parseNum? (s : String) : Option Num :=
  if s == "nan" then some .nan else if s == "inf" then some .pinf else if s == "-inf" then some .ninf
  else (parseRat? s).map .fin

def unitNames : List (String × U) :=
  [("px", .px), ("mm", .mm), ("in", .inch), ("cm", .cm), ("q", .q), ("pt", .pt), ("pc", .pc),
   ("em", .em), ("rem", .rem), ("lh", .lh), ("ex", .ex), ("ch", .ch), ("cap", .cap), ("ic", .ic),
   ("rlh", .rlh), ("vw", .vw), ("vh", .vh), ("vmin", .vmin), ("vmax", .vmax), ("vi", .vi), ("vb", .vb),
   ("deg", .deg), ("grad", .grad), ("rad", .rad), ("turn", .turn), ("s", .s), ("ms", .ms),
   ("hz", .hz), ("khz", .khz), ("dpi", .dpi), ("dpcm", .dpcm), ("dppx", .dppx), ("fr", .fr),
   ("%", .percent), ("-", .none)]

def parseUnit? (s : String) : Option U :=
  if s.startsWith "u:" then (hexDecode (s.drop 2).toString).map (fun n => .unknown n.toList)
  else (unitNames.find? (·.1 == s)).map (·.2)

def unitStr (u : U) : String :=
  match u with
  | .unknown n => "u:" ++ hexEncode (String.ofList n)
  | u => ((unitNames.find? (·.2 == u)).map (·.1)).getD "?"

def parseSep? (s : String) : Option Sep :=
  if s == "comma" then some .comma else if s == "space" then some .space
  else if s == "slash" then some .slash else if s == "undecided" then some .undecided else none

def sepStr : Sep → String
  | .comma => "comma" | .space => "space" | .slash => "slash" | .undecided => "undecided"

mutual
  def parseV (fuel : Nat) (ts : List String) : Option (Value × List String) :=
    match fuel with
    | 0 => none
    | fuel + 1 =>
      match ts with
      | "N" :: r => some (.null, r)
      | "T" :: r => some (.bool true, r)
      | "F" :: r => some (.bool false, r)
      | "n" :: x :: u :: r =>
        match parseNum? x, parseUnit? u with
        | some x, some u => some (.num x u, r)
        | _, _ => none
      | "s" :: q :: h :: r =>
        match parseBool? q, hexDecode h with
        | some q, some s => some (.str s.toList q, r)
        | _, _ => none
      | "c" :: a :: b :: c :: d :: r =>
        match parseRat? a, parseRat? b, parseRat? c, parseRat? d with
        | some a, some b, some c, some d => some (.color a b c d, r)
        | _, _, _, _ => none
      | "l" :: sp :: br :: k :: r =>
        match parseSep? sp, parseBool? br, k.toNat? with
        | some sp, some br, some k =>
          match parseVs fuel k r with
          | some (es, r) => some (.list es sp br, r)
          | none => none
        | _, _, _ => none
      | "m" :: k :: r =>
        match k.toNat? with
        | some k =>
          match parsePs fuel k r with
          | some (ps, r) => some (.map ps, r)
          | none => none
        | none => none
      | "a" :: sp :: k :: r =>
        match parseSep? sp, k.toNat? with
        | some sp, some k =>
          match parseVs fuel k r with
          | some (es, j :: r) =>
            match j.toNat? with
            | some j =>
              match parsePs fuel j r with
              | some (kw, r) => some (.arglist es kw sp, r)
              | none => none
            | none => none
          | _ => none
        | _, _ => none
      | _ => none
  def parseVs (fuel : Nat) (k : Nat) (ts : List String) : Option (VList × List String) :=
    match fuel with
    | 0 => none
    | fuel + 1 =>
      match k with
      | 0 => some (.nil, ts)
      | k + 1 =>
        match parseV fuel ts with
        | some (v, r) =>
          match parseVs fuel k r with
          | some (vs, r) => some (.cons v vs, r)
          | none => none
        | none => none
  def parsePs (fuel : Nat) (k : Nat) (ts : List String) : Option (VPairs × List String) :=
    match fuel with
    | 0 => none
    | fuel + 1 =>
      match k with
      | 0 => some (.nil, ts)
      | k + 1 =>
        match parseV fuel ts with
        | some (key, r) =>
          match parseV fuel r with
          | some (v, r) =>
            match parsePs fuel k r with
            | some (ps, r) => some (.cons key v ps, r)
            | none => none
          | none => none
        | none => none
end

/-- parse `k` values from a token list, requiring that nothing is left over -/
def parseValues (k : Nat) (ts : List String) : Option (List Value) :=
  match parseVs (2 * ts.length + k + 2) k ts with
  | some (vs, []) => some vs.toList
  | _ => none

def ratStr (q : Rat) : String := if q.den = 1 then toString q.num else s!"{q.num}/{q.den}"

def numStr : Num → String
  | .fin q => ratStr q | .nan => "nan" | .pinf => "inf" | .ninf => "-inf"

mutual
  def encV : Value → String
    | .null => "N"
    | .bool true => "T"
    | .bool false => "F"
    | .num n u => s!"n {numStr n} {unitStr u}"
    | .str s q => s!"s {boolStr q} {hexEncode (String.ofList s)}"
    | .color r g b a => s!"c {ratStr r} {ratStr g} {ratStr b} {ratStr a}"
    | .list es sp br => s!"l {sepStr sp} {boolStr br} {es.length}{encVs es}"
    | .map ps => s!"m {ps.length}{encPs ps}"
    | .arglist es kw sp => s!"a {sepStr sp} {es.length}{encVs es} {kw.length}{encPs kw}"
  def encVs : VList → String
    | .nil => ""
    | .cons v t => " " ++ encV v ++ encVs t
  def encPs : VPairs → String
    | .nil => ""
    | .cons k v t => " " ++ encV k ++ " " ++ encV v ++ encPs t
end

def parseSw? (s : String) : Option Sw :=
  if s == "now" then some .now else if s == "spec" then some .spec
  else if s == "beforefix" then some .beforeFix
  else if s == "pinned" then some .pinned else none

def optNatStr : Option Nat → String
  | none => "none" | some n => toString n

def parseBits (s : String) : List Bool := s.toList.map (· == '1')

/-- rows separated by `.` -/
def parseMatrix (s : String) : List (List Bool) := (s.splitOn ".").map parseBits

/-- one map operation of a sequence: `set k v` | `merge m` | `remove k` -/
inductive MapOp where
  | set (k v : Value) | merge (m : VPairs) | remove (k : Value)

def runOp (sw : Sw) (m : VPairs) : MapOp → VPairs
  | .set k v => insert sw m k v
  | .merge o => merge sw m o
  | .remove k => remove sw m k

def parseOps (fuel : Nat) (ts : List String) : Option (List MapOp) :=
  match fuel with
  | 0 => none
  | fuel + 1 =>
    match ts with
    | [] => some []
    | "set" :: r =>
      match parseVs (2 * r.length + 4) 2 r with
      | some (.cons k (.cons v .nil), r) => (parseOps fuel r).map (MapOp.set k v :: ·)
      | _ => none
    | "merge" :: r =>
      match parseV (2 * r.length + 4) r with
      | some (.map o, r) => (parseOps fuel r).map (MapOp.merge o :: ·)
      | _ => none
    | "remove" :: r =>
      match parseV (2 * r.length + 4) r with
      | some (k, r) => (parseOps fuel r).map (MapOp.remove k :: ·)
      | none => none
    | _ => none


/-! ## extended universe (round 3): compound units, calculations, function references -/

/-- `Unit` with `Complex` (unit/mod.rs:9, :107 `ComplexUnit { numer, denom }`; the derived
    `PartialEq` compares the two vectors in order: `px*em` and `em*px` are different units). -/
inductive XU where
  | simple (u : U)
  | complex (numer denom : List U)
  deriving DecidableEq, Repr, Inhabited

/-- `Unit::kind` (unit/mod.rs:190): `Complex` is `Other`. -/
def XU.kind : XU → Kind
  | .simple u => u.kind
  | .complex _ _ => .other

/-- `Unit::comparable` (unit/mod.rs:165) with `Complex` units. -/
def xcomparable (u1 u2 : XU) : Bool :=
  if u2 = .simple .none then true else
  match u1.kind with
  | .fontRel | .viewRel | .other => decide (u1 = u2)
  | .none => true
  | k => decide (u2.kind = k)

/-- `impl PartialEq for SassNumber` (sass_number.rs:245) with `Complex` units.  With a `Complex`
    unit on either side `canonical()` is `None` (kind `Other`), so the arm taken is
    `self.num == other.num.convert(&other.unit, &self.unit)`; it is reached only with
    `self.unit == other.unit` (`comparable` of kind `Other` is `==`; `None` against a unit is
    refused by the second test), where `convert` returns its argument (number.rs:159). -/
def xnumEq (sw : Sw) (n1 : Num) (u1 : XU) (n2 : Num) (u2 : XU) : Bool :=
  match u1, u2 with
  | .simple a, .simple b => numEq sw n1 a n2 b
  | _, _ =>
    if !xcomparable u1 u2 then false
    else if (u2 = .simple .none ∨ u1 = .simple .none) ∧ u1 ≠ u2 then false
    else fuzzyN n1 n2

/-- `CalculationName` (value/calculation.rs:41). -/
inductive CName where
  | calc | min | max | clamp
  deriving DecidableEq, Repr, Inhabited

/-- the `BinaryOp`s a `CalculationArg::Operation` carries -/
inductive COp where
  | plus | minus | times | div
  deriving DecidableEq, Repr, Inhabited

mutual
  /-- `CalculationArg` (value/calculation.rs:15), derived `PartialEq`. -/
  inductive CArg where
    | number (n : Num) (u : XU)
    | calc (name : CName) (args : CArgs)
    | str (s : List Char)
    | op (l : CArg) (o : COp) (r : CArg)
    | interp (s : List Char)
  inductive CArgs where
    | nil
    | cons (a : CArg) (t : CArgs)
end

instance : Inhabited CArg := ⟨.str []⟩
instance : Inhabited CArgs := ⟨.nil⟩

mutual
  /-- derived `PartialEq for CalculationArg`; numbers by `SassNumber::eq`. -/
  def cargEq (sw : Sw) : CArg → CArg → Bool
    | .number n1 u1, .number n2 u2 => xnumEq sw n1 u1 n2 u2
    | .calc a as, .calc b bs => decide (a = b) && cargsEq sw as bs
    | .str s, .str t => decide (s = t)
    | .op l1 o1 r1, .op l2 o2 r2 => cargEq sw l1 l2 && decide (o1 = o2) && cargEq sw r1 r2
    | .interp s, .interp t => decide (s = t)
    | _, _ => false
  def cargsEq (sw : Sw) : CArgs → CArgs → Bool
    | .nil, .nil => true
    | .cons a t, .cons b u => cargEq sw a b && cargsEq sw t u
    | _, _ => false
end

/-- `SassFunction` (value/sass_function.rs:10), derived `PartialEq`:
    `Builtin(Builtin, Identifier)` — `Builtin::eq` compares the registration counter
    (builtin/functions/mod.rs:75); `UserDefined` — `AstFunctionDecl::eq` compares the `Spanned` name of
    the declaration, i.e. name and position (ast/stmt.rs:148), then the name; `Plain { name }`. -/
inductive FnRef where
  | builtin (id : Nat) (name : List Char)
  | user (name : List Char) (declLo declHi : Nat)
  | plain (name : List Char)
  deriving DecidableEq, Repr, Inhabited

mutual
  /-- `Value` (value/mod.rs:32) in full: `Dimension` with any unit, `Calculation`, `FunctionRef`. -/
  inductive XV where
    | null
    | bool (b : Bool)
    | num (n : Num) (u : XU)
    | str (s : List Char) (quoted : Bool)
    | color (r g b a : Rat)
    | calc (name : CName) (args : CArgs)
    | fn (f : FnRef)
    | list (es : XVList) (sep : Sep) (bracketed : Bool)
    | map (ps : XVPairs)
    | arglist (es : XVList) (kw : XVPairs) (sep : Sep)
  inductive XVList where
    | nil
    | cons (v : XV) (t : XVList)
  inductive XVPairs where
    | nil
    | cons (k v : XV) (t : XVPairs)
end

instance : Inhabited XV := ⟨.null⟩
instance : Inhabited XVList := ⟨.nil⟩
instance : Inhabited XVPairs := ⟨.nil⟩

def XVList.toList : XVList → List XV
  | .nil => []
  | .cons v t => v :: t.toList

def XVList.ofList : List XV → XVList
  | [] => .nil
  | v :: t => .cons v (XVList.ofList t)

def XVPairs.toList : XVPairs → List (XV × XV)
  | .nil => []
  | .cons k v t => (k, v) :: t.toList

def XVList.length : XVList → Nat
  | .nil => 0
  | .cons _ t => t.length + 1

def XVPairs.length : XVPairs → Nat
  | .nil => 0
  | .cons _ _ t => t.length + 1

def XVPairs.any (f : XV → XV → Bool) : XVPairs → Bool
  | .nil => false
  | .cons k v t => f k v || t.any f

mutual
  /-- `Value::eq` (value/mod.rs:48), every arm.  (`List == ArgList` evaluates `other == self`; see `veq`.) -/
  def xeq (sw : Sw) : XV → XV → Bool
    | .calc a as, .calc b bs => decide (a = b) && cargsEq sw as bs
    | .str s1 _, .str s2 _ => decide (s1 = s2)
    | .num n1 u1, .num n2 u2 => xnumEq sw n1 u1 n2 u2
    | .list l1 s1 b1, .list l2 s2 b2 => decide (s1 = s2) && decide (b1 = b2) && xeqL sw l1 l2
    | .list l1 s1 b1, .arglist l2 _ s2 =>
      if sw.argAsList then decide (s1 = s2) && decide (b1 = false) && xeqL sw l1 l2
      else sw.argSym && decide (s1 = .comma) && xeqL sw l1 l2
    | .null, .null => true
    | .bool a, .bool b => a == b
    | .fn f, .fn g => decide (f = g)
    | .map p1, .map p2 => decide (p1.length = p2.length) && xsubP sw p1 p2
    | .color r1 g1 b1 a1, .color r2 g2 b2 a2 => colorEq r1 g1 b1 a1 r2 g2 b2 a2
    | .arglist l1 k1 s1, .arglist l2 k2 s2 =>
      if sw.argAsList then decide (s1 = s2) && xeqL sw l1 l2
      else xeqL sw l1 l2 && xeqKw sw k1 k2 && decide (s1 = s2)
    | .arglist l1 _ s1, .list l2 s2 b2 =>
      if sw.argAsList then decide (s1 = s2) && decide (false = b2) && xeqL sw l1 l2
      else decide (s2 = .comma) && xeqL sw l1 l2
    | _, _ => false
  def xeqL (sw : Sw) : XVList → XVList → Bool
    | .nil, .nil => true
    | .cons a t, .cons b u => xeq sw a b && xeqL sw t u
    | _, _ => false
  def xeqKw (sw : Sw) : XVPairs → XVPairs → Bool
    | .nil, .nil => true
    | .cons k1 v1 t, .cons k2 v2 u => xeq sw k1 k2 && xeq sw v1 v2 && xeqKw sw t u
    | _, _ => false
  /-- `SassMap::eq` loop (map.rs:18). -/
  def xsubP (sw : Sw) : XVPairs → XVPairs → Bool
    | .nil, _ => true
    | .cons k v t, q => q.any (fun k2 v2 => xeq sw k k2 && xeq sw v v2) && xsubP sw t q
end

/-! `SassMap` and `index` on the extended universe (same code as above, value/map.rs) -/

def xget (sw : Sw) : XVPairs → XV → Option XV
  | .nil, _ => none
  | .cons k v t, key => if xeq sw k key then some v else xget sw t key

def xcontains (sw : Sw) (m : XVPairs) (key : XV) : Bool := m.any (fun k _ => xeq sw k key)

def xinsert (sw : Sw) : XVPairs → XV → XV → XVPairs
  | .nil, key, val => .cons key val .nil
  | .cons k v t, key, val => if xeq sw k key then .cons k val t else .cons k v (xinsert sw t key val)

def xmerge (sw : Sw) (a : XVPairs) : XVPairs → XVPairs
  | .nil => a
  | .cons k v t => xmerge sw (xinsert sw a k v) t

/-- `SassMap::remove` (map.rs:62) as it stands: `retain(|k| k != key)`. -/
def xremove (sw : Sw) : XVPairs → XV → XVPairs
  | .nil, _ => .nil
  | .cons k v t, key => if !(xeq sw k key) then .cons k v (xremove sw t key) else xremove sw t key

def xliteralFrom (sw : Sw) (acc : XVPairs) : List (XV × XV) → Option XVPairs
  | [] => some acc
  | (k, v) :: rest =>
    match xget sw acc k with
    | some _ => none
    | none => xliteralFrom sw (xinsert sw acc k v) rest

def xliteral (sw : Sw) (es : List (XV × XV)) : Option XVPairs := xliteralFrom sw .nil es

def xindexOf (sw : Sw) : XVList → XV → Option Nat
  | .nil, _ => none
  | .cons e t, v => if xeq sw e v then some 0 else (xindexOf sw t v).map (· + 1)

def xnumV (n : Nat) : XV := .num (.fin (n : Rat)) (.simple .none)

/-- the model's observation for an ordered pair of the extended universe (see `pairObs`) -/
def xpairObs (sw : Sw) (a b : XV) : PairObs :=
  let m := XVPairs.cons a (xnumV 1) .nil
  { eq := xeq sw a b, ne := !(xeq sw a b), getFound := (xget sw m b).isSome, hasKey := xcontains sw m b,
    removed := (xremove sw m b).length == 0, mergeLen := (xmerge sw m (.cons b (xnumV 2) .nil)).length,
    dupRejected := (xliteral sw [(a, xnumV 1), (b, xnumV 2)]).isNone, index := xindexOf sw (.cons a .nil) b }

/-! guards on the extended universe -/

mutual
  def cargNoNaN : CArg → Bool
    | .number n _ => !n.isNaN
    | .calc _ as => cargsNoNaN as
    | .op l _ r => cargNoNaN l && cargNoNaN r
    | _ => true
  def cargsNoNaN : CArgs → Bool
    | .nil => true
    | .cons a t => cargNoNaN a && cargsNoNaN t
end

mutual
  def xnoNaN : XV → Bool
    | .num n _ => !n.isNaN
    | .calc _ as => cargsNoNaN as
    | .list es _ _ => xnoNaNL es
    | .map ps => xnoNaNP ps
    | .arglist es kw _ => xnoNaNL es && xnoNaNP kw
    | _ => true
  def xnoNaNL : XVList → Bool
    | .nil => true
    | .cons v t => xnoNaN v && xnoNaNL t
  def xnoNaNP : XVPairs → Bool
    | .nil => true
    | .cons k v t => xnoNaN k && xnoNaN v && xnoNaNP t
end

mutual
  def xinRange : XV → Bool
    | .color r g b a => decide (r ≤ 255) && decide (g ≤ 255) && decide (b ≤ 255) && decide (a ≤ 1)
    | .list es _ _ => xinRangeL es
    | .map ps => xinRangeP ps
    | .arglist es kw _ => xinRangeL es && xinRangeP kw
    | _ => true
  def xinRangeL : XVList → Bool
    | .nil => true
    | .cons v t => xinRange v && xinRangeL t
  def xinRangeP : XVPairs → Bool
    | .nil => true
    | .cons k v t => xinRange k && xinRange v && xinRangeP t
end

def xdistinctKeys (sw : Sw) : XVPairs → Bool
  | .nil => true
  | .cons k _ t => !(t.any (fun k2 _ => xeq sw k k2)) && xdistinctKeys sw t

mutual
  def xmapWf (sw : Sw) : XV → Bool
    | .list es _ _ => xmapWfL sw es
    | .map ps => xdistinctKeys sw ps && xmapWfP sw ps
    | .arglist es kw _ => xmapWfL sw es && xmapWfP sw kw
    | _ => true
  def xmapWfL (sw : Sw) : XVList → Bool
    | .nil => true
    | .cons v t => xmapWf sw v && xmapWfL sw t
  def xmapWfP (sw : Sw) : XVPairs → Bool
    | .nil => true
    | .cons k v t => xmapWf sw k && xmapWf sw v && xmapWfP sw t
end

/-! ### map-key history (round 3): what a sequence of operations does to the key sequence alone -/

/-- a key is appended unless some key already there is `==` to it -/
def keyAdd (sw : Sw) (ks : List Value) (k : Value) : List Value :=
  if ks.any (fun x => veq sw x k) then ks else ks ++ [k]

/-- effect of one operation on the key sequence (values never matter) -/
def keysStep (sw : Sw) (ks : List Value) : MapOp → List Value
  | .set k _ => keyAdd sw ks k
  | .merge o => (keys o).toList.foldl (keyAdd sw) ks
  | .remove k => ks.filter (fun x => keeps sw x k)

/-- the key sequence after a whole history of operations -/
def keysHist (sw : Sw) (ks0 : List Value) (ops : List MapOp) : List Value := ops.foldl (keysStep sw) ks0

/-! ### driver: extended value encoding
  as above, and  unit = … | `X <k> u*k <j> u*j` (numerator, denominator)
  `k <name> <k> carg*k` calculation;  carg = `Cn <rat> <unit>` | `Cc <name> <k> carg*k` | `Cs <hex>` | `Co <op> carg carg` | `Ci <hex>`
  `fb <id> <hex name>` | `fu <hex name> <lo> <hi>` | `fp <hex name>` function references -/

def parseUnits : Nat → List String → Option (List U × List String)
  | 0, ts => some ([], ts)
  | k + 1, u :: r =>
    match parseUnit? u, parseUnits k r with
    | some u, some (us, r) => some (u :: us, r)
    | _, _ => none
  | _ + 1, [] => none

def parseXU (ts : List String) : Option (XU × List String) :=
  match ts with
  | "X" :: k :: r =>
    match k.toNat? with
    | some k =>
      match parseUnits k r with
      | some (nu, j :: r) =>
        match j.toNat? with
        | some j =>
          match parseUnits j r with
          | some (de, r) => some (.complex nu de, r)
          | none => none
        | none => none
      | _ => none
    | none => none
  | u :: r => (parseUnit? u).map (fun u => (.simple u, r))
  | [] => none

def parseCName? (s : String) : Option CName :=
  if s == "calc" then some .calc else if s == "min" then some .min
  else if s == "max" then some .max else if s == "clamp" then some .clamp else none

def parseCOp? (s : String) : Option COp :=
  if s == "plus" then some .plus else if s == "minus" then some .minus
  else if s == "times" then some .times else if s == "div" then some .div else none

mutual
  def parseC (fuel : Nat) (ts : List String) : Option (CArg × List String) :=
    match fuel with
    | 0 => none
    | fuel + 1 =>
      match ts with
      | "Cn" :: x :: r =>
        match parseNum? x, parseXU r with
        | some x, some (u, r) => some (.number x u, r)
        | _, _ => none
      | "Cc" :: nm :: k :: r =>
        match parseCName? nm, k.toNat? with
        | some nm, some k =>
          match parseCs fuel k r with
          | some (as, r) => some (.calc nm as, r)
          | none => none
        | _, _ => none
      | "Cs" :: h :: r => (hexDecode h).map (fun s => (.str s.toList, r))
      | "Ci" :: h :: r => (hexDecode h).map (fun s => (.interp s.toList, r))
      | "Co" :: o :: r =>
        match parseCOp? o, parseC fuel r with
        | some o, some (l, r) =>
          match parseC fuel r with
          | some (rr, r) => some (.op l o rr, r)
          | none => none
        | _, _ => none
      | _ => none
  def parseCs (fuel : Nat) (k : Nat) (ts : List String) : Option (CArgs × List String) :=
    match fuel with
    | 0 => none
    | fuel + 1 =>
      match k with
      | 0 => some (.nil, ts)
      | k + 1 =>
        match parseC fuel ts with
        | some (a, r) =>
          match parseCs fuel k r with
          | some (as, r) => some (.cons a as, r)
          | none => none
        | none => none
end

mutual
  def parseX (fuel : Nat) (ts : List String) : Option (XV × List String) :=
    match fuel with
    | 0 => none
    | fuel + 1 =>
      match ts with
      | "N" :: r => some (.null, r)
      | "T" :: r => some (.bool true, r)
      | "F" :: r => some (.bool false, r)
      | "n" :: x :: r =>
        match parseNum? x, parseXU r with
        | some x, some (u, r) => some (.num x u, r)
        | _, _ => none
      | "s" :: q :: h :: r =>
        match parseBool? q, hexDecode h with
        | some q, some s => some (.str s.toList q, r)
        | _, _ => none
      | "c" :: a :: b :: c :: d :: r =>
        match parseRat? a, parseRat? b, parseRat? c, parseRat? d with
        | some a, some b, some c, some d => some (.color a b c d, r)
        | _, _, _, _ => none
      | "k" :: nm :: k :: r =>
        match parseCName? nm, k.toNat? with
        | some nm, some k =>
          match parseCs (2 * r.length + k + 2) k r with
          | some (as, r) => some (.calc nm as, r)
          | none => none
        | _, _ => none
      | "fb" :: id :: h :: r =>
        match id.toNat?, hexDecode h with
        | some id, some s => some (.fn (.builtin id s.toList), r)
        | _, _ => none
      | "fu" :: h :: lo :: hi :: r =>
        match hexDecode h, lo.toNat?, hi.toNat? with
        | some s, some lo, some hi => some (.fn (.user s.toList lo hi), r)
        | _, _, _ => none
      | "fp" :: h :: r => (hexDecode h).map (fun s => (.fn (.plain s.toList), r))
      | "l" :: sp :: br :: k :: r =>
        match parseSep? sp, parseBool? br, k.toNat? with
        | some sp, some br, some k =>
          match parseXs fuel k r with
          | some (es, r) => some (.list es sp br, r)
          | none => none
        | _, _, _ => none
      | "m" :: k :: r =>
        match k.toNat? with
        | some k =>
          match parseXPs fuel k r with
          | some (ps, r) => some (.map ps, r)
          | none => none
        | none => none
      | "a" :: sp :: k :: r =>
        match parseSep? sp, k.toNat? with
        | some sp, some k =>
          match parseXs fuel k r with
          | some (es, j :: r) =>
            match j.toNat? with
            | some j =>
              match parseXPs fuel j r with
              | some (kw, r) => some (.arglist es kw sp, r)
              | none => none
            | none => none
          | _ => none
        | _, _ => none
      | _ => none
  def parseXs (fuel : Nat) (k : Nat) (ts : List String) : Option (XVList × List String) :=
    match fuel with
    | 0 => none
    | fuel + 1 =>
      match k with
      | 0 => some (.nil, ts)
      | k + 1 =>
        match parseX fuel ts with
        | some (v, r) =>
          match parseXs fuel k r with
          | some (vs, r) => some (.cons v vs, r)
          | none => none
        | none => none
  def parseXPs (fuel : Nat) (k : Nat) (ts : List String) : Option (XVPairs × List String) :=
    match fuel with
    | 0 => none
    | fuel + 1 =>
      match k with
      | 0 => some (.nil, ts)
      | k + 1 =>
        match parseX fuel ts with
        | some (key, r) =>
          match parseX fuel r with
          | some (v, r) =>
            match parseXPs fuel k r with
            | some (ps, r) => some (.cons key v ps, r)
            | none => none
          | none => none
        | none => none
end

def parseXValues (k : Nat) (ts : List String) : Option (List XV) :=
  match parseXs (2 * ts.length + k + 2) k ts with
  | some (vs, []) => some vs.toList
  | _ => none

def xguardsStr (sw : Sw) (v : XV) : String :=
  boolStr (xnoNaN v) ++ boolStr (xmapWf sw v) ++ boolStr (xinRange v)

def encKeyList (ks : List Value) : String := encV (.list (VList.ofList ks) .comma false)

def guardsStr (sw : Sw) (v : Value) : String :=
  boolStr (noNaN v) ++ boolStr (mapWf sw v) ++ boolStr (inRange v) ++ boolStr (inScope sw v)

def handle : List String → String
  -- eq <sw> A B  →  ok <A==B> <B==A> <notEquals A B> <guards A> <guards B>
  | "eq" :: sw :: r =>
    match parseSw? sw, parseValues 2 r with
    | some sw, some [a, b] =>
      s!"ok {boolStr (veq sw a b)} {boolStr (veq sw b a)} {boolStr (notEquals sw a b)} {guardsStr sw a} {guardsStr sw b}"
    | _, _ => "bad-op"
  -- pair <sw> A B  →  what the map built from the literal `(A: 1)` does when probed / extended with B
  --   ok <get:0|1> <has> <removed:0|1> <merge-len> <literal-dup:0|1> <index in (A,)>
  | "pair" :: sw :: r =>
    match parseSw? sw, parseValues 2 r with
    | some sw, some [a, b] =>
      let m := VPairs.cons a (.num (.fin 1) .none) .nil
      let lit := literal sw [(a, .num (.fin 1) .none), (b, .num (.fin 2) .none)]
      s!"ok {boolStr (get sw m b).isSome} {boolStr (contains sw m b)} {boolStr ((remove sw m b).length == 0)} {(merge sw m (.cons b (.num (.fin 2) .none) .nil)).length} {boolStr lit.isNone} {optNatStr (indexOf sw (.cons a .nil) b)}"
    | _, _ => "bad-op"
  -- index <sw> <k> L1 … Lk V → ok <0-based position | none>
  | "index" :: sw :: k :: r =>
    match parseSw? sw, k.toNat? with
    | some sw, some k =>
      match parseValues (k + 1) r with
      | some vs => "ok " ++ optNatStr (indexOf sw (VList.ofList (vs.take k)) (vs.getD k .null))
      | none => "bad-op"
    | _, _ => "bad-op"
  -- ops <sw> M op…  → ok <resulting map>
  | "ops" :: sw :: r =>
    match parseSw? sw, parseV (2 * r.length + 4) r with
    | some sw, some (.map m, r) =>
      match parseOps (r.length + 2) r with
      | some ops => "ok " ++ encV (.map (ops.foldl (runOp sw) m))
      | none => "bad-op"
    | _, _ => "bad-op"
  -- mapwf <sw> V → ok <0|1>
  | "mapwf" :: sw :: r =>
    match parseSw? sw, parseValues 1 r with
    | some sw, some [v] => "ok " ++ boolStr (mapWf sw v)
    | _, _ => "bad-op"
  -- laws <n> <matrix> <refl-domain bits>: P̂ of the equivalence laws on an implementation's `==` matrix
  | ["laws", n, mat, dom] =>
    match n.toNat? with
    | some n =>
      let m := parseMatrix mat
      let d := (List.range n).filter (fun i => (parseBits dom).getD i false)
      let r := match lawRefl m d with | none => "refl:ok" | some i => s!"refl:{i}"
      let s := match lawSymm m n with | none => "symm:ok" | some (i, j) => s!"symm:{i},{j}"
      let t := match lawTrans m n with | none => "trans:ok" | some (i, j, k) => s!"trans:{i},{j},{k}"
      s!"ok {r} {s} {t}"
    | none => "bad-op"
  -- lawsall <n> <matrix>: every symmetry / transitivity violation (count, then at most 400 of them)
  | ["lawsall", n, mat] =>
    match n.toNat? with
    | some n =>
      let m := parseMatrix mat
      let ss := lawSymmAll m n
      let ts := lawTransAll m n
      let sTxt := ";".intercalate ((ss.take 400).map fun (i, j) => s!"{i},{j}")
      let tTxt := ";".intercalate ((ts.take 400).map fun (i, j, k) => s!"{i},{j},{k}")
      s!"ok symm {ss.length} [{sTxt}] trans {ts.length} [{tTxt}]"
    | none => "bad-op"
  -- pairobs <sw> A B → ok <eq> <ne> <get> <has> <removed> <mergeLen> <dup> <index> <agrees:-|names>
  | "pairobs" :: sw :: r =>
    match parseSw? sw, parseValues 2 r with
    | some sw, some [a, b] =>
      let o := pairObs sw a b
      let bad := pairAgrees o
      s!"ok {boolStr o.eq} {boolStr o.ne} {boolStr o.getFound} {boolStr o.hasKey} {boolStr o.removed} {o.mergeLen} {boolStr o.dupRejected} {optNatStr o.index} {if bad.isEmpty then "-" else ",".intercalate bad}"
    | _, _ => "bad-op"
  -- pairlaw <eq> <ne> <get> <has> <removed> <mergeLen> <dup> <index|none>: P̂ on an implementation's answers
  | ["pairlaw", e, n, g, h, r, ml, d, ix] =>
    match parseBool? e, parseBool? n, parseBool? g, parseBool? h, parseBool? r, ml.toNat?, parseBool? d with
    | some e, some n, some g, some h, some r, some ml, some d =>
      let ix := if ix == "none" then some none else ix.toNat?.map some
      match ix with
      | some ix =>
        let bad := pairAgrees ⟨e, n, g, h, r, ml, d, ix⟩
        if bad.isEmpty then "ok holds" else "ok fails " ++ ",".intercalate bad
      | none => "bad-op"
    | _, _, _, _, _, _, _ => "bad-op"
  -- orderlaw <remove|grow> <before: k1,k2,… | -> <after: …>  (keys hex-encoded): P̂ `orderKept` on an implementation's answers
  | ["orderlaw", kind, before, after] =>
    let ks (t : String) : List String := if t == "-" then [] else t.splitOn ","
    if kind == "remove" then (if orderKept true (ks before) (ks after) then "ok holds" else "ok fails")
    else if kind == "grow" then (if orderKept false (ks before) (ks after) then "ok holds" else "ok fails")
    else "bad-op"
  -- first <bits> → ok <position of the first 1 | none>   (P̂ of `index`/`map-get` against a row of `==` answers)
  | ["first", bits] => "ok " ++ optNatStr (firstTrue (parseBits bits))
  -- xpairobs <sw> A B (extended encoding) → ok <eq> <ne> <get> <has> <removed> <mergeLen> <dup> <index> <agrees:-|names> <guards A> <guards B>
  | "xpairobs" :: sw :: r =>
    match parseSw? sw, parseXValues 2 r with
    | some sw, some [a, b] =>
      let o := xpairObs sw a b
      let bad := pairAgrees o
      s!"ok {boolStr o.eq} {boolStr o.ne} {boolStr o.getFound} {boolStr o.hasKey} {boolStr o.removed} {o.mergeLen} {boolStr o.dupRejected} {optNatStr o.index} {if bad.isEmpty then "-" else ",".intercalate bad} {xguardsStr sw a} {xguardsStr sw b}"
    | _, _ => "bad-op"
  -- xindex <sw> <k> L1 … Lk V (extended encoding) → ok <0-based position | none>
  | "xindex" :: sw :: k :: r =>
    match parseSw? sw, k.toNat? with
    | some sw, some k =>
      match parseXValues (k + 1) r with
      | some vs => "ok " ++ optNatStr (xindexOf sw (XVList.ofList (vs.take k)) (vs.getD k .null))
      | none => "bad-op"
    | _, _ => "bad-op"
  -- keyshist <sw> M op…  → ok <comma list of the keys after the history, computed on the key sequence alone>
  | "keyshist" :: sw :: r =>
    match parseSw? sw, parseV (2 * r.length + 4) r with
    | some sw, some (.map m, r) =>
      match parseOps (r.length + 2) r with
      | some ops => "ok " ++ encKeyList (keysHist sw (keys m).toList ops)
      | none => "bad-op"
    | _, _ => "bad-op"
  | _ => "bad-op"

end Grass.Value
