import Grass.Serialize
/-
  C06 — Output style changes only formatting, never meaning or evaluation (first cut, being widened).
-/
namespace Grass.Serialize

/-- Compressed output keeps a comment exactly when it starts with `/*!`; expanded keeps all
    (`write_comment`, serializer.rs:998). -/
theorem C06_comment_retention (text : Str) (col ind : Nat) :
    (visitStmt .compressed ind (.comment text col)).2 =
      (if startsWith text (lit "/*!") then commentOut text col else []) ∧
    (visitStmt .expanded ind (.comment text col)).2 = spaces ind ++ commentOut text col := by
  constructor
  · unfold visitStmt
    cases h : startsWith text (lit "/*!") <;> simp [commentKept, Style.isCompressed, indentOut, h]
  · unfold visitStmt
    simp [commentKept, Style.isCompressed, indentOut]

end Grass.Serialize
