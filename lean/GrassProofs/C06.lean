import GrassProofs.Lemmas.SerializeRead
import GrassProofs.Lemmas.SerializeReadTree
/-
  C06 — Output style changes only formatting, never meaning or evaluation.

  Theorems about the serializer model `Grass/Serialize.lean` (tied to grass byte for byte in both
  styles by tools/props/c05.py / c06.py).

  Full statement (kept visible):
    for every stylesheet, canon (read (compile .compressed src)) = canon (read (compile .expanded src)),
    and every SassScript-visible value is the same in both runs.
  Proved here for the model: comment retention, absence of a style parameter in evaluation, and the
  read-back equality of both styles for the whole serialised subset (C06_style_equiv_model).  Number / colour spelling equivalences belong to
  C07 / C15 (values are opaque text in this model); SassScript visibility is checked on grass directly.
-/
namespace Grass.Serialize

/-- Compressed output keeps a comment exactly when it starts with `/*!`; expanded keeps every
    comment (`write_comment`, serializer.rs:998). -/
theorem C06_comment_retention (text : Str) (col ind : Nat) :
    (visitStmt .compressed ind (.comment text col)).2 =
      (if startsWith text (lit "/*!") then commentOut text col else []) ∧
    (visitStmt .expanded ind (.comment text col)).2 = spaces ind ++ commentOut text col := by
  constructor
  · unfold visitStmt
    cases h : startsWith text (lit "/*!") <;> simp [commentKept, Style.isCompressed, indentOut, h]
  · unfold visitStmt
    simp [commentKept, Style.isCompressed, indentOut]

example : (visitStmt .compressed 0 (.comment ['/', '*', ' ', 'x', ' ', '*', '/'] 0)).2 = [] ∧
    (visitStmt .compressed 0 (.comment ['/', '*', '!', 'x', '*', '/'] 0)).2 = ['/', '*', '!', 'x', '*', '/'] := by
  decide +kernel

/-- The model of the pipeline is `serialize st cs (eval src)`: evaluation produces the statement tree
    without looking at the style, so whatever `eval` is, both styles serialise the SAME tree.
    True by construction (there is no style parameter to `eval`); stated so that a model in which
    evaluation did take the style could not be substituted silently.  The as-found deviations of
    grass from this (findings C06-F1/F2/F3) are found by the direct check, not modelled. -/
theorem C06_eval_style_free {Src : Type} (eval : Src → List Stmt) (src : Src) (cs : Bool) :
    ∀ st : Style, ∃ t, t = eval src ∧ serialize st cs t = serialize st cs (eval src) :=
  fun _ => ⟨eval src, rfl, rfl⟩

/-- Style equivalence of the model at full strength: for every tree of the serialised subset that
    satisfies the style-free guard `treeG`, reading the compressed and the expanded serialisation
    gives the SAME canonical tree (same at-rules and rules in the same order, same selectors,
    declarations, values and kept comments) — non-`/*!` comments, optional semicolons, indentation,
    blank lines and the optional spaces after `,` `:` and around combinators / `/` are the only
    differences, and they are not in the canonical tree.
    Guards: `treeG t` (selector combinators are `>` `+` `~`, the other opaque pieces — compounds,
    property names, unquoted atoms, queries, at-rule headers — are flat, unquoted atoms do not start
    with `*`, headers do not start with whitespace or `/`, comments are `/* … */` tokens; quoted
    strings are unconstrained) and no BOM/`@charset` at the start of the body.
    The canonical text (`nm`) normalises whitespace outside strings and comments — a run becomes one
    space and vanishes at the ends and next to `, > + ~` (preludes) or `, / :` (items) — so `a b` and
    `ab`, `a > b` and `a b` stay different; number/colour spellings are opaque text here (C07/C15). -/
theorem C06_style_equiv_model (cs cs' : Bool) (t : List Stmt) (h : treeG t = true)
    (hc : hasCharsetOrBom (serialize .compressed false t) = false)
    (he : hasCharsetOrBom (serialize .expanded false t) = false) :
    readTree (serialize .compressed cs t) = readTree (serialize .expanded cs' t) ∧
    readTree (serialize .expanded cs' t) = some (canonTop .expanded t) := by
  rw [readTree_serialize .compressed cs t (treeG_readable _ t h) hc,
    readTree_serialize .expanded cs' t (treeG_readable _ t h) he, treeG_canon t h]
  exact ⟨rfl, rfl⟩

example : treeG
    [.rule true [⟨false, [.compound [.text ['a']], .comb '>', .compound [.text ['b']]]⟩, ⟨false, [.compound [.placeholder ['p']]]⟩]
      (.cons (.decl ['k'] false (.list .slash [.quoted ['{', ';'], .raw ['v'], .raw []]))
        (.cons (.comment ['/', '*', ' ', 'x', ' ', '*', '/'] 2) .nil)),
     .unknown false ['f'] [] false .nil] = true := by decide +kernel

/-- The earlier, exact reader for declaration-only trees (a list of style rules, each with one
    compound selector and declarations whose names and values are single CSS words — `SRule.ok`):
    `readCss` returns the rule list of the tree verbatim (no squeezing needed: words contain no
    whitespace) from BOTH serialisations.  Kept because its canonical form is exact. -/
theorem C06_decl_only_exact_readback (t : List SRule) (h : t.all SRule.ok = true) :
    readCss (serialize .compressed false (t.map SRule.toStmt)) =
      readCss (serialize .expanded false (t.map SRule.toStmt)) ∧
    readCss (serialize .expanded false (t.map SRule.toStmt)) = some (rulesOf t) := by
  rw [readCss_serialize .compressed t h, readCss_serialize .expanded t h]
  exact ⟨rfl, rfl⟩

example : ([⟨['a'], [(['b'], ['c']), (['d'], ['e'])]⟩, ⟨['x'], []⟩] : List SRule).all SRule.ok = true := by
  decide +kernel

example : readCss (serialize .expanded false
    (([⟨['a'], [(['b'], ['c']), (['d'], ['e'])]⟩, ⟨['x'], []⟩] : List SRule).map SRule.toStmt)) =
    some [(['a'], [(['b'], ['c']), (['d'], ['e'])])] := by decide +kernel

end Grass.Serialize
