import GrassProofs.Lemmas.SerializeRead
/-
  C06 — Output style changes only formatting, never meaning or evaluation.

  Theorems about the serializer model `Grass/Serialize.lean` (tied to grass byte for byte in both
  styles by tools/props/c05.py / c06.py).

  Full statement (kept visible):
    for every stylesheet, canon (read (compile .compressed src)) = canon (read (compile .expanded src)),
    and every SassScript-visible value is the same in both runs.
  Proved here for the model: comment retention, absence of a style parameter in evaluation, and (partial)
  the read-back equality for declaration-only trees.  Number / colour spelling equivalences belong to
  C07 / C15 (values are opaque text in this model); SassScript visibility is checked on grass directly.
-/
namespace Grass.Serialize

/-- Compressed output keeps a comment exactly when it starts with `/*!`; expanded keeps every
    comment (`write_comment`, serializer.rs:998). -/
theorem C06_comment_retention (text : Str) (col ind : Nat) :
    (visitStmt .compressed ind (.comment text col)).2 =
      (if startsWith text (lit "/*!") then commentOut text col else []) ∧
    (visitStmt .expanded ind (.comment text col)).2 = spaces ind ++ commentOut text col := by
  constructor
  · unfold visitStmt
    cases h : startsWith text (lit "/*!") <;> simp [commentKept, Style.isCompressed, indentOut, h]
  · unfold visitStmt
    simp [commentKept, Style.isCompressed, indentOut]

example : (visitStmt .compressed 0 (.comment ['/', '*', ' ', 'x', ' ', '*', '/'] 0)).2 = [] ∧
    (visitStmt .compressed 0 (.comment ['/', '*', '!', 'x', '*', '/'] 0)).2 = ['/', '*', '!', 'x', '*', '/'] := by
  decide +kernel

/-- The model of the pipeline is `serialize st cs (eval src)`: evaluation produces the statement tree
    without looking at the style, so whatever `eval` is, both styles serialise the SAME tree.
    True by construction (there is no style parameter to `eval`); stated so that a model in which
    evaluation did take the style could not be substituted silently.  The as-found deviations of
    grass from this (findings C06-F1/F2/F3) are found by the direct check, not modelled. -/
theorem C06_eval_style_free {Src : Type} (eval : Src → List Stmt) (src : Src) (cs : Bool) :
    ∀ st : Style, ∃ t, t = eval src ∧ serialize st cs t = serialize st cs (eval src) :=
  fun _ => ⟨eval src, rfl, rfl⟩

/-- Full statement of the model-level style equivalence (kept visible; not proved in general):
    reading back both serialisations of ANY guarded tree gives the same canonical rule list, for a
    reader that is a left inverse of the printer.  `CssRead` (`readCss`) so far covers
    declaration-only trees, for which this is proved below. -/
def C06_style_equiv_model_full : Prop :=
  ∃ (Rules : Type) (read : Str → Option Rules) (canon : List Stmt → Rules),
    ∀ (t : List Stmt), treeOk .expanded t = true → treeOk .compressed t = true →
      read (serialize .compressed false t) = some (canon t) ∧
      read (serialize .expanded false t) = some (canon t)

/-- PARTIAL (declaration-only trees: a list of style rules, each with one compound selector and
    declarations whose names and values are single CSS words — `SRule.ok`): the reader `readCss`
    returns exactly the rule list of the tree from BOTH serialisations (print → read round trip),
    so expanded and compressed output describe the same rules, declarations and values.
    Missing for the full statement: at-rules, comments, selector lists / combinators, quoted strings
    and lists in values (the reader does not parse them yet). -/
theorem C06_style_equiv_model_partial (t : List SRule) (h : t.all SRule.ok = true) :
    readCss (serialize .compressed false (t.map SRule.toStmt)) =
      readCss (serialize .expanded false (t.map SRule.toStmt)) ∧
    readCss (serialize .expanded false (t.map SRule.toStmt)) = some (rulesOf t) := by
  rw [readCss_serialize .compressed t h, readCss_serialize .expanded t h]
  exact ⟨rfl, rfl⟩

example : ([⟨['a'], [(['b'], ['c']), (['d'], ['e'])]⟩, ⟨['x'], []⟩] : List SRule).all SRule.ok = true := by
  decide +kernel

example : readCss (serialize .expanded false
    (([⟨['a'], [(['b'], ['c']), (['d'], ['e'])]⟩, ⟨['x'], []⟩] : List SRule).map SRule.toStmt)) =
    some [(['a'], [(['b'], ['c']), (['d'], ['e'])])] := by decide +kernel

end Grass.Serialize
