import Grass.Selector
import GrassProofs.Lemmas.SelSem
import GrassProofs.Lemmas.SelWalk
import GrassProofs.Lemmas.SelPseudo
import GrassProofs.Lemmas.SelParse
import GrassProofs.Lemmas.SelParsePseudo
/-
  C11 — Selector functions are sound with respect to element matching.

  All statements quantify over *every* element context `p : Ctx` (unbounded: any type, id, class
  set, attribute map, flag set, any number of ancestors and preceding siblings).  `mComp c p` is
  "compound `c` matches the element of `p`", `matchesComplex X p` / `matchesList L p` the formal
  CSS matching semantics of Grass/Selector.lean.

  Scope of the proved statements
  * compound level (`superCompound0`, `unifyCompound`): complete, including the
    `:is(...)`-membership clause of simple.rs:370 on the right-hand side;
  * complex level: the index walk of complex.rs:141 for all four combinators (descendant, `>`,
    `+`, `~`) — for the code as it stands (`asFound = false`: with
    `compatible_with_previous_combinator`, complex.rs:289, added by fix 75edc67); the walk found
    on the pinned tree (`asFound = true`) is unsound, see `C11_asFound_walk_unsound`;
  * selector pseudos on the LEFT (`Pseudo::is_super_selector`, simple.rs:493): the arms `not` and
    `matches | is | any | where` are modelled (`superPseudo`) and proved sound together with the
    compound / complex / list levels by induction on the fuel (`C11_full_proved`); the arms
    `has | host | host-context`, `slotted`, `current`, `nth-child | nth-last-child (.. of S)` are
    outside the modelled alphabet (the model's parser answers `unsupported` for them);
  * round 3: attribute selectors with all six operators, modifiers and quoted values have the CSS
    matching semantics (`attrValMatch`), are compared by equality like grass's `Attribute::eq`
    (`C11_attrEnc_injective`, `C11_attr_super_iff_eq`) and are covered by every soundness theorem
    above (they quantify over all `Simple`); pseudos with a non-selector argument
    (`:nth-child(2n+1)`, `:lang(en)`, `::part(x)`) are opaque `.pclass` / `.pelem` names `name(arg)`
    — an opaque flag of the element — and covered likewise.
-/
namespace Grass.Selector

/-- The full property for `is-superselector` over the modelled alphabet (proved: `C11_full_proved`). -/
def C11_full : Prop :=
  ∀ (fuel : Nat) (L1 L2 : SelList) (p : Ctx),
    superList fuel false L1 L2 = true → matchesList L2 p = true → matchesList L1 p = true

/-! ### compound level -/

/-- `isSuperCompound A B → every element matched by B is matched by A` (compound.rs:69 without a
    selector pseudo in `A`; `B` arbitrary). -/
theorem C11_isSuperCompound_sound (A B : Compound) (p : Ctx)
    (h : superCompound0 A B = true) (hB : mComp B p = true) : mComp A p = true := by
  unfold superCompound0 at h
  simp only [Bool.and_eq_true, List.all_eq_true] at h
  rw [mComp_eq_all, List.all_eq_true]
  intro s hs
  exact simpleSuperOfCompound_sound s B p (h.1 s hs) hB

/-- the fuelled function of the model is `superCompound0` whenever `A` has no selector pseudo -/
theorem C11_isSuperCompound_sound_fuel (f : Nat) (af : Bool) (A B : Compound) (ps : Complex) (p : Ctx)
    (hA : noSelC A = true) (h : superCompound f af A B ps = true) (hB : mComp B p = true) :
    mComp A p = true := by
  cases f with
  | zero => simp [superCompound] at h
  | succ f => rw [superCompound_eq0 f af A B ps hA] at h; exact C11_isSuperCompound_sound A B p h hB

example : superCompound0 [.type ['a']] [.type ['a'], .cls ['x'], .sel .is [([.cls ['y']], [])]] = true := by
  decide +kernel
example : superCompound0 [.cls ['y']] [.type ['a'], .sel .is [([.cls ['y'], .cls ['x']], []), ([.cls ['y']], [])]] = true := by
  decide +kernel

theorem C11_isSuper_refl (A : Compound) : superCompound0 A A = true := superCompound0_refl A

/-- reflexivity of the complex walk, both variants, for every well-formed complex selector whose
    compounds carry no selector pseudo (fuel `≥ 2`) -/
theorem C11_isSuper_refl_complex (f : Nat) (af : Bool) (A : Complex)
    (hwf : (fwd A).isSome = true) (hA : noSelX A = true) :
    superComplex (f + 2) af A A = true := by
  have hlast : lastIsComb A = false := lastIsComb_of_fwd A hwf
  unfold superComplex
  simp only [hlast, Bool.or_self, Bool.false_eq_true, if_false]
  apply walk_refl af _ A.length A none (Nat.le_refl _) hwf
  intro c hc ps
  have hc' : noSelC c = true := by
    have := (List.all_eq_true.1 hA) _ hc
    simpa using this
  rw [superCompound_eq0 f af c c ps hc']
  exact superCompound0_refl c


example : superComplex 2 false [.compound [.type ['a']], .comb .child, .compound [.cls ['x']], .compound [.type ['b']]]
    [.compound [.type ['a']], .comb .child, .compound [.cls ['x']], .compound [.type ['b']]] = true := by decide +kernel

/-! ### complex level: the walk of complex.rs:141, specified variant -/

/-- without selector pseudos on the left the fuelled compound check is sound -/
theorem superCompound_sound_noSel (f : Nat) (af : Bool) (c d : Compound) (ps : Complex) (q : Ctx)
    (hc : noSelC c = true) (h : superCompound f af c d ps = true) (hd : mComp d q = true) :
    mComp c q = true := C11_isSuperCompound_sound_fuel f af c d ps q hc h hd

/-- **is-superselector on complex selectors, for the code as it stands** — all four combinators,
    selector pseudos (`:not`, `:is`, `:where`, `:matches`, `:any`, nested to any depth) allowed on
    both sides: if the walk answers `true`, every element context matched by `B` is matched by `A`.
    (Out of fuel the model answers `false`, so the statement holds for every fuel.) -/
theorem C11_isSuperComplex_sound (f : Nat) (A B : Complex) (p : Ctx)
    (h : superComplex f false A B = true) (hB : matchesComplex B p = true) : matchesComplex A p = true :=
  (sound_all f).2.2.1 A B p h hB

/-- list level (list.rs:254): `is-superselector(L1, L2)` -/
theorem C11_isSuperList_sound (f : Nat) (L1 L2 : SelList) (p : Ctx)
    (h : superList f false L1 L2 = true) (hB : matchesList L2 p = true) : matchesList L1 p = true :=
  (sound_all f).2.2.2 L1 L2 p h hB

theorem C11_full_proved : C11_full := fun f L1 L2 p h hB => C11_isSuperList_sound f L1 L2 p h hB

/-- compound level with selector pseudos (compound.rs:69): `parents` are the components of the
    subselector that, together with `B`, are matched at the same context (`Hps`) -/
theorem C11_superCompound_sound (f : Nat) (A B : Compound) (ps : Complex) (q : Ctx)
    (h : superCompound f false A B ps = true) (hB : mComp B q = true) (hps : Hps ps B q) : mComp A q = true :=
  (sound_all f).1 A B ps q h hB hps

/-- `Pseudo::is_super_selector` (simple.rs:493), arms `not` and `matches | is | any | where` -/
theorem C11_superPseudo_sound (f : Nat) (k : PName) (arg : List RComplex) (B : Compound) (ps : Complex) (q : Ctx)
    (h : superPseudo f false k arg B ps = true) (hB : mComp B q = true) (hps : Hps ps B q) :
    mSimple (.sel k arg) q = true :=
  (sound_all f).2.1 k arg B ps q h hB hps

-- non-vacuity: pseudos on the left, nested, with combinators
example : superComplex 8 false
    [.compound [.type ['a']], .comb .child, .compound [.sel .not [([.cls ['x']], []), ([.type ['c']], [(.desc, [.cls ['y']])])]]]
    [.compound [.type ['a'], .cls ['z']], .comb .child, .compound [.sel .not [([.cls ['x']], [])], .sel .not [([.type ['c']], [])]]]
    = true := by decide +kernel
example : superComplex 8 false
    [.compound [.sel .is [([.type ['a']], []), ([.cls ['x']], [(.child, [.type ['b']])])]]]
    [.compound [.type ['b']], .comb .child, .compound [.cls ['x'], .cls ['y']]] = true := by decide +kernel

/-- the walk with the pseudo-free compound test (used by `trim` in C10), sound for arbitrary compounds -/
theorem isSuperComplex0_sound (A B : Complex) (p : Ctx) (h : isSuperComplex0 false A B = true)
    (hB : matchesComplex B p = true) : matchesComplex A p = true := by
  unfold isSuperComplex0 at h
  split at h
  · cases h
  · obtain ⟨q, hq⟩ := (matchesComplex_iff B p).1 hB
    obtain ⟨q', hq', _⟩ := walk_sound (fun c d _ => superCompound0 c d) (fun _ => True)
      (fun c d _ q _ hs hd _ => C11_isSuperCompound_sound c d q hs hd) A.length A none B (Nat.le_refl _)
      (fun _ _ => trivial) (by intro hs; rcases hs with hs | hs | hs <;> cases hs) h q p hq
    exact (matchesComplex_iff A p).2 ⟨q', hq'⟩

private def selA : Complex := [.compound [.type ['a']], .comb .child, .compound [.type ['b']], .compound [.type ['c']]]
private def selB : Complex := [.compound [.type ['a']], .comb .child, .compound [.type ['x']], .comb .child,
  .compound [.type ['b']], .compound [.type ['c']]]
private def el (t : Name) : Elem := { type := t, id := none, classes := [], attrs := [], flags := [], pe := none }
private def ctxB : Ctx := ⟨⟨el ['c'], []⟩, [⟨el ['b'], []⟩, ⟨el ['x'], []⟩, ⟨el ['a'], []⟩]⟩

-- non-vacuity of the theorem: a `true` of the walk with sibling and child combinators
example : superComplex 3 false
    [.compound [.type ['a']], .comb .later, .compound [.cls ['x']], .compound [.type ['c']]]
    [.compound [.type ['a'], .id ['i']], .comb .next, .compound [.cls ['x'], .cls ['y']], .comb .child, .compound [.type ['c']]]
    = true := by decide +kernel

/-- **The walk found on the pinned tree was unsound** (finding C11-S1, fixed by 75edc67):
    `is-superselector("a > b c", "a > x > b c")` was `true` (components of the subselector were
    skipped after a `>`), although `c` inside `b` inside `x` inside `a` is matched by the second
    selector only.  The repaired walk answers `false` on the same input. -/
theorem C11_asFound_walk_unsound :
    superComplex 3 true selA selB = true ∧ superComplex 3 false selA selB = false ∧
    matchesComplex selB ctxB = true ∧ matchesComplex selA ctxB = false := by
  decide +kernel

/-! ### selector-unify on compounds (compound.rs:214, simple.rs:174) -/

/-- `unify A B = some C → matches C e → matches A e ∧ matches B e` -/
theorem C11_unifyCompound_sound (A B C : Compound) (p : Ctx)
    (h : unifyCompound A B = some C) (hC : mComp C p = true) : mComp A p = true ∧ mComp B p = true := by
  have := unifyCompound_sem p A B C h
  rw [hC] at this
  simpa using this.symm

/-- … and conversely: the unified compound matches *every* element matched by both -/
theorem C11_unifyCompound_complete (A B C : Compound) (p : Ctx)
    (h : unifyCompound A B = some C) (hA : mComp A p = true) (hB : mComp B p = true) : mComp C p = true := by
  rw [unifyCompound_sem p A B C h, hA, hB]; rfl

/-- `null` only when no intersection can exist: the code rejects exactly clashing types, clashing
    ids and two different pseudo-elements, and then no element is matched by both operands
    (an element has one type, at most one id, and is at most one pseudo-element). -/
theorem C11_unify_none_only_if (A B : Compound) (p : Ctx) (hB : B ≠ [])
    (h : unifyCompound A B = none) : ¬ (mComp A p = true ∧ mComp B p = true) := by
  have := unifyCompound_none p A B hB h
  intro ⟨a, b⟩; simp [a, b] at this

example : unifyCompound [.cls ['x'], .pclass ['h']] [.type ['a'], .pelem ['b']]
    = some [.type ['a'], .cls ['x'], .pclass ['h'], .pelem ['b']] := by decide +kernel
example : unifyCompound [.id ['i']] [.type ['a'], .id ['j']] = none := by decide +kernel
example : unifyCompound [.type ['b']] [.type ['a']] = none := by decide +kernel

/-! ### attribute selectors (attribute.rs): operators, modifier, equality -/

/-- The encoding of grass's `Attribute{value, modifier, op}` in one name is injective: equality of
    the model's `.attr n v` is `Attribute::eq` (attribute.rs:23 — attr, value, modifier, op). -/
theorem C11_attrEnc_injective (val val' : Name) (md md' op op' : Option Char)
    (hv : wfAttrVal val) (hv' : wfAttrVal val')
    (hm : ∀ m, md = some m → m.isAlpha = true) (hm' : ∀ m, md' = some m → m.isAlpha = true)
    (ho : ∀ o, op = some o → (attrOpOfChar o).isSome = true) (ho' : ∀ o, op' = some o → (attrOpOfChar o).isSome = true)
    (h : attrEnc val md op = attrEnc val' md' op') : val = val' ∧ md = md' ∧ op = op' := by
  obtain ⟨a1, a2, a3⟩ := attrEnc_decode val md op hv hm
  obtain ⟨b1, b2, b3⟩ := attrEnc_decode val' md' op' hv' hm'
  rw [h] at a1 a2 a3
  refine ⟨a1.symm.trans b1, ?_, ?_⟩
  · have := a2.symm.trans b2
    cases md <;> cases md' <;> simp_all
  · have h3 := a3.symm.trans b3
    cases op with
    | none =>
      cases op' with
      | none => rfl
      | some o' =>
        exfalso
        rcases attrOpChar_cases (ho' o' rfl) with e | e | e | e | e <;> subst e <;> simp [attrOpOfChar] at h3
    | some o =>
      cases op' with
      | none =>
        exfalso
        rcases attrOpChar_cases (ho o rfl) with e | e | e | e | e <;> subst e <;> simp [attrOpOfChar] at h3
      | some o' =>
        rcases attrOpChar_cases (ho o rfl) with e | e | e | e | e <;>
          rcases attrOpChar_cases (ho' o' rfl) with e' | e' | e' | e' | e' <;>
          subst e <;> subst e' <;> first | rfl | (simp [attrOpOfChar] at h3)

/-- is-superselector treats attribute selectors by equality (simple.rs:359 with `Attribute::eq`):
    between two attribute selectors the answer is `true` exactly when name, value, modifier and
    operator coincide — in particular `[t^=v]` is *not* reported a superselector of `[t=v]`
    (a conservative `false`; soundness is `C11_isSuperCompound_sound`, which covers every operator). -/
theorem C11_attr_super_iff_eq (n n' : Name) (v v' : Option Name) :
    superCompound0 [.attr n v] [.attr n' v'] = true ↔ (n = n' ∧ v = v') := by
  simp [superCompound0, simpleSuperOfCompound]

/-- the semantics of the operators is the CSS one: whatever satisfies `[t=v]` satisfies `[t~=v]`
    (for a `v` that is one word), `[t|=v]`, `[t^=v]`, `[t$=v]`, `[t*=v]` (non-empty `v`) — so
    grass's `false` between them is only conservative, never needed for soundness. -/
theorem C11_attrOp_eq_refines (op : AttrOp) (a b : Name) (hne : a ≠ []) (hws : a.any isWsC = false)
    (h : attrOpMatch .eq a b = true) : attrOpMatch op a b = true := by
  have e : a = b := by simpa [attrOpMatch] using h
  subst e
  have hw : ∀ (l : Name), l.any isWsC = false → wordsOf l = [l] := by
    intro l
    induction l with
    | nil => intro _; rfl
    | cons c cs ih =>
      intro hl
      simp only [List.any_cons, Bool.or_eq_false_iff] at hl
      simp [wordsOf, ih hl.2, hl.1]
  have hempty : a.isEmpty = false := by cases a <;> simp_all
  cases op with
  | eq => exact h
  | incl => simp [attrOpMatch, hempty, hws, hw a hws]
  | dash => simp [attrOpMatch]
  | pre => simp [attrOpMatch, hempty]
  | suf => simp [attrOpMatch, hempty]
  | sub =>
    cases a with
    | nil => exact absurd rfl hne
    | cons c cs => simp [attrOpMatch, isInfixOfC]

private def elT (v : String) : Ctx :=
  ⟨⟨{ type := ['a'], id := none, classes := [], attrs := [(['t'], v.toList)], flags := [], pe := none }, []⟩, []⟩

-- the operators on concrete elements (attribute `t` = …)
example : mSimple (.attr ['t'] (some (attrEnc ['v'] none (some '^')))) (elT "vx") = true ∧
    mSimple (.attr ['t'] (some (attrEnc ['v'] none (some '^')))) (elT "xv") = false ∧
    mSimple (.attr ['t'] (some (attrEnc ['v'] none (some '$')))) (elT "xv") = true ∧
    mSimple (.attr ['t'] (some (attrEnc ['v'] none (some '*')))) (elT "xvx") = true ∧
    mSimple (.attr ['t'] (some (attrEnc ['v'] none (some '*')))) (elT "xx") = false ∧
    mSimple (.attr ['t'] (some (attrEnc ['v'] none (some '~')))) (elT "x v y") = true ∧
    mSimple (.attr ['t'] (some (attrEnc ['v'] none (some '~')))) (elT "xv y") = false ∧
    mSimple (.attr ['t'] (some (attrEnc ['v'] (some 'i') (some '|')))) (elT "V-x") = true ∧
    mSimple (.attr ['t'] (some (attrEnc ['v'] none (some '|')))) (elT "V-x") = false ∧
    mSimple (.attr ['t'] (some (attrEnc ['v'] none (some '|')))) (elT "vx") = false ∧
    mSimple (.attr ['t'] (some (attrEnc ['v'] none none))) (elT "v") = true := by decide +kernel
-- soundness theorem applies: a `true` with operator attributes on both sides
example : superCompound0 [.attr ['t'] (some (attrEnc ['v'] (some 'i') (some '^')))]
    [.type ['a'], .attr ['t'] (some (attrEnc ['v'] (some 'i') (some '^'))), .cls ['x']] = true := by decide +kernel
example : superCompound0 [.attr ['t'] (some (attrEnc ['v'] none (some '^')))] [.attr ['t'] (some (attrEnc ['v'] none none))] = false := by
  decide +kernel
example : unifyCompound [.attr ['t'] (some (attrEnc ['v'] none (some '^')))] [.type ['a'], .attr ['t'] (some (attrEnc ['v'] none none))]
    = some [.type ['a'], .attr ['t'] (some (attrEnc ['v'] none none)), .attr ['t'] (some (attrEnc ['v'] none (some '^')))] := by decide +kernel

/-! ### selector-nest / selector-append are the nested-rule resolution -/

/-- `selector-nest(P, C)` is exactly the selector the evaluator computes for a rule `C { … }`
    nested in a rule `P { … }` (visitor → `resolve_parent_selectors(parent, true)`). -/
theorem C11_nest_eq_nested_rule (P C : SelList) (hP : P.containsParent = false) :
    selectorNest [P, C] = nestedRuleSelector P C := by
  have h1 : nestedRuleSelector [] P = .ok P := by
    simp [nestedRuleSelector, resolveParent, hP]
  simp only [selectorNest, nestFold, h1]
  cases nestedRuleSelector P C <;> rfl

/-- n-ary form: a left fold of the nested-rule resolution -/
theorem C11_nest_fold (P : SelList) (rest : List SelList) (hP : P.containsParent = false) :
    selectorNest (P :: rest) = nestFold P rest := by
  have h1 : nestedRuleSelector [] P = .ok P := by
    simp [nestedRuleSelector, resolveParent, hP]
  simp only [selectorNest, nestFold, h1]

theorem mapExcept_congr {α β ε : Type} (f g : α → Except ε β) :
    ∀ (l : List α), (∀ x ∈ l, f x = g x) → mapExcept f l = mapExcept g l := by
  intro l
  induction l with
  | nil => intro _; rfl
  | cons x xs ih =>
    intro h
    simp only [mapExcept]
    rw [h x (by simp), ih (fun y hy => h y (by simp [hy]))]

theorem mapExcept_mem {α β ε : Type} (f : α → Except ε β) :
    ∀ (l : List α) (r : List β), mapExcept f l = .ok r → ∀ y ∈ r, ∃ x ∈ l, f x = .ok y := by
  intro l
  induction l with
  | nil => intro r h y hy; simp [mapExcept] at h; subst h; simp at hy
  | cons x xs ih =>
    intro r h y hy
    simp only [mapExcept] at h
    split at h
    · cases h
    · rename_i y0 hy0
      split at h
      · cases h
      · rename_i ys hys
        cases h
        rcases List.mem_cons.1 hy with e | hm
        · subst e; exact ⟨x, by simp, hy0⟩
        · obtain ⟨x', hx', hf⟩ := ih ys hys y hm
          exact ⟨x', by simp [hx'], hf⟩

theorem appendChild_containsParent (x y : Complex) (h : appendChildComplex x = .ok y) :
    y.containsParent = true := by
  unfold appendChildComplex at h
  split at h
  · rename_i c rest
    split at h
    · rename_i c' hc'
      cases h
      have : parentInC c' = true := by
        unfold prependParent at hc'
        split at hc' <;> simp at hc' <;> subst hc' <;> simp [parentInC, parentInS]
      simp [Complex.containsParent, this]
    · cases h
  · cases h

/-- `selector-append(P, C)` is the nested rule `P { &C { … } }`: `&` is put in front of every
    complex of `C` (`prepend_parent`) and the result is resolved like a nested rule. -/
theorem C11_append_eq_suffix (P C : SelList) (hP : P ≠ []) :
    selectorAppend [P, C] =
      match mapExcept appendChildComplex C with
      | .error e => .error e
      | .ok C' => nestedRuleSelector P C' := by
  have hPe : P.isEmpty = false := by cases P <;> simp_all
  simp only [selectorAppend, appendFold, nestedRuleSelector, hPe]
  cases hC : mapExcept appendChildComplex C with
  | error e => rfl
  | ok C' =>
    simp only
    have hall : ∀ y ∈ C', resolveComplex P false y = resolveComplex P true y := by
      intro y hy
      obtain ⟨x, _, hx⟩ := mapExcept_mem _ C C' hC y hy
      have := appendChild_containsParent x y hx
      simp [resolveComplex, this]
    have : resolveParent C' (some P) false = resolveParent C' (some P) true := by
      simp only [resolveParent, mapExcept_congr _ _ C' hall]
    simp only [Bool.false_eq_true, if_false, this]
    cases resolveParent C' (some P) true <;> rfl

deriving instance DecidableEq for Except

example : selectorNest [[[.compound [.type ['a']], .compound [.type ['b']]]],
      [[.compound [.parent none, .cls ['x']]], [.compound [.type ['c']]]]]
    = .ok [[.compound [.type ['a']], .compound [.type ['b'], .cls ['x']]],
           [.compound [.type ['a']], .compound [.type ['b']], .compound [.type ['c']]]] := by decide +kernel
example : selectorAppend [[[.compound [.type ['a']]], [.compound [.cls ['y']]]], [[.compound [.type ['-', 's']]]]]
    = .ok [[.compound [.type ['a', '-', 's']]], [.compound [.cls ['y', '-', 's']]]] := by decide +kernel



/-! ### parser / printer of the driver's selector syntax -/

/-- **printer / parser round trip**, selectors without selector pseudos: for every well-formed
    list (`wfL`: non-empty list of non-empty complexes — stray, leading and doubled combinators
    allowed —, compounds that start with any simple selector and continue with non-type ones,
    names that are identifiers, attribute selectors `[n]` / `[n=ident]`) the parser reads back
    exactly what the printer wrote, with the fuel `parseSelList` itself computes.
    Round 3: attribute selectors in full (`wfAttrV`: six operators, any modifier letter, bare or
    double-quoted value) are covered.
    PARTIAL: selector pseudos inside a list (one level is proved at the simple-selector level:
    `C11_sel_parse_print_depth1_partial`; the lift needs the nested fuel accounting), pseudos with an
    opaque argument and `&` are not covered — see the statement below; those are still evaluated at
    run time on every generated selector (`sel parse` + `sel eqast`). -/
theorem C11_parse_print_roundtrip_partial (l : SelList) (hl : wfL l) : parseSelList (renderList l) = some l :=
  parse_render l hl

/-- **attribute selectors, printer / parser** (attribute.rs:110 `from_tokens`, :164 `Display`): every
    attribute selector — any of the operators `= ~= |= ^= $= *=`, any modifier letter, a value that is
    an identifier (printed bare) or not (printed double-quoted; no `"`/`\` in it, the model has no
    escapes) — is read back by the parser exactly, whatever follows the closing bracket. -/
theorem C11_attr_parse_print (n val : Name) (md op : Option Char) (rest : List Char)
    (hn : validName n) (hv : wfAttrVal val) (hm : ∀ m, md = some m → m.isAlpha = true)
    (ho : ∀ o, op = some o → (attrOpOfChar o).isSome = true) :
    pAttr ((renderS (.attr n (some (attrEnc val md op)))).drop 1 ++ rest) =
      some (.attr n (some (attrEnc val md op)), rest) := by
  rw [renderS_attr n val md op hv hm ho]
  have := pAttr_app n val md op rest hn hv hm ho
  simpa [List.append_assoc] using this

example : renderS (.attr ['t'] (some (attrEnc ['v', ' ', 'w'] (some 'i') (some '~')))) = "[t~=\"v w\" i]".toList := by
  decide +kernel
example : parseSelList "a[t |= v-x  S], [t$='q r']".toList =
    some [[.compound [.type ['a'], .attr ['t'] (some (attrEnc ['v', '-', 'x'] (some 'S') (some '|')))]],
          [.compound [.attr ['t'] (some (attrEnc ['q', ' ', 'r'] none (some '$')))]]] := by decide +kernel

/-- the printer of a pseudo's argument list (right-to-left normal form) writes exactly what the list
    printer writes for grass's component vectors, and the parser's normalisation inverts that view —
    the two facts that connect `:not(S)` as printed with `S` as parsed; all arguments, any nesting -/
theorem C11_pseudoArg_print_norm (arg : List RComplex) :
    renderArgs arg = renderList (arg.map RComplex.toComps) ∧ normAll (arg.map RComplex.toComps) = some arg :=
  ⟨renderArgs_eq_renderList arg, normAll_toComps arg⟩

/-- **printer / parser round trip of a selector pseudo, one level** (PARTIAL towards
    `C11_parse_print_roundtrip_full`): `:not(…)`, `:is(…)`, `:where(…)`, `:matches(…)`, `:any(…)` whose
    arguments are complex selectors — any length, all four combinators, comma lists — over compounds
    without a nested selector pseudo are read back exactly (through `pList` and `normAll`), whatever
    follows, with any fuel `> needL`.  Missing for the full statement: the fuel accounting that lifts
    this through compounds / complexes / lists (`needX` counts no nested need), nesting depth `> 1`, `&`. -/
theorem C11_sel_parse_print_depth1_partial (k : PName) (arg : List RComplex) (rest : List Char) (h : wfArgs arg)
    (f : Nat) (hf : needL (arg.map RComplex.toComps) ≤ f) :
    pSimple (f + 1) (renderS (.sel k arg) ++ rest) = some (.sel k arg, rest) :=
  pSimple_sel_app k arg rest h f hf

example : wfArgs [([.cls ['y']], []), ([.type ['c'], .attr ['t'] (some (attrEnc ['v'] none (some '^')))], [(.child, [.type ['b'], .pclass ['h']])])] := by
  have vn : ∀ (c0 : Char) (cs : List Char), isIdentStart c0 = true → (c0 :: cs).all isIdentChar = true → validName (c0 :: cs) :=
    fun c0 cs h1 h2 => ⟨⟨c0, cs, rfl, h1⟩, h2⟩
  refine ⟨by simp, ?_⟩
  intro r hr
  simp only [List.mem_cons, List.not_mem_nil, or_false] at hr
  rcases hr with rfl | rfl
  · exact ⟨⟨vn _ _ (by decide) (by decide), by simp⟩, by simp⟩
  · refine ⟨⟨vn _ _ (by decide) (by decide), ?_⟩, ?_⟩
    · intro t ht
      simp only [List.mem_singleton] at ht
      subst ht
      exact ⟨⟨vn _ _ (by decide) (by decide), ⟨['v'], none, some '^', rfl, by unfold wfAttrVal; decide, by simp, by simp [attrOpOfChar]⟩⟩, trivial⟩
    · intro x hx
      simp only [List.mem_singleton] at hx
      subst hx
      refine ⟨vn _ _ (by decide) (by decide), ?_⟩
      intro t ht
      simp only [List.mem_singleton] at ht
      subst ht
      exact ⟨⟨vn _ _ (by decide) (by decide), by decide⟩, trivial⟩

/-- the full round-trip statement (open): `wf` would extend `wfL` to selector pseudos whose
    arguments are well-formed in normal form, `&` with suffix, and every attribute value the
    parser accepts -/
def C11_parse_print_roundtrip_full (wf : SelList → Prop) : Prop :=
  ∀ (l : SelList), wf l → parseSelList (renderList l) = some l

example : wfL [[.compound [.type ['a'], .cls ['x'], .attr ['t'] (some (attrEnc ['v', ' ', 'w'] (some 'i') (some '^')))], .comb .child, .comb .next,
    .compound [.univ, .id ['i'], .pclass ['h'], .pelem ['b', 'e']]], [.compound [.placeholder ['p']]]] := by
  refine ⟨by simp, ?_⟩
  intro x hx
  simp only [List.mem_cons, List.mem_singleton, List.not_mem_nil, or_false] at hx
  rcases hx with rfl | rfl
  · refine ⟨?_, by simp⟩
    intro c hc
    simp only [List.mem_cons, Component.compound.injEq, List.not_mem_nil, or_false, reduceCtorEq, false_or] at hc
    have vn : ∀ (c0 : Char) (cs : List Char), isIdentStart c0 = true → (c0 :: cs).all isIdentChar = true → validName (c0 :: cs) :=
      fun c0 cs h1 h2 => ⟨⟨c0, cs, rfl, h1⟩, h2⟩
    rcases hc with rfl | rfl
    · refine ⟨vn _ _ (by decide) (by decide), ?_⟩
      intro t ht
      simp only [List.mem_cons, List.not_mem_nil, or_false] at ht
      rcases ht with rfl | rfl
      · exact ⟨vn _ _ (by decide) (by decide), trivial⟩
      · exact ⟨⟨vn _ _ (by decide) (by decide), ⟨['v', ' ', 'w'], some 'i', some '^', rfl, by unfold wfAttrVal; decide, by simp, by simp [attrOpOfChar]⟩⟩, trivial⟩
    · refine ⟨trivial, ?_⟩
      intro t ht
      simp only [List.mem_cons, List.not_mem_nil, or_false] at ht
      rcases ht with rfl | rfl | rfl
      · exact ⟨vn _ _ (by decide) (by decide), trivial⟩
      · exact ⟨⟨vn _ _ (by decide) (by decide), by decide⟩, trivial⟩
      · exact ⟨vn _ _ (by decide) (by decide), trivial⟩
  · refine ⟨?_, by simp⟩
    intro c hc
    simp only [List.mem_singleton, Component.compound.injEq] at hc
    subst hc
    exact ⟨⟨⟨_, _, rfl, by decide⟩, by decide⟩, by intro t ht; simp at ht⟩

private def rtSample : SelList :=
  [[.compound [.type ['a'], .cls ['x']], .comb .child,
    .compound [.id ['i'], .attr ['t'] (some ['v']), .sel .not [([.cls ['y']], []), ([.type ['c']], [(.desc, [.type ['b'], .pclass ['h']])])]],
    .compound [.placeholder ['p'], .pelem ['b', 'e']]],
   [.compound [.univ], .comb .later, .compound [.attr ['t'] none], .comb .next, .compound [.parent (some ['-', 's'])]]]

example : parseSelList (renderList rtSample) = some rtSample := by decide +kernel
example : renderList rtSample = "a.x > #i[t=v]:not(.y, b:h c) %p::be, * ~ [t] + &-s".toList := by decide +kernel

end Grass.Selector
