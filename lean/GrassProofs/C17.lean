import Grass.Media
/-
  C17 — Nested @media queries merge to their logical intersection.
  Property theorems.  The exclusions the property itself makes are explicit hypotheses:
  `noModOnAll` (no modifier applied to `all` / to no type) and `Excl` (“pairs of two negated
  queries of the same media type”).  Everything is about `merge true`, the code as it stands;
  `merge false` (the variant found on the pinned tree) appears only in the witness at the end.
-/
namespace Grass.Media

-- `Excl a b` (Grass/Media.lean): the pair is one the property excludes — both negated, same type.
-- `Query.adm q`: parser-shaped (`wf`) and not a modifier on `all` (`noModOnAll`).

/-- Pairwise merge, success case: the merged query is satisfied by exactly the environments
    satisfying both operands. -/
theorem C17_merge_ok_sound (a b q : Query) (e : Env)
    (ha : a.adm = true) (hb : b.adm = true) (hx : Excl a b = false)
    (h : merge true a b = .ok q) :
    q.sat e = (a.sat e && b.sat e) := by
  obtain ⟨am, at_, ac, aj⟩ := a
  obtain ⟨bm, bt, bc, bj⟩ := b
  unfold merge at h
  simp only [Query.adm, Excl, Query.wf, Query.noModOnAll, Query.matchesAllTypes, Query.isNot] at *
  rcases am with _ | am <;> rcases bm with _ | bm <;>
  rcases at_ with _ | at_ <;> rcases bt with _ | bt <;>
  cases aj <;> cases bj <;> simp_all
  all_goals (try (cases am))
  all_goals (try (cases bm))
  all_goals (try (cases at_))
  all_goals (try (cases bt))
  all_goals (try simp_all)
  all_goals (repeat' split at h)
  all_goals (first | cases h | skip)
  all_goals (try (injection h with h; subst h))
  all_goals (try simp_all [Query.sat, typeSat, condsSat, List.all_append])
  all_goals (try grind)

/-- Pairwise merge, empty case: no environment satisfies both operands. -/
theorem C17_merge_empty_sound (a b : Query) (e : Env)
    (ha : a.adm = true) (hb : b.adm = true)
    (h : merge true a b = .empty) :
    (a.sat e && b.sat e) = false := by
  obtain ⟨am, at_, ac, aj⟩ := a
  obtain ⟨bm, bt, bc, bj⟩ := b
  unfold merge at h
  simp only [Query.adm, Query.wf, Query.noModOnAll, Query.matchesAllTypes, Query.isNot, subset] at *
  rcases am with _ | am <;> rcases bm with _ | bm <;>
  rcases at_ with _ | at_ <;> rcases bt with _ | bt <;>
  cases aj <;> cases bj <;> simp_all
  all_goals (try (cases am))
  all_goals (try (cases bm))
  all_goals (try (cases at_))
  all_goals (try (cases bt))
  all_goals (try simp_all)
  all_goals (repeat' split at h)
  all_goals (first | cases h | skip)
  all_goals (try simp_all [Query.sat, typeSat, condsSat, List.all_eq_true])
  all_goals (try grind)

/-- One outer query against an inner list (inner loop of `merge_media_queries`). -/
theorem mergeRow_sound (a : Query) (e : Env) (ha : a.adm = true) :
    ∀ (bs r : List Query), (∀ b ∈ bs, b.adm = true ∧ Excl a b = false) →
      mergeRow true a bs = some r → satList r e = (a.sat e && satList bs e) := by
  intro bs
  induction bs with
  | nil => intro r _ h; simp [mergeRow] at h; subst h; simp [satList]
  | cons b bs ih =>
    intro r hb h
    have hb0 := hb b (by simp)
    have hbs : ∀ b' ∈ bs, b'.adm = true ∧ Excl a b' = false := fun b' m => hb b' (by simp [m])
    unfold mergeRow at h
    split at h
    · cases h
    · rename_i hm
      have := C17_merge_empty_sound a b e ha hb0.1 hm
      rw [ih r hbs h]
      simp only [satList, List.any_cons] at *
      cases ha' : a.sat e <;> simp_all
    · rename_i q hm
      have hq := C17_merge_ok_sound a b q e ha hb0.1 hb0.2 hm
      cases hr : mergeRow true a bs with
      | none => simp [hr] at h
      | some r' =>
        simp [hr] at h; subst h
        have := ih r' hbs hr
        simp only [satList, List.any_cons] at *
        rw [this, hq]
        cases a.sat e <;> simp

/-- **List level** (`merge_media_queries`): when the cartesian merge is representable, the
    merged list is satisfied by exactly the environments satisfying both lists. -/
theorem C17_mergeLists_sound (e : Env) :
    ∀ (as bs r : List Query),
      (∀ a ∈ as, a.adm = true) → (∀ b ∈ bs, b.adm = true) →
      (∀ a ∈ as, ∀ b ∈ bs, Excl a b = false) →
      mergeLists true as bs = some r →
      satList r e = (satList as e && satList bs e) := by
  intro as
  induction as with
  | nil => intro bs r _ _ _ h; simp [mergeLists] at h; subst h; simp [satList]
  | cons a as ih =>
    intro bs r ha hb hx h
    unfold mergeLists at h
    split at h
    · rename_i r1 rs h1 h2
      cases h
      have e1 := mergeRow_sound a e (ha a (by simp)) bs r1
        (fun b m => ⟨hb b m, hx a (by simp) b m⟩) h1
      have e2 := ih bs rs (fun a' m => ha a' (by simp [m])) hb
        (fun a' m b mb => hx a' (by simp [m]) b mb) h2
      simp only [satList, List.any_append, List.any_cons] at *
      rw [e1, e2]
      cases a.sat e <;> cases (bs.any fun x => x.sat e) <;> simp
    · cases h

/-- **The property, for the model of `visit_media_rule`**: whatever is emitted for
    `@media A { @media B { … } }` — nothing, one merged rule, or the two rules left nested — the
    body is reached by exactly the environments that satisfy both `A` and `B`. -/
theorem C17_nest_sound (e : Env) (as bs : List Query)
    (ha : ∀ a ∈ as, a.adm = true) (hb : ∀ b ∈ bs, b.adm = true)
    (hx : ∀ a ∈ as, ∀ b ∈ bs, Excl a b = false) :
    (nest true as bs).sat e = (satList as e && satList bs e) := by
  unfold nest
  cases h : mergeLists true as bs with
  | none => simp [Emitted.sat]
  | some r =>
    have := C17_mergeLists_sound e as bs r ha hb hx h
    cases r with
    | nil => simp only [Emitted.sat]; rw [← this]; simp [satList]
    | cons q r => simp [Emitted.sat, this]

/-- Dropped exactly when representable and empty: then no environment satisfies both. -/
theorem C17_dropped_means_empty (e : Env) (as bs : List Query)
    (ha : ∀ a ∈ as, a.adm = true) (hb : ∀ b ∈ bs, b.adm = true)
    (hx : ∀ a ∈ as, ∀ b ∈ bs, Excl a b = false)
    (h : nest true as bs = .dropped) : (satList as e && satList bs e) = false := by
  have := C17_nest_sound e as bs ha hb hx
  rw [h] at this; simpa [Emitted.sat] using this.symm

/-- Conditions are kept verbatim and in order when both queries are positive (text preservation
    at the level of the opaque feature ids). -/
theorem C17_conds_preserved (a b q : Query) (hn : a.isNot = false) (hn' : b.isNot = false)
    (h : merge true a b = .ok q) : q.conds = a.conds ++ b.conds := by
  obtain ⟨am, at_, ac, aj⟩ := a
  obtain ⟨bm, bt, bc, bj⟩ := b
  unfold merge at h
  simp only [Query.isNot] at *
  simp only [hn, hn'] at h
  repeat' split at h
  all_goals (first | cases h | skip)
  all_goals (try (injection h with h; subst h))
  all_goals (first | rfl | simp_all)

/-! ### chains of any length (triples and beyond), specified `through` behaviour -/

/-- A successful merge of admissible, non-excluded operands is admissible again. -/
theorem merge_ok_adm (a b q : Query) (ha : a.adm = true) (hb : b.adm = true)
    (hx : Excl a b = false) (h : merge true a b = .ok q) : q.adm = true := by
  obtain ⟨am, at_, ac, aj⟩ := a
  obtain ⟨bm, bt, bc, bj⟩ := b
  unfold merge at h
  simp only [Query.adm, Excl, Query.wf, Query.noModOnAll, Query.matchesAllTypes, Query.isNot] at *
  rcases am with _ | am <;> rcases bm with _ | bm <;>
  rcases at_ with _ | at_ <;> rcases bt with _ | bt <;>
  cases aj <;> cases bj <;> simp_all
  all_goals (try (cases am))
  all_goals (try (cases bm))
  all_goals (try (cases at_))
  all_goals (try (cases bt))
  all_goals (try simp_all)
  all_goals (repeat' split at h)
  all_goals (first | cases h | skip)
  all_goals (try (injection h with h; subst h))
  all_goals (try simp_all)

/-- Representation invariant of the visitor state: the current queries are those of the
    innermost emitted rule. -/
def ChainInv (st : ChainSt) : Prop :=
  (st.mq = none ∧ st.levels = []) ∨ (∃ pre cur, st.mq = some cur ∧ st.levels = pre ++ [cur])

def levelsSat (ls : List (List Query)) (e : Env) : Bool := ls.all (fun qs => satList qs e)

theorem chainStep_sound (e : Env) (st : ChainSt) (l : List Query)
    (hinv : ChainInv st) (hs : stepInScope st l = true) :
    match chainStep true false st l with
    | none => (levelsSat st.levels e && satList l e) = false
    | some st' => ChainInv st' ∧ levelsSat st'.levels e = (levelsSat st.levels e && satList l e) := by
  unfold chainStep
  rcases hinv with ⟨hm, hl⟩ | ⟨pre, cur, hm, hl⟩
  · simp only [hm]
    refine ⟨Or.inr ⟨st.levels, l, rfl, rfl⟩, ?_⟩
    simp [levelsSat, List.all_append]
  · simp only [hm]
    simp only [stepInScope, hm, Bool.and_eq_true, List.all_eq_true, Bool.not_eq_true'] at hs
    obtain ⟨hl_adm, hc_adm, hx⟩ := hs
    cases hr : mergeLists true cur l with
    | none =>
      refine ⟨Or.inr ⟨st.levels, l, rfl, rfl⟩, ?_⟩
      simp [levelsSat, List.all_append]
    | some r =>
      have snd := C17_mergeLists_sound e cur l r hc_adm hl_adm hx hr
      cases r with
      | nil =>
        simp only [hl, levelsSat, List.all_append, List.all_cons, List.all_nil, Bool.and_true]
        have : (satList cur e && satList l e) = false := by rw [← snd]; simp [satList]
        rw [Bool.and_assoc, this]; simp
      | cons q r =>
        refine ⟨Or.inr ⟨st.levels.dropLast, q :: r, rfl, rfl⟩, ?_⟩
        simp only [hl, levelsSat, List.dropLast_concat, List.all_append, List.all_cons,
          List.all_nil, Bool.and_true, Bool.false_eq_true, if_false]
        rw [snd, Bool.and_assoc]

/-- Admissibility is preserved along the run (needed to iterate `chainStep_sound`). -/
theorem C17_chain_sound_aux (e : Env) :
    ∀ (ls : List (List Query)) (st : ChainSt), ChainInv st → chainInScope true false st ls = true →
      match chainRun true false st ls with
      | none => (levelsSat st.levels e && ls.all (fun qs => satList qs e)) = false
      | some st' => levelsSat st'.levels e = (levelsSat st.levels e && ls.all (fun qs => satList qs e)) := by
  intro ls
  induction ls with
  | nil => intro st _ _; simp [chainRun]
  | cons l ls ih =>
    intro st hinv hsc
    simp only [chainInScope, Bool.and_eq_true] at hsc
    obtain ⟨hs, hrest⟩ := hsc
    have step := chainStep_sound e st l hinv hs
    simp only [chainRun]
    cases hst : chainStep true false st l with
    | none =>
      simp only [hst] at step
      simp only [Option.bind_none, List.all_cons]
      rw [← Bool.and_assoc, step]; simp
    | some st' =>
      simp only [hst] at step hrest
      obtain ⟨hinv', heq⟩ := step
      have := ih st' hinv' hrest
      simp only [Option.bind_some, List.all_cons]
      cases hrun : chainRun true false st' ls with
      | none => simp only [hrun] at this; rw [← Bool.and_assoc, ← heq]; exact this
      | some st'' => simp only [hrun] at this; rw [← Bool.and_assoc, ← heq]; exact this

/-- **Chains of any length** (pairs, triples, …) under the specified `through` behaviour: the
    body of `@media L₁ { @media L₂ { … @media Lₙ { body } } }` is reached by exactly the
    environments satisfying every `Lᵢ`, for every in-scope chain. -/
theorem C17_chain_sound (e : Env) (ls : List (List Query))
    (h : chainInScope true false .init ls = true) :
    (chain true false ls).sat e = ls.all (fun qs => satList qs e) := by
  have := C17_chain_sound_aux e ls .init (Or.inl ⟨rfl, rfl⟩) h
  unfold chain
  cases hrun : chainRun true false .init ls with
  | none => simp only [hrun] at this; simpa [Emitted.sat, levelsSat, ChainSt.init] using this.symm
  | some st => simp only [hrun] at this; simpa [Emitted.sat, levelsSat, ChainSt.init] using this

/-- As the code stands (`through` by query *equality*), a chain of three can lose an enclosing
    rule: `@media screen { @media screen, not screen and (f0) { @media print {…} } }`
    emits `@media print`, satisfied by a printer although the outer rule excludes it.
    (Known finding D22; the correspondence runs against this variant.) -/
theorem C17_asFound_chain_violates :
    ∃ ls, chainInScope true true .init ls = true ∧
      ∃ e : Env, (chain true true ls).sat e ≠ ls.all (fun qs => satList qs e) :=
  ⟨[[⟨none, some .screen, [], true⟩],
    [⟨none, some .screen, [], true⟩, ⟨some .not, some .screen, [0], true⟩],
    [⟨none, some .print, [], true⟩]], by decide, ⟨⟨.print, fun _ => true⟩, by decide⟩⟩

/-! ### non-vacuity: the hypotheses are met by concrete non-trivial queries -/

private def qScreenF : Query := ⟨none, some .screen, [0], true⟩
private def qNotPrint : Query := ⟨some .not, some .print, [1], true⟩
private def qOnlyScreen : Query := ⟨some .only, some .screen, [2], true⟩

example : qScreenF.adm = true ∧ qNotPrint.adm = true ∧ Excl qScreenF qNotPrint = false ∧
    merge true qScreenF qNotPrint = .ok qScreenF := by decide
example : merge true qScreenF qOnlyScreen = .ok ⟨some .only, some .screen, [0, 2], true⟩ := by decide
example : nest true [qScreenF] [⟨none, some .print, [], true⟩] = .dropped := by decide
example : nest true [⟨none, none, [0, 1], false⟩] [qScreenF]
    = .levels [[⟨none, none, [0, 1], false⟩], [qScreenF]] := by decide

/-! ### the variant found on the pinned tree (before the `fix:` commit) violates the property -/

/-- `@media not screen { @media screen {…} }`: the as-found comparison (modifiers instead of
    types) returns `screen`, which the screen device satisfies although it does not satisfy
    `not screen`. -/
theorem C17_asFound_violates :
    ∃ a b q, a.adm = true ∧ b.adm = true ∧ Excl a b = false ∧ merge false a b = .ok q ∧
      ∃ e : Env, q.sat e ≠ (a.sat e && b.sat e) :=
  ⟨⟨some .not, some .screen, [], true⟩, ⟨none, some .screen, [], true⟩,
   ⟨none, some .screen, [], true⟩, by decide, by decide, by decide, by decide,
   ⟨⟨.screen, fun _ => true⟩, by decide⟩⟩

/-! ## Round 3: text level (parser/printer of `parse/media_query.rs`, spelling-keeping merge), wrappers, D22 class -/

/-- **Text clause, merge step**: a successful text-level merge (`MediaQuery::merge` with the
    spelling selection of media.rs:208–221) invents no text: every condition of the result is a
    condition of an operand, verbatim, and its type / modifier are an operand's, as spelled. -/
theorem C17_mergeT_text_preserved (a b q : TQuery) (h : mergeT a b = .ok q) :
    q.textFrom [a, b] = true := by
  unfold mergeT at h
  simp only [finishT] at h
  repeat' split at h
  all_goals (first | cases h | skip)
  all_goals (try (injection h with h; subst h))
  all_goals simp only [TQuery.textFrom, List.any_cons, List.any_nil, Bool.or_false, Bool.and_eq_true,
    List.all_eq_true, List.all_append]
  all_goals (refine ⟨⟨?_, ?_⟩, ?_⟩)
  all_goals (try (intro c hc))
  all_goals (try (split))
  all_goals (try (cases ha : a.mtype <;> cases hb : b.mtype <;> simp_all [TQuery.ltype] <;> done))
  all_goals (try (cases ha : a.modifier <;> cases hb : b.modifier <;> simp_all [TQuery.lmod] <;> done))
  all_goals (try (simp_all [List.contains_iff_mem] <;> done))
  all_goals (try (simp only [List.mem_append] at hc; rcases hc with hc | hc <;> simp [hc] <;> done))
  all_goals (try (split at hc <;> simp_all [List.contains_iff_mem] <;> done))

example : mergeT ⟨some "ONLY".toList, some "screen".toList, ["(f0)".toList], true⟩
      ⟨none, some "Screen".toList, ["(f1)".toList], true⟩
    = .ok ⟨some "ONLY".toList, some "screen".toList, ["(f0)".toList, "(f1)".toList], true⟩ := by decide

/-- Positive text queries: the merged conditions are the operands' conditions, in order. -/
theorem C17_mergeT_conds_preserved (a b q : TQuery) (hn : a.isNot = false) (hn' : b.isNot = false)
    (h : mergeT a b = .ok q) : q.conds = a.conds ++ b.conds := by
  unfold mergeT at h
  simp only [finishT, hn, hn'] at h
  repeat' split at h
  all_goals (first | cases h | skip)
  all_goals (try (injection h with h; subst h))
  all_goals (first | rfl | simp_all)

/-! ### the parser keeps condition texts verbatim -/

def parTexts : List Tok → List (List Char)
  | [] => []
  | .par _ s :: r => s :: parTexts r
  | _ :: r => parTexts r

theorem logicSeq_conds (op : String) :
    ∀ (ts : List Tok) (cs : List (List Char)) (r : List Tok),
      logicSeq op ts = .ok (cs, r) → ∀ c ∈ cs, c ∈ parTexts ts := by
  intro ts
  fun_induction logicSeq op ts <;> intro cs r h c hc
  all_goals (try (cases h; done))
  all_goals simp_all [parTexts]
  all_goals (obtain ⟨rfl, rfl⟩ := h)
  all_goals (simp at hc)
  · rcases hc with rfl | hc
    · simp
    · rename_i ih _; exact Or.inr (ih c hc)
  · simp [hc]
  · simp [hc]

def condFrom (ts : List Tok) (c : List Char) : Prop :=
  c ∈ parTexts ts ∨ ∃ s ∈ parTexts ts, c = notWrap s

theorem afterAnd_conds (m t : Option (List Char)) (ts : List Tok) (q : TQuery) (r : List Tok)
    (h : afterAnd m t ts = .ok (q, r)) : ∀ c ∈ q.conds, condFrom ts c := by
  unfold afterAnd at h
  split at h
  · cases h
  · split at h
    · split at h
      · split at h
        · injection h with h; injection h with h1 h2; subst h1
          intro c hc; simp at hc; subst hc
          exact Or.inr ⟨_, by simp [parTexts], rfl⟩
        · cases h
      · cases h
    · split at h
      · rename_i cs r' hl
        injection h with h; injection h with h1 h2; subst h1
        intro c hc
        exact Or.inl (logicSeq_conds "and" ts cs r' hl c hc)
      · cases h

theorem parTexts_cons_sub (t : Tok) (ts : List Tok) (c : List Char) (h : condFrom ts c) : condFrom (t :: ts) c := by
  have sub : ∀ x, x ∈ parTexts ts → x ∈ parTexts (t :: ts) := by
    intro x hx; cases t <;> simp [parTexts, hx]
  rcases h with h | ⟨s, hs, rfl⟩
  · exact Or.inl (sub _ h)
  · exact Or.inr ⟨s, sub _ hs, rfl⟩

theorem afterIdent1_conds (i1 : List Char) (ts : List Tok) (q : TQuery) (r : List Tok)
    (h : afterIdent1 i1 ts = .ok (q, r)) : ∀ c ∈ q.conds, condFrom ts c := by
  unfold afterIdent1 at h
  repeat' split at h
  all_goals (try (injection h with h; injection h with h1 h2; subst h1; intro c hc; simp at hc; done))
  · intro c hc; exact parTexts_cons_sub _ _ _ (afterAnd_conds _ _ _ _ _ h c hc)
  · intro c hc; exact parTexts_cons_sub _ _ _ (parTexts_cons_sub _ _ _ (afterAnd_conds _ _ _ _ _ h c hc))

/-- **Text clause, parser** (`parse_media_query`, media_query.rs:43, on the scanned tokens): every
    condition of the parsed query is the text of a `( … )` token of the input, verbatim and
    untouched, or — for `not ( … )` — that text wrapped as `(not …)` (media_query.rs:70, :109). -/
theorem C17_parse_conds_verbatim (ts : List Tok) (q : TQuery) (r : List Tok)
    (h : parseQuery ts = .ok (q, r)) : ∀ c ∈ q.conds, condFrom ts c := by
  unfold parseQuery at h
  repeat' split at h
  all_goals (first | cases h; done | skip)
  · rename_i cs r' hl
    injection h with h; injection h with h1 h2; subst h1
    intro c hc; simp at hc
    rcases hc with rfl | hc
    · exact Or.inl (by simp [parTexts])
    · exact parTexts_cons_sub _ _ _ (parTexts_cons_sub _ _ _ (Or.inl (logicSeq_conds "and" _ cs r' hl c hc)))
  · rename_i cs r' hl
    injection h with h; injection h with h1 h2; subst h1
    intro c hc; simp at hc
    rcases hc with rfl | hc
    · exact Or.inl (by simp [parTexts])
    · exact parTexts_cons_sub _ _ _ (parTexts_cons_sub _ _ _ (Or.inl (logicSeq_conds "or" _ cs r' hl c hc)))
  · injection h with h; injection h with h1 h2; subst h1
    intro c hc; simp at hc; subst hc; exact Or.inl (by simp [parTexts])
  · injection h with h; injection h with h1 h2; subst h1
    intro c hc; simp at hc; subst hc; exact Or.inl (by simp [parTexts])
  · injection h with h; injection h with h1 h2; subst h1
    intro c hc; simp at hc; subst hc; exact Or.inr ⟨_, by simp [parTexts], rfl⟩
  · intro c hc; exact parTexts_cons_sub _ _ _ (afterIdent1_conds _ _ _ _ h c hc)
  · intro c hc; exact parTexts_cons_sub _ _ _ (afterIdent1_conds _ _ _ _ h c hc)

example : parseQuery [.id false "screen".toList, .id true "AND".toList, .par true "(f0)".toList,
      .id false "and".toList, .par true "( f1 )".toList]
    = .ok (⟨none, some "screen".toList, ["(f0)".toList, "( f1 )".toList], true⟩, []) := by rfl

/-! ### wrappers: which enclosing `@media` lists take part (`@at-root (without: media)`) -/

/-- **Only the not-escaped chain matters**: whatever encloses an `@at-root (without: media)` —
    as long as it is reached at all — the emitted media rules below it are those of the items
    that follow, run from the empty media context. -/
theorem C17_escape_resets (byEq : Bool) :
    ∀ (pre : List Item) (st : TChainSt) (post : List Item),
      chainRunT byEq st (pre ++ .escape :: post) =
        match chainRunT byEq st pre with
        | .ok _ => chainRunT byEq .init post
        | r => r := by
  intro pre
  induction pre with
  | nil => intro st post; simp [chainRunT]
  | cons it pre ih =>
    intro st post
    cases it with
    | media t =>
      simp only [List.cons_append, chainRunT]
      split
      · rfl
      · split
        · rfl
        · exact ih _ _
    | style => simpa [chainRunT] using ih st post
    | barrier => simpa [chainRunT] using ih _ post
    | onlyMedia => simpa [chainRunT] using ih _ post
    | escape => simpa [chainRunT] using ih _ post

/-- Style rules (and `@at-root` that keeps the media context) do not take part. -/
theorem C17_style_transparent (byEq : Bool) (st : TChainSt) (is : List Item) :
    chainRunT byEq st (.style :: is) = chainRunT byEq st is := rfl

example : (match chainRunT true .init [.media "screen".toList, .escape, .media "print".toList] with
    | .ok st => st.levels.length | _ => 0) = 1 := by rfl

/-! ### D22: exactly when the as-found `through` test differs from the specified one -/

/-- **Exact step characterisation**: with the innermost level `cur` among the sources (it always
    is: `srcs' = srcs ++ cur ++ l`), the as-found pop removes exactly the innermost level — the
    specified behaviour — unless the next level out is also covered by the sources (`overPop`),
    and then it removes strictly more. -/
theorem C17_popThrough_exact (srcs : List Query) (pre : List (List Query)) (cur : List Query)
    (hc : cur.all (fun q => srcs.contains q) = true) :
    popThrough srcs (pre ++ [cur]) =
      if overPop srcs (pre ++ [cur]) then popThrough srcs pre else (pre ++ [cur]).dropLast := by
  unfold popThrough overPop
  simp only [List.reverse_append, List.reverse_cons, List.reverse_nil, List.nil_append,
    List.singleton_append, List.dropLast_concat]
  rw [List.dropWhile_cons_of_pos (by simpa using hc)]
  rcases List.eq_nil_or_concat pre with rfl | ⟨pre', l, rfl⟩
  · simp
  · by_cases hl : (l.all fun q => srcs.contains q) = true
    · simp
      intro x hx hn
      exact absurd (by simpa using (List.all_eq_true.mp hl x hx)) hn
    · simp
      intro x hx hn
      rw [List.dropWhile_cons_of_neg]
      simp only [List.all_eq_true, decide_eq_true_eq]
      exact fun hall => hn (hall x hx)

/-- A step of the as-found visitor equals the specified step when no over-pop happens. -/
theorem chainStep_asFound_eq (st : ChainSt) (l : List Query) (hinv : ChainInv st)
    (h : ∀ cur, st.mq = some cur → overPop (st.srcs ++ cur ++ l) st.levels = false) :
    chainStep true true st l = chainStep true false st l := by
  unfold chainStep
  rcases hinv with ⟨hm, _⟩ | ⟨pre, cur, hm, hl⟩
  · simp [hm]
  · simp only [hm]
    split
    · rfl
    · have hc : cur.all (fun q => (st.srcs ++ cur ++ l).contains q) = true := by
        simp only [List.all_eq_true, List.contains_iff_mem]
        intro q hq; simp [hq]
      have := C17_popThrough_exact (st.srcs ++ cur ++ l) pre cur hc
      have hop := h cur hm
      rw [hl] at hop ⊢
      simp only [hop, Bool.false_eq_true, if_false, List.dropLast_concat] at this
      simp only [if_true, List.dropLast_concat, this]
      simp
    · rfl

example : overPop [⟨none, some .screen, [], true⟩] [[⟨none, some .screen, [], true⟩], [⟨none, some .print, [], true⟩]] = true := by decide

theorem chainStep_inv (st : ChainSt) (l : List Query) (st' : ChainSt) (hinv : ChainInv st)
    (h : chainStep true false st l = some st') : ChainInv st' := by
  unfold chainStep at h
  rcases hinv with ⟨hm, _⟩ | ⟨pre, cur, hm, hl⟩
  · simp only [hm] at h; injection h with h; subst h; exact Or.inr ⟨_, _, rfl, rfl⟩
  · simp only [hm] at h
    split at h
    · cases h
    · injection h with h; subst h; exact Or.inr ⟨_, _, rfl, rfl⟩
    · injection h with h; subst h; exact Or.inr ⟨_, _, rfl, rfl⟩

theorem chainRun_asFound_eq : ∀ (ls : List (List Query)) (st : ChainSt), ChainInv st →
    noOverPop st ls = true → chainRun true true st ls = chainRun true false st ls := by
  intro ls
  induction ls with
  | nil => intro st _ _; rfl
  | cons l ls ih =>
    intro st hinv h
    simp only [noOverPop, Bool.and_eq_true] at h
    have e := chainStep_asFound_eq st l hinv (by
      intro cur hm; have := h.1; simp only [hm] at this; simpa using this)
    simp only [chainRun, e]
    cases hst : chainStep true false st l with
    | none => rfl
    | some st' =>
      simp only [Option.bind_some]
      have h2 := h.2; simp only [hst] at h2
      exact ih st' (chainStep_inv st l st' hinv hst) h2

/-- **As-found soundness outside the D22 class**: the code as it stands (`through` by query
    equality) emits exactly the intersection for every in-scope chain along which no merge step
    finds the next enclosing level covered by the merged sources (`noOverPop`, decidable). -/
theorem C17_asFound_chain_sound (e : Env) (ls : List (List Query))
    (hs : chainInScope true false .init ls = true) (hn : noOverPop .init ls = true) :
    (chain true true ls).sat e = ls.all (fun qs => satList qs e) := by
  have := C17_chain_sound e ls hs
  unfold chain at this ⊢
  rw [chainRun_asFound_eq ls .init (Or.inl ⟨rfl, rfl⟩) hn]
  exact this

example : noOverPop .init [[⟨none, some .screen, [0], true⟩], [⟨none, none, [1], true⟩], [⟨some .only, some .screen, [2], true⟩]] = true := by decide
/-- The D22 witness is inside the class (`noOverPop` fails for it). -/
example : noOverPop .init [[⟨none, some .screen, [], true⟩],
    [⟨none, some .screen, [], true⟩, ⟨some .not, some .screen, [0], true⟩],
    [⟨none, some .print, [], true⟩]] = false := by decide

end Grass.Media
