import GrassProofs.Lemmas.CalcFns
import GrassProofs.Lemmas.CalcKnown
import GrassProofs.Lemmas.CalcParse2
import GrassProofs.Lemmas.CalcParse3
/-
  C16 — calc()/min()/max()/clamp() simplification preserves the computed value.

  Model: Grass/Calc.lean (written from calculation.rs, sass_number.rs, number.rs, unit/, visitor.rs,
  serializer.rs).  `evalCalc ρ a : Option Rat` is the quantity an expression denotes under the unit
  environment `ρ` (`none` = division by zero / an opaque operand without value).  Because `ρ` also
  scales px, deg and s, "equal under every ρ" includes dimensional homogeneity: `3` and `3px` differ.

  Scope guards, all explicit and decidable:
    * `ρ.wf` — every unit resolves to a positive length/angle/time;
    * `o.coerced = false` — the simplification did not use Sass's legacy rule that inside min()/max() a
      unitless number combines with any unit (`is_comparable_to`, calculation.rs:97,141,341); such
      sources have no CSS value to preserve;
    * `cfg.clampCss = true` — `clamp` with the `MAX < MIN → MIN` test, i.e. the code as it stands
      (`Cfg.now`, after `fix:` 26a5ec6); the cascade found before (`Cfg.asFound`) differs when
      `MAX < MIN < VAL` (D40, witness `C16_asFound_clamp_order`);
    * division by zero is the outcome `err nonFinite` (the real code prints `Infinitypx`/`NaN`), so an
      `ok` result never contains one.
-/
namespace Grass.Calc

theorem applyName_value (ρ : Env) (hw : ρ.wf) (cfg : Cfg) (hcss : cfg.clampCss = true) (nm : CName)
    (l : List CalcArg) (o : Out) (h : applyName cfg nm l = .ok o) (hco : o.coerced = false) :
    evalCalc ρ o.arg = evalCalc ρ (.calculation nm (CalcArgs.ofList l)) := by
  cases nm <;> simp only [applyName] at h
  · split at h
    · cases h; exact calcFn_value ρ _
    · cases h
  · exact extremumFn_value ρ hw cfg false l o h hco
  · exact extremumFn_value ρ hw cfg true l o h hco
  · exact clampFn_value ρ hw cfg hcss l o h hco

mutual
theorem visitValue_value (ρ : Env) (hw : ρ.wf) (cfg : Cfg) (hcss : cfg.clampCss = true) :
    ∀ (a : CalcArg) (imm : Bool) (o : Out), visitValue cfg imm a = .ok o → o.coerced = false →
      evalCalc ρ o.arg = evalCalc ρ a
  | .number n u, imm, o, h, _ => by simp only [visitValue] at h; cases h; rfl
  | .str id p, imm, o, h, _ => by simp only [visitValue] at h; cases h; rfl
  | .interp id, imm, o, h, _ => by simp only [visitValue] at h; cases h; rfl
  | .operation l op r, imm, o, h, hco => by
    simp only [visitValue] at h
    cases hl : visitValue cfg imm l with
    | err e => simp [hl] at h
    | panic => simp [hl] at h
    | ok l' =>
      cases hr : visitValue cfg imm r with
      | err e => simp [hl, hr] at h
      | panic => simp [hl, hr] at h
      | ok r' =>
        cases hop : operate cfg imm op l'.arg r'.arg with
        | err e => simp [hl, hr, hop] at h
        | panic => simp [hl, hr, hop] at h
        | ok o' =>
          simp [hl, hr, hop] at h
          subst h
          simp at hco
          have e1 := visitValue_value ρ hw cfg hcss l imm l' hl hco.1.2
          have e2 := visitValue_value ρ hw cfg hcss r imm r' hr hco.2
          have e3 := operate_value ρ hw cfg imm op l'.arg r'.arg o' hop hco.1.1
          simp only []
          rw [e3]
          exact eval_operation_congr ρ l r l'.arg r'.arg op e1 e2
  | .calculation nm as, imm, o, h, hco => by
    simp only [visitValue] at h
    cases ha : visitArgs cfg nm.inMinMax as with
    | err e => simp [ha] at h
    | panic => simp [ha] at h
    | ok p =>
      obtain ⟨l, co⟩ := p
      cases hn : applyName cfg nm l with
      | err e => simp [ha, hn] at h
      | panic => simp [ha, hn] at h
      | ok o' =>
        simp [ha, hn] at h
        subst h
        simp at hco
        have e1 := visitArgs_value ρ hw cfg hcss as nm.inMinMax l co ha hco.2
        have e2 := applyName_value ρ hw cfg hcss nm l o' hn hco.1
        simp only []
        rw [e2]
        exact eval_calculation_congr ρ nm _ _ e1
theorem visitArgs_value (ρ : Env) (hw : ρ.wf) (cfg : Cfg) (hcss : cfg.clampCss = true) :
    ∀ (as : CalcArgs) (imm : Bool) (l : List CalcArg) (co : Bool), visitArgs cfg imm as = .ok (l, co) →
      co = false → evalArgs ρ (CalcArgs.ofList l) = evalArgs ρ as
  | .nil, imm, l, co, h, _ => by simp only [visitArgs] at h; cases h; rfl
  | .cons a as, imm, l, co, h, hco => by
    simp only [visitArgs] at h
    cases ha : visitValue cfg imm a with
    | err e => simp [ha] at h
    | panic => simp [ha] at h
    | ok a' =>
      cases has : visitArgs cfg imm as with
      | err e => simp [ha, has] at h
      | panic => simp [ha, has] at h
      | ok p =>
        obtain ⟨l', co'⟩ := p
        simp [ha, has] at h
        obtain ⟨h1, h2⟩ := h
        subst h1; subst h2
        simp at hco
        have e1 := visitValue_value ρ hw cfg hcss a imm a' ha hco.1
        have e2 := visitArgs_value ρ hw cfg hcss as imm l' co' has hco.2
        simp only [CalcArgs.ofList, evalArgs, e1, e2]
end

/-! ### no crash: every unit conversion the simplifier performs is between comparable units -/

theorem applyName_no_panic (cfg : Cfg) (hg : cfg.clampGuarded = true) (nm : CName) (l : List CalcArg) :
    applyName cfg nm l ≠ .panic := by
  cases nm <;> simp only [applyName]
  · split <;> simp
  · exact extremumFn_no_panic cfg false l
  · exact extremumFn_no_panic cfg true l
  · exact clampFn_no_panic cfg hg l

mutual
theorem visitValue_no_panic (cfg : Cfg) (hg : cfg.clampGuarded = true) :
    ∀ (a : CalcArg) (imm : Bool), visitValue cfg imm a ≠ .panic
  | .number n u, imm => by simp [visitValue]
  | .str id p, imm => by simp [visitValue]
  | .interp id, imm => by simp [visitValue]
  | .operation l op r, imm => by
    have hl := visitValue_no_panic cfg hg l imm
    have hr := visitValue_no_panic cfg hg r imm
    simp only [visitValue]
    cases h1 : visitValue cfg imm l with
    | panic => exact absurd h1 hl
    | err e => simp
    | ok l' =>
      cases h2 : visitValue cfg imm r with
      | panic => exact absurd h2 hr
      | err e => simp
      | ok r' =>
        cases h3 : operate cfg imm op l'.arg r'.arg with
        | panic => exact absurd h3 (operate_no_panic cfg imm op _ _)
        | err e => simp [h3]
        | ok o => simp [h3]
  | .calculation nm as, imm => by
    have ha := visitArgs_no_panic cfg hg as nm.inMinMax
    simp only [visitValue]
    cases h1 : visitArgs cfg nm.inMinMax as with
    | panic => exact absurd h1 ha
    | err e => simp
    | ok p =>
      obtain ⟨l, co⟩ := p
      cases h2 : applyName cfg nm l with
      | panic => exact absurd h2 (applyName_no_panic cfg hg nm l)
      | err e => simp [h2]
      | ok o => simp [h2]
theorem visitArgs_no_panic (cfg : Cfg) (hg : cfg.clampGuarded = true) :
    ∀ (as : CalcArgs) (imm : Bool), visitArgs cfg imm as ≠ .panic
  | .nil, imm => by simp [visitArgs]
  | .cons a as, imm => by
    have h1 := visitValue_no_panic cfg hg a imm
    have h2 := visitArgs_no_panic cfg hg as imm
    simp only [visitArgs]
    cases e1 : visitValue cfg imm a with
    | panic => exact absurd e1 h1
    | err e => simp
    | ok a' =>
      cases e2 : visitArgs cfg imm as with
      | panic => exact absurd e2 h2
      | err e => simp
      | ok p => obtain ⟨l, co⟩ := p; simp
end

/-- **never_unguarded_convert** (unit level): `Number::convert` is defined (no `HashMap` index panic, no
    failed `debug_assert!`) whenever the two units are comparable, in either argument order. -/
theorem C16_never_unguarded_convert (x : Rat) (frm to : CUnit)
    (h : comparable frm to = true ∨ comparable to frm = true) : (convert x frm to).isSome = true := by
  rcases h with h | h
  · exact convert_isSome_of_comparable x frm to h
  · exact convert_isSome_of_comparable' x frm to h

example : comparable (CUnit.single .cm) (CUnit.single .px) = true ∧
    convert 1 (CUnit.single .cm) (CUnit.single .px) = some (4800 / 127) := by decide +kernel

/-- **never_unguarded_convert** (whole simplifier; feeds C01): with the guard of the current code
    (`has_compatible_units` in `clamp`), no calculation expression makes the simplifier panic. -/
theorem C16_never_panics (cfg : Cfg) (hg : cfg.clampGuarded = true) (src : CalcArg) :
    compile cfg src ≠ .panic := by
  intro h
  unfold compile at h
  rcases Res.bind_eq_panic.mp h with hp | ⟨o, _, hp⟩
  · exact visitValue_no_panic cfg hg src false hp
  · split at hp <;> cases hp

private def d1Src : CalcArg :=
  .calculation .clamp (.cons (.number 1 CUnit.none) (.cons (.number 2 (CUnit.single .px))
    (.cons (.number 3 (CUnit.single .em)) .nil)))

def Res.isPanic {α : Type} : Res α → Bool
  | .panic => true
  | _ => false

/-- The guard found on the pinned tree (`is_comparable_to`, D1): `clamp(1, 2px, 3em)` converts em to
    px and panics.  With the current guard the same input is left as `clamp(1, 2px, 3em)`. -/
theorem C16_asFound_clamp_unguarded :
    (compile Cfg.asFoundD1 d1Src).isPanic = true ∧ (compile Cfg.now d1Src).isPanic = false := by
  constructor <;> decide +kernel

/-! ### value preservation -/

/-- conversion factors are the CSS ratios: a table entry `to ← from` times the size of `to` is the size
    of `from`, in every environment. -/
theorem C16_table_ratio (ρ : Env) (to frm : BU) (f : Rat) (h : table to frm = some f) :
    f * to.size ρ = frm.size ρ := table_ratio ρ to frm f h

example : table .px .inch = some 96 := by decide +kernel

/-- **sign_flip_sound**: replacing `a + (-b)` by `a - b` and `a - (-b)` by `a + b` keeps the value. -/
theorem C16_sign_flip_sound (ρ : Env) (l : CalcArg) (op : Op) (n : Rat) (u : CUnit)
    (hop : op = .plus ∨ op = .minus) :
    evalCalc ρ (.operation l op.flip (.number (-n) u)) = evalCalc ρ (.operation l op (.number n u)) :=
  sign_flip_value ρ l op n u hop

/-- **operate_preserves_value**: whatever `operate_internal` returns — a folded number (with unit
    conversion and unit cancellation), an operation with the sign of a negative right operand
    flipped, or the operation unchanged — denotes the same quantity as `l op r`, in every environment. -/
theorem C16_operate_value (ρ : Env) (hw : ρ.wf) (cfg : Cfg) (imm : Bool) (op : Op) (l r : CalcArg) (o : Out)
    (h : operate cfg imm op l r = .ok o) (hco : o.coerced = false) :
    evalCalc ρ o.arg = evalCalc ρ (.operation l op r) :=
  operate_value ρ hw cfg imm op l r o h hco

example : operate Cfg.now false .plus (.number 1 (CUnit.single .inch)) (.number 1 (CUnit.single .cm))
    = .ok ⟨.number (177 / 127) (CUnit.single .inch), false⟩ := by decide +kernel
example : operate Cfg.now false .minus (.number 1 (CUnit.single .px)) (.number (-2) (CUnit.single .em))
    = .ok ⟨.operation (.number 1 (CUnit.single .px)) .plus (.number 2 (CUnit.single .em)), false⟩ := by
  decide +kernel

/-- **min_max_reduce_sound**, value part: the result of `min()`/`max()` — reduced to a number or kept
    as a calculation — denotes the ordinary minimum/maximum of the arguments. -/
theorem C16_min_max_value (ρ : Env) (hw : ρ.wf) (cfg : Cfg) (isMax : Bool) (args : List CalcArg) (o : Out)
    (h : extremumFn cfg isMax args = .ok o) (hco : o.coerced = false) :
    evalCalc ρ o.arg = evalCalc ρ (.calculation (if isMax then .max else .min) (CalcArgs.ofList args)) :=
  extremumFn_value ρ hw cfg isMax args o h hco

/-- **min_max_reduce_sound**, structural part: `min()`/`max()` reduce to a number only when every
    argument is a number, and (absent coercion) all their units are compatible with the result's. -/
theorem C16_min_max_reduce_only_numbers (cfg : Cfg) (isMax : Bool) (args : List CalcArg)
    (n : Rat) (u : CUnit) (co : Bool) (h : extremumFn cfg isMax args = .ok ⟨.number n u, co⟩) :
    (∀ a ∈ args.map simplify, ∃ m v, a = .number m v) ∧
    (co = false → ∀ m v, CalcArg.number m v ∈ args.map simplify → compatible v u = true) := by
  unfold extremumFn at h
  simp only [] at h
  generalize args.map simplify = A at h ⊢
  obtain ⟨⟨m, co'⟩, hloop, ho⟩ := Res.bind_eq_ok.mp h
  cases m with
  | none =>
    simp only [] at ho
    obtain ⟨_, _, ho⟩ := Res.bind_eq_ok.mp ho
    cases isMax <;> cases ho
  | some r =>
    simp only [] at ho
    injection ho with ho; injection ho with e1 e2
    injection e1 with e3 e4
    subst e2
    cases A with
    | nil => simp [extremumLoop] at hloop
    | cons a rest =>
      cases a <;> simp only [extremumLoop] at hloop <;> try (simp at hloop; done)
      rename_i n0 u0
      refine ⟨fun a ha => ?_, fun hco m v hm => ?_⟩
      · rcases List.mem_cons.mp ha with e | e
        · exact ⟨n0, u0, e⟩
        · exact extremumLoop_all_numbers isMax rest _ r co' hloop a e
      · subst hco
        obtain ⟨c1, c2⟩ := extremumLoop_compat isMax rest ⟨n0, u0⟩ r hloop
        rw [← e4]
        rcases List.mem_cons.mp hm with e | e
        · injection e with e5 e6; subst e6; exact c1
        · exact compatible_trans _ _ _ (compatible_symm _ _ (c2 m v e)) c1

example : extremumFn Cfg.now false [.number 1 (CUnit.single .inch), .number 95 (CUnit.single .px)]
    = .ok ⟨.number 95 (CUnit.single .px), false⟩ := by decide +kernel

/-- **clamp_reduce_sound** (specified variant): the result of `clamp()` denotes
    `max(MIN, min(VAL, MAX))`. -/
theorem C16_clamp_value (ρ : Env) (hw : ρ.wf) (cfg : Cfg) (hcss : cfg.clampCss = true)
    (args : List CalcArg) (o : Out) (h : clampFn cfg args = .ok o) (hco : o.coerced = false) :
    evalCalc ρ o.arg = evalCalc ρ (.calculation .clamp (CalcArgs.ofList args)) :=
  clampFn_value ρ hw cfg hcss args o h hco

/-- where the cascade found before `fix:` 26a5ec6 and the current one agree: everywhere except
    `MAX < MIN < VAL` (MAX in MIN's unit, MIN in VAL's unit). -/
theorem C16_clamp_old_eq_now (cfg : Cfg) (mn v mx : Num)
    (hs : (convert mx.n mx.u mn.u).isSome = true)
    (h : ∀ mn' mxm, convert mn.n mn.u v.u = some mn' → convert mx.n mx.u mn.u = some mxm →
          ¬ (mxm < mn.n ∧ mn' < v.n)) :
    clampReduce { cfg with clampCss := false } mn v mx = clampReduce { cfg with clampCss := true } mn v mx := by
  unfold clampReduce
  cases h1 : convert mn.n mn.u v.u <;> cases h2 : convert mx.n mx.u v.u <;> simp only []
  rename_i mn' mx'
  cases h3 : convert mx.n mx.u mn.u with
  | none => simp [h3] at hs
  | some mxm =>
    have := h mn' mxm h1 h3
    by_cases c1 : v.n ≤ mn'
    · simp [c1]
    · have c1' : mn' < v.n := Rat.not_le.mp c1
      have c2 : ¬ mxm < mn.n := fun x => this ⟨x, c1'⟩
      simp [c1, c2]

private def d40Src : CalcArg :=
  .calculation .clamp (.cons (.number 5 (CUnit.single .px)) (.cons (.number 10 (CUnit.single .px))
    (.cons (.number 3 (CUnit.single .px)) .nil)))

/-- D40 (fixed in /repo by 26a5ec6): the cascade found before (`value <= min → min; value >= max →
    max`) turned `clamp(5px, 10px, 3px)` into `3px`; CSS `max(5px, min(10px, 3px))` is `5px`, which is
    what the code as it stands gives. -/
theorem C16_asFound_clamp_order :
    compile Cfg.asFound d40Src = .ok ⟨.number 3 (CUnit.single .px), false⟩ ∧
    compile Cfg.now d40Src = .ok ⟨.number 5 (CUnit.single .px), false⟩ ∧
    evalCalc Env.unit (.number 3 (CUnit.single .px)) ≠ evalCalc Env.unit d40Src := by
  refine ⟨by decide +kernel, by decide +kernel, by decide +kernel⟩

/-- **The property for the model of the whole pipeline** (`visit_calculation_expr` →
    `operate_internal`/`min`/`max`/`clamp`/`calc` → serializer check): if an expression compiles, the
    emitted number or calculation denotes the same quantity as the source, under every unit
    environment. -/
theorem C16_compile_value (ρ : Env) (hw : ρ.wf) (cfg : Cfg) (hcss : cfg.clampCss = true)
    (src : CalcArg) (o : Out) (h : compile cfg src = .ok o) (hco : o.coerced = false) :
    evalCalc ρ o.arg = evalCalc ρ src := by
  unfold compile at h
  obtain ⟨o', hv, hp⟩ := Res.bind_eq_ok.mp h
  split at hp
  · cases hp; exact visitValue_value ρ hw cfg hcss src false o hv hco
  · cases hp

/-- **The property for the code as it stands** (`Cfg.now`): no switch left to assume. -/
theorem C16_compile_value_now (ρ : Env) (hw : ρ.wf) (src : CalcArg) (o : Out)
    (h : compile Cfg.now src = .ok o) (hco : o.coerced = false) :
    evalCalc ρ o.arg = evalCalc ρ src :=
  C16_compile_value ρ hw Cfg.now rfl src o h hco

/-- the code as it stands never panics on a calculation. -/
theorem C16_never_panics_now (src : CalcArg) : compile Cfg.now src ≠ .panic :=
  C16_never_panics Cfg.now rfl src

private def exSrc : CalcArg :=
  .calculation .calc (.cons (.operation (.operation (.number 1 (CUnit.single .inch)) .plus
    (.number 1 (CUnit.single .cm))) .minus (.operation (.number 2 (CUnit.single .em)) .mul (.number (-3) CUnit.none))) .nil)

example : compile Cfg.spec exSrc = .ok ⟨.calculation .calc (.cons (.operation
    (.number (177 / 127) (CUnit.single .inch)) .plus (.number 6 (CUnit.single .em))) .nil), false⟩ := by
  decide +kernel

/-- a fully-known expression reduces to the number ordinary arithmetic gives (corollary of the above:
    when the output is a number its value is the source's value). -/
theorem C16_known_units_plain_number (ρ : Env) (hw : ρ.wf) (cfg : Cfg) (hcss : cfg.clampCss = true)
    (src : CalcArg) (n : Rat) (u : CUnit)
    (h : compile cfg src = .ok ⟨.number n u, false⟩) :
    evalCalc ρ src = some (n * unitVal ρ u) := by
  have := C16_compile_value ρ hw cfg hcss src _ h rfl
  simpa [evalCalc] using this.symm

/-! ### known, mutually convertible units reduce to a plain number (round 3: the whole unit table) -/

/-- every pair of units of one convertible family has a table entry: lengths (px in cm mm q pt pc),
    angles (deg grad rad turn), times (s ms), frequencies (Hz kHz), resolutions (dpi dpcm dppx). -/
theorem C16_table_total (a b : BU) (hk : a.kind = b.kind)
    (hc : a.kind = .absolute ∨ a.kind = .angle ∨ a.kind = .time ∨ a.kind = .frequency ∨ a.kind = .resolution) :
    (table a b).isSome = true := by
  cases a <;> cases b <;> simp [BU.kind] at hk hc <;> simp [table]

example : table .rad .turn = some (2 * piF) ∧ table .q .pc = some ((1016/10) / 6) ∧
    table .dppx .dpcm = some ((254/100) / 96) ∧ table .hz .khz = some 1000 := by
  refine ⟨rfl, rfl, rfl, rfl⟩

/-- outcome of an expression whose operands all have units compatible with `g`: a plain number in
    such a unit, nothing simplified away into a `calc()`, no error other than a zero divisor. -/
def KnownOut (g : CUnit) (r : Res Out) : Prop :=
  (∃ n u, r = .ok ⟨.number n u, false⟩ ∧ compatible u g = true) ∨ r = .err .nonFinite

theorem visit_operation_eq (cfg : Cfg) (imm : Bool) (l r : CalcArg) (op : Op) :
    visitValue cfg imm (.operation l op r) =
      (visitValue cfg imm l).bind fun l' => (visitValue cfg imm r).bind fun r' =>
        (operate cfg imm op l'.arg r'.arg).bind fun o => .ok ⟨o.arg, o.coerced || l'.coerced || r'.coerced⟩ := by
  simp only [visitValue]
  cases visitValue cfg imm l <;> simp only [Res.bind]
  cases visitValue cfg imm r <;> simp only []
  rename_i l' r'
  cases operate cfg imm op l'.arg r'.arg <;> simp only []

theorem visit_calculation_eq (cfg : Cfg) (imm : Bool) (nm : CName) (as : CalcArgs) :
    visitValue cfg imm (.calculation nm as) =
      (visitArgs cfg nm.inMinMax as).bind fun p =>
        (applyName cfg nm p.1).bind fun o => .ok ⟨o.arg, o.coerced || p.2⟩ := by
  simp only [visitValue]
  cases visitArgs cfg nm.inMinMax as <;> simp only [Res.bind]
  rename_i p
  obtain ⟨l, co⟩ := p
  cases applyName cfg nm l <;> simp only []

theorem known_sum (cfg : Cfg) (imm : Bool) (op : Op) (hop : op = .plus ∨ op = .minus) (g : CUnit)
    (L R : Res Out) (hl : KnownOut g L) (hr : KnownOut g R) :
    KnownOut g (L.bind fun l' => R.bind fun r' =>
      (operate cfg imm op l'.arg r'.arg).bind fun o => .ok ⟨o.arg, o.coerced || l'.coerced || r'.coerced⟩) := by
  rcases hl with ⟨a, ua, e, hua⟩ | e
  · subst e
    rcases hr with ⟨b, ub, e, hub⟩ | e
    · subst e
      obtain ⟨n, u, ho, hu⟩ := operate_sum_known cfg imm op hop a b ua ub (compatible_via _ _ g hua hub)
      refine Or.inl ⟨n, u, ?_, ?_⟩
      · simp [Res.bind, ho]
      · rcases hu with e | e <;> subst e <;> assumption
    · subst e; exact Or.inr (by simp [Res.bind])
  · subst e; exact Or.inr (by simp [Res.bind])

theorem known_mul_right (cfg : Cfg) (imm : Bool) (g : CUnit)
    (L R : Res Out) (hl : KnownOut g L) (hr : KnownOut CUnit.none R) :
    KnownOut g (L.bind fun l' => R.bind fun r' =>
      (operate cfg imm .mul l'.arg r'.arg).bind fun o => .ok ⟨o.arg, o.coerced || l'.coerced || r'.coerced⟩) := by
  rcases hl with ⟨a, ua, e, hua⟩ | e
  · subst e
    rcases hr with ⟨b, ub, e, hub⟩ | e
    · subst e
      have hb := compatible_none_right ub hub
      refine Or.inl ⟨(numMul ⟨a, ua⟩ ⟨b, ub⟩).n, (numMul ⟨a, ua⟩ ⟨b, ub⟩).u, ?_, ?_⟩
      · simp [Res.bind, operate, simplify]
      · rw [numMul_scalar_right ⟨a, ua⟩ ⟨b, ub⟩ hb]; exact hua
    · subst e; exact Or.inr (by simp [Res.bind])
  · subst e; exact Or.inr (by simp [Res.bind])

theorem known_mul_left (cfg : Cfg) (imm : Bool) (g : CUnit)
    (L R : Res Out) (hl : KnownOut CUnit.none L) (hr : KnownOut g R) :
    KnownOut g (L.bind fun l' => R.bind fun r' =>
      (operate cfg imm .mul l'.arg r'.arg).bind fun o => .ok ⟨o.arg, o.coerced || l'.coerced || r'.coerced⟩) := by
  rcases hl with ⟨a, ua, e, hua⟩ | e
  · subst e
    rcases hr with ⟨b, ub, e, hub⟩ | e
    · subst e
      have ha := compatible_none_right ua hua
      refine Or.inl ⟨(numMul ⟨a, ua⟩ ⟨b, ub⟩).n, (numMul ⟨a, ua⟩ ⟨b, ub⟩).u, ?_, ?_⟩
      · simp [Res.bind, operate, simplify]
      · rw [numMul_scalar_left ⟨a, ua⟩ ⟨b, ub⟩ ha]; exact hub
    · subst e; exact Or.inr (by simp [Res.bind])
  · subst e; exact Or.inr (by simp [Res.bind])

theorem known_div (cfg : Cfg) (imm : Bool) (g : CUnit)
    (L R : Res Out) (hl : KnownOut g L) (hr : KnownOut CUnit.none R) :
    KnownOut g (L.bind fun l' => R.bind fun r' =>
      (operate cfg imm .div l'.arg r'.arg).bind fun o => .ok ⟨o.arg, o.coerced || l'.coerced || r'.coerced⟩) := by
  rcases hl with ⟨a, ua, e, hua⟩ | e
  · subst e
    rcases hr with ⟨b, ub, e, hub⟩ | e
    · subst e
      have hb := compatible_none_right ub hub
      rcases numDiv_scalar ⟨a, ua⟩ ⟨b, ub⟩ hb with hd | ⟨r, hd, hu⟩
      · exact Or.inr (by simp [Res.bind, operate, simplify, hd])
      · refine Or.inl ⟨r.n, r.u, ?_, ?_⟩
        · simp [Res.bind, operate, simplify, hd]
        · rw [hu]; exact hua
    · subst e; exact Or.inr (by simp [Res.bind])
  · subst e; exact Or.inr (by simp [Res.bind])

theorem arityOk_len (nm : CName) (as : CalcArgs) (h : arityOk nm as = true) :
    (nm = .calc → as.toList.length = 1) ∧ (nm = .clamp → as.toList.length = 3) ∧ 0 < as.toList.length := by
  cases nm <;> rcases as with _ | ⟨a, _ | ⟨b, _ | ⟨c, _ | ⟨d, e⟩⟩⟩⟩ <;> simp_all [arityOk, CalcArgs.toList]

theorem applyName_known (cfg : Cfg) (nm : CName) (g : CUnit) (l : List CalcArg)
    (hc : nm = .calc → l.length = 1) (hcl : nm = .clamp → l.length = 3) (hpos : 0 < l.length)
    (h : ∀ x ∈ l, ∃ n v, x = .number n v ∧ compatible v g = true) :
    ∃ n u, applyName cfg nm l = .ok ⟨.number n u, false⟩ ∧ compatible u g = true := by
  have hne : l ≠ [] := by intro e; subst e; simp at hpos
  cases nm
  · have h1 := hc rfl
    rcases l with _ | ⟨x, _ | ⟨y, ys⟩⟩ <;> simp at h1
    obtain ⟨n, v, e, hv⟩ := h x (List.mem_cons_self)
    subst e
    exact ⟨n, v, by simp [applyName, calcFn, simplify], hv⟩
  · simpa [applyName] using extremumFn_known cfg false g l hne h
  · simpa [applyName] using extremumFn_known cfg true g l hne h
  · have h3 := hcl rfl
    rcases l with _ | ⟨x, _ | ⟨y, _ | ⟨z, _ | ⟨w, ws⟩⟩⟩⟩ <;> simp at h3
    obtain ⟨a, ua, e1, h1⟩ := h x (by simp)
    obtain ⟨b, ub, e2, h2⟩ := h y (by simp)
    obtain ⟨c, uc, e3, h3⟩ := h z (by simp)
    subst e1 e2 e3
    simpa [applyName] using clampFn_known cfg g a b c ua ub uc h1 h2 h3

mutual
theorem visitValue_known (cfg : Cfg) :
    ∀ (a : CalcArg) (g : CUnit) (imm : Bool), plain g a = true → KnownOut g (visitValue cfg imm a)
  | .number n u, g, imm, h => by
    simp only [plain] at h
    exact Or.inl ⟨n, u, by simp [visitValue], h⟩
  | .str _ _, g, imm, h => by simp [plain] at h
  | .interp _, g, imm, h => by simp [plain] at h
  | .operation l .plus r, g, imm, h => by
    simp only [plain, Bool.and_eq_true] at h
    rw [visit_operation_eq]
    exact known_sum cfg imm .plus (Or.inl rfl) g _ _ (visitValue_known cfg l g imm h.1) (visitValue_known cfg r g imm h.2)
  | .operation l .minus r, g, imm, h => by
    simp only [plain, Bool.and_eq_true] at h
    rw [visit_operation_eq]
    exact known_sum cfg imm .minus (Or.inr rfl) g _ _ (visitValue_known cfg l g imm h.1) (visitValue_known cfg r g imm h.2)
  | .operation l .mul r, g, imm, h => by
    simp only [plain, Bool.and_eq_true, Bool.or_eq_true] at h
    rw [visit_operation_eq]
    rcases h with h | h
    · exact known_mul_right cfg imm g _ _ (visitValue_known cfg l g imm h.1) (visitValue_known cfg r CUnit.none imm h.2)
    · exact known_mul_left cfg imm g _ _ (visitValue_known cfg l CUnit.none imm h.1) (visitValue_known cfg r g imm h.2)
  | .operation l .div r, g, imm, h => by
    simp only [plain, Bool.and_eq_true] at h
    rw [visit_operation_eq]
    exact known_div cfg imm g _ _ (visitValue_known cfg l g imm h.1) (visitValue_known cfg r CUnit.none imm h.2)
  | .calculation nm as, g, imm, h => by
    simp only [plain, Bool.and_eq_true] at h
    obtain ⟨hc, hcl, hpos⟩ := arityOk_len nm as h.1
    rw [visit_calculation_eq]
    rcases visitArgs_known cfg as g nm.inMinMax h.2 with ⟨l, hl, hlen, hall⟩ | e
    · rw [hl]
      obtain ⟨n, u, ho, hu⟩ := applyName_known cfg nm g l (fun e => by rw [hlen]; exact hc e)
        (fun e => by rw [hlen]; exact hcl e) (by rw [hlen]; exact hpos) hall
      exact Or.inl ⟨n, u, by simp [Res.bind, ho], hu⟩
    · rw [e]; exact Or.inr (by simp [Res.bind])
theorem visitArgs_known (cfg : Cfg) :
    ∀ (as : CalcArgs) (g : CUnit) (imm : Bool), plainArgs g as = true →
      (∃ l, visitArgs cfg imm as = .ok (l, false) ∧ l.length = as.toList.length ∧
        ∀ x ∈ l, ∃ n v, x = .number n v ∧ compatible v g = true) ∨ visitArgs cfg imm as = .err .nonFinite
  | .nil, g, imm, _ => Or.inl ⟨[], by simp [visitArgs], rfl, by simp⟩
  | .cons a as, g, imm, h => by
    simp only [plainArgs, Bool.and_eq_true] at h
    rcases visitValue_known cfg a g imm h.1 with ⟨n, u, ha, hu⟩ | ha
    · rcases visitArgs_known cfg as g imm h.2 with ⟨l, hl, hlen, hall⟩ | has
      · refine Or.inl ⟨.number n u :: l, by simp [visitArgs, ha, hl], by simp [CalcArgs.toList, hlen], ?_⟩
        intro x hx
        rcases List.mem_cons.mp hx with e | e
        · exact ⟨n, u, e, hu⟩
        · exact hall x e
      · exact Or.inr (by simp [visitArgs, ha, has])
    · exact Or.inr (by simp [visitArgs, ha])
end

theorem compatible_not_complex (u g : CUnit) (h : compatible u g = true) (hg : g.isComplex = false) :
    u.isComplex = false := by
  rcases (compatible_iff u g).mp h with e | ⟨hs, _⟩
  · subst e; exact hg
  · rcases u with ⟨_ | ⟨b, _ | ⟨b2, bs⟩⟩, _ | ⟨d, ds⟩⟩ <;> simp [convKind] at hs <;> simp [CUnit.isComplex]

/-- **known units reduce** (first sentence of the property, over the whole unit table): an expression
    built from numbers whose units are all compatible with one non-compound unit `g` — the same unit,
    or plain units of one convertible family: px in cm mm q pt pc | deg grad rad turn | s ms | Hz kHz |
    dpi dpcm dppx — with `+ -` between such operands, `* /` by unitless operands, and nested
    calc/min/max/clamp, compiles to a plain number in such a unit (never to a `calc()`, never to an
    error other than a zero divisor, never with the legacy coercion), whatever the switches. -/
theorem C16_known_units_reduce (cfg : Cfg) (g : CUnit) (hg : g.isComplex = false) (src : CalcArg)
    (h : plain g src = true) :
    (∃ n u, compile cfg src = .ok ⟨.number n u, false⟩ ∧ compatible u g = true) ∨
      compile cfg src = .err .nonFinite := by
  rcases visitValue_known cfg src g false h with ⟨n, u, hv, hu⟩ | hv
  · have := compatible_not_complex u g hu hg
    exact Or.inl ⟨n, u, by simp [compile, hv, Res.bind, printable, this], hu⟩
  · exact Or.inr (by simp [compile, hv, Res.bind])

/-- … and that number is the value ordinary arithmetic gives, in every unit environment. -/
theorem C16_known_units_value (ρ : Env) (hw : ρ.wf) (cfg : Cfg) (hcss : cfg.clampCss = true)
    (g : CUnit) (hg : g.isComplex = false) (src : CalcArg) (h : plain g src = true) :
    (∃ n u, compile cfg src = .ok ⟨.number n u, false⟩ ∧ compatible u g = true ∧
      evalCalc ρ src = some (n * unitVal ρ u)) ∨ compile cfg src = .err .nonFinite := by
  rcases C16_known_units_reduce cfg g hg src h with ⟨n, u, hc, hu⟩ | he
  · exact Or.inl ⟨n, u, hc, hu, C16_known_units_plain_number ρ hw cfg hcss src n u hc⟩
  · exact Or.inr he

private def knownSrc : CalcArg :=
  .calculation .max (.cons (.operation (.number 1 (CUnit.single .rad)) .plus
      (.operation (.number 2 (CUnit.single .grad)) .mul (.number 3 CUnit.none)))
    (.cons (.calculation .clamp (.cons (.number 1 (CUnit.single .turn)) (.cons (.number 500 (CUnit.single .deg))
      (.cons (.number 450 (CUnit.single .grad)) .nil)))) .nil))

example : plain (CUnit.single .deg) knownSrc = true := by decide +kernel
example : compile Cfg.now knownSrc = .ok ⟨.number 450 (CUnit.single .grad), false⟩ := by decide +kernel
example : plain (CUnit.single .dppx) (.calculation .calc (.cons (.operation (.number 96 (CUnit.single .dpi)) .minus
    (.number 1 (CUnit.single .dpcm))) .nil)) = true := by decide +kernel

/-! ### a zero divisor (round 3): explicit guard and class -/

/-- the model leaves the finite numbers exactly at a zero divisor … -/
theorem C16_div_nonfinite_iff (a b : Num) : numDiv a b = .err .nonFinite ↔ b.n = 0 := by
  unfold numDiv
  constructor
  · intro h; split at h
    · assumption
    · split at h <;> cases h
  · intro h; simp [h]

/-- … and an operation stops with `nonFinite` only for `number / number` with a zero divisor (sums and
    products of finite numbers stay finite; `verify_compatible_numbers` never reports it). -/
theorem C16_operate_nonfinite_iff (cfg : Cfg) (imm : Bool) (op : Op) (l r : CalcArg) :
    operate cfg imm op l r = .err .nonFinite ↔
      op = .div ∧ ∃ a ua ub, simplify l = .number a ua ∧ simplify r = .number 0 ub := by
  constructor
  · intro h
    unfold operate at h
    simp only [] at h
    generalize simplify l = L at h ⊢
    generalize simplify r = R at h ⊢
    have hv : ∀ (xs : List CalcArg) (f : Unit → Res Out), (∀ u, f u ≠ .err .nonFinite) →
        (verifyCompatible cfg.strict xs).bind f ≠ .err .nonFinite := by
      intro xs f hf
      unfold verifyCompatible
      split
      · simp [Res.bind]
      · split
        · simp [Res.bind]
        · simpa [Res.bind] using hf ()
    have hsum : ∀ (x y : Num) (f : Num → Res Out), (∀ n, f n ≠ .err .nonFinite) →
        (numAdd x y).bind f ≠ .err .nonFinite ∧ (numSub x y).bind f ≠ .err .nonFinite := by
      intro x y f hf
      constructor
      · unfold numAdd; split; · simpa [Res.bind] using hf _
        split; · simpa [Res.bind] using hf _
        split; · simpa [Res.bind] using hf _
        split
        · simpa [Res.bind] using hf _
        · simp [Res.bind]
      · unfold numSub; split; · simpa [Res.bind] using hf _
        split; · simpa [Res.bind] using hf _
        split; · simpa [Res.bind] using hf _
        split
        · simpa [Res.bind] using hf _
        · simp [Res.bind]
    cases op <;> cases L <;> cases R <;> simp only [] at h
    case div.number.number a ua b ub =>
      simp at h
      refine ⟨rfl, a, ua, ub, rfl, ?_⟩
      cases hd : numDiv ⟨a, ua⟩ ⟨b, ub⟩ with
      | ok r => simp [hd, Res.bind] at h
      | panic => simp [hd, Res.bind] at h
      | err e =>
        simp [hd, Res.bind] at h
        subst h
        have := (C16_div_nonfinite_iff ⟨a, ua⟩ ⟨b, ub⟩).mp hd
        simp at this; subst this; rfl
    case plus.number.number a ua b ub =>
      exfalso
      by_cases hg : (if imm = true then comparable ua ub else compatible ua ub) = true
      · rw [if_pos hg] at h
        simp only [if_true] at h
        exact (hsum ⟨a, ua⟩ ⟨b, ub⟩ _ (fun n => by simp)).1 h
      · rw [if_neg hg] at h
        exact hv _ _ (fun u => by split <;> simp) h
    case minus.number.number a ua b ub =>
      exfalso
      by_cases hg : (if imm = true then comparable ua ub else compatible ua ub) = true
      · rw [if_pos hg] at h
        simp only [if_false, reduceCtorEq] at h
        exact (hsum ⟨a, ua⟩ ⟨b, ub⟩ _ (fun n => by simp)).2 h
      · rw [if_neg hg] at h
        exact hv _ _ (fun u => by split <;> simp) h
    all_goals
      exfalso
      first
      | (cases h; done)
      | (simp at h; done)
      | (exact hv _ _ (fun u => by first | (split <;> simp) | simp) h)
  · rintro ⟨e, a, ua, ub, hl, hr⟩
    subst e
    simp [operate, hl, hr, numDiv, Res.bind]

/-- IEEE class of `x / 0`: the sign of the dividend, NaN for `0 / 0`. -/
theorem C16_div_zero_class (x : Rat) :
    (divZeroClass x = .pinf ↔ 0 < x) ∧ (divZeroClass x = .ninf ↔ x < 0) ∧ (divZeroClass x = .nan ↔ x = 0) := by
  unfold divZeroClass
  refine ⟨?_, ?_, ?_⟩ <;> split <;> (try split) <;> simp_all <;> grind

example : nonFiniteTop Cfg.now (.calculation .calc (.cons (.operation
    (.operation (.number 1 (CUnit.single .inch)) .minus (.number 100 (CUnit.single .px))) .div (.number 0 CUnit.none)) .nil))
    = some (.ninf, CUnit.single .inch, false) := by decide +kernel

/-! ### incompatible units are rejected -/

/-- the relation `verify_compatible_numbers` enforces between two arguments -/
def okPair (strict : Bool) (a b : CalcArg) : Prop :=
  match a, b with
  | .number _ u, .number _ v => possiblyCompatible strict u v = true
  | _, _ => True

theorem incompatWith_false (strict : Bool) (u : CUnit) (n : Rat) :
    ∀ (rest : List CalcArg), incompatWith strict u rest = false → ∀ b ∈ rest, okPair strict (.number n u) b := by
  intro rest
  induction rest with
  | nil => intro _ b hb; cases hb
  | cons x rest ih =>
    intro h b hb
    cases x <;> simp only [incompatWith, Bool.or_eq_false_iff] at h <;>
      rcases List.mem_cons.mp hb with e | e <;>
      first
      | (subst e; simp [okPair]; done)
      | (exact ih h b e)
      | (exact ih h.2 b e)
      | (subst e; simpa [okPair] using h.1)

theorem anyIncompatPair_false (strict : Bool) :
    ∀ (args : List CalcArg), anyIncompatPair strict args = false → args.Pairwise (okPair strict) := by
  intro args
  induction args with
  | nil => intro _; exact List.Pairwise.nil
  | cons x rest ih =>
    intro h
    cases x <;> simp only [anyIncompatPair, Bool.or_eq_false_iff] at h
    case number n u =>
      exact List.Pairwise.cons (incompatWith_false strict u n rest h.1) (ih h.2)
    all_goals exact List.Pairwise.cons (fun b _ => by simp [okPair]) (ih h)

/-- **incompatible_rejected**: a calculation whose argument list passes `verify_compatible_numbers`
    contains no number with a compound unit and no two numbers with provably incompatible units;
    contrapositive: such operands make `+`, `-`, `min`, `max`, `clamp` fail with an error. -/
theorem C16_incompatible_rejected (strict : Bool) (args : List CalcArg)
    (h : verifyCompatible strict args = .ok ()) :
    (∀ a ∈ args, isComplexNumber a = false) ∧ args.Pairwise (okPair strict) := by
  unfold verifyCompatible at h
  split at h
  · cases h
  · rename_i h1
    split at h
    · cases h
    · rename_i h2
      refine ⟨fun a ha => ?_, anyIncompatPair_false strict args (by simpa using h2)⟩
      simp only [List.any_eq_true, not_exists, not_and, Bool.not_eq_true] at h1
      exact h1 a ha

/-- every unreduced `+`/`-` went through that verification: when `operate` leaves an operation, its two
    operands are pairwise acceptable (so `1px + 2deg`, and under `strict` `1 + 2px`, cannot be emitted). -/
theorem C16_operate_rejects_incompatible (cfg : Cfg) (op : Op) (a b : Rat) (ua ub : CUnit)
    (hop : op = .plus ∨ op = .minus) (hbad : possiblyCompatible cfg.strict ua ub = false)
    (hnc : compatible ua ub = false) :
    ∃ e, operate cfg false op (.number a ua) (.number b ub) = .err e := by
  have hv : ∃ e, verifyCompatible cfg.strict [.number a ua, .number b ub] = .err e := by
    unfold verifyCompatible
    split
    · exact ⟨_, rfl⟩
    · split
      · exact ⟨_, rfl⟩
      · rename_i h2; simp [anyIncompatPair, incompatWith, hbad] at h2
  obtain ⟨e, he⟩ := hv
  refine ⟨e, ?_⟩
  rcases hop with h | h <;> subst h <;>
    simp [operate, simplify, hnc, he, Res.bind]

example : compile Cfg.spec (.calculation .calc (.cons (.operation (.number 1 (CUnit.single .px)) .plus
    (.number 2 (CUnit.single .deg))) .nil)) = .err .incompatible := by decide +kernel

private def d41Src : CalcArg :=
  .calculation .calc (.cons (.operation (.number 1 CUnit.none) .plus (.number 2 (CUnit.single .px))) .nil)

/-- D41 (fixed in /repo by b057818): `has_possibly_compatible_units` used to treat a unitless number
    as possibly compatible with every unit, so `calc(1 + 2px)` was emitted as is; the code as it
    stands rejects it. -/
theorem C16_asFound_unitless_accepted :
    compile Cfg.asFound d41Src = .ok ⟨d41Src, false⟩ ∧ compile Cfg.now d41Src = .err .incompatible := by
  constructor <;> decide +kernel

/-! ### printing and re-reading -/

/-- **print_reparse_preserves_value**: the token sequence `write_calculation_arg` emits, with its
    parenthesisation rules (`parenthesize_calculation_rhs`, the left-operand rule, parentheses around
    interpolation), read back by the CSS grammar (`parseToks`: `*`,`/` bind tighter than `+`,`-`, all
    left-associative, fuel `4·|tokens| + 3`) denotes the same quantity as the tree that was printed —
    for every well-formed tree and every environment, not only for simplifier outputs. -/
theorem C16_print_parse_value (a : CalcArg) (hwf : a.wf = true) :
    ∃ a', parseToks (pr a) = some a' ∧ ∀ ρ, evalCalc ρ a' = evalCalc ρ a := by
  obtain ⟨a', f, he, hp⟩ := print_parse_exists a hwf
  exact ⟨a', parseToks_of_fuel _ f a' (hp f (Nat.le_refl f)), he⟩

/-- the reader is insensitive to extra fuel, and `4·|tokens| + 3` is enough whenever any fuel is. -/
theorem C16_parse_fuel_sufficient (ts : List Tok) (f : Nat) (a : CalcArg) (h : pSum f ts = some (a, [])) :
    parseToks ts = some a ∧ ∀ g, f ≤ g → pSum g ts = some (a, []) :=
  ⟨parseToks_of_fuel ts f a h, fun _ hg => (mono_le hg).2.2.2.2.1 _ _ h⟩

example : parseToks (pr (.operation (.number 1 (CUnit.single .px)) .minus
      (.operation (.number 2 (CUnit.single .em)) .minus (.number 3 (CUnit.single .vw))))) =
    some (.operation (.number 1 (CUnit.single .px)) .minus
      (.operation (.number 2 (CUnit.single .em)) .minus (.number 3 (CUnit.single .vw)))) := by decide +kernel
example : parseToks (pr (.operation (.number 1 (CUnit.single .px)) .plus
      (.operation (.number 2 (CUnit.single .em)) .minus (.number 3 (CUnit.single .vw))))) =
    some (.operation (.operation (.number 1 (CUnit.single .px)) .plus (.number 2 (CUnit.single .em))) .minus
      (.number 3 (CUnit.single .vw))) := by decide +kernel

/-
  Outside the model (tested by the correspondence, not proved):
    * f64 arithmetic and the 10-digit printing (the model is exact; the check bounds the error);
    * units outside the conversion table other than em rem vw % (ex ch vh vmin vmax lh fr …, unknown units);
    * `rad`: π is the double `std::f64::consts::PI` (`piF`), as in the code's table, not the real π;
    * opaque operands are values: `var()`/interpolation text is not re-tokenised (an argument list
      containing `#{}` at depth 0 is one string for grass; the check compares it with the textual
      substitution);
    * division by zero: the model stops with `nonFinite` exactly at a zero divisor
      (`C16_operate_nonfinite_iff`); grass continues with IEEE ±Infinity/NaN through later operations
      and prints `Infinitypx` / `NaNpx` (not CSS; dart-sass prints `calc(infinity * 1px)`); only the
      first non-finite number (`nonFiniteTop`) is modelled and compared, the propagation is covered by
      "no panic" in the correspondence only; the value theorems speak about `ok` results;
    * the fallback of `min()`/`max()` to the Sass functions when the arguments are not calculation
      syntax (parse/value.rs:1727) and the textual treatment of an argument list containing `#{}`
      (parse/value.rs:1442; compared textually by the check);
    * `@supports` declarations (`simplify = false`) and `as_slash` numbers.
-/

end Grass.Calc
