import Grass.Lexer
/-
  C18 — The three input syntaxes and insignificant source variations agree.

  What is PROVED here is the part of the property that lives in the lexer and in identifier
  normalisation (crates/compiler/src/lexer.rs:128 `TokenLexer::next`, common.rs:131
  `Identifier::from_str`, parse/base.rs:135 `parse_identifier(normalize = true)`):

    * writing the newlines of a text as LF, CRLF, CR or FF does not change the token kinds the
      parsers see; one-byte styles keep every byte position, CRLF shifts them in the stated way;
    * the token buffer never contains CR or FF (so the `'\r'` arms of the scanners are dead);
    * a leading BOM is exactly one extra token;
    * identifier normalisation is idempotent, insensitive to exchanging `_` and `-`, and two names
      have the same normal form exactly when they are equal up to `_`/`-`;
    * `parse_identifier(normalize = true)` and `(normalize = false)` consume the same tokens and
      their texts have the same normal form.

  What is NOT a theorem (`C18_full` below): that the SCSS, indented and CSS *parsers* agree, and
  that whitespace/comments between tokens are insignificant — neither parser is modelled above the
  scanner layer.  Those clauses are checked metamorphically on the implementation
  (tools/props/c18.py) and the claim is partial.
-/
namespace Grass.Lexer

/-! ### the lexer -/

theorem normNL_cons (c : Char) (rest : List Char) : normNL (c :: rest) =
    if c = FF then LF :: normNL rest
    else if c = CR then
      match rest with
      | [] => [LF]
      | d :: rest' => if d = LF then LF :: normNL rest' else LF :: normNL (d :: rest')
    else c :: normNL rest := by
  rw [normNL.eq_def]; rfl

theorem lexFrom_cons (cur : Nat) (c : Char) (rest : List Char) : lexFrom cur (c :: rest) =
    if c = FF then ⟨LF, cur⟩ :: lexFrom (cur + 1) rest
    else if c = CR then
      match rest with
      | [] => [⟨LF, cur⟩]
      | d :: rest' =>
        if d = LF then ⟨LF, cur + 1⟩ :: lexFrom (cur + 2) rest'
        else ⟨LF, cur⟩ :: lexFrom (cur + 1) (d :: rest')
    else ⟨c, cur⟩ :: lexFrom (cur + c.utf8Size) rest := by
  rw [lexFrom.eq_def]; rfl

theorem kinds_lexFrom (n : Nat) (s : List Char) : kinds (lexFrom n s) = normNL s := by
  fun_induction lexFrom n s
  · simp [kinds, normNL]
  all_goals (rw [normNL_cons]; simp_all [kinds])

/-- The kinds the parsers see are the text with FF, CRLF and CR written as LF. -/
theorem C18_lex_kinds (s : List Char) : kinds (lex s) = normNL s := kinds_lexFrom 0 s

example : kinds (lex ['a', CR, LF, 'b', CR, 'c', FF]) = ['a', LF, 'b', LF, 'c', LF] := by decide

theorem not_mem_normNL (s : List Char) : CR ∉ normNL s ∧ FF ∉ normNL s := by
  fun_induction normNL s
  all_goals simp_all [CR, LF, FF]
  all_goals (try decide)
  all_goals (try (constructor <;> (intro h; subst h; simp_all)))

/-- After lexing there is no CR and no FF left: every scanner arm on `'\r'` is dead code. -/
theorem C18_lex_no_cr_ff (s : List Char) : CR ∉ kinds (lex s) ∧ FF ∉ kinds (lex s) := by
  rw [C18_lex_kinds]; exact not_mem_normNL s

theorem normNL_of_clean (s : List Char) (h1 : CR ∉ s) (h2 : FF ∉ s) : normNL s = s := by
  induction s with
  | nil => rfl
  | cons c rest ih =>
    simp only [List.mem_cons, not_or] at h1 h2
    rw [normNL_cons]
    have hc1 : ¬ c = FF := fun h => h2.1 h.symm
    have hc2 : ¬ c = CR := fun h => h1.1 h.symm
    simp [hc1, hc2, ih h1.2 h2.2]

/-- Lexing is idempotent on kinds: re-lexing text that came out of the lexer changes nothing
    (`Lexer::new_from_string` on text assembled from tokens). -/
theorem C18_lex_idempotent (s : List Char) : kinds (lex (kinds (lex s))) = kinds (lex s) := by
  rw [C18_lex_kinds, C18_lex_kinds]
  exact normNL_of_clean _ (not_mem_normNL s).1 (not_mem_normNL s).2

example : kinds (lex (kinds (lex ['a', CR, LF, FF]))) = ['a', LF, LF] := by decide

/-! ### newline styles -/

theorem subst_head_ne_lf_cr (s : List Char) : ∀ d rest, substNewlines .cr s = d :: rest → d ≠ LF := by
  intro d rest h
  cases s with
  | nil => simp [substNewlines] at h
  | cons c r =>
    unfold substNewlines at h
    split at h
    · simp [NL.chars] at h; rw [← h.1]; decide
    · rename_i hc; simp at h; rw [← h.1]; exact hc

theorem normNL_subst (k : NL) (s : List Char) (h : CR ∉ s) : normNL (substNewlines k s) = normNL s := by
  induction s with
  | nil => rfl
  | cons c rest ih =>
    simp only [List.mem_cons, not_or] at h
    have hc : ¬ c = CR := fun e => h.1 e.symm
    have ih := ih h.2
    unfold substNewlines
    by_cases hl : c = LF
    · subst hl
      simp only [↓reduceIte]
      cases k
      · -- lf
        simp only [NL.chars, List.cons_append, List.nil_append]
        rw [normNL_cons, normNL_cons]
        simp [LF, FF, CR, ih]
      · -- crlf
        simp only [NL.chars, List.cons_append, List.nil_append]
        rw [normNL_cons]
        simp only [show ¬ CR = FF by decide, ↓reduceIte]
        rw [normNL_cons]
        simp [LF, FF, CR, ih]
      · -- cr
        simp only [NL.chars, List.cons_append, List.nil_append]
        rw [normNL_cons]
        simp only [show ¬ CR = FF by decide, ↓reduceIte]
        rw [normNL_cons]
        simp only [show ¬ LF = FF by decide, show ¬ LF = CR by decide, ↓reduceIte]
        cases hs : substNewlines NL.cr rest with
        | nil => rw [hs] at ih; simp [← ih, normNL]
        | cons d r =>
          have hd := subst_head_ne_lf_cr rest d r hs
          simp only [hd, ↓reduceIte]
          rw [← hs, ih]
      · -- ff
        simp only [NL.chars, List.cons_append, List.nil_append]
        rw [normNL_cons]
        simp only [↓reduceIte]
        rw [normNL_cons]
        simp [LF, FF, CR, ih]
    · simp only [hl, ↓reduceIte]
      rw [normNL_cons, normNL_cons]
      by_cases hf : c = FF
      · simp [hf, ih]
      · simp [hf, hc, ih]

/-- **Newline invariance (kinds).**  For a text without CR, writing every LF as LF, CRLF, CR or
    FF gives the parsers the same token kinds. -/
theorem C18_lex_newline_invariant (k : NL) (s : List Char) (h : CR ∉ s) :
    kinds (lex (substNewlines k s)) = kinds (lex s) := by
  rw [C18_lex_kinds, C18_lex_kinds]; exact normNL_subst k s h

/-- The same for an arbitrary text: normalise its newlines, write them in any style, lex. -/
theorem C18_lex_newline_invariant_any (k : NL) (s : List Char) :
    kinds (lex (substNewlines k (normNL s))) = kinds (lex s) := by
  rw [C18_lex_newline_invariant k _ (not_mem_normNL s).1, C18_lex_kinds, C18_lex_kinds]
  exact normNL_of_clean _ (not_mem_normNL s).1 (not_mem_normNL s).2

example : kinds (lex (substNewlines .crlf ['a', LF, LF, 'b'])) = kinds (lex ['a', LF, LF, 'b']) := by decide
example : substNewlines .crlf ['a', LF, 'b'] = ['a', CR, LF, 'b'] := by decide

theorem lexFrom_subst_one_byte (k : NL) (hk : k ≠ .crlf) (s : List Char) (h : CR ∉ s) (n : Nat) :
    lexFrom n (substNewlines k s) = lexFrom n s := by
  induction s generalizing n with
  | nil => rfl
  | cons c rest ih =>
    simp only [List.mem_cons, not_or] at h
    have hc : ¬ c = CR := fun e => h.1 e.symm
    unfold substNewlines
    by_cases hl : c = LF
    · subst hl
      simp only [↓reduceIte]
      cases k
      · simp only [NL.chars, List.cons_append, List.nil_append]
        rw [lexFrom_cons, lexFrom_cons]
        simp [LF, FF, CR, ih h.2]
      · exact absurd rfl hk
      · simp only [NL.chars, List.cons_append, List.nil_append]
        rw [lexFrom_cons]
        simp only [show ¬ CR = FF by decide, ↓reduceIte]
        rw [lexFrom_cons]
        simp only [show ¬ LF = FF by decide, show ¬ LF = CR by decide, ↓reduceIte]
        have hu : LF.utf8Size = 1 := by decide
        cases hs : substNewlines NL.cr rest with
        | nil =>
          have := ih h.2 (n + 1); rw [hs] at this
          simp [hu, ← this, lexFrom]
        | cons d r =>
          have hd := subst_head_ne_lf_cr rest d r hs
          simp only [hd, ↓reduceIte, hu]
          rw [← hs, ih h.2]
      · simp only [NL.chars, List.cons_append, List.nil_append]
        rw [lexFrom_cons]
        simp only [↓reduceIte]
        rw [lexFrom_cons]
        have hu : LF.utf8Size = 1 := by decide
        simp [LF, FF, CR, ih h.2] at hu ⊢
        simp [hu]
    · simp only [hl, ↓reduceIte]
      rw [lexFrom_cons, lexFrom_cons]
      by_cases hf : c = FF
      · simp [hf, ih h.2]
      · simp [hf, hc, ih h.2]

/-- **Newline invariance (positions), one-byte styles.**  LF, CR and FF give identical tokens,
    byte positions included. -/
theorem C18_lex_positions_one_byte (k : NL) (hk : k ≠ .crlf) (s : List Char) (h : CR ∉ s) :
    lex (substNewlines k s) = lex s := lexFrom_subst_one_byte k hk s h 0

example : lex (substNewlines .ff ['a', LF, 'b']) = [⟨'a', 0⟩, ⟨LF, 1⟩, ⟨'b', 2⟩] := by decide

theorem lexFrom_subst_crlf (s : List Char) (h1 : CR ∉ s) (h2 : FF ∉ s) (n d : Nat) :
    lexFrom (n + d) (substNewlines .crlf s) = shiftFrom d (lexFrom n s) := by
  induction s generalizing n d with
  | nil => rfl
  | cons c rest ih =>
    simp only [List.mem_cons, not_or] at h1 h2
    have hc : ¬ c = CR := fun e => h1.1 e.symm
    have hf : ¬ c = FF := fun e => h2.1 e.symm
    unfold substNewlines
    by_cases hl : c = LF
    · subst hl
      simp only [↓reduceIte, NL.chars, List.cons_append, List.nil_append]
      rw [lexFrom_cons]
      simp only [show ¬ CR = FF by decide, ↓reduceIte]
      rw [lexFrom_cons]
      simp only [hf, hc, ↓reduceIte, shiftFrom]
      have hu : LF.utf8Size = 1 := by decide
      rw [hu]
      have := ih h1.2 h2.2 (n + 1) (d + 1)
      rw [show n + 1 + (d + 1) = n + d + 2 by omega] at this
      rw [this]
    · simp only [hl, ↓reduceIte]
      rw [lexFrom_cons, lexFrom_cons]
      simp only [hf, hc, ↓reduceIte, shiftFrom, hl]
      have := ih h1.2 h2.2 (n + c.utf8Size) d
      rw [show n + c.utf8Size + d = n + d + c.utf8Size by omega] at this
      rw [this]

/-- **Newline invariance (positions), CRLF.**  Every token moves right by the number of newlines
    before it; a newline token by one more (its position is the LF byte of the pair). -/
theorem C18_lex_positions_crlf (s : List Char) (h1 : CR ∉ s) (h2 : FF ∉ s) :
    lex (substNewlines .crlf s) = shiftFrom 0 (lex s) := by
  have := lexFrom_subst_crlf s h1 h2 0 0
  simpa [lex] using this

example : lex (substNewlines .crlf ['a', LF, 'b', LF]) = [⟨'a', 0⟩, ⟨LF, 2⟩, ⟨'b', 3⟩, ⟨LF, 5⟩] := by decide

/-- The per-input predicate the driver evaluates (`lex nlcheck`) holds for every text and style. -/
theorem C18_nlInvariantAt (k : NL) (s : List Char) : nlInvariantAt k s = true := by
  have hc := (not_mem_normNL s).1
  have hf := (not_mem_normNL s).2
  unfold nlInvariantAt
  simp only [Bool.and_eq_true, beq_iff_eq]
  refine ⟨C18_lex_newline_invariant k _ hc, ?_⟩
  by_cases hk : k = .crlf
  · subst hk; simp [C18_lex_positions_crlf _ hc hf]
  · have e := C18_lex_positions_one_byte k hk _ hc
    simp [hk, e]

/-! ### byte-order mark -/

def BOM : Char := Char.ofNat 0xFEFF

/-- A leading BOM is exactly one extra token (which `__parse` skips with `scan_char`,
    stylesheet.rs:196); the rest lexes as without it, three bytes further right. -/
theorem C18_bom_prefix (s : List Char) :
    lex (BOM :: s) = ⟨BOM, 0⟩ :: lexFrom 3 s ∧ kinds (lex (BOM :: s)) = BOM :: kinds (lex s) := by
  have h1 : ¬ BOM = FF := by decide
  have h2 : ¬ BOM = CR := by decide
  have h3 : BOM.utf8Size = 3 := by decide
  constructor
  · simp [lex, lexFrom_cons, h1, h2, h3]
  · have e : kinds (lex (BOM :: s)) = BOM :: kinds (lexFrom 3 s) := by
      simp [lex, lexFrom_cons, h1, h2, h3, kinds]
    rw [e, kinds_lexFrom, C18_lex_kinds]

example : (lex (BOM :: ['a'])).map (·.pos) = [0, 3] := by decide

/-! ### identifier normalisation -/

theorem normChar_idem (c : Char) : normChar (normChar c) = normChar c := by
  unfold normChar; split <;> simp_all

theorem normChar_swap (c : Char) : normChar (swapChar c) = normChar c := by
  unfold normChar swapChar
  by_cases h1 : c = '_'
  · subst h1; decide
  · by_cases h2 : c = '-'
    · subst h2; decide
    · simp [h1, h2]

/-- `Identifier::from_str` is idempotent. -/
theorem C18_ident_norm_idempotent (s : List Char) : identNorm (identNorm s) = identNorm s := by
  simp [identNorm, List.map_map, Function.comp_def, normChar_idem]

/-- Exchanging `_` and `-` everywhere in a name does not change its normal form. -/
theorem C18_ident_norm_swap (s : List Char) : identNorm (identSwap s) = identNorm s := by
  simp [identNorm, identSwap, List.map_map, Function.comp_def, normChar_swap]

example : identNorm (identSwap ['a', '_', 'b', '-', 'c']) = ['a', '-', 'b', '-', 'c'] := by decide

theorem normChar_eq_iff (a b : Char) : normChar a = normChar b ↔ sameUpTo a b := by
  unfold normChar sameUpTo
  by_cases ha : a = '_' <;> by_cases hb : b = '_' <;> simp_all
  constructor
  · intro h; right; exact h.symm
  · rintro (h | h)
    · exact absurd h.symm hb
    · exact h.symm

/-- Two names have the same normal form exactly when they are equal up to `_`/`-`
    (same length, position-wise equal or both in {`_`, `-`}). -/
theorem C18_norm_eq_iff (a b : List Char) : identNorm a = identNorm b ↔ eqUpTo a b := by
  induction a generalizing b with
  | nil => cases b <;> simp [identNorm, eqUpTo]
  | cons x xs ih =>
    cases b with
    | nil => simp [identNorm, eqUpTo]
    | cons y ys =>
      have := ih ys
      simp only [identNorm, List.map_cons, List.cons.injEq, eqUpTo] at this ⊢
      rw [normChar_eq_iff, this]

example : eqUpTo ['a', '_', 'b'] ['a', '-', 'b'] := by decide
example : ¬ eqUpTo ['a', '_', 'b'] ['a', 'x', 'b'] := by decide

/-- Any mixed spelling: replacing *some* `_`/`-` by the other one keeps the normal form. -/
theorem C18_ident_norm_mixed (a b : List Char) (h : eqUpTo a b) : identNorm a = identNorm b :=
  (C18_norm_eq_iff a b).2 h

/-- The normal form contains no underscore (so the interner key is canonical). -/
theorem C18_ident_norm_no_underscore (s : List Char) : '_' ∉ identNorm s := by
  simp only [identNorm, List.mem_map, not_exists, not_and]
  intro c _ h
  unfold normChar at h
  split at h
  · exact absurd h (by decide)
  · rename_i hc; exact hc h

/-! ### the column by which a loud comment is re-indented -/

theorem substNewlines_cons (k : NL) (c : Char) (r : List Char) :
    substNewlines k (c :: r) = if c = LF then k.chars ++ substNewlines k r else c :: substNewlines k r := rfl

theorem lastLine_subst (k : NL) (s acc : List Char) :
    lastLine isLineBreak (substNewlines k s) acc = lastLine isLineBreak s acc := by
  induction s generalizing acc with
  | nil => rfl
  | cons c r ih =>
    rw [substNewlines_cons]
    by_cases hl : c = LF
    · subst hl
      have h1 : isLineBreak LF = true := by decide
      have h2 : isLineBreak CR = true := by decide
      have h3 : isLineBreak FF = true := by decide
      simp only [↓reduceIte]
      cases k <;> simp [NL.chars, lastLine, h1, h2, h3, ih]
    · simp only [hl, ↓reduceIte, lastLine]
      split <;> exact ih _

/-- either the text has a line break (the accumulator is irrelevant) or it has none -/
theorem lastLine_acc (b : Char → Bool) (s : List Char) :
    (∀ acc, lastLine b s acc = lastLine b s []) ∨ (∀ acc, lastLine b s acc = acc.reverse ++ s) := by
  induction s with
  | nil => right; intro acc; simp [lastLine]
  | cons c r ih =>
    by_cases hc : b c = true
    · left; intro acc; simp [lastLine, hc]
    · rcases ih with ih | ih
      · left; intro acc; simp only [lastLine, hc, Bool.false_eq_true, ↓reduceIte]; rw [ih (c :: acc), ih [c]]
      · right; intro acc; simp only [lastLine, hc, Bool.false_eq_true, ↓reduceIte]; rw [ih (c :: acc)]; simp

/-- **The comment column as the code computes it now is invariant under the newline style**:
    writing the line breaks before the comment as LF, CRLF, CR or FF does not change it. -/
theorem C18_commentColumn_newline_invariant (k : NL) (pre : List Char) :
    commentColumn false (substNewlines k pre) = commentColumn false pre := by
  simp only [commentColumn, Bool.false_eq_true, ↓reduceIte, lastLine_subst]

/-- ... and under a leading byte order mark. -/
theorem C18_commentColumn_bom (pre : List Char) :
    commentColumn false (BOMc :: pre) = commentColumn false pre := by
  have hb : isLineBreak BOMc = false := by decide
  simp only [commentColumn, Bool.false_eq_true, ↓reduceIte, lastLine, hb]
  rcases lastLine_acc isLineBreak pre with h | h
  · rw [h [BOMc]]
  · rw [h [BOMc], h []]; simp

example : commentColumn false (BOMc :: [' ', ' ']) = 2 ∧ commentColumn false ['a', CR, BOMc, ' '] = 1 := by decide

/-- **Witness (as found, fixed in /repo by e81c3e6).**  The column the pinned tree used — codemap's,
    which ends lines at LF only and counts a BOM — changes with the newline style and with a BOM:
    the same comment was re-indented differently. -/
theorem C18_asFound_commentColumn_depends_on_newline_style :
    commentColumn true (substNewlines .cr ['a', LF, ' ', ' ']) = 4 ∧ commentColumn true ['a', LF, ' ', ' '] = 2 ∧
    commentColumn true (Char.ofNat 0xFEFF :: [' ', ' ']) = 3 ∧ commentColumn true [' ', ' '] = 2 := by decide

example : commentColumn false (substNewlines .cr ['a', LF, ' ', ' ']) = 2 := by decide

/-! ### normalising while scanning (`parse_identifier(normalize)`, base.rs:135) -/

theorem identNorm_reverse (l : List Char) : identNorm l.reverse = (identNorm l).reverse := by
  simp [identNorm]

theorem identNorm_append (a b : List Char) : identNorm (a ++ b) = identNorm a ++ identNorm b := by
  simp [identNorm]

/-- agreement of two scanner results up to the normal form of their texts -/
def agreeT : ResT → ResT → Prop
  | .ok j t, .ok j' t' => j = j' ∧ identNorm t' = identNorm t
  | .err e sp, .err e' sp' => e = e' ∧ sp = sp'
  | .unsupported, .unsupported => True
  | _, _ => False

theorem identNorm_cons (c : Char) (l : List Char) : identNorm (c :: l) = normChar c :: identNorm l := rfl

theorem isName_underscore (c : Char) (h : (c == '_') = true) : isName c = true := by
  have : c = '_' := by simpa using h
  subst this; decide

theorem identBody_norm_agree (u : Bool) (s : Array Char) (i : Nat) (acc : List Char) :
    ∀ acc', identNorm acc' = identNorm acc → agreeT (identBody true u s i acc) (identBody false u s i acc') := by
  fun_induction identBody true u s i acc
  all_goals intro acc' hacc
  all_goals (conv => arg 2; rw [identBody])
  all_goals (simp only [*, ↓reduceDIte, ↓reduceIte, Bool.false_and, Bool.true_and, Bool.false_eq_true] at *)
  all_goals (try (simp [agreeT, identNorm_reverse, hacc]; done))
  case case2 ih => exact ih _ (by simp [identNorm_cons, hacc])
  case case4 ih _ =>
    rename_i h
    have hc : s[‹Nat›] = '_' := by simpa using h
    rw [if_pos (isName_underscore _ h)]
    refine ih _ ?_
    rw [hc]; simp [identNorm_cons, hacc, normChar]
  case case5 ih _ => exact ih _ (by simp [identNorm_cons, hacc])
  case case6 j t hm ih _ =>
    split
    · rename_i j' t' hm'
      rw [hm] at hm'; injection hm' with h1 h2; subst h1; subst h2
      exact ih _ (by simp [identNorm_append, hacc])
    · rename_i e sp hm'; rw [hm] at hm'; cases hm'
    · rename_i hm'; rw [hm] at hm'; cases hm'
  case case7 e sp hm _ =>
    split
    · rename_i j' t' hm'; rw [hm] at hm'; cases hm'
    · rename_i e' sp' hm'; rw [hm] at hm'; injection hm' with h1 h2; subst h1; subst h2; simp [agreeT]
    · rename_i hm'; rw [hm] at hm'; cases hm'
  case case8 hm _ =>
    split
    · rename_i j' t' hm'; rw [hm] at hm'; cases hm'
    · rename_i e' sp' hm'; rw [hm] at hm'; cases hm'
    · simp [agreeT]


theorem isNameStart_underscore (c : Char) (h : (c == '_') = true) : isNameStart c = true := by
  have : c = '_' := by simpa using h
  subst this; decide

/-- `parse_identifier(normalize = true)` (variable names) and `(normalize = false)` consume exactly the
    same tokens, fail in exactly the same way, and the texts they return have the same normal form —
    so normalising while scanning and normalising in `Identifier::from` cannot disagree. -/
theorem C18_parse_ident_normalize_agree (u : Bool) (s : Array Char) (i : Nat) :
    agreeT (parseIdentifier true u s i) (parseIdentifier false u s i) := by
  unfold parseIdentifier
  generalize (if peekIs s i '-' = true then (i + 1, ['-']) else (i, [])) = ap
  obtain ⟨a, pre⟩ := ap
  dsimp only
  split
  · exact identBody_norm_agree u s _ _ _ rfl
  · split
    · rename_i ha
      by_cases hu : (s[a] == '_') = true
      · simp only [Bool.true_and, hu, ↓reduceIte, Bool.false_and, Bool.false_eq_true, isNameStart_underscore _ hu]
        have hc : s[a] = '_' := by simpa using hu
        refine identBody_norm_agree u s _ _ _ ?_
        rw [hc]; simp [identNorm_cons, normChar]
      · simp only [Bool.true_and, hu, ↓reduceIte, Bool.false_and, Bool.false_eq_true]
        split
        · exact identBody_norm_agree u s _ _ _ rfl
        · split
          · split
            · exact identBody_norm_agree u s _ _ _ rfl
            · simp [agreeT]
            · simp [agreeT]
          · simp [agreeT]
    · simp [agreeT]

example : parseIdentifier true false "a_b-c:".toList.toArray 0 = .ok 5 "a-b-c".toList ∧
    parseIdentifier false false "a_b-c:".toList.toArray 0 = .ok 5 "a_b-c".toList := by decide +kernel

/-! ### what is proved of the whole property, in one statement -/

/-- **PARTIAL.**  The part of `C18_full` that is a theorem: whatever the newline style, the parsers
    receive the same token kinds at the stated positions (so nothing above the lexer can tell the
    styles apart except through byte positions); two spellings of a name resolve to the same
    interned identifier exactly when they are equal up to `_`/`-`; normalising in the scanner or
    afterwards is the same.
    MISSING for `C18_full`: agreement of the SCSS, indented and CSS parsers on the same program,
    rejection of Sass-only constructs in CSS mode, insignificance of whitespace and silent comments
    between tokens, `@charset` — no parser is modelled above the scanner layer; these clauses are
    TESTED metamorphically by tools/props/c18.py. -/
theorem C18_lexer_and_identifiers_partial (k : NL) (s a b : List Char) (u : Bool) (t : Array Char) (i : Nat) :
    nlInvariantAt k s = true ∧
    kinds (lex (substNewlines k (normNL s))) = kinds (lex s) ∧
    (identNorm a = identNorm b ↔ eqUpTo a b) ∧
    identNorm (identSwap a) = identNorm a ∧
    agreeT (parseIdentifier true u t i) (parseIdentifier false u t i) :=
  ⟨C18_nlInvariantAt k s, C18_lex_newline_invariant_any k s, C18_norm_eq_iff a b, C18_ident_norm_swap a,
   C18_parse_ident_normalize_agree u t i⟩

/-! ### the full property (not proved: the parsers are not modelled above the scanner layer) -/

/-- The full statement of C18 over an abstract compiler.  `compile y src` is `some css` or `none`
    (failure).  `Prog` is the generator's program type with its two printers; `plainCss` holds of
    texts that use no Sass feature, `sassOnly` of texts that use one; `insignificant a b` is the
    rewrite relation generated by newline style, whitespace/silent comments between tokens,
    leading BOM / `@charset`, and `_`↔`-` in variable, function and mixin names.
    UNPROVED — checked metamorphically by tools/props/c18.py; the claim for C18 is partial. -/
def C18_full {Prog : Type} (compile : Syn → List Char → Option (List Char))
    (printScss printSass : Prog → List Char)
    (plainCss sassOnly : List Char → Prop) (insignificant : List Char → List Char → Prop) : Prop :=
  (∀ p, compile .scss (printScss p) = compile .sass (printSass p)) ∧
  (∀ t, plainCss t → compile .css t = compile .scss t) ∧
  (∀ t, sassOnly t → compile .css t = none) ∧
  (∀ y a b, insignificant a b → compile y a = compile y b)

end Grass.Lexer
