import Grass.Diag
import GrassProofs.Lemmas.DiagSpan
import GrassProofs.Lemmas.DiagTrace
import GrassProofs.Lemmas.DiagLoc
/-
  C19 — Diagnostics are located, renderable and routed only through the Logger.

  Everything is about the code as it stands: `ExpandRule.whenTextDiffers` for re-lexed text and
  `Cfg.current` (no de-duplication of @warn by span).  The two older rules for re-lexed text
  (`onlyWhenLonger`, D19; `whenLengthDiffers`, D23) and the de-duplication (D12) appear only in the
  `C19_asFound_…` witnesses at the end.
-/
namespace Grass.Diag

/-! ## Which lexers exist

  `Lexer.ofFile file` for a parsed file; `Lexer.ofString rule file s entire` for text `s` re-lexed
  against the span `entire` of the file's source; `Lexer.ofDetached s entire`; any cursor
  (`set_cursor` accepts every value). -/

/-- The lexers grass can construct over `file` under `rule`, with their cursor anywhere. -/
inductive LexerOf (rule : ExpandRule) (file : List Char) : Lexer → Prop where
  | ofFile (c : Nat) : LexerOf rule file ((Lexer.ofFile file).setCursor c)
  | ofString (s : List Char) (entire : Span) (c : Nat)
      (hin : entire.lo ≤ entire.hi ∧ entire.hi ≤ byteLen file)
      (hb : entire.OnBoundaries file) :
      LexerOf rule file ((Lexer.ofString rule file s entire).setCursor c)
  | ofDetached (s : List Char) (entire : Span) (c : Nat)
      (hin : entire.lo ≤ entire.hi ∧ entire.hi ≤ byteLen file)
      (hb : entire.OnBoundaries file) :
      LexerOf rule file ((Lexer.ofDetached s entire).setCursor c)

/-- The four span-returning entry points of `Lexer` (lexer.rs:38-68). -/
inductive SpanCall (lx : Lexer) : Option Span → Prop where
  | atIndex (idx : Nat) : SpanCall lx (lx.spanAtIndex idx)
  | prev : SpanCall lx lx.prevSpan
  | current : SpanCall lx lx.currentSpan
  | from (start : Nat) : SpanCall lx (lx.spanFrom start)

theorem lexerOf_fits (rule : ExpandRule) (file : List Char) (lx : Lexer) (h : LexerOf rule file lx) :
    lx.Fits (byteLen file) := by
  cases h with
  | ofFile c => exact fits_setCursor _ _ _ (fits_ofFile file)
  | ofString s entire c hin hb => exact fits_setCursor _ _ _ (fits_ofString rule file s entire hin)
  | ofDetached s entire c hin hb =>
    exact ⟨hin, fun hx => by simp [Lexer.ofDetached, Lexer.setCursor] at hx⟩

theorem lexerOf_aligned (file : List Char) (lx : Lexer) (h : LexerOf .whenTextDiffers file lx) :
    lx.Aligned file := by
  cases h with
  | ofFile c => exact aligned_setCursor _ _ _ (aligned_ofFile file)
  | ofString s entire c hin hb =>
    exact aligned_setCursor _ _ _ (aligned_ofString_textDiffers file s entire hb)
  | ofDetached s entire c hin hb =>
    exact ⟨hb, fun hx => by simp [Lexer.ofDetached, Lexer.setCursor] at hx⟩

/-- **Spans stay inside the file** — for every file text, every re-lexed text and source span,
    every cursor and index, and under *each* of the three expansion rules, every span-returning
    call succeeds (`Span::subspan`'s assertions hold) and the span satisfies
    `0 ≤ lo ≤ hi ≤ file length` (and lies inside the lexer's source span). -/
theorem C19_span_in_bounds (rule : ExpandRule) (file : List Char) (lx : Lexer)
    (h : LexerOf rule file lx) (r : Option Span) (hc : SpanCall lx r) :
    ∃ sp, r = some sp ∧ sp.lo ≤ sp.hi ∧ sp.hi ≤ byteLen file ∧ lx.entire.lo ≤ sp.lo ∧ sp.hi ≤ lx.entire.hi := by
  have hf := lexerOf_fits rule file lx h
  have key : ∀ idx, ∃ sp, lx.spanAtIndex idx = some sp ∧ sp.Within lx.entire (byteLen file) :=
    spanAtIndex_within lx _ hf
  cases hc with
  | atIndex idx => obtain ⟨sp, e, w⟩ := key idx; exact ⟨sp, e, w⟩
  | prev => obtain ⟨sp, e, w⟩ := key (lx.cursor - 1); exact ⟨sp, e, w⟩
  | current => obtain ⟨sp, e, w⟩ := key lx.cursor; exact ⟨sp, e, w⟩
  | «from» start =>
    obtain ⟨a, ea, wa⟩ := key start
    obtain ⟨b, eb, wb⟩ := key (lx.cursor - 1)
    refine ⟨a.merge b, ?_, merge_within a b _ _ wa wb⟩
    simp [Lexer.spanFrom, Lexer.prevSpan, ea, eb]

-- the hypotheses are satisfiable by a non-trivial value: a multi-byte file, re-lexed text of a
-- different layout, a cursor past the end
example : LexerOf .whenTextDiffers ['a', 'é', '[', ' ', '{', '}']
    ((Lexer.ofString .whenTextDiffers ['a', 'é', '[', ' ', '{', '}'] ['x', 'y', 'z', '['] ⟨0, 5⟩).setCursor 9) :=
  .ofString _ _ _ (by decide) ⟨by decide, by decide⟩

/-- **Both ends of every span are character boundaries of the original file text** (code as it
    stands: re-lexed text counts as the source only when it *is* the source text of its span).
    This is what `codemap::File::find_line_col` needs in order not to panic. -/
theorem C19_span_on_char_boundary (file : List Char) (lx : Lexer)
    (h : LexerOf .whenTextDiffers file lx) (r : Option Span) (hc : SpanCall lx r) (sp : Span)
    (hr : r = some sp) :
    isBoundary file sp.lo = true ∧ isBoundary file sp.hi = true := by
  have hf := lexerOf_fits _ file lx h
  have ha := lexerOf_aligned file lx h
  have key : ∀ idx s, lx.spanAtIndex idx = some s → s.OnBoundaries file :=
    fun idx s => spanAtIndex_onBoundaries lx file hf ha idx s
  cases hc with
  | atIndex idx => exact key idx sp hr
  | prev => exact key _ sp hr
  | current => exact key _ sp hr
  | «from» start =>
    obtain ⟨a, ea, _⟩ := spanAtIndex_within lx _ hf start
    obtain ⟨b, eb, _⟩ := spanAtIndex_within lx _ hf (lx.cursor - 1)
    simp [Lexer.spanFrom, Lexer.prevSpan, ea, eb] at hr
    rw [← hr]
    exact merge_onBoundaries a b file (key _ _ ea) (key _ _ eb)

example : LexerOf .whenTextDiffers ['$', 'é', ':', ' ', 'a', ';'] ((Lexer.ofFile ['$', 'é', ':', ' ', 'a', ';']).setCursor 3) :=
  .ofFile 3

/-- **Every span the lexer hands out is located without panic and the location satisfies P̂**:
    `CodeMap::look_up_span` succeeds and yields a `begin`/`end` pair naming two real positions of
    the file's text, in order (`spanLocOk`, the predicate the check evaluates on grass's output). -/
theorem C19_location_valid (file : List Char) (lx : Lexer)
    (h : LexerOf .whenTextDiffers file lx) (r : Option Span) (hc : SpanCall lx r) :
    ∃ sp b e, r = some sp ∧ lookUpSpan file sp = some (b, e) ∧ spanLocOk file b e = true := by
  obtain ⟨sp, hr, hle, _, _, _⟩ := C19_span_in_bounds _ file lx h r hc
  have hb := C19_span_on_char_boundary file lx h r hc sp hr
  obtain ⟨b, e, h1, h2⟩ := lookUpSpan_ok file sp hle hb
  exact ⟨sp, b, e, hr, h1, h2⟩

/-! ### closure: everything grass builds from lexer spans

  Grass creates `Span` values only through the lexer calls above, through `file.span.subspan(0, 0)`
  (the `empty_span` of lib.rs:134/169 and visitor.rs:913), by re-lexing text against a span it
  already has (`new_from_string`, `new_from_detached_string`) and by `Span::merge`; everything else
  copies spans.  (`subspan` occurs nowhere else in crates/compiler/src.) -/

/-- Spans of `file` obtainable by those operations, to any depth. -/
inductive Reachable (file : List Char) : Span → Prop where
  | fileCall (c : Nat) (r : Option Span) (hc : SpanCall ((Lexer.ofFile file).setCursor c) r)
      (sp : Span) (hr : r = some sp) : Reachable file sp
  | relexCall (s : List Char) (entire : Span) (he : Reachable file entire) (c : Nat)
      (r : Option Span)
      (hc : SpanCall ((Lexer.ofString .whenTextDiffers file s entire).setCursor c) r)
      (sp : Span) (hr : r = some sp) : Reachable file sp
  | detachedCall (s : List Char) (entire : Span) (he : Reachable file entire) (c : Nat)
      (r : Option Span) (hc : SpanCall ((Lexer.ofDetached s entire).setCursor c) r)
      (sp : Span) (hr : r = some sp) : Reachable file sp
  | empty : Reachable file ⟨0, 0⟩
  | merge (a b : Span) (ha : Reachable file a) (hb : Reachable file b) : Reachable file (a.merge b)

theorem reachable_ok (file : List Char) (sp : Span) (h : Reachable file sp) :
    (sp.lo ≤ sp.hi ∧ sp.hi ≤ byteLen file) ∧ sp.OnBoundaries file := by
  induction h with
  | fileCall c r hc sp hr =>
    have hl : LexerOf .whenTextDiffers file ((Lexer.ofFile file).setCursor c) := .ofFile c
    obtain ⟨sp', e, h1, h2, _, _⟩ := C19_span_in_bounds _ file _ hl r hc
    rw [hr] at e; cases e
    exact ⟨⟨h1, h2⟩, C19_span_on_char_boundary file _ hl r hc sp hr⟩
  | relexCall s entire he c r hc sp hr ih =>
    have hl : LexerOf .whenTextDiffers file ((Lexer.ofString .whenTextDiffers file s entire).setCursor c) :=
      .ofString s entire c ih.1 ih.2
    obtain ⟨sp', e, h1, h2, _, _⟩ := C19_span_in_bounds _ file _ hl r hc
    rw [hr] at e; cases e
    exact ⟨⟨h1, h2⟩, C19_span_on_char_boundary file _ hl r hc sp hr⟩
  | detachedCall s entire he c r hc sp hr ih =>
    have hl : LexerOf .whenTextDiffers file ((Lexer.ofDetached s entire).setCursor c) :=
      .ofDetached s entire c ih.1 ih.2
    obtain ⟨sp', e, h1, h2, _, _⟩ := C19_span_in_bounds _ file _ hl r hc
    rw [hr] at e; cases e
    exact ⟨⟨h1, h2⟩, C19_span_on_char_boundary file _ hl r hc sp hr⟩
  | empty => exact ⟨⟨Nat.le_refl _, Nat.zero_le _⟩, by simp [Span.OnBoundaries, isBoundary_zero]⟩
  | merge a b _ _ iha ihb =>
    refine ⟨?_, merge_onBoundaries a b file iha.2 ihb.2⟩
    have := iha.1; have := ihb.1
    simp only [Span.merge]; omega

/-- **Every span grass can build for a file — lexer calls on the file, on text re-lexed against
    any span it already has (nested to any depth), the empty span, and any merges of those — is
    looked up by codemap without panic, and the reported location satisfies P̂.** -/
theorem C19_reachable_span_located (file : List Char) (sp : Span) (h : Reachable file sp) :
    ∃ b e, lookUpSpan file sp = some (b, e) ∧ spanLocOk file b e = true := by
  obtain ⟨⟨h1, _⟩, h2⟩ := reachable_ok file sp h
  exact lookUpSpan_ok file sp h1 h2

-- a non-trivial reachable span: the span of `ü]` in `a[ü] {}` merged with a span obtained by
-- re-lexing other text against it
example : Reachable ['a', '[', 'ü', ']', ' ', '{', '}'] ⟨0, 5⟩ :=
  have h1 : Reachable ['a', '[', 'ü', ']', ' ', '{', '}'] ⟨2, 5⟩ :=
    .fileCall 4 _ (.from 2) _ (by decide +kernel)
  have h2 : Reachable ['a', '[', 'ü', ']', ' ', '{', '}'] ⟨0, 1⟩ :=
    .fileCall 0 _ .current _ (by decide +kernel)
  have h3 : Reachable ['a', '[', 'ü', ']', ' ', '{', '}'] ⟨2, 5⟩ :=
    .relexCall ['x', 'y'] ⟨2, 5⟩ h1 1 _ .current _ (by decide +kernel)
  .merge _ _ h2 h3

/-
  C19_full (the location half of the property, for all of grass):
      for every input on which compilation fails with a (message, span) error, the span is
      `Reachable file` for the file it is looked up in.
  What the theorems above prove is everything *after* that: reachable spans are in bounds, on
  character boundaries, located without panic, with a location satisfying `spanLocOk`.  That
  every error site only uses reachable spans of ONE file is established by reading (the only
  `subspan` calls are lexer.rs:52 and the three `subspan(0, 0)`; spans are otherwise copied or
  merged) and checked by the correspondence run, not proved: in particular a `merge` of spans of
  two different files (selector/list.rs:145, selector/extend/merged.rs:27) would leave the model
  (codemap positions are global; the model's are file-relative).
-/

/-! ## The renderer -/

/-- **The rendered error starts with `Error: <message>` and a newline**, in Unicode and in ASCII
    mode, for every message and location. -/
theorem C19_render_prefix (unicode : Bool) (msg : List Char) (loc : RenderLoc) :
    ∃ rest, render unicode msg loc = errorPrefix ++ msg ++ ['\n'] ++ rest := by
  unfold render
  simp only [List.append_assoc]
  exact ⟨_, rfl⟩

example : ∃ rest, render false ['x'] ⟨['f'], ['a', ' ', '{'], 0, 2, 0, 3⟩ = errorPrefix ++ ['x'] ++ ['\n'] ++ rest :=
  C19_render_prefix _ _ _

/-- **Paddings and the caret count are well-defined naturals**: the subtraction at error.rs:164
    never underflows (`min ≤ max`), the caret count is the distance between the two columns
    whichever is larger (also for spans that end on an earlier column of a later line), and the
    padding is one space per decimal digit of the line number plus one — at least two. -/
theorem C19_render_total (bl bc ec : Nat) :
    min bc ec ≤ max ec bc ∧
    ((caretCount bc ec : Nat) : Int) = ((ec : Int) - (bc : Int)).natAbs ∧
    (padding (bl + 1)).length = (natStr (bl + 1)).length + 1 ∧
    2 ≤ (padding (bl + 1)).length := by
  refine ⟨by omega, by simp only [caretCount]; omega, by simp [padding], ?_⟩
  have : 0 < (natStr (bl + 1)).length := by
    simp [natStr, Nat.repr]
    exact Nat.length_toDigits_pos
  simp only [padding, List.length_replicate]
  omega

example : caretCount 7 3 = 4 ∧ caretCount 3 7 = 4 := by decide

/-! ## What reaches the Logger -/

/-- **Each executed @debug/@warn is delivered exactly once per execution, in program order,
    with the directive's file and line** (code as it stands, `quiet` off): whatever the program,
    the fuel and the outcome (success or error), the sequence of (kind, file, line) of the events
    that reached the Logger equals the sequence of completed executions of @debug/@warn
    directives (`visited`, appended to once each time one completes). -/
theorem C19_debug_warn_trace (fuel : Nat) (prog : List Stmts) (st : St)
    (h : (run (Cfg.current false) fuel prog).st? = some st) :
    st.log.map Event.key = st.visited := by
  have P : Prim (Cfg.current false) (fun st => st.log.map Event.key = st.visited) :=
    { debug := by intro st f l m h; simp [St.doDebug, Cfg.current, Event.key, h]
      warn := by intro st f l m h; simp [St.doWarn, Cfg.current, Event.key, h]
      skip := by intro st f l hc; simp [Cfg.current] at hc
      admin := by intro st st' h1 h2 _ h; rw [h1, h2]; exact h }
  have := run_preserves _ _ P (by simp [St.init]) fuel prog
  cases hr : run (Cfg.current false) fuel prog with
  | ok u st' => rw [hr] at this h; simp [Res.st?] at h; subst h; exact this
  | err e st' => rw [hr] at this h; simp [Res.st?] at h; subst h; exact this
  | outOfFuel => rw [hr] at h; simp [Res.st?] at h
  | unsupported => rw [hr] at h; simp [Res.st?] at h

/-- The file lay-out used by the examples: `@for $v0 from 1 through 3 { @warn $v0; }  @debug "s7";`. -/
def exLoop : List Stmts :=
  [.cons (.forLoop 1 0 1 3 true (.cons (.warn 2 (.var 0)) .nil)) (.cons (.debug 4 (.str 7)) .nil)]

-- the statement is not vacuous: this run ends with a state, and it logged four events
example : ((run (Cfg.current false) 50 exLoop).st?.map (fun st => st.log.map Event.key)) =
    some [(.warn, 0, 2), (.warn, 0, 2), (.warn, 0, 2), (.debug, 0, 4)] := by decide +kernel

/-- **A @warn in a @for loop is delivered once per iteration, with the loop variable's value at
    that iteration**: running `count` remaining iterations of a loop whose body is `@warn $x`
    appends exactly `count` warn events, in order, all with the directive's file and line. -/
theorem C19_warn_in_loop_each_iteration (prog : List Stmts) (ctx : Ctx) (x l : Nat) (env : Env)
    (dir : Int) : ∀ (count fuel : Nat) (i : Int) (st : St), count + 4 ≤ fuel →
    ∃ st', execFor (Cfg.current false) prog fuel ctx env x (.cons (.warn l (.var x)) .nil) i dir count st
        = .ok () st' ∧
      st'.log = st.log ++ (List.range count).map
        (fun (k : Nat) => (⟨.warn, ctx.file, l, intStr (i + dir * Int.ofNat k)⟩ : Event)) := by
  intro count
  induction count with
  | zero =>
    intro fuel i st hf
    obtain ⟨f, rfl⟩ : ∃ f, fuel = f + 1 := ⟨fuel - 1, by omega⟩
    exact ⟨st, by rw [execFor], by simp⟩
  | succ count ih =>
    intro fuel i st hf
    obtain ⟨f, rfl⟩ : ∃ f, fuel = f + 4 := ⟨fuel - 4, by omega⟩
    have hbody : execStmts (Cfg.current false) prog (f + 3) ctx ((x, .int i) :: env)
        (.cons (.warn l (.var x)) .nil) st = .ok () (st.doWarn (Cfg.current false) ctx.file l (intStr i)) := by
      rw [execStmts, execStmt]
      simp only [Cfg.current, Bool.false_and, Bool.false_eq_true, if_false]
      rw [evalExpr]
      simp [lookupVar, logText, execStmts]
    obtain ⟨st', h1, h2⟩ := ih (f + 3) (i + dir) (st.doWarn (Cfg.current false) ctx.file l (intStr i)) (by omega)
    refine ⟨st', ?_, ?_⟩
    · rw [show f + 4 = (f + 3) + 1 from rfl, execFor, hbody]
      exact h1
    · rw [h2]
      simp only [St.doWarn, Cfg.current, Bool.false_eq_true, if_false, List.append_assoc]
      congr 1
      rw [List.range_succ_eq_map]
      simp only [List.map_cons, List.map_map, List.cons_append, List.nil_append]
      congr 1
      · simp
      · apply List.map_congr_left
        intro k _
        simp only [Function.comp]
        congr 2
        have hk : Int.ofNat k.succ = Int.ofNat k + 1 := rfl
        rw [hk, Int.mul_add, Int.mul_one]
        first | omega | ac_rfl

example : ∃ st', execFor (Cfg.current false) [] 9 ⟨0, 0⟩ [] 0 (.cons (.warn 2 (.var 0)) .nil) 1 1 3 St.init
      = .ok () st' ∧ st'.log = [⟨.warn, 0, 2, ['1']⟩, ⟨.warn, 0, 2, ['2']⟩, ⟨.warn, 0, 2, ['3']⟩] := by
  obtain ⟨st', h1, h2⟩ := C19_warn_in_loop_each_iteration [] ⟨0, 0⟩ 0 2 [] 1 3 9 1 St.init (by omega)
  exact ⟨st', h1, by rw [h2]; decide⟩

/-- **With `quiet` nothing reaches the Logger** — neither @debug nor @warn, whatever the
    program, the fuel, the outcome and the de-duplication switch (visitor.rs:1042 and :1585). -/
theorem C19_quiet_silent (dedup : Bool) (fuel : Nat) (prog : List Stmts) (st : St)
    (h : (run { quiet := true, warnDedupBySpan := dedup } fuel prog).st? = some st) :
    st.log = [] := by
  have P : Prim { quiet := true, warnDedupBySpan := dedup } (fun st => st.log = []) :=
    { debug := by intro st f l m h; simpa [St.doDebug] using h
      warn := by intro st f l m h; simpa [St.doWarn] using h
      skip := by intro st f l _ h; simpa [St.skipWarn] using h
      admin := by intro st st' h1 _ _ h; rw [h1]; exact h }
  have := run_preserves _ _ P (by simp [St.init]) fuel prog
  cases hr : run { quiet := true, warnDedupBySpan := dedup } fuel prog with
  | ok u st' => rw [hr] at this h; simp [Res.st?] at h; subst h; exact this
  | err e st' => rw [hr] at this h; simp [Res.st?] at h; subst h; exact this
  | outOfFuel => rw [hr] at h; simp [Res.st?] at h
  | unsupported => rw [hr] at h; simp [Res.st?] at h

-- non-vacuous: the quiet run of the example ends with a state in which four directives completed
example : ((run (Cfg.current true) 50 exLoop).st?.map (fun st => (st.log.length, st.visited.length))) =
    some (0, 4) := by decide +kernel

/-! ## Round 3: more of the language, and where the Logger is told the directive is

  `C19_debug_warn_trace` and `C19_quiet_silent` above are statements about `run`, i.e. about every
  program of the mini language — since round 3 that includes `@each`, the counting `@while` (nothing
  bounds it but the fuel), `@use … as *` / `@forward` (module files run once), `@include` with a
  content block and `@content`, `@import` nested in a style rule, and values `a b` whose two sides
  both call functions that log. -/

/-- **The location handed to the Logger is a real position of the file's text**: whenever the
    directive `@name` at byte `site` has a value (`exprStart`: after the name, blanks, `//` and
    `/* */` comments, over any number of lines, LF or CRLF, tabs and multi-byte characters before
    it), the byte offset where the value begins is a character boundary inside the file, codemap's
    look-up succeeds (no panic), and the (line, column) it yields — `eventLoc`, the pair the check
    compares with grass's event — is one of the positions of the file's text. -/
theorem C19_event_location_valid (file : List Char) (site : Nat) (name : List Char) (off : Nat)
    (h : exprStart file site name = some off) :
    isBoundary file off = true ∧ off ≤ byteLen file ∧
    ∃ p, eventLoc file site name = some p ∧ (positions file).contains p = true := by
  obtain ⟨t, ht, rfl⟩ := exprStart_tok file site name _ h
  have hb := (tokenize0_inv file t ht).1
  have hle := isBoundary_le file _ hb
  have hs := lineColAux_isSome file t.pos 0 0 hb
  cases hp : lineColAux file t.pos 0 0 with
  | none => simp [hp] at hs
  | some p =>
    refine ⟨hb, hle, p, by simp [eventLoc, h, lookUpPos, hp], ?_⟩
    have := lineColAux_mem _ _ _ _ _ hp
    simp [positions, this]

/-- `é` CR LF TAB `@debug /*ü*/` LF `1;` — the value `1` is on the third line (0-based 2), column 0. -/
def exLocFile : List Char :=
  ['é', '\r', '\n', '\t', '@', 'd', 'e', 'b', 'u', 'g', ' ', '/', '*', 'ü', '*', '/', '\n', '1', ';']

example : exprStart exLocFile 5 ['d', 'e', 'b', 'u', 'g'] = some 19 ∧
    eventLoc exLocFile 5 ['d', 'e', 'b', 'u', 'g'] = some (2, 0) := by decide +kernel

/-- **A module file is executed when it is first loaded** (`@use … as *` or `@forward` of a later
    file `k` not yet in the module cache): the outcome and what reached the Logger are those of
    running the file's statements once, in the file's own context with an empty environment, and
    the file is then in the cache. -/
theorem C19_module_first_load (cfg : Cfg) (prog : List Stmts) (fuel : Nat) (ctx : Ctx) (env : Env)
    (l k : Nat) (fw : Bool) (st st1 : St) (body : Stmts) (hk : ctx.mod < k)
    (hl : st.loaded.contains k = false) (hb : prog[k]? = some body)
    (hr : execStmts cfg prog fuel ⟨k, k⟩ [] body st = .ok () st1) :
    ∃ st', execStmt cfg prog (fuel + 1) ctx env (.loadMod l k fw) st = .ok () st' ∧
      st'.log = st1.log ∧ st'.visited = st1.visited ∧ st'.loaded.contains k = true := by
  rw [execStmt]
  simp only [Nat.not_le.mpr hk, if_false, hl, Bool.false_eq_true, hb, hr]
  cases fw
  · exact ⟨_, rfl, rfl, rfl, by simp [St.addVis, St.markLoaded]⟩
  · exact ⟨_, rfl, rfl, rfl, by simp [St.addFwd, St.markLoaded]⟩

/-- **… and never again**: `@use`/`@forward` of a file that is already in the module cache succeeds
    without running anything — the log, the list of executed directives and the cache are unchanged
    — whatever the file contains. -/
theorem C19_module_loaded_once (cfg : Cfg) (prog : List Stmts) (fuel : Nat) (ctx : Ctx) (env : Env)
    (l k : Nat) (fw : Bool) (st : St) (hk : ctx.mod < k) (hl : st.loaded.contains k = true) :
    ∃ st', execStmt cfg prog (fuel + 1) ctx env (.loadMod l k fw) st = .ok () st' ∧
      st'.log = st.log ∧ st'.visited = st.visited ∧ st'.loaded = st.loaded := by
  rw [execStmt]
  simp only [Nat.not_le.mpr hk, if_false, hl, if_true]
  cases fw
  · exact ⟨_, rfl, rfl, rfl, rfl⟩
  · exact ⟨_, rfl, rfl, rfl, rfl⟩

/-- main: `@use "p1" as *; @forward "p1"; @use "p2" as *; @debug 0;`  p1: `@use "p2" as *; @debug 1;`
    p2: `@warn 2;` -/
def exModules : List Stmts :=
  [.cons (.loadMod 0 1 false) (.cons (.loadMod 1 1 true) (.cons (.loadMod 2 2 false) (.cons (.debug 3 (.int 0)) .nil))),
   .cons (.loadMod 0 2 false) (.cons (.debug 1 (.int 1)) .nil),
   .cons (.warn 0 (.int 2)) .nil]

-- p2 is used twice and p1 used and forwarded: each ran once, innermost first
example : ((run (Cfg.current false) 50 exModules).st?.map (fun st => (st.log.map Event.key, st.loaded))) =
    some ([(.warn, 2, 0), (.debug, 1, 1), (.debug, 0, 3)], [1, 2]) := by decide +kernel

/-- **`@each` delivers once per item, in order, with the item's text**: running
    `@each $x in vals { @debug $x }` appends exactly one debug event per value of the list, in list
    order, all with the directive's file and site, the message being the item as `@debug` prints
    it (a string without its quotes). -/
theorem C19_each_logs_every_item (prog : List Stmts) (ctx : Ctx) (x l : Nat) (env : Env) :
    ∀ (vals : List Val) (fuel : Nat) (st : St), vals.length + 4 ≤ fuel →
    ∃ st', execEach (Cfg.current false) prog fuel ctx env x (.cons (.debug l (.var x)) .nil) vals st
        = .ok () st' ∧
      st'.log = st.log ++ vals.map (fun v => (⟨.debug, ctx.file, l, logText v⟩ : Event)) := by
  intro vals
  induction vals with
  | nil =>
    intro fuel st hf
    obtain ⟨f, rfl⟩ : ∃ f, fuel = f + 1 := ⟨fuel - 1, by simp at hf; omega⟩
    exact ⟨st, by rw [execEach], by simp⟩
  | cons v vs ih =>
    intro fuel st hf
    obtain ⟨f, rfl⟩ : ∃ f, fuel = f + 4 := ⟨fuel - 4, by simp at hf; omega⟩
    have hbody : execStmts (Cfg.current false) prog (f + 3) ctx ((x, v) :: env)
        (.cons (.debug l (.var x)) .nil) st = .ok () (st.doDebug (Cfg.current false) ctx.file l (logText v)) := by
      rw [execStmts, execStmt]
      simp only [Cfg.current, Bool.false_eq_true, if_false]
      rw [evalExpr]
      simp [lookupVar, execStmts]
    obtain ⟨st', h1, h2⟩ := ih (f + 3) (st.doDebug (Cfg.current false) ctx.file l (logText v))
      (by simp at hf; omega)
    refine ⟨st', ?_, ?_⟩
    · rw [show f + 4 = (f + 3) + 1 from rfl, execEach, hbody]
      exact h1
    · rw [h2]
      simp [St.doDebug, Cfg.current]

example : ∃ st', execEach (Cfg.current false) [] 9 ⟨0, 0⟩ [] 0 (.cons (.debug 2 (.var 0)) .nil)
      [.int 1, .str 2, .int 5] St.init = .ok () st' ∧
    st'.log = [⟨.debug, 0, 2, ['1']⟩, ⟨.debug, 0, 2, ['s', '2']⟩, ⟨.debug, 0, 2, ['5']⟩] := by
  obtain ⟨st', h1, h2⟩ := C19_each_logs_every_item [] ⟨0, 0⟩ 0 2 [] [.int 1, .str 2, .int 5] 9 St.init (by decide)
  exact ⟨st', h1, by rw [h2]; decide⟩

/-- **The counting `@while` delivers once per iteration, with the counter's value at that
    iteration**: if the condition `$x < bound` holds for the first `n` values `i, i + step, …` of
    the counter and fails for the next one, then running `@while $x < bound { @warn $x; $x: $x +
    step }` appends exactly `n` warn events, in order, with the directive's file and site (`step`
    may be any integer; with fuel for `n` iterations the loop ends normally). -/
theorem C19_while_logs_every_iteration (prog : List Stmts) (ctx : Ctx) (x l : Nat) (env : Env)
    (bound step : Int) : ∀ (n fuel : Nat) (i : Int) (st : St), n + 4 ≤ fuel →
    (∀ k : Nat, k < n → i + step * Int.ofNat k < bound) → ¬ (i + step * Int.ofNat n < bound) →
    ∃ st', execWhile (Cfg.current false) prog fuel ctx env x (.cons (.warn l (.var x)) .nil) i bound step st
        = .ok () st' ∧
      st'.log = st.log ++ (List.range n).map
        (fun (k : Nat) => (⟨.warn, ctx.file, l, intStr (i + step * Int.ofNat k)⟩ : Event)) := by
  intro n
  induction n with
  | zero =>
    intro fuel i st hf _ hstop
    obtain ⟨f, rfl⟩ : ∃ f, fuel = f + 1 := ⟨fuel - 1, by omega⟩
    have hstop' : ¬ (i < bound) := by simpa using hstop
    exact ⟨st, by rw [execWhile]; simp [hstop'], by simp⟩
  | succ n ih =>
    intro fuel i st hf hall hstop
    obtain ⟨f, rfl⟩ : ∃ f, fuel = f + 4 := ⟨fuel - 4, by omega⟩
    have h0 : i < bound := by simpa using hall 0 (by omega)
    have hbody : execStmts (Cfg.current false) prog (f + 3) ctx ((x, .int i) :: env)
        (.cons (.warn l (.var x)) .nil) st = .ok () (st.doWarn (Cfg.current false) ctx.file l (intStr i)) := by
      rw [execStmts, execStmt]
      simp only [Cfg.current, Bool.false_and, Bool.false_eq_true, if_false]
      rw [evalExpr]
      simp [lookupVar, logText, execStmts]
    have hshift : ∀ k : Nat, i + step + step * Int.ofNat k = i + step * Int.ofNat (k + 1) := by
      intro k
      have hk : Int.ofNat (k + 1) = Int.ofNat k + 1 := rfl
      rw [hk, Int.mul_add, Int.mul_one]
      omega
    obtain ⟨st', h1, h2⟩ := ih (f + 3) (i + step) (st.doWarn (Cfg.current false) ctx.file l (intStr i)) (by omega)
      (fun k hk => by rw [hshift]; exact hall (k + 1) (by omega))
      (by rw [hshift]; exact hstop)
    refine ⟨st', ?_, ?_⟩
    · rw [show f + 4 = (f + 3) + 1 from rfl, execWhile]
      simp only [h0, if_true, hbody]
      exact h1
    · rw [h2]
      simp only [St.doWarn, Cfg.current, Bool.false_eq_true, if_false, List.append_assoc]
      congr 1
      rw [List.range_succ_eq_map]
      simp only [List.map_cons, List.map_map, List.cons_append, List.nil_append]
      congr 1
      · simp
      · apply List.map_congr_left
        intro k _
        simp only [Function.comp]
        congr 2
        exact hshift k

-- `$x: 0; @while $x < 3 { @warn $x; $x: $x + 2 }` : two iterations, 0 and 2
example : ∃ st', execWhile (Cfg.current false) [] 9 ⟨0, 0⟩ [] 0 (.cons (.warn 2 (.var 0)) .nil) 0 3 2 St.init
      = .ok () st' ∧ st'.log = [⟨.warn, 0, 2, ['0']⟩, ⟨.warn, 0, 2, ['2']⟩] := by
  obtain ⟨st', h1, h2⟩ := C19_while_logs_every_iteration [] ⟨0, 0⟩ 0 2 [] 3 2 2 9 0 St.init (by omega)
    (by intro k hk; have : k = 0 ∨ k = 1 := by omega
        rcases this with rfl | rfl <;> decide) (by decide)
  exact ⟨st', h1, by rw [h2]; decide⟩

/-- **`@error` reports the inspected value**: when the value of an `@error` evaluates to `v`, the
    statement fails with the message `inspect v` (strings keep their quotes, the two sides of a
    list `a b` are separated by one space) at the directive's file and site, and the rendering of
    that error starts with `Error: ` followed by exactly that text, in both modes. -/
theorem C19_error_reports_inspected_value (cfg : Cfg) (prog : List Stmts) (fuel : Nat) (ctx : Ctx)
    (env : Env) (l : Nat) (e : Expr) (st st1 : St) (v : Val)
    (h : evalExpr cfg prog fuel ctx l env e st = .ok v st1) :
    execStmt cfg prog (fuel + 1) ctx env (.error l e) st = .err (.user ctx.file l (inspect v)) st1 ∧
    ∀ (unicode : Bool) (loc : RenderLoc), ∃ rest,
      render unicode (inspect v) loc = errorPrefix ++ inspect v ++ ['\n'] ++ rest := by
  refine ⟨by rw [execStmt, h], fun u loc => C19_render_prefix u _ loc⟩

example : (match execStmt (Cfg.current false) [] 3 ⟨0, 0⟩ [] (.error 7 (.pair (.str 1) (.int 2))) St.init with
    | .err (.user f l m) _ => some (f, l, m)
    | _ => none) = some (0, 7, ['"', 's', '1', '"', ' ', '2']) := by decide +kernel

/-! ## As-found witnesses (kernel-checked) -/

/-- D12 as found (`warnDedupBySpan`): the three executions of `@warn $v0` in the loop deliver ONE
    event, so the log is not the list of executed directives. -/
theorem C19_asFound_warn_dedup_loses_events :
    ((run { quiet := false, warnDedupBySpan := true } 50 exLoop).st?.map
        (fun st => (st.log.map Event.key, st.visited))) =
      some ([(.warn, 0, 2), (.debug, 0, 4)],
            [(.warn, 0, 2), (.warn, 0, 2), (.warn, 0, 2), (.debug, 0, 4)]) := by
  decide +kernel

/-- `$x: ""; a#{$x}ééé[ {b: c}` — the file of D19. -/
def d19File : List Char :=
  ['$', 'x', ':', ' ', '"', '"', ';', ' ', 'a', '#', '{', '$', 'x', '}', 'é', 'é', 'é', '[', ' ',
   '{', 'b', ':', ' ', 'c', '}']

/-- D19 as found (`expandedOnlyWhenLonger`): the selector `a#{$x}ééé[ ` (bytes 8..22) resolves to
    the shorter text `aééé[`; the "expected identifier" span of its last character is computed
    as bytes 15..16 of the source — inside the first `é` (bytes 14..16): not a character
    boundary, `find_line_col` panics.  Under the current rule the same call returns the whole
    selector span. -/
theorem C19_asFound_shorter_text_splits_char :
    (Lexer.ofString expandedOnlyWhenLonger d19File ['a', 'é', 'é', 'é', '['] ⟨8, 22⟩).spanAtIndex 5
        = some ⟨15, 16⟩ ∧
    isBoundary d19File 15 = false ∧
    lookUpSpan d19File ⟨15, 16⟩ = none ∧
    (Lexer.ofString .whenTextDiffers d19File ['a', 'é', 'é', 'é', '['] ⟨8, 22⟩).spanAtIndex 5
        = some ⟨8, 22⟩ := by
  decide +kernel

/-- `$é: "aa[$aaa"; #{$é} {b: c}` — the file of D23. -/
def d23File : List Char :=
  ['$', 'é', ':', ' ', '"', 'a', 'a', '[', '$', 'a', 'a', 'a', '"', ';', ' ', '#', '{', '$', 'é', '}',
   ' ', '{', 'b', ':', ' ', 'c', '}']

/-- D23 as found (`expandedWhenLengthDiffers`): the selector `#{$é} ` (bytes 16..23) resolves to
    `aa[$aaa`, which has the *same* byte length (7) but another character lay-out; the span of
    its 4th character `$` (where an identifier was expected) becomes bytes 19..20 of the source,
    and byte 20 is inside the `é` of `$é` (bytes 19..21): `find_line_col` panics.  Under the current
    rule the same call returns the whole selector span. -/
theorem C19_asFound_equal_length_text_splits_char :
    byteLen ['a', 'a', '[', '$', 'a', 'a', 'a'] = (⟨16, 23⟩ : Span).len ∧
    (Lexer.ofString expandedWhenLengthDiffers d23File ['a', 'a', '[', '$', 'a', 'a', 'a'] ⟨16, 23⟩).spanAtIndex 3
        = some ⟨19, 20⟩ ∧
    isBoundary d23File 20 = false ∧
    lookUpSpan d23File ⟨19, 20⟩ = none ∧
    (Lexer.ofString .whenTextDiffers d23File ['a', 'a', '[', '$', 'a', 'a', 'a'] ⟨16, 23⟩).spanAtIndex 3
        = some ⟨16, 23⟩ := by
  decide +kernel

end Grass.Diag
