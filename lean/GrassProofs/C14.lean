import Grass.Builtins
import GrassProofs.Lemmas.Builtins
import GrassProofs.Lemmas.BuiltinsStr
import GrassProofs.Lemmas.BuiltinsNamed
/-
  C14 — list, map and string built-ins implement their documented semantics.

  Theorems about the model `Grass/Builtins.lean`.  Every theorem is stated for the full built-in
  (argument list in, value or error class out); `sw : Sw` carries one switch per deviation of /repo
  from the documentation that this check found (K14a–K14d, all repaired since: `Sw.now` = the code as
  it stands = documented, `Sw.beforeFix` = the code before the repairs); a theorem that needs the
  documented variant of a rule says so by a hypothesis such as `sw.appendAsList = true` and has a
  `…_now` corollary without it; all others hold for both variants.  Round 3 added the open deviation
  K14e (`sw.namedStrict`: named arguments validated; `Sw.now` has it `false`, `Sw.spec` `true`) and the
  section "round 3" (index, string.split, key paths, deep-remove along a path, named = positional,
  module member = global alias).  Still not proved (tied by correspondence / laws only): the nested
  form of `map-merge`, the order of the key list of `map-merge`, "every other path unchanged" for
  `map.deep-remove`, named arguments of the variadic functions.  `numI n u` is the number `n` (an integer) with unit `u`.
  The `law…` predicates are the per-input predicates the check evaluates on grass's own answers
  (`blt law …`); each theorem ends by stating that the model's answers satisfy them.

  Map theorems take the equivalence of `==` on the keys involved as the hypothesis
  `KeyEquiv sw.eq P` together with `keysIn P m` (that is C09's subject); `strKeys` shows the
  hypothesis is satisfiable for all string keys under every equality variant.
-/
namespace Grass.Builtins
open Grass.Value

/-! ## append -/

theorem appendF_two (sw : Sw) (l v : Value) :
    appendF sw [l, v] = .ok (mkList ((appendParts sw l).1 ++ [v])
      (if (appendParts sw l).2.1 = .undecided then .space else (appendParts sw l).2.1) (appendParts sw l).2.2) := by
  simp [appendF, sepArg]

theorem C14_length_append (sw : Sw) (h : sw.appendAsList = true) (l v : Value) :
    ∃ r, appendF sw [l, v] = .ok r ∧ elems r = elems l ++ [v] ∧
      lengthF [r] = .ok (natV ((elems l).length + 1)) ∧
      lawLengthAppend (natV (elems l).length) (natV ((elems l).length + 1)) = true := by
  refine ⟨_, appendF_two sw l v, ?_, ?_, ?_⟩
  · rw [elems_mkList, appendParts_fst sw h]
  · rw [lengthF_one, elems_mkList, appendParts_fst sw h]; simp
  · simp [lawLengthAppend, natOf_natV]


/-- the code as it stands, for every `l` (lists, maps, argument lists, single values) -/
theorem C14_length_append_now (l v : Value) :
    ∃ r, appendF Sw.now [l, v] = .ok r ∧ elems r = elems l ++ [v] ∧
      lengthF [r] = .ok (natV ((elems l).length + 1)) :=
  let ⟨r, h1, h2, h3, _⟩ := C14_length_append Sw.now rfl l v
  ⟨r, h1, h2, h3⟩

/-! ## nth / set-nth -/

def numI (n : Int) (u : U) : Value := .num (.fin (n : Rat)) u

theorem nthF_int (sw : Sw) (l : Value) (n : Int) (u : U) (h0 : n ≠ 0) (hr : n.natAbs ≤ (elems l).length) :
    nthF sw [l, numI n u] =
      match (elems l)[posOf (elems l).length n]? with
      | some v => .ok v
      | none => .error .indexRange := by
  simp only [nthF, numI, nthIndex_int sw _ n h0 hr]
  cases (elems l)[posOf (elems l).length n]? <;> rfl

theorem setNthF_int (sw : Sw) (l v : Value) (n : Int) (u : U) (h0 : n ≠ 0) (hr : n.natAbs ≤ (elems l).length) :
    setNthF sw [l, numI n u, v] =
      .ok (mkList ((elems l).set (posOf (elems l).length n) v) (setNthParts l).2.1 (setNthParts l).2.2) := by
  have hp := setNthParts_fst l
  simp only [setNthF, numI]
  rcases hsp : setNthParts l with ⟨es, sep, br⟩
  rw [hsp] at hp
  simp only at hp
  subst hp
  simp [setNthIndex_int sw _ n h0 hr]

/-- `nth(set-nth(l, n, v), n) = v` for every valid index `n` (either sign, any unit on the index),
    the length is unchanged, and every other position keeps its element. -/
theorem C14_nth_set_nth (sw : Sw) (l v : Value) (n : Int) (u u' : U)
    (h0 : n ≠ 0) (hr : n.natAbs ≤ (elems l).length) :
    ∃ r, setNthF sw [l, numI n u, v] = .ok r ∧
      nthF sw [r, numI n u'] = .ok v ∧
      lawNthSetNth v v = true ∧
      (elems r).length = (elems l).length ∧
      ∀ (m : Int) (um : U), m ≠ 0 → m.natAbs ≤ (elems l).length →
        posOf (elems l).length m ≠ posOf (elems l).length n →
        nthF sw [r, numI m um] = nthF sw [l, numI m um] := by
  refine ⟨_, setNthF_int sw l v n u h0 hr, ?_, ?_, ?_, ?_⟩
  · have hl : (elems (mkList ((elems l).set (posOf (elems l).length n) v) (setNthParts l).2.1 (setNthParts l).2.2)).length
        = (elems l).length := by rw [elems_mkList, List.length_set]
    rw [nthF_int sw _ n u' h0 (by rw [hl]; exact hr), hl, elems_mkList]
    have := posOf_lt _ n h0 hr
    simp [this]
  · simp [lawNthSetNth, sameV]
  · rw [elems_mkList, List.length_set]
  · intro m um hm0 hmr hne
    have hl : (elems (mkList ((elems l).set (posOf (elems l).length n) v) (setNthParts l).2.1 (setNthParts l).2.2)).length
        = (elems l).length := by rw [elems_mkList, List.length_set]
    rw [nthF_int sw _ m um hm0 (by rw [hl]; exact hmr), nthF_int sw l m um hm0 hmr, hl, elems_mkList,
      List.getElem?_set_ne (Ne.symm hne)]

example : ∃ r, setNthF Sw.now [mkList [.null, .bool true, .null] .comma true, numI (-2) .px, .bool false] = .ok r ∧
    nthF Sw.now [r, numI (-2) .none] = .ok (.bool false) := by
  have h := C14_nth_set_nth Sw.now (mkList [.null, .bool true, .null] .comma true) (.bool false) (-2) .px .none
    (by decide) (by simp [elems_mkList])
  obtain ⟨r, h1, h2, _⟩ := h
  exact ⟨r, h1, h2⟩

/-- `nth(l, -k) = nth(l, len - k + 1)` for `1 ≤ k ≤ len` -/
theorem C14_nth_neg (sw : Sw) (l : Value) (k : Nat) (u u' : U) (h1 : 1 ≤ k) (h2 : k ≤ (elems l).length) :
    nthF sw [l, numI (-(k : Int)) u] = nthF sw [l, numI (((elems l).length : Int) - k + 1) u'] ∧
    ∃ v, nthF sw [l, numI (-(k : Int)) u] = .ok v ∧ (elems l)[(elems l).length - k]? = some v := by
  have e1 : posOf (elems l).length (-(k : Int)) = (elems l).length - k := by unfold posOf; split <;> omega
  have e2 : posOf (elems l).length (((elems l).length : Int) - k + 1) = (elems l).length - k := by
    unfold posOf; split <;> omega
  rw [nthF_int sw l _ u (by omega) (by omega), nthF_int sw l _ u' (by omega) (by omega), e1, e2]
  refine ⟨rfl, ?_⟩
  have hlt : (elems l).length - k < (elems l).length := by omega
  refine ⟨(elems l)[(elems l).length - k], ?_, ?_⟩ <;> simp [hlt]

/-- positive indices are 1-based -/
theorem C14_nth_pos (sw : Sw) (l : Value) (k : Nat) (u : U) (h1 : 1 ≤ k) (h2 : k ≤ (elems l).length) :
    ∃ v, nthF sw [l, numI (k : Int) u] = .ok v ∧ (elems l)[k - 1]? = some v := by
  have e1 : posOf (elems l).length (k : Int) = k - 1 := by unfold posOf; split <;> omega
  rw [nthF_int sw l _ u (by omega) (by omega), e1]
  have hlt : k - 1 < (elems l).length := by omega
  refine ⟨(elems l)[k - 1], ?_, ?_⟩ <;> simp [hlt]

theorem C14_nth_zero_err (sw : Sw) (l : Value) (u : U) : nthF sw [l, numI 0 u] = .error .indexZero := by
  have : ((0 : Int) : Rat) = 0 := rfl
  simp [nthF, numI, nthIndex, this, isZero_zero]

theorem C14_nth_range_err (sw : Sw) (l : Value) (n : Int) (u : U) (h : (elems l).length < n.natAbs) :
    nthF sw [l, numI n u] = .error .indexRange := by
  have h0 : n ≠ 0 := by omega
  simp [nthF, numI, nthIndex_int_range sw _ n h0 h]

/-- a non-integer index within the range is rejected as such -/
theorem C14_nth_nonint_err (sw : Sw) (l : Value) (q : Rat) (u : U)
    (hz : isZero q = false) (hr : sw.rangeByInt = false → ¬ (((elems l).length : Rat) < q.abs)) (hi : asInt q = none) :
    nthF sw [l, .num (.fin q) u] = .error .notInt := by
  cases hb : sw.rangeByInt with
  | true => simp [nthF, nthIndex, hz, hi, hb]
  | false => simp [nthF, nthIndex, hz, hi, hb, hr hb]

/-- the code as it stands: a non-integer index is rejected as such whatever its size (the integer
    check comes before the range check, as in `set-nth`) -/
theorem C14_nth_nonint_err_now (l : Value) (q : Rat) (u : U) (hz : isZero q = false) (hi : asInt q = none) :
    nthF Sw.now [l, .num (.fin q) u] = .error .notInt :=
  C14_nth_nonint_err Sw.now l q u hz (fun h => by cases h) hi

theorem C14_nth_not_number_err (sw : Sw) (l : Value) (s : List Char) (q : Bool) :
    nthF sw [l, .str s q] = .error .notNumber := rfl

theorem C14_set_nth_zero_err (sw : Sw) (l v : Value) (u : U) : setNthF sw [l, numI 0 u, v] = .error .indexZero := by
  have : ((0 : Int) : Rat) = 0 := rfl
  simp only [setNthF, numI, this]
  rcases setNthParts l with ⟨es, sep, br⟩
  simp [setNthIndex, isZero_zero]

theorem C14_set_nth_range_err (sw : Sw) (l v : Value) (n : Int) (u : U) (h : (elems l).length < n.natAbs) :
    setNthF sw [l, numI n u, v] = .error .indexRange := by
  have h0 : n ≠ 0 := by omega
  have hp := setNthParts_fst l
  simp only [setNthF, numI]
  rcases hsp : setNthParts l with ⟨es, sep, br⟩
  rw [hsp] at hp
  simp only at hp
  subst hp
  simp [setNthIndex, isZero_intCast n h0, tooBig_intCast, asInt_intCast, h]

theorem C14_set_nth_nonint_err (sw : Sw) (l v : Value) (q : Rat) (u : U)
    (hz : isZero q = false) (hi : asInt q = none) :
    setNthF sw [l, .num (.fin q) u, v] = .error .notInt := by
  simp only [setNthF]
  rcases setNthParts l with ⟨es, sep, br⟩
  simp [setNthIndex, hz, hi]


example : isZero (3/2) = false ∧ ¬ (((3 : Nat) : Rat) < (3/2 : Rat).abs) ∧ asInt (3/2) = none ∧
    isZero (7/2) = false ∧ asInt (7/2) = none := by
  decide +kernel

/-! ## join -/

/-- the separator a `join` argument contributes (documented reading): a list's own separator,
    comma for maps, its own for an argument list, none (`undecided`) for anything else -/
def argSep : Value → Sep
  | .list _ s _ => s
  | .map _ => .comma
  | .arglist _ _ s => s
  | _ => .undecided

def argBr : Value → Bool
  | .list _ _ b => b
  | _ => false

theorem joinParts_snd (sw : Sw) (h : sw.joinArgAsList = true) (l : Value) :
    (joinParts sw l).2 = (argSep l, argBr l) := by
  cases l <;> simp [joinParts, argSep, argBr, h]

theorem joinF_two (sw : Sw) (a b : Value) :
    joinF sw [a, b] = .ok (mkList ((joinParts sw a).1 ++ (joinParts sw b).1)
      (joinAutoSep (joinParts sw a).2.1 (joinParts sw b).2.1) (joinParts sw a).2.2) := by
  simp [joinF, sepArg, bracketedArg]

/-- `length(join(a, b)) = length(a) + length(b)`; the elements are those of `a` followed by those of `b` -/
theorem C14_length_join (sw : Sw) (h : sw.joinArgAsList = true) (a b : Value) :
    ∃ r, joinF sw [a, b] = .ok r ∧ elems r = elems a ++ elems b ∧
      lengthF [r] = .ok (natV ((elems a).length + (elems b).length)) ∧
      lawLengthJoin (natV (elems a).length) (natV (elems b).length) (natV ((elems a).length + (elems b).length)) = true := by
  refine ⟨_, joinF_two sw a b, ?_, ?_, ?_⟩
  · rw [elems_mkList, joinParts_fst sw h, joinParts_fst sw h]
  · rw [lengthF_one, elems_mkList, joinParts_fst sw h, joinParts_fst sw h, List.length_append]
  · simp [lawLengthJoin, natOf_natV]

/-- `join` never returns a list without a separator: with `auto` (or none given) it is the first
    operand's, else the second's, else space — so a later `join`/`append`/`==` sees a decided one -/
theorem C14_join_result_decided (sw : Sw) (a b r : Value) (h : joinF sw [a, b] = .ok r) :
    ∃ s, innerSep r = some s ∧ s ≠ .undecided := by
  rw [joinF_two] at h
  cases h
  refine ⟨_, rfl, ?_⟩
  unfold joinAutoSep
  split
  · assumption
  · split
    · assumption
    · decide

/-- likewise `append` -/
theorem C14_append_result_decided (sw : Sw) (l v r : Value) (h : appendF sw [l, v] = .ok r) :
    ∃ s, innerSep r = some s ∧ s ≠ .undecided := by
  rw [appendF_two] at h
  cases h
  refine ⟨_, rfl, ?_⟩
  split
  · decide
  · assumption

theorem C14_length_join_now (a b : Value) :
    ∃ r, joinF Sw.now [a, b] = .ok r ∧ elems r = elems a ++ elems b ∧
      lengthF [r] = .ok (natV ((elems a).length + (elems b).length)) :=
  let ⟨r, h1, h2, h3, _⟩ := C14_length_join Sw.now rfl a b
  ⟨r, h1, h2, h3⟩

theorem separatorF_mkList (es : List Value) (s : Sep) (b : Bool) :
    separatorF [mkList es s b] = .ok (.str (sepName s) false) := rfl

/-- separator of `join(a, b)`: the first argument's unless it has none, then the second's, then space;
    bracketed iff the first argument is -/
theorem C14_join_separator_rule (sw : Sw) (h : sw.joinArgAsList = true) (a b : Value) :
    ∃ es, joinF sw [a, b] = .ok (mkList es (joinSepRule (argSep a) (argSep b) none) (argBr a)) ∧
      lawJoinSep (argSep a) (argSep b) none (.str (sepName (joinSepRule (argSep a) (argSep b) none)) false) = true := by
  refine ⟨(joinParts sw a).1 ++ (joinParts sw b).1, ?_, ?_⟩
  · rw [joinF_two, joinParts_snd sw h a, joinParts_snd sw h b]
    rfl
  · simp [lawJoinSep, sameV]

theorem C14_join_separator_rule_now (a b : Value) :
    ∃ es, joinF Sw.now [a, b] = .ok (mkList es (joinSepRule (argSep a) (argSep b) none) (argBr a)) :=
  let ⟨es, h, _⟩ := C14_join_separator_rule Sw.now rfl a b
  ⟨es, h⟩

/-- `$separator: auto` is the same as omitting it -/
theorem C14_join_separator_auto (sw : Sw) (a b : Value) (q : Bool) :
    joinF sw [a, b, .str "auto".toList q] = joinF sw [a, b] := by
  simp [joinF, sepArg, bracketedArg]

def sepOfName (s : Sep) : Sep := match s with | .undecided => .space | s => s

/-- an explicit `$separator` (`comma`, `space` or `slash`, quoted or not) decides -/
theorem C14_join_separator_explicit (sw : Sw) (h : sw.joinArgAsList = true) (a b : Value) (s : Sep) (q : Bool) :
    ∃ es, joinF sw [a, b, .str (sepName s) q] = .ok (mkList es (joinSepRule (argSep a) (argSep b) (some (sepOfName s))) (argBr a)) ∧
      es = elems a ++ elems b := by
  refine ⟨elems a ++ elems b, ?_, rfl⟩
  have ha := joinParts_snd sw h a
  have hb := joinParts_snd sw h b
  have fa := joinParts_fst sw h a
  have fb := joinParts_fst sw h b
  rcases hpa : joinParts sw a with ⟨e1, s1, b1⟩
  rcases hpb : joinParts sw b with ⟨e2, s2, b2⟩
  rw [hpa] at ha fa; rw [hpb] at hb fb
  simp only [Prod.mk.injEq] at ha hb fa fb
  cases s <;> simp [joinF, sepArg, bracketedArg, sepName, joinSepRule, sepOfName, hpa, hpb, fa, fb, ha.2] <;> decide

theorem appendParts_snd (sw : Sw) (h : sw.appendAsList = true) (l : Value) :
    (appendParts sw l).2 = (argSep l, argBr l) := by
  cases l <;> simp [appendParts, argSep, argBr, h]

/-- separator of `append(l, v)`: the list's own, `space` if it has none; brackets are kept; an explicit
    `$separator` decides -/
theorem C14_append_separator (sw : Sw) (h : sw.appendAsList = true) (l v : Value) :
    appendF sw [l, v] = .ok (mkList (elems l ++ [v]) (if argSep l = .undecided then .space else argSep l) (argBr l)) ∧
    (∀ (s : Sep) (q : Bool), appendF sw [l, v, .str (sepName s) q] = .ok (mkList (elems l ++ [v]) (sepOfName s) (argBr l))) ∧
    (∀ q, appendF sw [l, v, .str "foo".toList q] = .error .badSeparator) ∧
    appendF sw [l, v, .null] = .error .notString := by
  have hf := appendParts_fst sw h l
  have hs := appendParts_snd sw h l
  rcases hp : appendParts sw l with ⟨es, sep, br⟩
  rw [hp] at hf hs
  simp only [Prod.mk.injEq] at hf hs
  obtain ⟨hs1, hs2⟩ := hs
  subst hf hs1 hs2
  refine ⟨?_, ?_, ?_, ?_⟩
  · simp [appendF, sepArg, hp]
  · intro s q
    cases s <;> simp [appendF, sepArg, hp, sepName, sepOfName] <;> decide
  · intro q; simp [appendF, sepArg]
  · simp [appendF, sepArg]

example : Sw.spec.appendAsList = true ∧ Sw.spec.joinArgAsList = true ∧ Sw.spec.rangeByInt = true ∧ Sw.spec.setArity = true :=
  ⟨rfl, rfl, rfl, rfl⟩

theorem C14_append_separator_now (l v : Value) :
    appendF Sw.now [l, v] = .ok (mkList (elems l ++ [v]) (if argSep l = .undecided then .space else argSep l) (argBr l)) :=
  (C14_append_separator Sw.now rfl l v).1

theorem C14_join_bad_separator_err (sw : Sw) (a b : Value) (q : Bool) :
    joinF sw [a, b, .str "foo".toList q] = .error .badSeparator := by
  simp [joinF, sepArg]

theorem C14_join_separator_not_string_err (sw : Sw) (a b : Value) :
    joinF sw [a, b, .null] = .error .notString := by
  simp [joinF, sepArg]

theorem C14_join_missing_err (sw : Sw) (a : Value) : joinF sw [a] = .error .missingArg := rfl

/-! ## zip -/

theorem length_zipRows (n : Nat) (ls : List (List Value)) : (zipRows n ls).length = n := by
  induction n generalizing ls with
  | zero => rfl
  | succ n ih => simp [zipRows, ih]

theorem minLen_le (ls : List (List Value)) : ∀ l, l ∈ ls → minLen ls ≤ l.length := by
  induction ls with
  | nil => intro l h; cases h
  | cons a t ih =>
    intro l hl
    cases t with
    | nil => simp at hl; subst hl; simp [minLen]
    | cons b t' =>
      have : minLen (a :: b :: t') = min a.length (minLen (b :: t')) := rfl
      rw [this]
      rcases List.mem_cons.mp hl with h | h
      · subst h; omega
      · have := ih l h; omega

theorem minLen_attained (ls : List (List Value)) (h : ls ≠ []) : ∃ l, l ∈ ls ∧ minLen ls = l.length := by
  induction ls with
  | nil => exact absurd rfl h
  | cons a t ih =>
    cases t with
    | nil => exact ⟨a, by simp, rfl⟩
    | cons b t' =>
      have e : minLen (a :: b :: t') = min a.length (minLen (b :: t')) := rfl
      obtain ⟨l, hl, hm⟩ := ih (by simp)
      by_cases hc : a.length ≤ minLen (b :: t')
      · exact ⟨a, by simp, by rw [e]; omega⟩
      · exact ⟨l, List.mem_cons_of_mem _ hl, by rw [e]; omega⟩

/-- `length(zip(l₁ … lₖ))` is the least of the lengths (0 for no list): it is below every length and
    is attained; the result is an unbracketed comma list -/
theorem C14_zip_length (args : List Value) :
    ∃ rows, zipF args = .ok (mkList rows .comma false) ∧
      rows.length = minLen (args.map elems) ∧
      (∀ a, a ∈ args → rows.length ≤ (elems a).length) ∧
      (args ≠ [] → ∃ a, a ∈ args ∧ rows.length = (elems a).length) ∧
      (args = [] → rows.length = 0) := by
  refine ⟨_, rfl, length_zipRows _ _, ?_, ?_, ?_⟩
  · intro a ha
    rw [length_zipRows]
    exact minLen_le _ _ (List.mem_map_of_mem ha)
  · intro hne
    rw [length_zipRows]
    obtain ⟨l, hl, hm⟩ := minLen_attained (args.map elems) (by simpa using hne)
    obtain ⟨a, ha, rfl⟩ := List.mem_map.mp hl
    exact ⟨a, ha, hm⟩
  · intro h; subst h; rfl

/-! ## strings -/

theorem intArg_int (n : Int) : intArg (numI n .none) = .ok n := by
  simp [intArg, numI, asInt_intCast]

theorem strSliceF_int (s : List Char) (q : Bool) (a b : Int) :
    strSliceF [.str s q, numI a .none, numI b .none] = .ok (.str (sliceCore s a b) q) := by
  simp [strSliceF, assertString, intArg_int]

theorem strSliceF_int1 (s : List Char) (q : Bool) (a : Int) :
    strSliceF [.str s q, numI a .none] = .ok (.str (sliceCore s a (-1)) q) := by
  simp [strSliceF, assertString, intArg_int]

/-- `str-slice(s, 1, k) ++ str-slice(s, k + 1, -1) = s` for `0 ≤ k ≤ length`; quotes are kept -/
theorem C14_slice_concat (s : List Char) (q : Bool) (k : Nat) (hk : k ≤ s.length) :
    ∃ a b, strSliceF [.str s q, numI 1 .none, numI (k : Int) .none] = .ok (.str a q) ∧
      strSliceF [.str s q, numI ((k : Int) + 1) .none, numI (-1) .none] = .ok (.str b q) ∧
      strSliceF [.str s q, numI ((k : Int) + 1) .none] = .ok (.str b q) ∧
      a ++ b = s ∧ lawSliceConcat (.str s q) (.str a q) (.str b q) = true := by
  refine ⟨_, _, strSliceF_int s q 1 k, strSliceF_int s q _ (-1), strSliceF_int1 s q _, slice_concat s k hk, ?_⟩
  simp [lawSliceConcat, strOf, slice_concat s k hk]

example : ∃ a b, strSliceF [.str "aé中".toList true, numI 1 .none, numI 2 .none] = .ok (.str a true) ∧
    strSliceF [.str "aé中".toList true, numI 3 .none, numI (-1) .none] = .ok (.str b true) ∧ a ++ b = "aé中".toList := by
  obtain ⟨a, b, h1, h2, _, h4, _⟩ := C14_slice_concat "aé中".toList true 2 (by decide)
  exact ⟨a, b, h1, h2, h4⟩

/-- `str-length(str-slice(s, a, b)) = b - a + 1` for `1 ≤ a ≤ b + 1`, `b ≤ length`, and the slice is
    the code points `a … b` -/
theorem C14_length_slice (s : List Char) (q : Bool) (a b : Int) (ha : 1 ≤ a) (hab : a ≤ b + 1) (hb : b ≤ (s.length : Int)) :
    ∃ r, strSliceF [.str s q, numI a .none, numI b .none] = .ok (.str r q) ∧
      r = (s.drop (a.toNat - 1)).take (b - a + 1).toNat ∧
      strLengthF [.str r q] = .ok (natV (b - a + 1).toNat) ∧
      (a ≤ b → lawLengthSlice a.toNat b.toNat (natV (b - a + 1).toNat) = true) := by
  refine ⟨_, strSliceF_int s q a b, slice_eq_take_drop s a b ha hab hb, ?_, ?_⟩
  · simp [strLengthF, assertString, length_slice s a b ha hab hb]
  · intro h
    simp only [lawLengthSlice, natOf_natV]
    simp; omega

example : (1 : Int) ≤ 2 ∧ (2 : Int) ≤ 3 + 1 ∧ (3 : Int) ≤ ("abcd".toList.length : Int) := by decide

/-- negative positions count from the end (`-1` = last code point), on either argument -/
theorem C14_slice_neg (s : List Char) (q : Bool) (k e : Int) (hk1 : 1 ≤ k) (hk2 : k ≤ (s.length : Int)) :
    strSliceF [.str s q, numI (-k) .none, numI e .none] =
        strSliceF [.str s q, numI ((s.length : Int) - k + 1) .none, numI e .none] ∧
    strSliceF [.str s q, numI e .none, numI (-k) .none] =
        strSliceF [.str s q, numI e .none, numI ((s.length : Int) - k + 1) .none] := by
  simp only [strSliceF_int, slice_neg_start s k e hk1 hk2, slice_neg_end s e k hk1 hk2, and_self]

/-- positions beyond the ends are clamped; start `0` is start `1` -/
theorem C14_slice_clamp (s : List Char) (q : Bool) (a e : Int) (he : (s.length : Int) ≤ e) :
    strSliceF [.str s q, numI a .none, numI e .none] = strSliceF [.str s q, numI a .none, numI (s.length : Int) .none] ∧
    strSliceF [.str s q, numI 0 .none, numI e .none] = strSliceF [.str s q, numI 1 .none, numI e .none] := by
  simp only [strSliceF_int, slice_clamp_end s a e he, slice_start_zero, and_self]

theorem C14_slice_units_err (s : List Char) (q : Bool) (n : Int) :
    strSliceF [.str s q, numI n .px] = .error .hasUnits := by
  simp [strSliceF, assertString, intArg, numI]

theorem C14_slice_nonint_err (s : List Char) (q : Bool) (x : Rat) (h : asInt x = none) :
    strSliceF [.str s q, .num (.fin x) .none] = .error .notInt := by
  simp [strSliceF, assertString, intArg, h]

example : asInt (3/2) = none := by decide +kernel

theorem C14_slice_not_number_err (s : List Char) (q : Bool) :
    strSliceF [.str s q, .null] = .error .notNumber := by
  simp [strSliceF, assertString, intArg]

theorem C14_str_not_string_err (v : Value) (h : ∀ s q, v ≠ .str s q) :
    strLengthF [v] = .error .notString ∧ quoteF [v] = .error .notString ∧ unquoteF [v] = .error .notString ∧
      strSliceF [v, numI 1 .none] = .error .notString := by
  cases v <;> simp_all [strLengthF, quoteF, unquoteF, strSliceF, assertString]

example : ∀ s q, (Value.null) ≠ .str s q := by intro s q h; cases h

theorem strInsertF_int (s ins : List Char) (q q' : Bool) (i : Int) :
    strInsertF [.str s q, .str ins q', numI i .none] = .ok (.str (insertCore s ins i) q) := by
  simp [strInsertF, assertString, intArg_int]

/-- `str-length(str-insert(s, ins, i)) = str-length(s) + str-length(ins)` for every integer `i`;
    the quotes of `s` are kept -/
theorem C14_length_insert (s ins : List Char) (q q' : Bool) (i : Int) :
    ∃ r, strInsertF [.str s q, .str ins q', numI i .none] = .ok (.str r q) ∧
      strLengthF [.str r q] = .ok (natV (s.length + ins.length)) ∧
      lawLengthInsert (natV s.length) (natV ins.length) (natV (s.length + ins.length)) = true := by
  refine ⟨_, strInsertF_int s ins q q' i, ?_, ?_⟩
  · simp [strLengthF, assertString, length_insert]
  · simp [lawLengthInsert, natOf_natV]

/-- where the text goes: before position `i` for `1 ≤ i ≤ length + 1` (so that it starts at position
    `i` of the result); for `-k`, after the `k`-th code point from the end … ; beyond either end it
    is clamped to that end -/
theorem C14_insert_position (s ins : List Char) (q q' : Bool) :
    (∀ i : Int, 1 ≤ i → i ≤ (s.length : Int) + 1 →
      strInsertF [.str s q, .str ins q', numI i .none] = .ok (.str (s.take (i.toNat - 1) ++ ins ++ s.drop (i.toNat - 1)) q)) ∧
    (∀ k : Int, 1 ≤ k → k ≤ (s.length : Int) + 1 →
      strInsertF [.str s q, .str ins q', numI (-k) .none] =
        .ok (.str (s.take ((s.length : Int) - k + 1).toNat ++ ins ++ s.drop ((s.length : Int) - k + 1).toNat) q)) ∧
    (∀ i : Int, (s.length : Int) + 1 ≤ i → strInsertF [.str s q, .str ins q', numI i .none] = .ok (.str (s ++ ins) q)) ∧
    (∀ i : Int, i ≤ -((s.length : Int) + 1) → strInsertF [.str s q, .str ins q', numI i .none] = .ok (.str (ins ++ s) q)) := by
  refine ⟨?_, ?_, ?_, ?_⟩
  · intro i h1 h2; rw [strInsertF_int, insert_pos s ins i h1 h2]
  · intro k h1 h2; rw [strInsertF_int, insert_neg s ins k h1 h2]
  · intro i h; rw [strInsertF_int, insert_clamp_hi s ins i h]
  · intro i h; rw [strInsertF_int, insert_clamp_lo s ins i h]

theorem C14_insert_units_err (s ins : List Char) (q q' : Bool) (n : Int) :
    strInsertF [.str s q, .str ins q', numI n .px] = .error .hasUnits := by
  simp [strInsertF, assertString, intArg, numI]

theorem strIndexF_str (s sub : List Char) (q q' : Bool) :
    strIndexF [.str s q, .str sub q'] =
      match findSub sub s with
      | some i => .ok (natV (i + 1))
      | none => .ok .null := by
  simp only [strIndexF, assertString]
  cases findSub sub s <;> rfl

/-- `str-index(s, sub) = i` ⇒ `str-slice(s, i, i + length(sub) − 1) = sub`, `sub` does not occur at
    any earlier position; `null` ⇔ `sub` occurs nowhere -/
theorem C14_index_slice (s sub : List Char) (q q' : Bool) (hne : sub ≠ []) :
    (∀ i, findSub sub s = some i →
      strIndexF [.str s q, .str sub q'] = .ok (natV (i + 1)) ∧
      strSliceF [.str s q, numI ((i : Int) + 1) .none, numI ((i : Int) + (sub.length : Int)) .none] = .ok (.str sub q) ∧
      occursAt sub s i = true ∧ (∀ j, j < i → occursAt sub s j = false)) ∧
    (findSub sub s = none →
      strIndexF [.str s q, .str sub q'] = .ok .null ∧ ∀ j, j ≤ s.length → occursAt sub s j = false) ∧
    ((∀ j, j ≤ s.length → occursAt sub s j = false) → strIndexF [.str s q, .str sub q'] = .ok .null) := by
  refine ⟨?_, ?_, ?_⟩
  · intro i h
    obtain ⟨h1, h2, _, _⟩ := findSub_some sub s i h
    refine ⟨by rw [strIndexF_str, h], ?_, h1, h2⟩
    rw [strSliceF_int, findSub_slice sub s i h hne]
  · intro h
    exact ⟨by rw [strIndexF_str, h], (findSub_none sub s).mp h⟩
  · intro h
    rw [strIndexF_str, (findSub_none sub s).mpr h]

example : findSub "é中".toList "aé中b".toList = some 1 := by decide

/-- `unquote(quote(s))` is `s` without quotes and `quote(unquote(s))` is `s` with quotes: the text is
    never changed by either -/
theorem C14_unquote_quote (s : List Char) (q : Bool) :
    ∃ a b, quoteF [.str s q] = .ok a ∧ unquoteF [a] = .ok (.str s false) ∧
      unquoteF [.str s q] = .ok b ∧ quoteF [b] = .ok (.str s true) ∧
      lawUnquoteQuote (.str s q) (.str s false) (.str s true) = true := by
  refine ⟨.str s true, .str s false, rfl, rfl, rfl, rfl, ?_⟩
  simp [lawUnquoteQuote, strOf, sameV]

/-- `to-upper-case` / `to-lower-case` change ASCII letters only and keep the length -/
theorem C14_case_length (s : List Char) (q : Bool) :
    ∃ a b, upperF [.str s q] = .ok (.str a q) ∧ lowerF [.str s q] = .ok (.str b q) ∧
      a.length = s.length ∧ b.length = s.length ∧
      (∀ c, c ∈ s → ¬ ('a' ≤ c ∧ c ≤ 'z') → upperC c = c) ∧ (∀ c, c ∈ s → ¬ ('A' ≤ c ∧ c ≤ 'Z') → lowerC c = c) := by
  refine ⟨s.map upperC, s.map lowerC, rfl, rfl, by simp, by simp, ?_, ?_⟩
  · intro c _ h; simp [upperC, h]
  · intro c _ h; simp [lowerC, h]

/-! ## maps -/

/-- all strings, under every variant of `==` (quotes are ignored, contents compared exactly) -/
theorem strKeys (e : Grass.Value.Sw) : KeyEquiv e (fun x => ∃ s q, x = .str s q) where
  refl := by rintro x ⟨s, q, rfl⟩; simp [veq]
  symm := by
    rintro x y ⟨s, q, rfl⟩ ⟨s', q', rfl⟩ h
    simp only [veq, decide_eq_true_eq] at h ⊢
    exact h.symm
  trans := by
    rintro x y z ⟨s, q, rfl⟩ ⟨s', q', rfl⟩ ⟨s'', q'', rfl⟩ h1 h2
    simp only [veq, decide_eq_true_eq] at h1 h2 ⊢
    exact h1.trans h2

theorem mapGetF_map (sw : Sw) (m : VPairs) (q : Value) :
    mapGetF sw [.map m, q] = .ok ((Grass.Value.get sw.eq m q).getD .null) := rfl

theorem mapHasKeyF_map (sw : Sw) (m : VPairs) (q : Value) :
    mapHasKeyF sw [.map m, q] = .ok (.bool (Grass.Value.get sw.eq m q).isSome) := by
  simp only [mapHasKeyF, assertMap, tryMap]
  cases Grass.Value.get sw.eq m q <;> simp [hasPath]

theorem mapMergeF_maps (sw : Sw) (a b : VPairs) :
    mapMergeF sw [.map a, .map b] = .ok (.map (Grass.Value.merge sw.eq a b)) := by
  simp [mapMergeF, assertMap, tryMap, mergeNested]

theorem mapSetF_map (sw : Sw) (m : VPairs) (k v : Value) :
    mapSetF sw [.map m, k, v] = .ok (.map (Grass.Value.insert sw.eq m k v)) := by
  simp [mapSetF, assertMap, tryMap, setNested]

theorem mapRemoveF_map (sw : Sw) (m : VPairs) (k : Value) :
    mapRemoveF sw [.map m, k] = .ok (.map (Grass.Value.remove sw.eq m k)) := by
  simp [mapRemoveF, assertMap, tryMap]

theorem deepMergeF_maps (sw : Sw) (a b : VPairs) :
    deepMergeF sw [.map a, .map b] = .ok (.map (deepMerge sw a b)) := by
  simp [deepMergeF, assertMap, tryMap]

/-- `map-get(map-merge(a, b), k)` is `map-get(b, k)` if `b` has the key, else `map-get(a, k)` -/
theorem C14_get_merge (sw : Sw) {P : Value → Prop} (E : KeyEquiv sw.eq P) (a b : VPairs) (q : Value)
    (ha : keysIn P a) (hb : keysIn P b) (hq : P q) (hd : distinctKeys sw.eq b = true) :
    ∃ r hB gA gB gR, mapMergeF sw [.map a, .map b] = .ok r ∧
      mapHasKeyF sw [.map b, q] = .ok hB ∧ mapGetF sw [.map a, q] = .ok gA ∧ mapGetF sw [.map b, q] = .ok gB ∧
      mapGetF sw [r, q] = .ok gR ∧
      hB = .bool (Grass.Value.get sw.eq b q).isSome ∧
      gR = (if (Grass.Value.get sw.eq b q).isSome then gB else gA) ∧
      lawGetMerge hB gA gB gR = true := by
  refine ⟨_, _, _, _, _, mapMergeF_maps sw a b, mapHasKeyF_map sw b q, mapGetF_map sw a q, mapGetF_map sw b q,
    mapGetF_map sw _ q, rfl, ?_, ?_⟩
  · rw [get_merge E a b q ha hb hq hd]
    cases Grass.Value.get sw.eq b q <;> simp
  · rw [get_merge E a b q ha hb hq hd]
    cases Grass.Value.get sw.eq b q <;> simp [lawGetMerge, sameV]

/-- the keys of `map-merge(a, b)` are those of `a` or `b` -/
theorem C14_keys_merge (sw : Sw) {P : Value → Prop} (E : KeyEquiv sw.eq P) (a b : VPairs) (q : Value)
    (ha : keysIn P a) (hb : keysIn P b) (hq : P q) (hd : distinctKeys sw.eq b = true) :
    ∃ r, mapMergeF sw [.map a, .map b] = .ok r ∧
      mapHasKeyF sw [r, q] =
        .ok (.bool ((Grass.Value.get sw.eq a q).isSome || (Grass.Value.get sw.eq b q).isSome)) ∧
      lawKeysMerge (.bool (Grass.Value.get sw.eq a q).isSome) (.bool (Grass.Value.get sw.eq b q).isSome)
        (.bool ((Grass.Value.get sw.eq a q).isSome || (Grass.Value.get sw.eq b q).isSome)) = true := by
  refine ⟨_, mapMergeF_maps sw a b, ?_, ?_⟩
  · rw [mapHasKeyF_map, get_merge E a b q ha hb hq hd]
    cases Grass.Value.get sw.eq b q <;> cases Grass.Value.get sw.eq a q <;> simp
  · simp [lawKeysMerge]

example : keysIn (fun x => ∃ s q, x = Value.str s q) (.cons (.str "a".toList false) .null (.cons (.str "b".toList true) .null .nil)) ∧
    distinctKeys Grass.Value.Sw.now (.cons (.str "a".toList false) .null (.cons (.str "b".toList true) .null .nil)) = true := by
  refine ⟨⟨⟨_, _, rfl⟩, ⟨_, _, rfl⟩, trivial⟩, ?_⟩
  simp [distinctKeys, VPairs.any, veq]

/-- `map-get(map.set(m, k, v), k) = v` (needs only `k == k`), and every other key keeps its value -/
theorem C14_get_set (sw : Sw) (m : VPairs) (k v : Value) (hr : veq sw.eq k k = true) :
    ∃ r, mapSetF sw [.map m, k, v] = .ok r ∧ mapGetF sw [r, k] = .ok v ∧ lawGetSet v v = true ∧
      ∀ {P : Value → Prop}, KeyEquiv sw.eq P → keysIn P m → P k → ∀ q, P q → veq sw.eq k q = false →
        mapGetF sw [r, q] = mapGetF sw [.map m, q] := by
  refine ⟨_, mapSetF_map sw m k v, ?_, ?_, ?_⟩
  · rw [mapGetF_map, get_insert_self sw.eq m k v hr]; rfl
  · simp [lawGetSet, sameV]
  · intro P E hm hk q hq hne
    rw [mapGetF_map, mapGetF_map, get_insert E m k v q hm hk hq]
    simp [hne]

theorem getPath_setNested (sw : Sw) (ks : List Value) (m : VPairs) (k v : Value)
    (hr : ∀ x, x ∈ ks → veq sw.eq x x = true) (hk : veq sw.eq k k = true) :
    getPath sw (ks ++ [k]) (.map (setNested sw ks m k v)) = v := by
  induction ks generalizing m with
  | nil => simp [getPath, setNested, tryMap, getD, get_insert_self sw.eq m k v hk]
  | cons k1 ks ih =>
    have h1 := hr k1 (by simp)
    simp only [List.cons_append, getPath, setNested, tryMap, getD, get_insert_self sw.eq m k1 _ h1, Option.getD_some]
    exact ih _ (fun x hx => hr x (List.mem_cons_of_mem _ hx))

theorem last2 (ks : List Value) (k v : Value) :
    (ks ++ [k, v]).getLast?.getD .null = v ∧ (ks ++ [k, v]).dropLast.getLast?.getD .null = k ∧
      (ks ++ [k, v]).dropLast.dropLast = ks := by
  have e : ks ++ [k, v] = (ks ++ [k]) ++ [v] := by simp
  rw [e]
  simp

theorem mapSetF_nested (sw : Sw) (m : VPairs) (ks : List Value) (k v : Value) :
    mapSetF sw (.map m :: (ks ++ [k, v])) = .ok (.map (setNested sw ks m k v)) := by
  obtain ⟨h1, h2, h3⟩ := last2 ks k v
  simp only [mapSetF, assertMap, tryMap]
  split
  · rename_i h; simp at h
  · rename_i h; have := congrArg List.length h; simp at this
  · rw [h1, h2, h3]

theorem mapGetF_path (sw : Sw) (m : VPairs) (k : Value) (ks : List Value) :
    mapGetF sw (.map m :: k :: ks) = .ok (getPath sw (k :: ks) (.map m)) := rfl

/-- nested keys: `map-get(map.set(m, k₁ … kₙ, k, v), k₁ … kₙ, k) = v` (needs only `x == x` for the keys
    on the path) -/
theorem C14_get_set_nested (sw : Sw) (m : VPairs) (ks : List Value) (k v : Value)
    (hr : ∀ x, x ∈ ks → veq sw.eq x x = true) (hk : veq sw.eq k k = true) :
    ∃ r, mapSetF sw (.map m :: (ks ++ [k, v])) = .ok (.map r) ∧ mapGetF sw (.map r :: (ks ++ [k])) = .ok v := by
  refine ⟨_, mapSetF_nested sw m ks k v, ?_⟩
  have := getPath_setNested sw ks m k v hr hk
  cases ks with
  | nil => rw [List.nil_append, mapGetF_path]; exact congrArg _ this
  | cons a t => rw [List.cons_append, mapGetF_path]; exact congrArg _ this

example : ∀ x, x ∈ [Value.str "a".toList false, Value.null] → veq Grass.Value.Sw.now x x = true := by
  intro x hx
  simp at hx
  rcases hx with rfl | rfl <;> simp [veq]

/-- the map that holds nothing but the path `k₁ … kₙ, key ↦ v` -/
def chain : List Value → Value → Value → VPairs
  | [], key, v => .cons key v .nil
  | k :: ks, key, v => .cons k (.map (chain ks key v)) .nil

theorem setNested_nil (sw : Sw) (ks : List Value) (key v : Value) :
    setNested sw ks .nil key v = chain ks key v := by
  induction ks with
  | nil => rfl
  | cons k ks ih => simp [setNested, childMap, Grass.Value.get, Grass.Value.insert, chain, ih]

/-- a path key that is missing, or whose value is not a map, starts a FRESH map: below it the result
    holds nothing but the rest of the path (nothing of `m` leaks into the new level) -/
theorem C14_set_fresh_level (sw : Sw) (m : VPairs) (k1 : Value) (ks : List Value) (key v : Value)
    (h : childMap sw m k1 = .nil) :
    mapSetF sw (.map m :: (k1 :: ks ++ [key, v])) =
      .ok (.map (Grass.Value.insert sw.eq m k1 (.map (chain ks key v)))) := by
  rw [mapSetF_nested sw m (k1 :: ks) key v]
  simp [setNested, h, setNested_nil]

example : childMap Sw.now (.cons (.str "b".toList false) (.map (.cons (.str "x".toList false) .null .nil)) .nil)
    (.str "a".toList false) = .nil := by
  simp [childMap, Grass.Value.get, veq]

theorem indexOf_keys_none (e : Grass.Value.Sw) (m : VPairs) (k : Value) :
    indexOf e (keys m) k = none ↔ Grass.Value.get e m k = none := by
  induction m using VPairs.ind with
  | nil => simp [keys, indexOf, Grass.Value.get]
  | cons k' v' t ih =>
    simp only [keys, indexOf, Grass.Value.get]
    by_cases h : veq e k' k = true
    · simp [h]
    · simp [h, ih]

/-- `map-has-key(m, k)` ⇔ some key of `map-keys(m)` is `== k` — whatever the value stored under it
    (`null`, `false`, `()` … are values like any other) -/
theorem C14_has_key_index (sw : Sw) (m : VPairs) (k : Value) :
    ∃ h i, mapHasKeyF sw [.map m, k] = .ok h ∧ mapKeysF [.map m] = .ok (.list (keys m) .comma false) ∧
      indexF sw [.list (keys m) .comma false, k] = .ok i ∧
      h = .bool (indexOf sw.eq (keys m) k).isSome ∧ lawHasKeyIndex h i = true := by
  have hk := indexOf_keys_none sw.eq m k
  cases hi : indexOf sw.eq (keys m) k with
  | none =>
    have hg := hk.mp hi
    refine ⟨.bool false, .null, ?_, rfl, ?_, rfl, rfl⟩
    · simp [mapHasKeyF, assertMap, tryMap, hg]
    · simp [indexF, asList, hi]
  | some i =>
    have hg : Grass.Value.get sw.eq m k ≠ none := fun h => by rw [hk.mpr h] at hi; cases hi
    obtain ⟨v, hv⟩ := Option.ne_none_iff_exists'.mp hg
    refine ⟨.bool true, natV (i + 1), ?_, rfl, ?_, rfl, rfl⟩
    · simp [mapHasKeyF, assertMap, tryMap, hv, hasPath]
    · simp [indexF, asList, hi]

example : mapHasKeyF Sw.now [.map (.cons (.str "a".toList false) .null .nil), .str "a".toList true] = .ok (.bool true) := by
  simp [mapHasKeyF, assertMap, tryMap, Grass.Value.get, veq, hasPath]

/-- `map-get(map-remove(m, k), k) = null` and the key is gone, when removal is by `==`
    (`sw.eq.removeEq`; before C09's K4 was repaired it was by `not_equals`) -/
theorem C14_remove_get (sw : Sw) (h : sw.eq.removeEq = true) (m : VPairs) (k : Value) :
    ∃ r, mapRemoveF sw [.map m, k] = .ok r ∧ mapGetF sw [r, k] = .ok .null ∧
      mapHasKeyF sw [r, k] = .ok (.bool false) ∧ lawRemoveGet .null (.bool false) = true ∧
      ∀ {P : Value → Prop}, KeyEquiv sw.eq P → keysIn P m → P k → ∀ q, P q → veq sw.eq k q = false →
        mapGetF sw [r, q] = mapGetF sw [.map m, q] := by
  refine ⟨_, mapRemoveF_map sw m k, ?_, ?_, ?_, ?_⟩
  · rw [mapGetF_map, get_remove_self sw.eq h m k]; rfl
  · rw [mapHasKeyF_map, get_remove_self sw.eq h m k]; rfl
  · simp [lawRemoveGet, sameV]
  · intro P E hm hk q hq hne
    rw [mapGetF_map, mapGetF_map, get_remove_other E h m k q hm hk hq hne]

example : Sw.spec.eq.removeEq = true := rfl

/-- `map.deep-merge(a, b)` at a key: absent from `b` ⇒ `a`'s value; both values maps (`()` counts as the
    empty map) ⇒ the deep merge of the two; otherwise `b`'s value -/
theorem C14_deep_merge_get (sw : Sw) {P : Value → Prop} (E : KeyEquiv sw.eq P) (a b : VPairs) (q : Value)
    (ha : keysIn P a) (hb : keysIn P b) (hq : P q) (hd : distinctKeys sw.eq b = true) :
    ∃ r, deepMergeF sw [.map a, .map b] = .ok r ∧
      mapGetF sw [r, q] =
        (match Grass.Value.get sw.eq b q with
         | none => mapGetF sw [.map a, q]
         | some vb =>
           match (Grass.Value.get sw.eq a q).bind tryMap, tryMap vb with
           | some ma, some mb => deepMergeF sw [.map ma, .map mb]
           | _, _ => .ok vb) := by
  refine ⟨_, deepMergeF_maps sw a b, ?_⟩
  rw [mapGetF_map, get_deepMerge sw E a b q ha hb hq hd]
  cases hB : Grass.Value.get sw.eq b q with
  | none => rfl
  | some vb =>
    simp only [Option.getD_some, dmVal_eq]
    cases (Grass.Value.get sw.eq a q).bind tryMap <;> cases tryMap vb <;> simp [deepMergeF_maps]

/-- the law the check evaluates on grass's own answers follows -/
theorem C14_deep_merge_get_law (sw : Sw) {P : Value → Prop} (E : KeyEquiv sw.eq P) (a b : VPairs) (q : Value)
    (ha : keysIn P a) (hb : keysIn P b) (hq : P q) (hd : distinctKeys sw.eq b = true) :
    lawDeepMergeGet (.bool (Grass.Value.get sw.eq b q).isSome)
      ((Grass.Value.get sw.eq a q).getD .null) ((Grass.Value.get sw.eq b q).getD .null)
      (match tryMap ((Grass.Value.get sw.eq a q).getD .null), tryMap ((Grass.Value.get sw.eq b q).getD .null) with
        | some ma, some mb => .map (deepMerge sw ma mb)
        | _, _ => .null)
      ((Grass.Value.get sw.eq (deepMerge sw a b) q).getD .null) = true := by
  rw [get_deepMerge sw E a b q ha hb hq hd]
  cases hB : Grass.Value.get sw.eq b q with
  | none => simp [lawDeepMergeGet, sameV]
  | some vb =>
    simp only [Option.getD_some, dmVal_eq, Option.isSome_some, lawDeepMergeGet]
    cases hA : Grass.Value.get sw.eq a q with
    | none => simp [tryMap, sameV]
    | some va =>
      simp only [Option.bind_some, Option.getD_some]
      cases tryMap va <;> cases tryMap vb <;> simp [sameV]

theorem C14_map_not_map_err (sw : Sw) (k : Value) (n : Num) (u : U) :
    mapGetF sw [.num n u, k] = .error .notMap ∧ mapKeysF [.num n u] = .error .notMap ∧
      mapMergeF sw [.num n u, .map .nil] = .error .notMap ∧ mapMergeF sw [.map .nil, .num n u] = .error .notMap := by
  simp [mapGetF, mapKeysF, mapMergeF, assertMap, tryMap]

theorem C14_map_missing_err (sw : Sw) (m : Value) :
    mapGetF sw [m] = .error .missingArg ∧ mapHasKeyF sw [m] = .error .missingArg ∧
      mapMergeF sw [m] = .error .noKey ∧ deepMergeF sw [] = .error .missingArg ∧
      (∀ ps, deepMergeF sw [.map ps] = .error .missingArg) := by
  simp [mapGetF, mapHasKeyF, mapMergeF, deepMergeF, assertMap, tryMap]

/-- arity of `map.set`: after the map, a key and a value are required -/
theorem C14_map_set_arity_err (sw : Sw) (h : sw.setArity = true) (ps : VPairs) (v : Value) (n : Num) (u : U) :
    mapSetF sw [.map ps] = .error .noKey ∧ mapSetF sw [.map ps, v] = .error .noValue ∧
    mapSetF sw [] = .error .missingArg ∧ mapSetF sw [.num n u, v] = .error .notMap := by
  simp [mapSetF, assertMap, tryMap, h]

theorem C14_map_set_arity_err_now (ps : VPairs) (v : Value) :
    mapSetF Sw.now [.map ps] = .error .noKey ∧ mapSetF Sw.now [.map ps, v] = .error .noValue :=
  let ⟨h1, h2, _, _⟩ := C14_map_set_arity_err Sw.now rfl ps v .nan .none
  ⟨h1, h2⟩

/-- the code as it stands removes by `==` -/
theorem C14_remove_get_now (m : VPairs) (k : Value) :
    ∃ r, mapRemoveF Sw.now [.map m, k] = .ok r ∧ mapGetF Sw.now [r, k] = .ok .null ∧
      mapHasKeyF Sw.now [r, k] = .ok (.bool false) :=
  let ⟨r, h1, h2, h3, _⟩ := C14_remove_get Sw.now rfl m k
  ⟨r, h1, h2, h3⟩

/-- `list-separator` / `is-bracketed` read the list's own separator (`space` when it has none) and
    bracket flag; a map is an unbracketed comma list, an argument list an unbracketed list with the
    separator it carries, any other value an unbracketed space list -/
theorem C14_separator_bracketed (es : VList) (sep : Sep) (br : Bool) (ps kw : VPairs) (s : Sep) :
    separatorF [.list es sep br] = .ok (.str (sepName sep) false) ∧ isBracketedF [.list es sep br] = .ok (.bool br) ∧
    separatorF [.map ps] = .ok (.str "comma".toList false) ∧ isBracketedF [.map ps] = .ok (.bool false) ∧
    separatorF [.arglist es kw s] = .ok (.str (sepName s) false) ∧ isBracketedF [.arglist es kw s] = .ok (.bool false) ∧
    separatorF [.null] = .ok (.str "space".toList false) ∧ isBracketedF [.null] = .ok (.bool false) ∧
    sepName .undecided = "space".toList :=
  ⟨rfl, rfl, rfl, rfl, rfl, rfl, rfl, rfl, rfl⟩

theorem length_keys (m : VPairs) : (keys m).toList.length = m.length := by
  induction m using VPairs.ind with
  | nil => rfl
  | cons k v t ih => simp [keys, VList.toList, VPairs.length, ih]

theorem length_values (m : VPairs) : (values m).toList.length = m.length := by
  induction m using VPairs.ind with
  | nil => rfl
  | cons k v t ih => simp [values, VList.toList, VPairs.length, ih]

theorem length_pairsAsList (m : VPairs) : (pairsAsList m).toList.length = m.length := by
  induction m using VPairs.ind with
  | nil => rfl
  | cons k v t ih => simp [pairsAsList, VList.toList, VPairs.length, ih]

/-- `map-keys` / `map-values` are unbracketed comma lists with one element per entry, and `length`
    of the map itself is the number of entries -/
theorem C14_keys_values_length (m : VPairs) :
    mapKeysF [.map m] = .ok (.list (keys m) .comma false) ∧ mapValuesF [.map m] = .ok (.list (values m) .comma false) ∧
    lengthF [.list (keys m) .comma false] = .ok (natV m.length) ∧
    lengthF [.list (values m) .comma false] = .ok (natV m.length) ∧
    lengthF [.map m] = .ok (natV m.length) := by
  refine ⟨rfl, rfl, ?_, ?_, ?_⟩
  · simp [lengthF, elems, asList, length_keys]
  · simp [lengthF, elems, asList, length_values]
  · simp [lengthF, elems, asList, length_pairsAsList]

/-- `map.deep-remove(m, k)` with a single key removes it (when removal is by `==`) -/
theorem C14_deep_remove_get (sw : Sw) (h : sw.eq.removeEq = true) (m : VPairs) (k : Value) :
    ∃ r, deepRemoveF sw [.map m, k] = .ok (.map r) ∧ mapGetF sw [.map r, k] = .ok .null ∧
      mapHasKeyF sw [.map r, k] = .ok (.bool false) := by
  have hc := contains_eq_isSome sw.eq m k
  by_cases hk : contains sw.eq m k = true
  · refine ⟨Grass.Value.remove sw.eq m k, ?_, ?_, ?_⟩
    · simp [deepRemoveF, assertMap, tryMap, dropKey, hk]
    · simp [mapGetF, assertMap, tryMap, getPath, getD, get_remove_self sw.eq h m k]
    · simp [mapHasKeyF, assertMap, tryMap, get_remove_self sw.eq h m k]
  · have hn : Grass.Value.get sw.eq m k = none := by
      rw [hc] at hk
      cases hg : Grass.Value.get sw.eq m k <;> simp_all
    refine ⟨m, ?_, ?_, ?_⟩
    · simp [deepRemoveF, assertMap, tryMap, dropKey, hk]
    · simp [mapGetF, assertMap, tryMap, getPath, getD, hn]
    · simp [mapHasKeyF, assertMap, tryMap, hn]

/-! ## round 3: `index`, `string.split`, key paths, named arguments, module members -/

def isErr (r : R) (e : Err) : Bool := match r with | .error x => x == e | _ => false
def isOk (r : R) (v : Value) : Bool := match r with | .ok x => sameV x v | _ => false

/-- `index(l, v)` is the 1-based position of the FIRST element `== v`: that element is `== v`, none
    before it is; `null` iff no element is `== v` -/
theorem C14_index_first (sw : Sw) (l v : Value) :
    (∀ i, indexOf sw.eq (asList l) v = some i →
      indexF sw [l, v] = .ok (natV (i + 1)) ∧
      (∃ x, (elems l)[i]? = some x ∧ veq sw.eq x v = true) ∧
      (∀ j, j < i → ∀ y, (elems l)[j]? = some y → veq sw.eq y v = false) ∧
      lawIndexFirst sw l v (natV (i + 1)) = true) ∧
    (indexOf sw.eq (asList l) v = none →
      indexF sw [l, v] = .ok .null ∧ (∀ y, y ∈ elems l → veq sw.eq y v = false) ∧
      lawIndexFirst sw l v .null = true) ∧
    (indexF sw [l, v] = .ok .null → ∀ y, y ∈ elems l → veq sw.eq y v = false) := by
  refine ⟨?_, ?_, ?_⟩
  · intro i h
    obtain ⟨⟨x, hx, hxv⟩, hlt⟩ := indexOf_some sw.eq (asList l) v i h
    refine ⟨by simp [indexF, h], ⟨x, hx, hxv⟩, hlt, ?_⟩
    have hx' : (elems l)[i]? = some x := hx
    simp only [lawIndexFirst, natV]
    have hn : natOf (natV (i + 1)) = some (i + 1) := natOf_natV _
    simp only [natV] at hn
    simp only [hn, hx', hxv, Bool.true_and, List.all_eq_true, List.mem_range]
    intro j hj
    cases hy : (elems l)[j]? with
    | none => rfl
    | some y => simp [hlt j hj y hy]
  · intro h
    have hn := (indexOf_none sw.eq (asList l) v).mp h
    refine ⟨by simp [indexF, h], hn, ?_⟩
    simp only [lawIndexFirst, List.all_eq_true]
    intro e he
    simp [hn e he]
  · intro h
    cases hi : indexOf sw.eq (asList l) v with
    | none => exact (indexOf_none sw.eq (asList l) v).mp hi
    | some i => simp [indexF, hi, natV] at h

example : isOk (indexF Sw.now [mkList [.str "a".toList false, .str "b".toList true, .str "b".toList false] .space false,
    .str "b".toList false]) (natV 2) = true := by decide +kernel

theorem limitArg_nat (k : Nat) (h : 1 ≤ k) : limitArg (some (numI (k : Int) .none)) = .ok (some k) := by
  have : ¬ ((k : Int) < 1) := by omega
  simp [limitArg, numI, asInt_intCast, this]

theorem lawSplitJoin_pieces (s sep : List Char) (q q' : Bool) (lim : Option Nat) (ps : List (List Char))
    (h1 : joinWith sep ps = s) (h2 : 1 ≤ ps.length) (h3 : ∀ k, lim = some k → ps.length ≤ k + 1) :
    lawSplitJoin (.str s q) (.str sep q') lim (mkList (ps.map (fun p => Value.str p true)) .comma true) = true := by
  simp only [lawSplitJoin, strOf, mkList, toList_ofList, strsOf_map, h1, decide_true, Bool.true_and, h2]
  cases lim with
  | none => rfl
  | some k => simpa using h3 k rfl

/-- `string.split(s, sep[, limit])` for EVERY `s` and `sep` (empty ones included): a bracketed comma
    list of quoted strings that, joined with `sep`, give `s` back; with `$limit: k` (`k ≥ 1`) at most
    `k + 1` of them; a limit below 1 is an error -/
theorem C14_split_join (s sep : List Char) (q q' : Bool) :
    (∃ ps, splitF [.str s q, .str sep q'] = .ok (mkList (ps.map (fun p => Value.str p true)) .comma true) ∧
      joinWith sep ps = s ∧ 1 ≤ ps.length ∧
      lawSplitJoin (.str s q) (.str sep q') none (mkList (ps.map (fun p => Value.str p true)) .comma true) = true) ∧
    (∀ k : Nat, 1 ≤ k →
      ∃ ps, splitF [.str s q, .str sep q', numI (k : Int) .none] = .ok (mkList (ps.map (fun p => Value.str p true)) .comma true) ∧
        joinWith sep ps = s ∧ 1 ≤ ps.length ∧ ps.length ≤ k + 1 ∧
        lawSplitJoin (.str s q) (.str sep q') (some k) (mkList (ps.map (fun p => Value.str p true)) .comma true) = true) ∧
    (∀ k : Int, k < 1 → splitF [.str s q, .str sep q', numI k .none] = .error .limitRange) := by
  refine ⟨?_, ?_, ?_⟩
  · refine ⟨splitPieces sep (s.length + 1) s, by simp [splitF, assertString, limitArg], joinWith_splitPieces _ _ _,
      (length_splitPieces_le _ _ _).2, ?_⟩
    exact lawSplitJoin_pieces s sep q q' none _ (joinWith_splitPieces _ _ _) (length_splitPieces_le _ _ _).2 (by simp)
  · intro k hk
    refine ⟨splitPieces sep k s, by simp [splitF, assertString, limitArg_nat k hk], joinWith_splitPieces _ _ _,
      (length_splitPieces_le _ _ _).2, (length_splitPieces_le _ _ _).1, ?_⟩
    exact lawSplitJoin_pieces s sep q q' (some k) _ (joinWith_splitPieces _ _ _) (length_splitPieces_le _ _ _).2
      (by intro k' hk'; cases hk'; exact (length_splitPieces_le _ _ _).1)
  · intro k hk
    simp [splitF, assertString, limitArg, numI, asInt_intCast, hk]

example : isOk (splitF [.str "a,b,,c".toList true, .str ",".toList true, numI 2 .none])
    (mkList [.str "a".toList true, .str "b".toList true, .str ",c".toList true] .comma true) = true := by decide +kernel

theorem splitEmptyRest_all (k : Nat) (s : List Char) (h : s.length ≤ k) :
    splitEmptyRest k s = s.map (fun c => [c]) ++ [[]] := by
  fun_induction splitEmptyRest k s <;> simp_all

/-- the empty operands, as the code behaves (`str::split`): an empty separator cuts at every code-point
    boundary, the two ends included; an empty string is one empty piece -/
theorem C14_split_empty_operands (s sep : List Char) (q q' : Bool) :
    splitF [.str s q, .str [] q'] =
      .ok (mkList (([] :: (s.map (fun c => [c]) ++ [[]])).map (fun p => Value.str p true)) .comma true) ∧
    (sep ≠ [] → splitF [.str [] q, .str sep q'] = .ok (mkList [.str [] true] .comma true)) := by
  constructor
  · simp [splitF, assertString, limitArg, splitPieces, splitEmpty, splitEmptyRest_all]
  · intro h
    simp [splitF, assertString, limitArg, splitPieces, h, splitAux]

theorem mapHasKeyF_path (sw : Sw) (m : VPairs) (k : Value) (ks : List Value) :
    mapHasKeyF sw (.map m :: k :: ks) = .ok (.bool (hasPath sw (k :: ks) (.map m))) := by
  simp only [mapHasKeyF, assertMap, tryMap, hasPath]
  cases Grass.Value.get sw.eq m k <;> rfl

/-- nested keys: `map-get(m, k₁ … kₙ, k)` / `map-has-key(m, k₁ … kₙ, k)` are the single-level functions on
    the nested map the path `k₁ … kₙ` leads to; `null` / `false` when a key on the path is missing or its
    value is not a map -/
theorem C14_get_has_key_path (sw : Sw) (m : VPairs) (ks : List Value) (k : Value) :
    mapGetF sw (.map m :: (ks ++ [k])) =
      .ok (match subMap sw ks (.map m) with | some m' => (Grass.Value.get sw.eq m' k).getD .null | none => .null) ∧
    mapHasKeyF sw (.map m :: (ks ++ [k])) =
      .ok (.bool (match subMap sw ks (.map m) with | some m' => (Grass.Value.get sw.eq m' k).isSome | none => false)) := by
  have hg := getPath_snoc sw ks k (.map m)
  have hh := hasPath_snoc sw ks k (.map m)
  cases ks with
  | nil =>
    simp only [List.nil_append] at hg hh ⊢
    rw [mapGetF_path, mapHasKeyF_path, hg, hh]
    exact ⟨rfl, rfl⟩
  | cons a t =>
    simp only [List.cons_append] at hg hh ⊢
    rw [mapGetF_path, mapHasKeyF_path, hg, hh]
    exact ⟨rfl, rfl⟩

example : (subMap Sw.now [.str "a".toList false]
    (.map (.cons (.str "a".toList false) (.map (.cons (.str "b".toList false) .null .nil)) .nil))).isSome = true := by
  decide +kernel

/-- a key whose value is `null` is there: `map-has-key` is `true` while `map-get` is `null` -/
example : isOk (mapHasKeyF Sw.now [.map (.cons (.str "a".toList false) (.map (.cons (.str "b".toList false) .null .nil)) .nil),
    .str "a".toList false, .str "b".toList false]) (.bool true) = true ∧
  isOk (mapGetF Sw.now [.map (.cons (.str "a".toList false) (.map (.cons (.str "b".toList false) .null .nil)) .nil),
    .str "a".toList false, .str "b".toList false]) .null = true := by decide +kernel

/-- `map.deep-remove(m, k₁ … kₙ, last)` (`n ≥ 1`, removal by `==`, `x == x` for the keys on the path):
    afterwards the path reads `null` and `map-has-key` along it is `false` — also when a key on the path was
    missing (the code then stores `kₙ: null` at the last level, which reads `null` as well).
    That every OTHER path reads as before is not proved here (it is the law `deep_remove` the check
    evaluates on grass's own answers, and part of the correspondence). -/
theorem C14_deep_remove_path (sw : Sw) (h : sw.eq.removeEq = true) (m : VPairs) (k1 : Value) (ks : List Value) (last : Value)
    (hr : ∀ x, x ∈ k1 :: ks → veq sw.eq x x = true) :
    ∃ r, deepRemoveF sw (.map m :: (k1 :: ks ++ [last])) = .ok (.map r) ∧
      mapGetF sw (.map r :: (k1 :: ks ++ [last])) = .ok .null ∧
      mapHasKeyF sw (.map r :: (k1 :: ks ++ [last])) = .ok (.bool false) ∧
      lawDeepRemove .null .null .null = true := by
  have key : ∀ (l : List Value), (l ++ [last]).getLast?.getD .null = last ∧ (l ++ [last]).dropLast = l := by
    intro l; simp
  obtain ⟨hl, hd⟩ := key (k1 :: ks)
  simp only [List.cons_append] at hl hd
  refine ⟨modNested sw last (k1 :: ks) m, ?_, ?_, ?_, by simp [lawDeepRemove, sameV]⟩
  · simp only [List.cons_append, deepRemoveF, assertMap, tryMap, hl, hd]
  · have := (C14_get_has_key_path sw (modNested sw last (k1 :: ks) m) (k1 :: ks) last).1
    rw [this]
    cases hs : subMap sw (k1 :: ks) (.map (modNested sw last (k1 :: ks) m)) with
    | none => rfl
    | some m' => simp [subMap_modNested sw h last (k1 :: ks) (by simp) hr m m' hs]
  · have := (C14_get_has_key_path sw (modNested sw last (k1 :: ks) m) (k1 :: ks) last).2
    rw [this]
    cases hs : subMap sw (k1 :: ks) (.map (modNested sw last (k1 :: ks) m)) with
    | none => rfl
    | some m' => simp [subMap_modNested sw h last (k1 :: ks) (by simp) hr m m' hs]

example : isOk (deepRemoveF Sw.now [.map (.cons (.str "a".toList false) (natV 1) .nil), .str "z".toList false, .str "y".toList false])
    (.map (.cons (.str "a".toList false) (natV 1) (.cons (.str "z".toList false) .null .nil))) = true := by decide +kernel

/-! ### named arguments -/

/-- **named call = positional call.**  `f` a fixed-arity built-in whose parameters are `pre ++ mid ++ post`;
    the `pre` ones are given by position, the `mid` ones by name (in any order; `vals` are their values
    in parameter order), the `post` ones not at all: the call answers what the all-positional call
    answers.  (Under the documented variant the names must pass its guards, which they do — see
    `C14_named_guard`.) -/
theorem C14_named_eq_positional (sw : Sw) (f : String) (sg : Sig) (pre mid post : List String)
    (pos vals : List Value) (nm : Named)
    (hsig : sigOf f = some sg) (hmax : sg.max = some sg.params.length) (hpar : sg.params = pre ++ (mid ++ post))
    (hf : (f == "slash") = false ∧ (f == "map-merge") = false ∧ (f == "map-set") = false)
    (hpos : pre.length = pos.length) (hnm : nm.length = mid.length) (hne : nm.isEmpty = false)
    (hpre : ∀ p, p ∈ pre → nm.get p = none) (hmid : mid.map nm.get = vals.map some)
    (hpost : ∀ p, p ∈ post → nm.get p = none)
    (hstrict : sw.namedStrict = true → namesKnown f nm = true ∧ namesFresh f pos.length nm = true) :
    callN sw f pos nm = call sw f (pos ++ vals) := by
  have hslots : fillSlots (slotsOf nm sg.params pos) sg.defaults = pos ++ vals := by
    rw [hpar, slotsOf_prefix nm pre (mid ++ post) pos hpos hpre, List.map_append, hmid, ← List.append_assoc,
      ← List.map_append]
    exact fillSlots_some _ _ _ (by
      intro x hx
      obtain ⟨p, hp, rfl⟩ := List.mem_map.mp hx
      exact hpost p hp)
  have hlen : ¬ (sg.params.length < pos.length + nm.length) := by
    rw [hpar, hnm, ← hpos]; simp only [List.length_append]; omega
  have hcode : callCode sw f pos nm = call sw f (pos ++ vals) := by
    simp [callCode, hf.1, hf.2.1, hf.2.2, hsig, hmax, hlen, hslots]
  unfold callN
  simp only [hne]
  cases hs : sw.namedStrict with
  | false => simpa using hcode
  | true =>
    obtain ⟨h1, h2⟩ := hstrict hs
    simp [h1, h2, hf.2.1, hf.2.2, hcode]

/-- `join(a, b, $bracketed: true, $separator: comma)` is `join(a, b, comma, true)` -/
example (sw : Sw) (a b : Value) :
    callN sw "join" [a, b] [("bracketed", .bool true), ("separator", .str "comma".toList false)] =
      call sw "join" [a, b, .str "comma".toList false, .bool true] := by
  refine C14_named_eq_positional sw "join" ⟨["list1", "list2", "separator", "bracketed"], some 4, [none, none, some autoV, some autoV]⟩
    ["list1", "list2"] ["separator", "bracketed"] [] [a, b] [.str "comma".toList false, .bool true] _
    (by simp [sigOf, sigTable, List.lookup]) rfl rfl (by decide +kernel) rfl rfl rfl ?_ ?_ (by simp) ?_
  · intro p hp; simp at hp; rcases hp with rfl | rfl <;> simp [Named.get, List.find?]
  · simp [Named.get, List.find?]
  · intro _
    simp only [List.length_cons, List.length_nil]
    decide +kernel

/-- an optional parameter left out in between takes its default: `join(a, b, $bracketed: v)` is
    `join(a, b, auto, v)` -/
theorem C14_named_default_between (sw : Sw) (a b v : Value) :
    callN sw "join" [a, b] [("bracketed", v)] = call sw "join" [a, b, autoV, v] := by
  cases hs : sw.namedStrict <;>
    simp [callN, callCode, hs, sigOf, sigTable, List.lookup, slotsOf, fillSlots, Named.get, List.find?,
      namesKnown, namesFresh, docParams, noDup]

/-- what the documented variant demands of the names: each is a parameter, none twice, none also
    given by position; otherwise the call is an error (K14e: the code accepts such calls) -/
theorem C14_named_guard (sw : Sw) (h : sw.namedStrict = true) (f : String) (pos : List Value) (nm : Named)
    (hne : nm.isEmpty = false) :
    (namesKnown f nm = false → callN sw f pos nm = some (.error .noNamedArg)) ∧
    (namesKnown f nm = true → (f == "map-merge") = false → (f == "map-set") = false → namesFresh f pos.length nm = false →
      callN sw f pos nm = some (.error .dupArg)) := by
  constructor
  · intro hk; simp [callN, hne, h, hk]
  · intro hk h1 h2 hf; simp [callN, hne, h, hk, h1, h2, hf]

/-- K14e (open): the code accepts a name that is no parameter and a parameter given twice; documented: an error -/
theorem C14_asFound_named_unchecked :
    isOk ((callN Sw.now "join" [.str "a".toList false, .str "b".toList false] [("foo", natV 1)]).getD (.error .unsupported))
      (mkList [.str "a".toList false, .str "b".toList false] .space false) = true ∧
    isErr ((callN { Sw.now with namedStrict := true } "join" [.str "a".toList false, .str "b".toList false] [("foo", natV 1)]).getD (.ok .null))
      .noNamedArg = true ∧
    isOk ((callN Sw.now "append" [mkList [natV 1, natV 2] .space false, natV 3] [("val", natV 4)]).getD (.error .unsupported))
      (mkList [natV 1, natV 2, natV 4] .space false) = true ∧
    isErr ((callN { Sw.now with namedStrict := true } "append" [mkList [natV 1, natV 2] .space false, natV 3] [("val", natV 4)]).getD (.ok .null))
      .dupArg = true := by
  decide +kernel

/-! ### module members ≡ global aliases -/

/-- every member of `sass:list`, `sass:map`, `sass:string` (but `unique-id`) is modelled, and a member
    implemented by the same Rust function as a global name is the same model function: the two calls
    are equal for all arguments, positional and named, under every variant -/
theorem C14_module_alias_same (sw : Sw) (mod mem g : String) (pos : List Value) (nm : Named)
    (h : rustOfMember mod mem = rustOfGlobal g) :
    callMember sw mod mem pos nm = callGlobal sw g pos nm := by
  simp only [callMember, callGlobal, h]

/-- the premise holds for every global name of a list/map/string function, with the member the check calls -/
theorem C14_module_alias_table :
    (Grass.Generated.moduleTable.filter (fun e => e.1 == "list" || e.1 == "map" || e.1 == "string")).all
      (fun e => e.2.1 == "unique-id" || (modelOfRust e.2.2).isSome) = true ∧
    (Grass.Generated.globalTable.filter (fun e => (modelOfRust e.2).isSome)).all
      (fun e => (Grass.Generated.moduleTable.any (fun m => m.2.2 == e.2 && rustOfMember m.1 m.2.1 == rustOfGlobal e.1))) = true ∧
    rustOfMember "list" "separator" = rustOfGlobal "list-separator" ∧
    rustOfMember "map" "get" = rustOfGlobal "map-get" ∧
    rustOfMember "string" "slice" = rustOfGlobal "str-slice" := by
  decide +kernel

/-! ## witnesses for the code before the repairs (`Sw.beforeFix`) against the code as it stands (`Sw.now`) -/


def m2 : Value := .map (.cons (.str "a".toList false) (natV 1) (.cons (.str "c".toList false) (natV 2) .nil))
def l3 : Value := mkList [.str "a".toList false, .str "b".toList false, .str "c".toList false] .space false

/-- K14a (repaired in 6e994a1): before, `length(append((a: 1, c: 2), b))` was 2; now 3 -/
theorem C14_asFound_before_fix_append_map :
    (match appendF Sw.beforeFix [m2, .null] with | .ok r => lengthF [r] | e => e) = .ok (natV 2) ∧
    (match appendF Sw.now [m2, .null] with | .ok r => lengthF [r] | e => e) = .ok (natV 3) := by
  constructor <;> rfl

/-- K14b (repaired in 30ed358): before, `length(join(args(1, 2), (3, 4)))` was 3; now 4 -/
theorem C14_asFound_before_fix_join_arglist :
    (match joinF Sw.beforeFix [.arglist (.cons .null (.cons .null .nil)) .nil .comma, mkList [.null, .null] .comma false] with
      | .ok r => lengthF [r] | e => e) = .ok (natV 3) ∧
    (match joinF Sw.now [.arglist (.cons .null (.cons .null .nil)) .nil .comma, mkList [.null, .null] .comma false] with
      | .ok r => lengthF [r] | e => e) = .ok (natV 4) := by
  constructor <;> rfl

/-- K14c (repaired in ca51d14): before, `nth(a b c, 3.000000000001)` was an index error although the
    index is the integer 3 by the documented tolerance, and `nth(a b c, 3.5)` an index error rather
    than "not an int"; now `c` and "not an int" -/
theorem C14_asFound_before_fix_nth_fuzzy :
    isErr (nthF Sw.beforeFix [l3, .num (.fin (3000000000001 / 1000000000000)) .none]) .indexRange = true ∧
    isOk (nthF Sw.now [l3, .num (.fin (3000000000001 / 1000000000000)) .none]) (.str "c".toList false) = true ∧
    isErr (nthF Sw.beforeFix [l3, .num (.fin (7 / 2)) .none]) .indexRange = true ∧
    isErr (nthF Sw.now [l3, .num (.fin (7 / 2)) .none]) .notInt = true := by
  decide +kernel

/-- K14d (repaired in 1b37b59): before, `map.set((a: 1), 2)` answered `(a: 1, null: 2)`; now it fails -/
theorem C14_asFound_before_fix_map_set_arity :
    isOk (mapSetF Sw.beforeFix [.map (.cons (.str "a".toList false) (natV 1) .nil), natV 2])
      (.map (.cons (.str "a".toList false) (natV 1) (.cons .null (natV 2) .nil))) = true ∧
    isErr (mapSetF Sw.now [.map (.cons (.str "a".toList false) (natV 1) .nil), natV 2]) .noValue = true := by
  decide +kernel

end Grass.Builtins
