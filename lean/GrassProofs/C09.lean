import Grass.Value
import GrassProofs.Lemmas.ValueNum
import GrassProofs.Lemmas.ValueEq
import GrassProofs.Lemmas.ValueEquiv
import GrassProofs.Lemmas.ValueMap
import GrassProofs.Lemmas.ValueExt
import GrassProofs.Lemmas.ValueExtEq
/-
  C09 — Equality is an equivalence consistent with !=, map keys and index().

  `veq sw` is the model of `Value::eq` (Grass/Value.lean); `sw : Sw` selects the variant:
    `Sw.now`       the code as it stands in /repo — since the repairs 312c562 (K1), d046d73 (K2),
                   61f3ffb (K4) it coincides with `Sw.spec`, what the property demands: numbers
                   always compared in the canonical unit of their kind; an argument list compared
                   as the plain unbracketed list of its positional elements with its own
                   separator (e36bfd5), keywords never counting; `map-remove` removing
                   exactly the keys `==` to the probe,
    `Sw.beforeFix` the tree before those three repairs (after D6/D20),
    `Sw.pinned`    the tree as first found (D6, D20).
  Every theorem is stated for an arbitrary `sw` with `sw.canon = true` on the values `inScope sw`
  admits — for `now`/`spec` that is every value (`C09_inScope_now`), so the `…_now` corollaries
  carry no scope condition.  The `C09_asFound_before_fix_…` / `C09_asFound_pinned_…` theorems are
  kernel-checked witnesses that the older variants violated the property (all repaired in /repo;
  the inputs are regression cases of tools/props/c09.py).

  Guards (all decidable, all shown satisfiable by the `example`s, all necessary):
    `noNaN v`    no NaN inside (NaN ≠ NaN in Sass, see `C09_veq_nan_false`)
    `mapWf sw v` the keys of every map inside are pairwise not `==` (every map grass can build is;
                 preservation theorems below) — without it `SassMap::eq` is not symmetric
                 (`C09_mapWf_needed`)
    `inRange v`  colour channels ≤ 255 and alpha ≤ 1 (what the colour constructors clamp to; above
                 that `Rgb::eq` treats all values as equal, which is not transitive together with
                 the fuzzy comparison, `C09_inRange_needed`)
    `inScope sw v` see above.
-/
set_option linter.unusedSimpArgs false
namespace Grass.Value

/-- The full statement for the code as it stands, on the values grass can build (NaN-free for
    reflexivity, colour channels in range, maps with pairwise unequal keys).  Proved at the end:
    `C09_full_holds`. -/
def C09_full : Prop :=
  (∀ a, noNaN a = true → veq .now a a = true) ∧
  (∀ a b, inRange a = true → inRange b = true → mapWf .now a = true → mapWf .now b = true →
      veq .now a b = veq .now b a) ∧
  (∀ a b c, inRange a = true → inRange b = true → inRange c = true →
      veq .now a b = true → veq .now b c = true → veq .now a c = true) ∧
  (∀ a b, neOp .now a b = !(veq .now a b)) ∧
  (∀ m k, contains .now (remove .now m k) k = false) ∧
  (∀ es, literal .now es = none ↔ ¬ (es.map (·.1)).Pairwise (fun a b => veq .now a b = false))

/-! ## `==` is an equivalence -/

/-- Reflexive on NaN-free values (every variant). -/
theorem C09_veq_refl (sw : Sw) (a : Value) (h : noNaN a = true) : veq sw a a = true :=
  veq_refl' sw a h

example : noNaN (.map (.cons (.num (.fin 1) .inch) (.list (.cons (.str ['a'] true) .nil) .comma true) .nil)) = true := by
  decide

theorem fuzzyN_nan_left (n : Num) : fuzzyN .nan n = false := by cases n <;> rfl
theorem fuzzyN_nan_right (n : Num) : fuzzyN n .nan = false := by cases n <;> rfl
theorem conv_nan (a b : U) : conv .nan a b = .nan := by unfold conv; split <;> rfl

/-- NaN equals nothing, itself included. -/
theorem C09_veq_nan_false (sw : Sw) (u : U) (b : Value) :
    veq sw (.num .nan u) b = false ∧ veq sw b (.num .nan u) = false := by
  constructor
  · cases b <;> simp only [veq]
    unfold numEq
    repeat' split
    all_goals simp [conv_nan, fuzzyN_nan_left]
  · cases b <;> simp only [veq]
    unfold numEq
    repeat' split
    all_goals simp [conv_nan, fuzzyN_nan_right]

/-- Symmetric. -/
theorem C09_veq_symm (sw : Sw) (hc : sw.canon = true) (a b : Value)
    (sa : inScope sw a = true) (sb : inScope sw b = true)
    (ra : inRange a = true) (rb : inRange b = true)
    (wa : mapWf sw a = true) (wb : mapWf sw b = true) :
    veq sw a b = veq sw b a := by
  have oa := ok_of sw a sa ra
  have ob := ok_of sw b sb rb
  cases h1 : veq sw a b <;> cases h2 : veq sw b a <;> try rfl
  · rw [veq_symm' sw hc b a ob oa wb h2] at h1; cases h1
  · rw [veq_symm' sw hc a b oa ob wa h1] at h2; cases h2

/-- Transitive. -/
theorem C09_veq_trans (sw : Sw) (hc : sw.canon = true) (a b c : Value)
    (sa : inScope sw a = true) (sb : inScope sw b = true) (sc : inScope sw c = true)
    (ra : inRange a = true) (rb : inRange b = true) (rc : inRange c = true)
    (h1 : veq sw a b = true) (h2 : veq sw b c = true) : veq sw a c = true :=
  veq_trans' sw hc a b c (ok_of sw a sa ra) (ok_of sw b sb rb) (ok_of sw c sc rc) h1 h2

-- hypotheses satisfiable, non-trivially: 1in == 96px == 2.54cm in the specified variant …
example : let a := Value.num (.fin 1) .inch; let b := Value.num (.fin 96) .px
    let c := Value.num (.fin ((254 : Rat) / 100)) .cm
    inScope .spec a = true ∧ inScope .spec b = true ∧ inScope .spec c = true ∧
    inRange a = true ∧ mapWf .spec a = true ∧ veq .spec a b = true ∧ veq .spec b c = true := by
  decide +kernel
-- … and a map against itself with another entry order
example : let a := Value.map (.cons (.str ['k'] false) (.num (.fin 1) .px) (.cons (.null) (.bool true) .nil))
    let b := Value.map (.cons (.null) (.bool true) (.cons (.str ['k'] true) (.num (.fin 1) .px) .nil))
    inScope .now a = true ∧ inScope .now b = true ∧ inRange a = true ∧ mapWf .now a = true ∧
    mapWf .now b = true ∧ veq .now a b = true := by
  decide +kernel

/-! ## `!=` -/

/-- The `!=` operator is the negation of `==` (visitor.rs:2838 uses Rust's derived `ne`). -/
theorem C09_ne_eq_not_veq (sw : Sw) (a b : Value) : neOp sw a b = !(veq sw a b) := rfl

theorem veqL_length (sw : Sw) : ∀ (l1 l2 : VList), veqL sw l1 l2 = true → l1.length = l2.length
  | .nil, l2, h => by cases l2 <;> simp_all [veqL, VList.length]
  | .cons a t, l2, h => by
    cases l2 <;> simp only [veqL, Bool.false_eq_true, Bool.and_eq_true] at h
    rename_i b u
    simp [VList.length, veqL_length sw t u h.2]

set_option maxHeartbeats 1000000 in
/-- The number arm of `not_equals` negates the number arm of `==` when both units are
    non-convertible or canonical. -/
theorem numNotEquals_eq (sw : Sw) (hc : sw.canon = true) (n1 n2 : Num) (u1 u2 : U)
    (h1 : u1.isCanon = true) (h2 : u2.isCanon = true) :
    numNotEquals sw n1 u1 n2 u2 = !(numEq sw n1 u1 n2 u2) := by
  unfold numNotEquals
  split; · rfl
  unfold numEq
  rw [hc]
  cases u1 <;> cases u2 <;>
    simp [comparable, U.kind, U.canonical, U.isCanon, conv] at h1 h2 ⊢ <;>
    (try (intro h; subst h; simp)) <;>
    (try (rename_i a b; by_cases h : a = b
          · subst h; simp
          · have h' : ¬ b = a := fun e => h e.symm
            simp [h, h']))

mutual
  /-- The second implementation of inequality, `Value::not_equals` (deleted by /repo 61f3ffb;
      its only caller was `SassMap::remove`), negated `==` only on values without argument lists
      whose numbers carry non-convertible or canonical units.
      (Outside: `C09_asFound_before_fix_remove_…`.) -/
  theorem C09_notEquals_eq_not_veq (sw : Sw) (hc : sw.canon = true) : ∀ (a b : Value),
      unitsCanon a = true → unitsCanon b = true → noArgList a = true → noArgList b = true →
      notEquals sw a b = !(veq sw a b)
    | .null, b, _, _, _, _ => by simp [notEquals]
    | .bool _, b, _, _, _, _ => by simp [notEquals]
    | .num n1 u1, b, h1, h2, _, _ => by
      cases b <;> simp only [notEquals, veq]
      simp only [unitsCanon] at h1 h2
      exact numNotEquals_eq sw hc _ _ _ _ h1 h2
    | .str s1 _, b, _, _, _, _ => by cases b <;> simp [notEquals, veq]
    | .color .., b, _, _, _, _ => by simp [notEquals]
    | .map _, b, _, _, _, _ => by simp [notEquals]
    | .arglist .., b, _, _, h, _ => by simp [noArgList] at h
    | .list l1 s1 b1, b, h1, h2, h3, h4 => by
      cases b <;> simp only [notEquals, veq, Bool.not_false]
      · rename_i l2 s2 b2
        simp only [unitsCanon, noArgList] at h1 h2 h3 h4
        split
        · rename_i hne
          cases hv : veqL sw l1 l2
          · simp
          · have := veqL_length sw l1 l2 hv
            rcases hne with hne | hne | hne
            · simp [hne]
            · simp [hne]
            · exact absurd this hne
        · rename_i hne
          simp only [not_or, Decidable.not_not] at hne
          rw [C09_notEqualsL_eq_not_veqL sw hc l1 l2 hne.2.2 h1 h2 h3 h4]
          simp [hne.1, hne.2.1]
      · simp [noArgList] at h4
  theorem C09_notEqualsL_eq_not_veqL (sw : Sw) (hc : sw.canon = true) : ∀ (l1 l2 : VList),
      l1.length = l2.length →
      unitsCanonL l1 = true → unitsCanonL l2 = true → noArgListL l1 = true → noArgListL l2 = true →
      notEqualsL sw l1 l2 = !(veqL sw l1 l2)
    | .nil, l2, hl, _, _, _, _ => by
      cases l2
      · simp [notEqualsL, veqL]
      · simp [VList.length] at hl
    | .cons a t, l2, hl, h1, h2, h3, h4 => by
      cases l2
      · simp [VList.length] at hl
      · rename_i b u
        simp only [VList.length, Nat.add_right_cancel_iff] at hl
        simp only [unitsCanonL, noArgListL, Bool.and_eq_true] at h1 h2 h3 h4
        simp only [notEqualsL, veqL]
        rw [C09_notEquals_eq_not_veq sw hc a b h1.1 h2.1 h3.1 h4.1,
          C09_notEqualsL_eq_not_veqL sw hc t u hl h1.2 h2.2 h3.2 h4.2]
        cases veq sw a b <;> simp
end

example : unitsCanon (.list (.cons (.num (.fin 3) .px) (.cons (.num (.fin 2) .em) .nil)) .space false) = true ∧
    noArgList (.list (.cons (.num (.fin 3) .px) .nil) .space false) = true := by decide

/-! ## keyed operations agree with `==` -/

/-- `map-get` returns the value of the first entry whose key is `==` to the probe. -/
theorem C09_map_get_eq_find (sw : Sw) (m : VPairs) (key : Value) :
    get sw m key = (m.toList.find? (fun e => veq sw e.1 key)).map (·.2) :=
  get_eq_find sw key m

/-- `map-get` finds an entry exactly when some key is `==` to the probe. -/
theorem C09_map_get_iff_exists_key_veq (sw : Sw) (m : VPairs) (key : Value) :
    (get sw m key).isSome = true ↔ ∃ e ∈ m.toList, veq sw e.1 key = true := by
  rw [get_isSome_eq_contains, contains_eq_any, List.any_eq_true]

/-- `map-has-key` likewise, and it agrees with `map-get`. -/
theorem C09_has_key_iff (sw : Sw) (m : VPairs) (key : Value) :
    contains sw m key = true ↔ ∃ e ∈ m.toList, veq sw e.1 key = true := by
  rw [contains_eq_any, List.any_eq_true]

theorem C09_has_key_eq_get_isSome (sw : Sw) (m : VPairs) (key : Value) :
    contains sw m key = (get sw m key).isSome := (get_isSome_eq_contains sw key m).symm

/-- `index()` is the position of the first element `==` to the probe … -/
theorem C09_index_eq_firstTrue (sw : Sw) (v : Value) : ∀ (l : VList),
    indexOf sw l v = firstTrue (l.toList.map (fun e => veq sw e v))
  | .nil => rfl
  | .cons e t => by
    simp only [indexOf, VList.toList, List.map_cons, firstTrue]
    rw [C09_index_eq_firstTrue sw v t]

theorem firstTrue_isSome : ∀ (bs : List Bool), (firstTrue bs).isSome = bs.any id
  | [] => rfl
  | b :: t => by cases b <;> simp [firstTrue, firstTrue_isSome t]

/-- … and finds one exactly when some element is `==` to the probe. -/
theorem C09_index_iff_exists_veq (sw : Sw) (l : VList) (v : Value) :
    (indexOf sw l v).isSome = true ↔ ∃ e ∈ l.toList, veq sw e v = true := by
  rw [C09_index_eq_firstTrue, firstTrue_isSome]
  simp [List.any_map, List.any_eq_true]

/-- `map-remove` keeps exactly the entries whose key satisfies `keeps` (order untouched) … -/
theorem C09_remove_eq_filter (sw : Sw) (m : VPairs) (key : Value) :
    (remove sw m key).toList = m.toList.filter (fun e => keeps sw e.1 key) :=
  remove_toList sw key m

/-- … which in the specified variant are those not `==` to the probe: afterwards no key is. -/
theorem C09_remove_not_contains (sw : Sw) (hr : sw.removeEq = true) (m : VPairs) (key : Value) :
    contains sw (remove sw m key) key = false := by
  rw [contains_eq_any, remove_toList, List.any_eq_false]
  intro e he
  have := (List.mem_filter.1 he).2
  simp only [keeps, hr, if_true, Bool.not_eq_true'] at this
  simp [this]

/-- For the variants that still went by `not_equals` the same held where that negates `==`. -/
theorem C09_remove_not_contains_notEquals (sw : Sw) (hc : sw.canon = true) (m : VPairs) (key : Value)
    (h1 : unitsCanonP m = true) (h2 : unitsCanon key = true)
    (h3 : noArgListP m = true) (h4 : noArgList key = true) :
    contains sw (remove sw m key) key = false := by
  rw [contains_eq_any, remove_toList, List.any_eq_false]
  intro e he
  have hm := (List.mem_filter.1 he)
  have hk := hm.2
  have hu : unitsCanon e.1 = true ∧ noArgList e.1 = true := by
    have : ∀ (p : VPairs), unitsCanonP p = true → noArgListP p = true → ∀ e ∈ p.toList,
        unitsCanon e.1 = true ∧ noArgList e.1 = true := by
      intro p
      induction hp : p.toList generalizing p with
      | nil => intro _ _ e he; simp at he
      | cons x xs ih =>
        intro h1 h3 e he
        cases p with
        | nil => simp [VPairs.toList] at hp
        | cons k v t =>
          simp only [VPairs.toList, List.cons.injEq] at hp
          simp only [unitsCanonP, noArgListP, Bool.and_eq_true] at h1 h3
          simp only [List.mem_cons] at he
          rcases he with he | he
          · subst he; rw [← hp.1]; exact ⟨h1.1.1, h3.1.1⟩
          · exact ih t hp.2 h1.2 h3.2 e he
    exact this m h1 h3 e hm.1
  simp only [keeps] at hk
  split at hk
  · simpa using hk
  · rw [C09_notEquals_eq_not_veq sw hc e.1 key hu.1 h2 hu.2 h4] at hk
    simpa using hk

/-! ## maps keep first-insertion order -/

/-- `map.set` / one step of `map-merge`: an existing key keeps its place (and its stored
    spelling), a new key goes to the end. -/
theorem C09_keys_insert (sw : Sw) (m : VPairs) (k v : Value) :
    (keys (insert sw m k v)).toList =
      if contains sw m k then (keys m).toList else (keys m).toList ++ [k] := by
  cases h : contains sw m k
  · simp [insert_keys_absent sw k v m h]
  · simp [insert_keys_present sw k v m h]

/-- `map-merge`: the keys of the first map in their order, then the new keys of the second in theirs. -/
theorem C09_keys_merge (sw : Sw) (a b : VPairs) (hb : distinctKeys sw b = true) :
    (keys (merge sw a b)).toList =
      (keys a).toList ++ (keys b).toList.filter (fun k => !contains sw a k) :=
  keys_merge sw b a hb

/-- `map-remove` never disturbs the order of the remaining keys. -/
theorem C09_keys_remove (sw : Sw) (m : VPairs) (key : Value) :
    (keys (remove sw m key)).toList = (keys m).toList.filter (fun k => keeps sw k key) := by
  rw [keys_toList, remove_toList, keys_toList, List.filter_map]
  rfl

example : distinctKeys .now (.cons (.str ['a'] false) .null (.cons (.str ['b'] false) .null .nil)) = true := by
  decide +kernel

/-- The same three laws in the form the driver checks on grass's own answers (`orderKept`):
    removal leaves a subsequence of the keys … -/
theorem C09_order_remove (sw : Sw) (m : VPairs) (key : Value) :
    ((keys (remove sw m key)).toList).Sublist (keys m).toList := by
  rw [C09_keys_remove]; exact List.filter_sublist

/-- … `map.set` keeps the old keys as a prefix … -/
theorem C09_order_insert (sw : Sw) (m : VPairs) (k v : Value) :
    (keys m).toList <+: (keys (insert sw m k v)).toList := by
  rw [C09_keys_insert]
  split
  · exact List.prefix_refl _
  · exact List.prefix_append _ _

/-- … and so does `map-merge` (no hypothesis on the merged map needed). -/
theorem C09_order_merge (sw : Sw) : ∀ (b a : VPairs), (keys a).toList <+: (keys (merge sw a b)).toList
  | .nil, a => by simp [merge]
  | .cons k v t, a => by
    simp only [merge]
    exact List.IsPrefix.trans (C09_order_insert sw a k v) (C09_order_merge sw t (insert sw a k v))

/-! ## the container invariant is preserved -/

theorem C09_mapWf_insert (sw : Sw) (m : VPairs) (k v : Value) (h : distinctKeys sw m = true) :
    distinctKeys sw (insert sw m k v) = true := distinct_insert sw k v m h

theorem C09_mapWf_merge (sw : Sw) (a b : VPairs) (h : distinctKeys sw a = true) :
    distinctKeys sw (merge sw a b) = true := distinct_merge sw b a h

theorem C09_mapWf_remove (sw : Sw) (m : VPairs) (key : Value) (h : distinctKeys sw m = true) :
    distinctKeys sw (remove sw m key) = true := distinct_remove sw key m h

/-- A map literal is rejected ("Duplicate key.") exactly when two of its keys are `==` … -/
theorem C09_literal_rejects_duplicates (sw : Sw) (es : List (Value × Value)) :
    literal sw es = none ↔ ¬ (es.map (·.1)).Pairwise (fun a b => veq sw a b = false) := by
  have := (literalFrom_spec sw es .nil (by simp [distinctKeys])).1
  simpa [literal, VPairs.toList] using this

/-- … and otherwise keeps its entries in source order, with pairwise unequal keys. -/
theorem C09_literal_keeps_order (sw : Sw) (es : List (Value × Value)) (m : VPairs)
    (h : literal sw es = some m) : m.toList = es ∧ distinctKeys sw m = true := by
  have hs := literalFrom_spec sw es .nil (by simp [distinctKeys])
  have h1 : m.toList = es := by simpa [VPairs.toList] using hs.2 m h
  refine ⟨h1, ?_⟩
  rw [distinctKeys_iff, h1]
  have : literal sw es ≠ none := by rw [h]; simp
  rw [Ne, C09_literal_rejects_duplicates] at this
  exact Decidable.not_not.1 this

/-! ## the law checkers applied to an implementation's `==` matrix report only real violations -/

theorem C09_lawSymm_sound (m : List (List Bool)) (n i j : Nat) (h : lawSymm m n = some (i, j)) :
    matGet m i j ≠ matGet m j i := by
  have := List.find?_some h
  simpa using this

theorem C09_lawTrans_sound (m : List (List Bool)) (n i j k : Nat) (h : lawTrans m n = some (i, j, k)) :
    matGet m i j = true ∧ matGet m j k = true ∧ matGet m i k = false := by
  have := List.find?_some h
  simpa [and_assoc] using this

theorem C09_lawRefl_sound (m : List (List Bool)) (dom : List Nat) (i : Nat) (h : lawRefl m dom = some i) :
    matGet m i i = false := by
  have := List.find?_some h
  simpa using this

theorem mem_triplesUpTo (n i j k : Nat) (hi : i < n) (hj : j < n) (hk : k < n) :
    (i, j, k) ∈ triplesUpTo n := by
  simp only [triplesUpTo, List.mem_flatMap, List.mem_range, List.mem_map]
  exact ⟨i, hi, j, hj, k, hk, rfl⟩

/-- and they miss none among the indices below `n`. -/
theorem C09_lawTrans_complete (m : List (List Bool)) (n : Nat) (h : lawTrans m n = none)
    (i j k : Nat) (hi : i < n) (hj : j < n) (hk : k < n)
    (h1 : matGet m i j = true) (h2 : matGet m j k = true) : matGet m i k = true := by
  have := List.find?_eq_none.1 h (i, j, k) (mem_triplesUpTo n i j k hi hj hk)
  simp only [h1, h2, Bool.true_and, Bool.not_eq_true', Bool.not_eq_false] at this
  exact this

theorem C09_lawTransAll_sound (m : List (List Bool)) (n i j k : Nat) (h : (i, j, k) ∈ lawTransAll m n) :
    matGet m i j = true ∧ matGet m j k = true ∧ matGet m i k = false := by
  have := (List.mem_filter.1 h).2
  simpa [transPred, and_assoc] using this

theorem C09_lawSymmAll_sound (m : List (List Bool)) (n i j : Nat) (h : (i, j) ∈ lawSymmAll m n) :
    matGet m i j ≠ matGet m j i := by
  have := (List.mem_filter.1 h).2
  simpa [symmPred] using this

/-- The per-pair predicate P̂ (`pairAgrees`, the one the driver evaluates on grass's answers)
    holds of the model's own observation in every variant whose `map-remove` goes by `==`. -/
theorem C09_pairAgrees_model (sw : Sw) (hr : sw.removeEq = true) (a b : Value) :
    pairAgrees (pairObs sw a b) = [] := by
  unfold pairAgrees pairObs
  cases h : veq sw a b <;>
    simp [h, neOp, get, contains, VPairs.any, remove, keeps, hr, merge, insert, VPairs.length,
      literal, literalFrom, indexOf]

/-! ## kernel-checked witnesses: where the variants violate the property -/

def one : Value := .num (.fin 1) .none
def two : Value := .num (.fin 2) .none
def l12 (sep : Sep) (br : Bool) : Value := .list (.cons one (.cons two .nil)) sep br
def args12 : Value := .arglist (.cons one (.cons two .nil)) .nil .comma
def args12k : Value := .arglist (.cons one (.cons two .nil)) (.cons (.str ['k'] false) one .nil) .comma
def inch1 : Value := .num (.fin 1) .inch
def cmB : Value := .num (.fin ((254000000001 : Rat) / 100000000000)) .cm   -- 2.54000000001cm
def px96 : Value := .num (.fin 96) .px
def inchB : Value := .num (.fin ((1000000000004 : Rat) / 1000000000000)) .inch  -- 1.000000000004in
def strX : Value := .str ['x'] false

/-- D6 (fixed in /repo): `$args == (1, 2)` but not `(1, 2) == $args`. -/
theorem C09_asFound_pinned_arglist_asymmetric :
    veq .pinned args12 (l12 .comma false) = true ∧ veq .pinned (l12 .comma false) args12 = false := by
  decide +kernel

/-- D20 (fixed in /repo): the right operand was converted into the left operand's unit:
    `1in == 2.54000000001cm` but not the reverse … -/
theorem C09_asFound_pinned_units_asymmetric :
    veq .pinned inch1 cmB = true ∧ veq .pinned cmB inch1 = false := by
  decide +kernel

/-- … and `96px == 1in`, `1in == 2.54000000001cm`, yet `96px != 2.54000000001cm`. -/
theorem C09_asFound_pinned_units_not_transitive :
    veq .pinned px96 inch1 = true ∧ veq .pinned inch1 cmB = true ∧ veq .pinned px96 cmB = false := by
  decide +kernel

/-- K1 (fixed in /repo since): numbers of one unit are compared at that unit's scale, numbers of different
    units at the canonical unit's: `1.000000000004in == 1in`, `1in == 96px`, but
    `1.000000000004in != 96px`. -/
theorem C09_asFound_before_fix_units_not_transitive :
    veq .beforeFix inchB inch1 = true ∧ veq .beforeFix inch1 px96 = true ∧ veq .beforeFix inchB px96 = false := by
  decide +kernel

/-- K2 (fixed in /repo since): the `ArgList == List` arms ignore the list's brackets:
    `[1, 2] == $args`, `$args == (1, 2)`, but `[1, 2] != (1, 2)`. -/
theorem C09_asFound_before_fix_arglist_brackets_not_transitive :
    veq .beforeFix (l12 .comma true) args12 = true ∧ veq .beforeFix args12 (l12 .comma false) = true ∧
    veq .beforeFix (l12 .comma true) (l12 .comma false) = false := by
  decide +kernel

/-- K3 (fixed in /repo since): keywords count between two argument lists but not against a list:
    `f(1, 2, $k: 1) == (1, 2)`, `(1, 2) == f(1, 2)`, but `f(1, 2, $k: 1) != f(1, 2)`. -/
theorem C09_asFound_before_fix_arglist_keywords_not_transitive :
    veq .beforeFix args12k (l12 .comma false) = true ∧ veq .beforeFix (l12 .comma false) args12 = true ∧
    veq .beforeFix args12k args12 = false := by
  decide +kernel

/-- K4 (fixed in /repo since): `SassMap::remove` uses `not_equals`, which still converts the right operand
    into the left one's unit: `map-remove((1in: x), 2.54000000001cm)` is `()` although
    `1in != 2.54000000001cm` and `map-get`/`map-has-key` do not find the key … -/
theorem C09_asFound_before_fix_remove_unequal_key :
    veq .beforeFix inch1 cmB = false ∧ get .beforeFix (.cons inch1 strX .nil) cmB = none ∧
    (remove .beforeFix (.cons inch1 strX .nil) cmB).length = 0 := by
  decide +kernel

/-- … and treats a list as unequal to every argument list:
    `map-remove(((1, 2): x), $args)` keeps the key although `(1, 2) == $args` and `map-get` finds it. -/
theorem C09_asFound_before_fix_remove_keeps_equal_key :
    veq .beforeFix (l12 .comma false) args12 = true ∧
    (get .beforeFix (.cons (l12 .comma false) strX .nil) args12).isSome = true ∧
    (remove .beforeFix (.cons (l12 .comma false) strX .nil) args12).length = 1 := by
  decide +kernel

/-- None of these survives in the code as it stands (instances of the theorems above). -/
theorem C09_now_repairs_witnesses :
    veq .now inchB inch1 = false ∧
    veq .now (l12 .comma true) args12 = false ∧
    veq .now args12k args12 = true ∧
    (remove .now (.cons inch1 strX .nil) cmB).length = 1 ∧
    (remove .now (.cons (l12 .comma false) strX .nil) args12).length = 0 ∧
    veq .now (l12 .comma false) args12 = true ∧ veq .now args12 (l12 .comma false) = true := by
  decide +kernel

/-- /repo e36bfd5: an argument list made by spreading a space-separated list is the space list of
    its elements: equal to `(1 2)`, to no comma list and to no comma argument list. -/
theorem C09_now_arglist_separator :
    let sargs := Value.arglist (.cons one (.cons two .nil)) (.cons (.str ['k'] false) one .nil) .space
    veq .now sargs (l12 .space false) = true ∧ veq .now (l12 .space false) sargs = true ∧
    veq .now sargs (l12 .comma false) = false ∧ veq .now sargs args12 = false ∧
    veq .now sargs (l12 .space true) = false := by
  decide +kernel

/-- Without `mapWf` map equality is not symmetric (why the guard is there):
    `(1: x, 1: x)` — not constructible in Sass — against `(1: x, 2: x)`. -/
theorem C09_mapWf_needed :
    let a := Value.map (.cons one strX (.cons one strX .nil))
    let b := Value.map (.cons one strX (.cons two strX .nil))
    veq .spec a b = true ∧ veq .spec b a = false ∧ mapWf .spec a = false := by
  decide +kernel

/-- Without `inRange` colour equality is not transitive (why the guard is there): channels
    254.999999999999, 255 and 256. -/
theorem C09_inRange_needed :
    let c (r : Rat) := Value.color r 0 0 1
    veq .spec (c ((254999999999999 : Rat) / 1000000000000)) (c 255) = true ∧ veq .spec (c 255) (c 256) = true ∧
    veq .spec (c ((254999999999999 : Rat) / 1000000000000)) (c 256) = false := by
  decide +kernel

/-! ## the code as it stands -/

/-- Every value is in scope of the code as it stands. -/
theorem C09_inScope_now (v : Value) : inScope .now v = true := by simp [inScope, Sw.now]

/-- `Sw.now`, symmetric on all values grass can build (argument lists included). -/
theorem C09_veq_symm_now (a b : Value) (ra : inRange a = true) (rb : inRange b = true)
    (wa : mapWf .now a = true) (wb : mapWf .now b = true) : veq .now a b = veq .now b a :=
  C09_veq_symm .now rfl a b (C09_inScope_now a) (C09_inScope_now b) ra rb wa wb

/-- `Sw.now`, transitive on all values grass can build (argument lists, every unit). -/
theorem C09_veq_trans_now (a b c : Value)
    (ra : inRange a = true) (rb : inRange b = true) (rc : inRange c = true)
    (h1 : veq .now a b = true) (h2 : veq .now b c = true) : veq .now a c = true :=
  C09_veq_trans .now rfl a b c (C09_inScope_now a) (C09_inScope_now b) (C09_inScope_now c) ra rb rc h1 h2

example : inRange args12k = true ∧ mapWf .now args12k = true ∧ inRange inchB = true ∧
    veq .now args12k (l12 .comma false) = true ∧ veq .now (l12 .comma false) args12 = true := by
  decide +kernel

/-- The full statement holds of the code as it stands.  (It was refuted before the K1/K2/K4
    repairs: `C09_asFound_before_fix_…`.  What remains false without its guard is only what no
    Sass program can build: `C09_mapWf_needed`, `C09_inRange_needed`, and NaN.) -/
theorem C09_full_holds : C09_full :=
  ⟨fun a h => C09_veq_refl .now a h,
   fun a b ra rb wa wb => C09_veq_symm_now a b ra rb wa wb,
   fun a b c ra rb rc h1 h2 => C09_veq_trans_now a b c ra rb rc h1 h2,
   fun a b => C09_ne_eq_not_veq .now a b,
   fun m k => C09_remove_not_contains .now rfl m k,
   fun es => C09_literal_rejects_duplicates .now es⟩


/-! ## round 3 — the extended universe: compound units, calculations, function references

  `XV` / `xeq` (Grass/Value.lean) is `Value::eq` with every arm of value/mod.rs:48: numbers with
  `Complex` units, `Calculation`, `FunctionRef` besides the kinds above.  The laws are inherited
  through the embedding `enc : XV → Value` (Lemmas/ValueExt.lean), which `xeq` factors through. -/

/-- `xeq` is `veq` on the encodings. -/
theorem C09_xeq_enc (sw : Sw) (a b : XV) : xeq sw a b = veq sw (enc a) (enc b) := (enc_eq sw a b).symm

/-- Reflexive on NaN-free values of the extended universe (every variant). -/
theorem C09_xeq_refl (sw : Sw) (a : XV) (h : xnoNaN a = true) : xeq sw a a = true := by
  rw [C09_xeq_enc]; exact C09_veq_refl sw (enc a) (by rw [noNaN_enc]; exact h)

/-- Symmetric (the code as it stands). -/
theorem C09_xeq_symm (a b : XV) (ra : xinRange a = true) (rb : xinRange b = true)
    (wa : xmapWf .now a = true) (wb : xmapWf .now b = true) : xeq .now a b = xeq .now b a := by
  rw [C09_xeq_enc, C09_xeq_enc]
  exact C09_veq_symm_now _ _ (by rw [inRange_enc]; exact ra) (by rw [inRange_enc]; exact rb)
    (by rw [mapWf_enc]; exact wa) (by rw [mapWf_enc]; exact wb)

/-- Transitive (the code as it stands). -/
theorem C09_xeq_trans (a b c : XV) (ra : xinRange a = true) (rb : xinRange b = true) (rc : xinRange c = true)
    (h1 : xeq .now a b = true) (h2 : xeq .now b c = true) : xeq .now a c = true := by
  rw [C09_xeq_enc] at h1 h2 ⊢
  exact C09_veq_trans_now _ _ _ (by rw [inRange_enc]; exact ra) (by rw [inRange_enc]; exact rb)
    (by rw [inRange_enc]; exact rc) h1 h2

/-- `==` is an equivalence on the extended universe. -/
theorem C09_veq_equivalence_ext :
    (∀ a : XV, xnoNaN a = true → xeq .now a a = true) ∧
    (∀ a b : XV, xinRange a = true → xinRange b = true → xmapWf .now a = true → xmapWf .now b = true →
      xeq .now a b = xeq .now b a) ∧
    (∀ a b c : XV, xinRange a = true → xinRange b = true → xinRange c = true →
      xeq .now a b = true → xeq .now b c = true → xeq .now a c = true) :=
  ⟨fun a h => C09_xeq_refl .now a h, C09_xeq_symm, C09_xeq_trans⟩

def xPxEm : XV := .num (.fin 1) (.complex [.px, .em] [])
def xEmPx : XV := .num (.fin 1) (.complex [.em, .px] [])
def xCalcIn : XV := .calc .calc (.cons (.op (.number (.fin 1) (.simple .inch)) .plus (.number (.fin 1) (.simple .percent))) .nil)
def xCalcPx : XV := .calc .calc (.cons (.op (.number (.fin 96) (.simple .px)) .plus (.number (.fin 1) (.simple .percent))) .nil)
def xCalcCm : XV := .calc .calc (.cons (.op (.number (.fin ((254 : Rat) / 100)) (.simple .cm)) .plus (.number (.fin 1) (.simple .percent))) .nil)
def xFn1 : XV := .fn (.user ['f', '1'] 10 12)
def xFn2 : XV := .fn (.user ['f', '2'] 40 42)

-- hypotheses satisfiable, non-trivially: calc(1in + 1%) == calc(96px + 1%) == calc(2.54cm + 1%), inside a map
example : let m (k : XV) : XV := .map (.cons k xPxEm (.cons xFn1 .null .nil))
    xinRange (m xCalcIn) = true ∧ xmapWf .now (m xCalcIn) = true ∧ xnoNaN (m xCalcIn) = true ∧
    xeq .now (m xCalcIn) (m xCalcPx) = true ∧ xeq .now (m xCalcPx) (m xCalcCm) = true ∧
    xeq .now xCalcIn xCalcPx = true := by
  decide +kernel

/-- What the code does with the new kinds (kernel-checked instances of `xeq`): compound units are
    compared as ordered vectors, with no conversion (`px*em ≠ em*px`, `1in/s ≠ 96px/s`); numbers
    inside calculations are compared like numbers; a function reference equals only itself; none of
    the new kinds equals a string spelled alike. -/
theorem C09_now_new_kinds :
    xeq .now xPxEm xPxEm = true ∧ xeq .now xPxEm xEmPx = false ∧ xeq .now xEmPx xPxEm = false ∧
    xeq .now (.num (.fin 1) (.complex [.inch] [.s])) (.num (.fin 96) (.complex [.px] [.s])) = false ∧
    xeq .now xPxEm (.num (.fin 1) (.simple .px)) = false ∧ xeq .now (.num (.fin 1) (.simple .none)) xPxEm = false ∧
    xeq .now xCalcIn xCalcPx = true ∧ xeq .now xFn1 xFn1 = true ∧ xeq .now xFn1 xFn2 = false ∧
    xeq .now xFn1 (.fn (.plain ['f', '1'])) = false ∧ xeq .now xFn1 (.str ['f', '1'] false) = false ∧
    xeq .now xCalcIn (.str "calc(1in + 1%)".toList false) = false := by
  decide +kernel

/-- Numbers with a `Complex` unit on either side: equal exactly when the unit structures are
    identical (ordered numerator and denominator) and the values are fuzzily equal; never equal to
    a number with a simple unit or none. -/
theorem C09_xnum_complex (sw : Sw) (n1 n2 : Num) (nu1 de1 nu2 de2 : List U) (u : U) :
    xnumEq sw n1 (.complex nu1 de1) n2 (.complex nu2 de2) =
      (decide (nu1 = nu2) && decide (de1 = de2) && fuzzyN n1 n2) ∧
    xnumEq sw n1 (.simple u) n2 (.complex nu2 de2) = false ∧
    xnumEq sw n1 (.complex nu1 de1) n2 (.simple u) = false :=
  ⟨xnumEq_complex_complex sw _ _ _ _ _ _, xnumEq_simple_complex sw _ _ _ _ _, xnumEq_complex_simple sw _ _ _ _ _⟩

/-- The extension is conservative: on the old kinds `xeq` is `veq`. -/
def lift : Value → XV
  | .null => .null
  | .bool b => .bool b
  | .num n u => .num n (.simple u)
  | .str s q => .str s q
  | .color r g b a => .color r g b a
  | .list es sp br => .list (liftL es) sp br
  | .map ps => .map (liftP ps)
  | .arglist es kw sp => .arglist (liftL es) (liftP kw) sp
where
  liftL : VList → XVList
    | .nil => .nil
    | .cons v t => .cons (lift v) (liftL t)
  liftP : VPairs → XVPairs
    | .nil => .nil
    | .cons k v t => .cons (lift k) (lift v) (liftP t)

theorem liftP_length : ∀ (p : VPairs), (lift.liftP p).length = p.length
  | .nil => rfl
  | .cons k v t => by simp [lift.liftP, VPairs.length, XVPairs.length, liftP_length t]

theorem any_lift (f : XV → XV → Bool) (g : Value → Value → Bool)
    (h : ∀ k2 v2, f (lift k2) (lift v2) = g k2 v2) : ∀ (q : VPairs), (lift.liftP q).any f = q.any g
  | .nil => rfl
  | .cons k v t => by simp [lift.liftP, VPairs.any, XVPairs.any, h, any_lift f g h t]

mutual
  theorem C09_xeq_conservative (sw : Sw) : ∀ (a b : Value), xeq sw (lift a) (lift b) = veq sw a b
    | .null, b => by cases b <;> simp [lift, xeq, veq]
    | .bool _, b => by cases b <;> simp [lift, xeq, veq]
    | .num _ _, b => by cases b <;> simp [lift, xeq, veq, xnumEq]
    | .str _ _, b => by cases b <;> simp [lift, xeq, veq]
    | .color .., b => by cases b <;> simp [lift, xeq, veq]
    | .list l1 _ _, b => by
      cases b <;> simp only [lift, xeq, veq]
      · rename_i l2 _ _; rw [xeqL_lift sw l1 l2]
      · rename_i l2 _ _; rw [xeqL_lift sw l1 l2]
    | .map p1, b => by
      cases b <;> simp only [lift, xeq, veq]
      rename_i p2; rw [liftP_length, liftP_length, xsubP_lift sw p1 p2]
    | .arglist l1 k1 _, b => by
      cases b <;> simp only [lift, xeq, veq]
      · rename_i l2 _ _; rw [xeqL_lift sw l1 l2]
      · rename_i l2 k2 _; rw [xeqL_lift sw l1 l2, xeqKw_lift sw k1 k2]
  theorem xeqL_lift (sw : Sw) : ∀ (l1 l2 : VList), xeqL sw (lift.liftL l1) (lift.liftL l2) = veqL sw l1 l2
    | .nil, l2 => by cases l2 <;> simp [lift.liftL, xeqL, veqL]
    | .cons a t, l2 => by
      cases l2
      · simp [lift.liftL, xeqL, veqL]
      · rename_i b u; simp only [lift.liftL, xeqL, veqL, C09_xeq_conservative sw a b, xeqL_lift sw t u]
  theorem xeqKw_lift (sw : Sw) : ∀ (k1 k2 : VPairs), xeqKw sw (lift.liftP k1) (lift.liftP k2) = veqKw sw k1 k2
    | .nil, k2 => by cases k2 <;> simp [lift.liftP, xeqKw, veqKw]
    | .cons k v t, k2 => by
      cases k2
      · simp [lift.liftP, xeqKw, veqKw]
      · rename_i k' v' u
        simp only [lift.liftP, xeqKw, veqKw, C09_xeq_conservative sw k k', C09_xeq_conservative sw v v',
          xeqKw_lift sw t u]
  theorem xsubP_lift (sw : Sw) : ∀ (p q : VPairs), xsubP sw (lift.liftP p) (lift.liftP q) = subP sw p q
    | .nil, q => by simp [lift.liftP, xsubP, subP]
    | .cons k v t, q => by
      simp only [lift.liftP, xsubP, subP, xsubP_lift sw t q]
      rw [any_lift _ (fun k2 v2 => veq sw k k2 && veq sw v v2)
        (fun k2 v2 => by rw [C09_xeq_conservative sw k k2, C09_xeq_conservative sw v v2]) q]
end

example : xeq .now (lift inch1) (lift px96) = true ∧ veq .now inch1 px96 = true := by decide +kernel

/-! ### keyed operations on the extended universe agree with `==` -/

theorem xany_iff (f : XV → XV → Bool) : ∀ (ps : XVPairs),
    ps.any f = true ↔ ∃ e ∈ ps.toList, f e.1 e.2 = true
  | .nil => by simp [XVPairs.any, XVPairs.toList]
  | .cons k v t => by have ih := xany_iff f t; simp [XVPairs.any, XVPairs.toList, ih]

/-- `map-has-key` finds a key exactly when some key is `==` to the probe … -/
theorem C09_x_has_key_iff (sw : Sw) (m : XVPairs) (key : XV) :
    xcontains sw m key = true ↔ ∃ e ∈ m.toList, xeq sw e.1 key = true := by
  unfold xcontains; rw [xany_iff]

/-- … `map-get` agrees with it … -/
theorem C09_x_get_isSome_eq_has_key (sw : Sw) (key : XV) : ∀ (m : XVPairs),
    (xget sw m key).isSome = xcontains sw m key
  | .nil => rfl
  | .cons k v t => by
    have ih := C09_x_get_isSome_eq_has_key sw key t
    unfold xcontains at ih ⊢
    simp only [xget, XVPairs.any]
    cases h : xeq sw k key <;> simp [h, ih]

/-- … `index()` finds a position exactly when some element is `==` to the probe … -/
theorem C09_x_index_iff (sw : Sw) (v : XV) : ∀ (l : XVList),
    (xindexOf sw l v).isSome = true ↔ ∃ e ∈ l.toList, xeq sw e v = true
  | .nil => by simp [xindexOf, XVList.toList]
  | .cons e t => by
    have ih := C09_x_index_iff sw v t
    simp only [xindexOf, XVList.toList, List.mem_cons, exists_eq_or_imp]
    cases h : xeq sw e v
    · simp only [Bool.false_eq_true, if_false, Option.isSome_map, false_or]; exact ih
    · simp

/-- … and after `map-remove` no key is `==` to the probe, the other entries staying in order. -/
theorem C09_x_remove (sw : Sw) (key : XV) : ∀ (m : XVPairs),
    (xremove sw m key).toList = m.toList.filter (fun e => !(xeq sw e.1 key))
  | .nil => rfl
  | .cons k v t => by
    simp only [xremove, XVPairs.toList, List.filter_cons]
    cases h : xeq sw k key <;> simp [h, XVPairs.toList, C09_x_remove sw key t]

theorem C09_x_remove_not_contains (sw : Sw) (m : XVPairs) (key : XV) :
    xcontains sw (xremove sw m key) key = false := by
  cases h : xcontains sw (xremove sw m key) key
  · rfl
  · obtain ⟨e, he, h2⟩ := (C09_x_has_key_iff sw _ key).1 h
    rw [C09_x_remove] at he
    have := (List.mem_filter.1 he).2
    simp [h2] at this

/-- The per-pair predicate P̂ (`pairAgrees`, evaluated by the driver on grass's answers) holds of the
    model's own observation on the extended universe. -/
theorem C09_x_pairAgrees_model (sw : Sw) (a b : XV) : pairAgrees (xpairObs sw a b) = [] := by
  unfold pairAgrees xpairObs
  cases h : xeq sw a b <;>
    simp [h, xget, xcontains, XVPairs.any, xremove, xmerge, xinsert, XVPairs.length,
      xliteral, xliteralFrom, xindexOf]

example : xeq .now xCalcIn xCalcPx = true ∧ (xget .now (.cons xCalcIn .null .nil) xCalcPx).isSome = true ∧
    xindexOf .now (.cons xFn2 (.cons xPxEm .nil)) xPxEm = some 1 := by decide +kernel

/-! ### map order over arbitrary histories of operations -/

theorem keys_insert_keyAdd (sw : Sw) (m : VPairs) (k v : Value) :
    (keys (insert sw m k v)).toList = keyAdd sw (keys m).toList k := by
  rw [C09_keys_insert, keyAdd, contains_eq_keys]

theorem keys_merge_fold (sw : Sw) : ∀ (b a : VPairs),
    (keys (merge sw a b)).toList = (keys b).toList.foldl (keyAdd sw) (keys a).toList
  | .nil, a => by simp [merge, keys, VList.toList]
  | .cons k v t, a => by
    simp only [merge, keys, VList.toList, List.foldl_cons]
    rw [keys_merge_fold sw t (insert sw a k v), keys_insert_keyAdd]

theorem keys_runOp (sw : Sw) (m : VPairs) (op : MapOp) :
    (keys (runOp sw m op)).toList = keysStep sw (keys m).toList op := by
  cases op with
  | set k v => exact keys_insert_keyAdd sw m k v
  | merge o => exact keys_merge_fold sw o m
  | remove k => simp only [runOp, keysStep]; exact C09_keys_remove sw m k

/-- For EVERY sequence of `map.set` / `map-merge` / `map-remove` operations the key order of the
    result is the one computed from the key sequence alone (`keysHist`): each operation appends the
    keys not `==` to one already there, in the order they arrive, and deletes without reordering —
    values never matter; a key that is overwritten keeps its place and its first spelling. -/
theorem C09_map_order_history (sw : Sw) (ops : List MapOp) : ∀ (m : VPairs),
    (keys (ops.foldl (runOp sw) m)).toList = keysHist sw (keys m).toList ops := by
  induction ops with
  | nil => intro m; rfl
  | cons op t ih =>
    intro m
    simp only [List.foldl_cons, keysHist]
    rw [ih (runOp sw m op), keys_runOp]; rfl

theorem keyAdd_prefix (sw : Sw) (ks : List Value) (k : Value) : ks <+: keyAdd sw ks k := by
  unfold keyAdd; split
  · exact List.prefix_refl _
  · exact List.prefix_append _ _

theorem foldl_keyAdd_prefix (sw : Sw) : ∀ (l ks : List Value), ks <+: l.foldl (keyAdd sw) ks
  | [], _ => List.prefix_refl _
  | k :: t, ks => List.IsPrefix.trans (keyAdd_prefix sw ks k) (foldl_keyAdd_prefix sw t _)

def MapOp.isRemove : MapOp → Bool
  | .remove _ => true
  | _ => false

/-- A history without removals keeps all old keys, in their order, as a prefix … -/
theorem C09_map_order_history_grow (sw : Sw) (ops : List MapOp) (h : ops.all (fun o => !o.isRemove) = true) :
    ∀ (m : VPairs), (keys m).toList <+: (keys (ops.foldl (runOp sw) m)).toList := by
  induction ops with
  | nil => intro m; exact List.prefix_refl _
  | cons op t ih =>
    intro m
    simp only [List.all_cons, Bool.and_eq_true] at h
    simp only [List.foldl_cons]
    refine List.IsPrefix.trans ?_ (ih h.2 (runOp sw m op))
    rw [keys_runOp]
    cases op with
    | set k v => exact keyAdd_prefix sw _ k
    | merge o => exact foldl_keyAdd_prefix sw _ _
    | remove k => simp [MapOp.isRemove] at h

/-- … and a history of removals only leaves a subsequence. -/
theorem C09_map_order_history_shrink (sw : Sw) (ops : List MapOp) (h : ops.all (fun o => o.isRemove) = true) :
    ∀ (m : VPairs), ((keys (ops.foldl (runOp sw) m)).toList).Sublist (keys m).toList := by
  induction ops with
  | nil => intro m; exact List.Sublist.refl _
  | cons op t ih =>
    intro m
    simp only [List.all_cons, Bool.and_eq_true] at h
    simp only [List.foldl_cons]
    refine List.Sublist.trans (ih h.2 (runOp sw m op)) ?_
    cases op with
    | remove k => exact C09_order_remove sw m k
    | set k v => simp [MapOp.isRemove] at h
    | merge o => simp [MapOp.isRemove] at h

theorem pairsAsList_toList : ∀ (m : VPairs),
    (pairsAsList m).toList = m.toList.map (fun e => Value.list (.cons e.1 (.cons e.2 .nil)) .space false)
  | .nil => rfl
  | .cons k v t => by simp [pairsAsList, VList.toList, VPairs.toList, pairsAsList_toList t]

/-- Every observer of a map walks the same sequence of entries: `map-keys`, `map-values` and the
    pairs `@each` / `inspect` visit (`SassMap::as_list`) are the projections of one list. -/
theorem C09_observers_same_order (m : VPairs) :
    (keys m).toList = m.toList.map (·.1) ∧ (values m).toList = m.toList.map (·.2) ∧
    (pairsAsList m).toList = m.toList.map (fun e => Value.list (.cons e.1 (.cons e.2 .nil)) .space false) :=
  ⟨keys_toList m, values_toList m, pairsAsList_toList m⟩

-- a history that sets an existing key under another spelling, removes one through a converted unit and re-adds it
example : let a : Value := .str ['a'] false
    let ops := [MapOp.set (.str ['a'] true) .null, MapOp.remove px96, MapOp.merge (.cons inch1 .null (.cons strX .null .nil))]
    veqL .now (VList.ofList (keysHist .now [a, inch1] ops)) (VList.ofList [a, inch1, strX]) = true ∧
    veqL .now (keys (ops.foldl (runOp .now) (.cons a one (.cons inch1 two .nil)))) (VList.ofList [a, inch1, strX]) = true := by
  decide +kernel

end Grass.Value
