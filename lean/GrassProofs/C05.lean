import GrassProofs.Lemmas.SerializeReadTree
/-
  C05 — Output is well-formed, Sass-free CSS and a fixed point of the compiler.

  Property theorems about the serializer model `Grass/Serialize.lean` (tied to grass byte for byte by
  tools/props/c05.py).  P̂ predicates (`wellFormed`, `quotedOk`, `unescape`, `hasCharsetOrBom`, `sassFree`)
  and the guard `treeOk` are defined in the model file and are the same functions the driver
  evaluates on grass's own output.

  Full statement (kept visible; what is proved below is marked):
    for every flattened tree t made of CSS-representable leaves, every style st and charset flag cs,
    with out = serialize st cs t:
      (1) wellFormed out                                   — PROVED  (C05_blocks_balanced)
      (2) every quoted string token is closed, has no raw control character / newline, escapes its
          own quote, and reads back to the original string — PROVED  (C05_quoted_wellformed, C05_quoted_roundtrip)
      (3) hasCharsetOrBom out ↔ cs ∧ body has a non-ASCII char — PROVED (C05_charset_iff)
      (4) invisible nodes write nothing; both loops skip the same nodes — PROVED (C05_no_invisible_output_*)
      (5) sassFree out (no placeholder / & / $var / #{ / Sass at-rule outside strings and comments)
                                                            — NOT PROVED here (checked on grass's output by the driver)
      (6) readTree (serialize st cs t) = some (canon st t): print → read round trip of the model
                                                            — PROVED (C05_read_roundtrip) for every readable tree;
          the fixed point of grass's REAL parser is checked (recompilation), not proved.
-/
namespace Grass.Serialize

def C05_full : Prop :=
  ∀ (st : Style) (cs : Bool) (t : List Stmt), treeOk st t = true →
    wellFormed (serialize st cs t) = true ∧ sassFree (serialize st cs t) = true

/-- Reading back what `visit_quoted_string` wrote gives the original string — for EVERY string
    (quotes of both kinds, backslashes, control characters, non-ASCII). -/
theorem C05_quoted_roundtrip (s : Str) : unescape (quote s) = some s := unescape_quote s

example : unescape (quote ['a', '"', '\'', '\\', '\n', 'f', '\x01', ' ', 'é']) =
    some ['a', '"', '\'', '\\', '\n', 'f', '\x01', ' ', 'é'] := by decide +kernel

/-- The token written for a quoted string starts and ends with the same quote character and, in
    between, contains no raw control character that must be escaped (so no raw newline) and no
    occurrence of its own quote or of a backslash that is not part of an escape. -/
theorem C05_quoted_wellformed (s : Str) : quotedOk (quote s) = true := quotedOk_quote s

example : quote ['"', '\'', '\n', '1'] = ['"', '\\', '"', '\'', '\\', 'a', ' ', '1', '"'] := by decide +kernel

/-- A quoted string is one closed string token for the scanner, whatever it contains (braces,
    comment openers, quotes …). -/
theorem C05_quoted_scans_closed (s : Str) (d : Nat) :
    run ⟨.normal, d⟩ (quote s) = some ⟨.normal, d⟩ := N_quote s d

/-- The header decision of `finish` (serializer.rs:635): the output starts with `@charset "UTF-8";`
    (expanded) or a BOM (compressed) exactly when charset output is allowed and the body written
    before `finish` contains a non-ASCII character — guard: the body itself does not start with a
    BOM or `@charset` (grass never writes one: the evaluator drops `@charset`). -/
theorem C05_charset_iff (st : Style) (cs : Bool) (t : List Stmt)
    (hg : hasCharsetOrBom (finish st false (topLoop st Top.init t)) = false) :
    hasCharsetOrBom (serialize st cs t) = (cs && (body st t).any isNonAscii) := by
  unfold serialize body
  generalize topLoop st Top.init t = T at *
  unfold finish at *
  cases cs <;> cases h : T.buf.any isNonAscii <;> cases st <;>
    simp_all [Style.isCompressed, hasCharsetOrBom, startsWith, charsetPrefix, lit]

example : hasCharsetOrBom (serialize .compressed true
    [.rule true [⟨false, [.compound [.text ['a']]]⟩] (.cons (.decl ['b'] false (.atom (.quoted ['é']))) .nil)]) = true := by
  decide +kernel

/-- Every `{` is closed, every string and comment is closed, no `}` is unmatched — for every tree
    whose opaque leaf texts are themselves balanced (`treeOk`; quoted strings are unconstrained),
    both styles, with or without the charset header.  By mutual induction on the tree. -/
theorem C05_blocks_balanced (st : Style) (cs : Bool) (t : List Stmt) (h : treeOk st t = true) :
    wellFormed (serialize st cs t) = true :=
  wellFormed_of_N _ (serialize_N st cs t h)

example : treeOk .compressed
    [.media false [⟨none, some ['x'], [], true⟩]
      (.cons (.rule true [⟨false, [.compound [.text ['a']]]⟩]
        (.cons (.decl ['b'] false (.atom (.quoted ['{', '/', '*', '"']))) .nil)) .nil)] = true := by decide +kernel

/-- An invisible node (empty rule, placeholder-only selector, all-invisible at-rule body, blank
    value) writes no bytes and reports `did_write = false`. -/
theorem C05_no_invisible_output_stmt (st : Style) (ind : Nat) (s : Stmt) (h : s.isInvisible = true) :
    visitStmt st ind s = (false, []) := visit_invisible st ind s h

/-- … and a visible one always reports `did_write = true`: the `is_invisible` test of the top-level
    loop (lib.rs:205) and the `did_write` test of `write_children` select the same nodes. -/
theorem C05_no_invisible_output_agree (st : Style) (ind : Nat) (s : Stmt) :
    (visitStmt st ind s).1 = !s.isInvisible := by
  cases h : s.isInvisible
  · simpa using visit_visible st ind s h
  · simp [visit_invisible st ind s h]

/-- Top level: removing an invisible node anywhere does not change the output. -/
theorem C05_no_invisible_output_top (st : Style) (cs : Bool) (a b : List Stmt) (s : Stmt)
    (h : s.isInvisible = true) : serialize st cs (a ++ s :: b) = serialize st cs (a ++ b) := by
  unfold serialize
  rw [topLoop_append, topLoop_append]
  simp [topLoop, h]

/-- Inside a block: an invisible child contributes nothing in front of its siblings. -/
theorem C05_no_invisible_output_children (st : Style) (ind : Nat) (s : Stmt) (ss : Stmts)
    (h : s.isInvisible = true) : childrenLoop st ind (.cons s ss) = childrenLoop st ind ss :=
  childrenLoop_invisible_cons st ind s ss h

example : (Stmt.rule true [⟨false, [.compound [.placeholder ['p']]]⟩]
    (.cons (.decl ['b'] false (.atom (.raw ['c']))) .nil)).isInvisible = true := by decide +kernel

/-- Caveat made explicit (the code as it stands, serializer.rs:1040-1069): `write_children` decides
    "last child" before looking at visibility, so an invisible LAST child leaves the `;` of the
    declaration before it in compressed output (`a{b:c;}` instead of `a{b:c}`).  Harmless (the `;`
    is optional) but it is why `C05_no_invisible_output_children` is stated for a leading node. -/
theorem C05_trailing_invisible_keeps_semicolon :
    childrenLoop .compressed 2 (.cons (.decl ['b'] false (.atom (.raw ['c'])))
      (.cons (.decl ['d'] false (.atom (.raw []))) .nil)) = ['b', ':', 'c', ';'] ∧
    childrenLoop .compressed 2 (.cons (.decl ['b'] false (.atom (.raw ['c']))) .nil) = ['b', ':', 'c'] := by
  decide +kernel

/-- PARTIAL Sass-freeness, for the model alphabet: a placeholder selector `%name` is never printed —
    no `%` reaches the output of a selector unless one of its opaque texts (`selTexts`: the text of
    the visible simple selectors and the combinator characters) contains one.  The other Sass-only
    constructs (`&`, `$var`, `#{…}`, Sass at-rules) have no constructor in the flattened tree, so the
    model cannot print them except from opaque texts; the full scanner predicate `sassFree` is
    evaluated by the driver on grass's output, not proved. -/
theorem C05_sass_free_partial (st : Style) (sel : Selector) (h : ∀ s ∈ selTexts sel, '%' ∉ s) :
    '%' ∉ selectorOut st sel := pct_selectorOut st sel h

example : selTexts [⟨false, [.compound [.text ['a']]]⟩, ⟨false, [.compound [.placeholder ['p']], .compound [.text ['b']]]⟩]
      = [['a'], ['b']] ∧
    selectorOut .expanded [⟨false, [.compound [.text ['a']]]⟩,
      ⟨false, [.compound [.placeholder ['p']], .compound [.text ['b']]]⟩] = ['a'] := by decide +kernel

/-- print → read round trip for the WHOLE serialised subset (style rules with selector lists,
    declarations with quoted strings and space/comma/slash lists, custom properties, @media,
    @supports, unknown at-rules with and without block, @keyframes, @import, comments): the Lean
    reader `readTree` returns exactly the canonical tree `canonTop st t` of the model tree — for both
    styles, with or without the charset header.
    Guards (decidable, evaluated by the driver for every generated tree): `treeReadable st t` — every
    header / declaration text, as printed in style `st`, is flat (no `{ } ;` outside strings, comments
    and escapes; ends outside them) and starts with neither whitespace nor `/`; comments are
    `/* … */` tokens whose loudness shows in the printed text — and the body does not itself start
    with a BOM / `@charset` line.  (`treeOk` alone is not enough: a selector text `a{}b` is balanced
    but cannot be told from a block.) -/
theorem C05_read_roundtrip (st : Style) (cs : Bool) (t : List Stmt) (h : treeReadable st t = true)
    (hg : hasCharsetOrBom (serialize st false t) = false) :
    readTree (serialize st cs t) = some (canonTop st t) := readTree_serialize st cs t h hg

example : treeReadable .expanded
    [.media false [⟨none, some ['x'], [], true⟩]
      (.cons (.rule true [⟨false, [.compound [.text ['a']]]⟩, ⟨true, [.compound [.text ['b']], .comb '>', .compound [.text ['c']]]⟩]
        (.cons (.decl ['k'] false (.list .comma [.quoted ['{', ';', '"'], .raw ['v']]))
          (.cons (.comment ['/', '*', '!', 'x', '*', '/'] 4) .nil))) .nil),
     .import ['"', 'u', '"'] none] = true := by decide +kernel

/-- Fixed point of print ∘ read for the model: the text determines the canonical tree, and the
    canonical tree determines what is read from any other serialisation of the same tree — reading
    the output, with or without header, in the same style always gives the same tree. -/
theorem C05_fixed_point_model (st : Style) (cs cs' : Bool) (t : List Stmt) (h : treeReadable st t = true)
    (hg : hasCharsetOrBom (serialize st false t) = false) :
    readTree (serialize st cs t) = readTree (serialize st cs' t) := by
  rw [readTree_serialize st cs t h hg, readTree_serialize st cs' t h hg]

end Grass.Serialize
