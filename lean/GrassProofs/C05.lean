import GrassProofs.Lemmas.SerializeEmbed
import GrassProofs.Lemmas.SerializeAlphabet
import GrassProofs.Lemmas.SerializeUtf8
/-
  C05 — Output is well-formed, Sass-free CSS and a fixed point of the compiler.

  Property theorems about the serializer model `Grass/Serialize.lean` (tied to grass byte for byte by
  tools/props/c05.py).  P̂ predicates (`wellFormed`, `quotedOk`, `unescape`, `hasCharsetOrBom`, `sassFree`)
  and the guard `treeOk` are defined in the model file and are the same functions the driver
  evaluates on grass's own output.

  Full statement (kept visible; what is proved below is marked):
    for every flattened tree t made of CSS-representable leaves, every style st and charset flag cs,
    with out = serialize st cs t:
      (1) wellFormed out                                   — PROVED  (C05_blocks_balanced)
      (2) every quoted string token is closed, has no raw control character / newline, escapes its
          own quote, and reads back to the original string — PROVED  (C05_quoted_wellformed, C05_quoted_roundtrip)
      (3) hasCharsetOrBom out ↔ cs ∧ body has a non-ASCII char — PROVED (C05_charset_iff)
      (4) invisible nodes write nothing; both loops skip the same nodes — PROVED (C05_no_invisible_output_*)
      (5) Sass-freeness: the serializer introduces none of `& $ % #` (so no `&`, `$var`, `%placeholder`,
          `#{…}`) — PROVED for the model alphabet (C05_sass_free, C05_sass_free_partial); the scanner
          predicate `sassFree` (which also rejects Sass at-rule NAMES, which can only come from the opaque
          name of an unknown at-rule) is evaluated by the driver on grass's output, not proved.
      (6) readTree (serialize st cs t) = some (canon st t): print → read round trip of the model
                                                            — PROVED (C05_read_roundtrip) for every readable tree;
          the fixed point of grass's REAL parser is checked (recompilation), not proved.
      (7) byte level: the bytes handed to `String::from_utf8_unchecked` (`serializeB`: the encoded buffer
          finished by the byte-level `finish`) are valid UTF-8 and are the encoding of the text model
                                                            — PROVED (C05_output_valid_utf8, C05_bytes_are_encoded_text);
          every split point of a text is a character boundary of its encoding (C05_char_boundary); the one
          byte-indexed slice of serializer.rs (`condition["(not ".len()..len-1]`) stays on boundaries and
          cuts out the encoding of the text model's slice (C05_not_slice_on_boundaries, C05_media_query_bytes);
          `str::len` = `byteLen` (C05_byte_len); the charset clause over BYTES (C05_charset_iff_bytes,
          C05_charset_predicate_bytes).  The other writers are not re-modelled on bytes: they only append
          whole texts / ASCII bytes, for which `encodeUtf8 (a ++ b) = encodeUtf8 a ++ encodeUtf8 b`
          (C05_encode_append) is the whole argument.
-/
namespace Grass.Serialize

def C05_full : Prop :=
  ∀ (st : Style) (cs : Bool) (t : List Stmt), treeOk st t = true →
    wellFormed (serialize st cs t) = true ∧ sassFree (serialize st cs t) = true

/-- Reading back what `visit_quoted_string` wrote gives the original string — for EVERY string
    (quotes of both kinds, backslashes, control characters, non-ASCII). -/
theorem C05_quoted_roundtrip (s : Str) : unescape (quote s) = some s := unescape_quote s

example : unescape (quote ['a', '"', '\'', '\\', '\n', 'f', '\x01', ' ', 'é']) =
    some ['a', '"', '\'', '\\', '\n', 'f', '\x01', ' ', 'é'] := by decide +kernel

/-- The token written for a quoted string starts and ends with the same quote character and, in
    between, contains no raw control character that must be escaped (so no raw newline) and no
    occurrence of its own quote or of a backslash that is not part of an escape. -/
theorem C05_quoted_wellformed (s : Str) : quotedOk (quote s) = true := quotedOk_quote s

example : quote ['"', '\'', '\n', '1'] = ['"', '\\', '"', '\'', '\\', 'a', ' ', '1', '"'] := by decide +kernel

/-- A quoted string is one closed string token for the scanner, whatever it contains (braces,
    comment openers, quotes …). -/
theorem C05_quoted_scans_closed (s : Str) (d : Nat) :
    run ⟨.normal, d⟩ (quote s) = some ⟨.normal, d⟩ := N_quote s d

/-- The header decision of `finish` (serializer.rs:635): the output starts with `@charset "UTF-8";`
    (expanded) or a BOM (compressed) exactly when charset output is allowed and the body written
    before `finish` contains a non-ASCII character — guard: the body itself does not start with a
    BOM or `@charset` (grass never writes one: the evaluator drops `@charset`). -/
theorem C05_charset_iff (st : Style) (cs : Bool) (t : List Stmt)
    (hg : hasCharsetOrBom (finish st false (topLoop st Top.init t)) = false) :
    hasCharsetOrBom (serialize st cs t) = (cs && (body st t).any isNonAscii) := by
  unfold serialize body
  generalize topLoop st Top.init t = T at *
  unfold finish at *
  cases cs <;> cases h : T.buf.any isNonAscii <;> cases st <;>
    simp_all [Style.isCompressed, hasCharsetOrBom, startsWith, charsetPrefix, lit]

example : hasCharsetOrBom (serialize .compressed true
    [.rule true [⟨false, [.compound [.text ['a']]]⟩] (.cons (.decl ['b'] false (.atom (.quoted ['é']))) .nil)]) = true := by
  decide +kernel

/-- Every `{` is closed, every string and comment is closed, no `}` is unmatched — for every tree
    whose opaque leaf texts are themselves balanced (`treeOk`; quoted strings are unconstrained),
    both styles, with or without the charset header.  By mutual induction on the tree. -/
theorem C05_blocks_balanced (st : Style) (cs : Bool) (t : List Stmt) (h : treeOk st t = true) :
    wellFormed (serialize st cs t) = true :=
  wellFormed_of_N _ (serialize_N st cs t h)

example : treeOk .compressed
    [.media false [⟨none, some ['x'], [], true⟩]
      (.cons (.rule true [⟨false, [.compound [.text ['a']]]⟩]
        (.cons (.decl ['b'] false (.atom (.quoted ['{', '/', '*', '"']))) .nil)) .nil)] = true := by decide +kernel

/-- An invisible node (empty rule, placeholder-only selector, all-invisible at-rule body, blank
    value) writes no bytes and reports `did_write = false`. -/
theorem C05_no_invisible_output_stmt (st : Style) (ind : Nat) (s : Stmt) (h : s.isInvisible = true) :
    visitStmt st ind s = (false, []) := visit_invisible st ind s h

/-- … and a visible one always reports `did_write = true`: the `is_invisible` test of the top-level
    loop (lib.rs:205) and the `did_write` test of `write_children` select the same nodes. -/
theorem C05_no_invisible_output_agree (st : Style) (ind : Nat) (s : Stmt) :
    (visitStmt st ind s).1 = !s.isInvisible := by
  cases h : s.isInvisible
  · simpa using visit_visible st ind s h
  · simp [visit_invisible st ind s h]

/-- Top level: removing an invisible node anywhere does not change the output. -/
theorem C05_no_invisible_output_top (st : Style) (cs : Bool) (a b : List Stmt) (s : Stmt)
    (h : s.isInvisible = true) : serialize st cs (a ++ s :: b) = serialize st cs (a ++ b) := by
  unfold serialize
  rw [topLoop_append, topLoop_append]
  simp [topLoop, h]

/-- Inside a block: an invisible child contributes nothing in front of its siblings. -/
theorem C05_no_invisible_output_children (st : Style) (ind : Nat) (s : Stmt) (ss : Stmts)
    (h : s.isInvisible = true) : childrenLoop st ind (.cons s ss) = childrenLoop st ind ss :=
  childrenLoop_invisible_cons st ind s ss h

example : (Stmt.rule true [⟨false, [.compound [.placeholder ['p']]]⟩]
    (.cons (.decl ['b'] false (.atom (.raw ['c']))) .nil)).isInvisible = true := by decide +kernel

/-- Caveat made explicit (the code as it stands, serializer.rs:1040-1069): `write_children` decides
    "last child" before looking at visibility, so an invisible LAST child leaves the `;` of the
    declaration before it in compressed output (`a{b:c;}` instead of `a{b:c}`).  Harmless (the `;`
    is optional) but it is why `C05_no_invisible_output_children` is stated for a leading node. -/
theorem C05_trailing_invisible_keeps_semicolon :
    childrenLoop .compressed 2 (.cons (.decl ['b'] false (.atom (.raw ['c'])))
      (.cons (.decl ['d'] false (.atom (.raw []))) .nil)) = ['b', ':', 'c', ';'] ∧
    childrenLoop .compressed 2 (.cons (.decl ['b'] false (.atom (.raw ['c']))) .nil) = ['b', ':', 'c'] := by
  decide +kernel

/-- PARTIAL Sass-freeness, for the model alphabet: a placeholder selector `%name` is never printed —
    no `%` reaches the output of a selector unless one of its opaque texts (`selTexts`: the text of
    the visible simple selectors and the combinator characters) contains one.  The other Sass-only
    constructs (`&`, `$var`, `#{…}`, Sass at-rules) have no constructor in the flattened tree, so the
    model cannot print them except from opaque texts; the full scanner predicate `sassFree` is
    evaluated by the driver on grass's output, not proved. -/
theorem C05_sass_free_partial (st : Style) (sel : Selector) (h : ∀ s ∈ selTexts sel, '%' ∉ s) :
    '%' ∉ selectorOut st sel := pct_selectorOut st sel h

example : selTexts [⟨false, [.compound [.text ['a']]]⟩, ⟨false, [.compound [.placeholder ['p']], .compound [.text ['b']]]⟩]
      = [['a'], ['b']] ∧
    selectorOut .expanded [⟨false, [.compound [.text ['a']]]⟩,
      ⟨false, [.compound [.placeholder ['p']], .compound [.text ['b']]]⟩] = ['a'] := by decide +kernel

/-- print → read round trip for the WHOLE serialised subset (style rules with selector lists,
    declarations with quoted strings and space/comma/slash lists, custom properties, @media,
    @supports, unknown at-rules with and without block, @keyframes, @import, comments): the Lean
    reader `readTree` returns exactly the canonical tree `canonTop st t` of the model tree — for both
    styles, with or without the charset header.
    Guards (decidable, evaluated by the driver for every generated tree): `treeReadable st t` — every
    header / declaration text, as printed in style `st`, is flat (no `{ } ;` outside strings, comments
    and escapes; ends outside them) and starts with neither whitespace nor `/`; comments are
    `/* … */` tokens whose loudness shows in the printed text — and the body does not itself start
    with a BOM / `@charset` line.  (`treeOk` alone is not enough: a selector text `a{}b` is balanced
    but cannot be told from a block.) -/
theorem C05_read_roundtrip (st : Style) (cs : Bool) (t : List Stmt) (h : treeReadable st t = true)
    (hg : hasCharsetOrBom (serialize st false t) = false) :
    readTree (serialize st cs t) = some (canonTop st t) := readTree_serialize st cs t h hg

example : treeReadable .expanded
    [.media false [⟨none, some ['x'], [], true⟩]
      (.cons (.rule true [⟨false, [.compound [.text ['a']]]⟩, ⟨true, [.compound [.text ['b']], .comb '>', .compound [.text ['c']]]⟩]
        (.cons (.decl ['k'] false (.list .comma [.quoted ['{', ';', '"'], .raw ['v']]))
          (.cons (.comment ['/', '*', '!', 'x', '*', '/'] 4) .nil))) .nil),
     .import ['"', 'u', '"'] none] = true := by decide +kernel

/-- Fixed point of print ∘ read for the model.  Take the tree `c` the reader returns for the output
    of `t`, turn it back into statements (`embedTop`: a block becomes an unknown at-rule or a style
    rule with one opaque selector, an item a body-less at-rule or a verbatim declaration, a comment
    a comment), serialise again — in any style, with or without header — and read again: the same
    tree `c` comes back.  So `serialize st cs (embedTop (readTree (serialize st cs t)))` is in the
    same text class as `serialize st cs t`: both read as `canonTop st t`.
    Guards: `treeReadable st t`; `embedOk (canonTop st t)` (every canonical text is flat, already
    normalised, without raw newline and starts with a non-blank character other than `/`; a block that
    is not an at-rule has a visible child — a style rule whose only children are dropped comments is
    printed as `a{}` by the compressed serializer but an empty rule is invisible; declarations have a
    name and a value; comments are single `/*! … */` tokens that `commentOut · 0` leaves unchanged);
    and no BOM/`@charset` at the start of either body. -/
theorem C05_fixed_point_model (st st' : Style) (cs cs' : Bool) (t : List Stmt) (h : treeReadable st t = true)
    (hg : hasCharsetOrBom (serialize st false t) = false)
    (he : (canonTop st t).embedOk = true)
    (hg' : hasCharsetOrBom (serialize st' false (embedTop (canonTop st t))) = false) :
    (readTree (serialize st cs t)).bind (fun c => readTree (serialize st' cs' (embedTop c))) =
      readTree (serialize st cs t) := by
  rw [readTree_serialize st cs t h hg]
  simp only [Option.bind_some]
  exact readTree_embed st' cs' _ he hg'

example : (canonTop .compressed
    [.rule true [⟨false, [.compound [.text ['a']], .comb '>', .compound [.text ['b']]]⟩]
      (.cons (.decl ['k'] false (.list .comma [.quoted ['{', ';'], .raw ['v']])) .nil),
     .unknown false ['f'] ['x'] true .nil, .import ['"', 'u', '"'] none]).embedOk = true := by decide +kernel

/-- Sass-freeness at full strength for the model alphabet: the serializer never writes `&`, `$`,
    `%` or `#` on its own.  If no opaque leaf of the tree (selector texts and combinators, property
    names, unquoted and quoted atoms, rendered queries, at-rule names/parameters, keyframe selectors,
    import url/modifiers, rendered comments — `treeLeafFree c t`) contains the character, neither does
    the output: in particular no `&`, no `$variable`, no `%placeholder` (placeholder selectors are
    never printed, whatever their name) and no `#{` can appear that was not already text of a leaf.
    Both styles, with or without header. -/
theorem C05_sass_free (c : Char) (hc : sassChar c = true) (st : Style) (cs : Bool) (t : List Stmt)
    (h : treeLeafFree c t = true) : c ∉ serialize st cs t := serialize_NI c hc st cs t h

example : treeLeafFree '%'
    [.rule true [⟨false, [.compound [.text ['a']]]⟩, ⟨false, [.compound [.placeholder ['p']], .comb '>', .compound [.text ['b']]]⟩]
      (.cons (.decl ['k'] false (.list .comma [.quoted ['{', '&'], .raw ['v']])) .nil)] = true := by decide +kernel

/-! ## byte level -/

/-- The encoder is a homomorphism: appending whole texts (all the serializer does outside the sites
    below: `extend_from_slice(x.as_bytes())`, `push(b';')`, `write!`) never splits a character. -/
theorem C05_encode_append (a b : Str) : encodeUtf8 (a ++ b) = encodeUtf8 a ++ encodeUtf8 b :=
  encodeUtf8_append a b

/-- The encoding of ANY text is valid UTF-8 (no overlong form, no surrogate, nothing above U+10FFFF,
    no truncated sequence) — astral and combining characters included. -/
theorem C05_encode_valid (s : Str) : validUtf8 (encodeUtf8 s) = true := validUtf8_encode s

example : encodeUtf8 ['a', 'é', '✓', '\u0301', Char.ofNat 0x1F600, Char.ofNat 0xFEFF] =
    [0x61, 0xC3, 0xA9, 0xE2, 0x9C, 0x93, 0xCC, 0x81, 0xF0, 0x9F, 0x98, 0x80, 0xEF, 0xBB, 0xBF] := by decide
/-- (the validator does reject: overlong `/`, a surrogate, a truncated sequence, a lone continuation) -/
example : validUtf8 [0xC0, 0xAF] = false ∧ validUtf8 [0xED, 0xA0, 0x80] = false ∧
    validUtf8 [0xE2, 0x9C] = false ∧ validUtf8 [0x80] = false ∧ validUtf8 [0xF4, 0x90, 0x80, 0x80] = false := by decide

/-- The bytes of the finished output — the top-level buffer as bytes, finished by the BYTE-level
    `finish` (non-ASCII test on bytes, `;`/newline pushed as bytes, BOM / `@charset` inserted at byte
    index 0) — are exactly the encoding of the text model's output … -/
theorem C05_bytes_are_encoded_text (st : Style) (cs : Bool) (t : List Stmt) :
    serializeB st cs t = encodeUtf8 (serialize st cs t) := serializeB_eq st cs t

/-- … hence valid UTF-8: the argument of `String::from_utf8_unchecked` (serializer.rs:648) satisfies
    what `from_utf8` would have checked, for every tree, both styles, with or without header. -/
theorem C05_output_valid_utf8 (st : Style) (cs : Bool) (t : List Stmt) :
    validUtf8 (serializeB st cs t) = true := by
  rw [serializeB_eq]; exact validUtf8_encode _

example : serializeB .compressed true
    [.rule true [⟨false, [.compound [.text ['a']]]⟩] (.cons (.decl ['b'] false (.atom (.quoted [Char.ofNat 0x1F600]))) .nil)] =
    [0xEF, 0xBB, 0xBF, 0x61, 0x7B, 0x62, 0x3A, 0x22, 0xF0, 0x9F, 0x98, 0x80, 0x22, 0x7D] := by decide +kernel

/-- Every split point of a text is a character boundary (`str::is_char_boundary`) of its encoding. -/
theorem C05_char_boundary (a b : Str) :
    isCharBoundary (encodeUtf8 (a ++ b)) (encodeUtf8 a).length = true := boundary_append a b

example : isCharBoundary (encodeUtf8 ['é', '✓']) 2 = true ∧ isCharBoundary (encodeUtf8 ['é', '✓']) 1 = false ∧
    isCharBoundary (encodeUtf8 ['é', '✓']) 3 = false := by decide

/-- `str::len` (used by `write_comment`, serializer.rs:1020) is the model's `byteLen`. -/
theorem C05_byte_len (s : Str) : byteLen s = (encodeUtf8 s).length := byteLen_eq s

/-- The only byte-indexed slice of serializer.rs, `condition["(not ".len()..condition.len() - 1]`
    (:535): when the condition starts with `(not `, has a character after it and its last character is
    one byte long (`notSliceOk`; it is the closing parenthesis) the range is well-ordered, both ends
    are character boundaries (no panic) and the bytes cut out are the encoding of the text model's
    `(c.drop 5).dropLast`. -/
theorem C05_not_slice_on_boundaries (c : Str) (hp : startsWith c (lit "(not ") = true) (hk : notSliceOk c = true) :
    notPrefixB.length ≤ (encodeUtf8 c).length - 1 ∧
    isCharBoundary (encodeUtf8 c) notPrefixB.length = true ∧
    isCharBoundary (encodeUtf8 c) ((encodeUtf8 c).length - 1) = true ∧
    sliceB (encodeUtf8 c) notPrefixB.length ((encodeUtf8 c).length - 1) = encodeUtf8 ((c.drop 5).dropLast) :=
  not_slice c hp hk

example : notSliceOk (lit "(not (é: ✓))") = true ∧ notSliceOk (lit "(not ") = false ∧
    notSliceOk (lit "(not é") = false := by decide

/-- `write_media_query` run on BYTES (prefix test and slice with byte indices) writes the encoding of
    what the text model writes — guard `sliceOk` as above (vacuous unless the query is a single
    `(not …` condition). -/
theorem C05_media_query_bytes (q : Query) (h : q.sliceOk = true) :
    queryOutB q.toB = encodeUtf8 (queryOut q) := queryOutB_encode q h

example : queryOutB (Query.toB ⟨none, some (lit "screen"), [lit "(not (é))"], true⟩) =
    encodeUtf8 (lit "screen and not (é)") := by decide +kernel

/-- The charset clause over BYTES: the output bytes start with EF BB BF (compressed) or with the
    bytes of `@charset "UTF-8";\n` (expanded) exactly when charset output is allowed and the buffer
    contains a byte ≥ 0x80 (`is_not_ascii`, serializer.rs:637) — guard: the bytes written without
    header do not themselves start with a BOM / `@charset` rule. -/
theorem C05_charset_iff_bytes (st : Style) (cs : Bool) (t : List Stmt)
    (hg : hasCharsetOrBomB (serializeB st false t) = false) :
    hasCharsetOrBomB (serializeB st cs t) = (cs && (encodeUtf8 (body st t)).any nonAsciiB) :=
  charset_iff_bytes st cs t hg

example : hasCharsetOrBomB (serializeB .expanded true
    [.rule true [⟨false, [.compound [.text ['a']]]⟩] (.cons (.decl ['b'] false (.atom (.quoted ['é']))) .nil)]) = true ∧
    hasCharsetOrBomB (serializeB .expanded false
    [.rule true [⟨false, [.compound [.text ['a']]]⟩] (.cons (.decl ['b'] false (.atom (.quoted ['é']))) .nil)]) = false := by
  decide +kernel

/-- The byte-level P̂ the driver evaluates on grass's own bytes is the text-level P̂ of the decoded
    text: header tests, the non-ASCII test and the header removal can all be done on bytes. -/
theorem C05_charset_predicate_bytes (cs : Bool) (s : Str) :
    charsetOkB cs (encodeUtf8 s) = charsetOk cs s ∧ hasCharsetOrBomB (encodeUtf8 s) = hasCharsetOrBom s ∧
    (encodeUtf8 s).any nonAsciiB = s.any isNonAscii :=
  ⟨charsetOkB_encode cs s, hasCharsetOrBomB_encode s, any_nonAscii s⟩

example : charsetOkB true (encodeUtf8 (bom :: lit "a{b:é}")) = true ∧ charsetOkB true (encodeUtf8 (lit "a{b:é}")) = false := by
  decide +kernel

end Grass.Serialize
