import GrassProofs.Lemmas.SerializeEmbed
import GrassProofs.Lemmas.SerializeAlphabet
/-
  C05 — Output is well-formed, Sass-free CSS and a fixed point of the compiler.

  Property theorems about the serializer model `Grass/Serialize.lean` (tied to grass byte for byte by
  tools/props/c05.py).  P̂ predicates (`wellFormed`, `quotedOk`, `unescape`, `hasCharsetOrBom`, `sassFree`)
  and the guard `treeOk` are defined in the model file and are the same functions the driver
  evaluates on grass's own output.

  Full statement (kept visible; what is proved below is marked):
    for every flattened tree t made of CSS-representable leaves, every style st and charset flag cs,
    with out = serialize st cs t:
      (1) wellFormed out                                   — PROVED  (C05_blocks_balanced)
      (2) every quoted string token is closed, has no raw control character / newline, escapes its
          own quote, and reads back to the original string — PROVED  (C05_quoted_wellformed, C05_quoted_roundtrip)
      (3) hasCharsetOrBom out ↔ cs ∧ body has a non-ASCII char — PROVED (C05_charset_iff)
      (4) invisible nodes write nothing; both loops skip the same nodes — PROVED (C05_no_invisible_output_*)
      (5) Sass-freeness: the serializer introduces none of `& $ % #` (so no `&`, `$var`, `%placeholder`,
          `#{…}`) — PROVED for the model alphabet (C05_sass_free, C05_sass_free_partial); the scanner
          predicate `sassFree` (which also rejects Sass at-rule NAMES, which can only come from the opaque
          name of an unknown at-rule) is evaluated by the driver on grass's output, not proved.
      (6) readTree (serialize st cs t) = some (canon st t): print → read round trip of the model
                                                            — PROVED (C05_read_roundtrip) for every readable tree;
          the fixed point of grass's REAL parser is checked (recompilation), not proved.
-/
namespace Grass.Serialize

def C05_full : Prop :=
  ∀ (st : Style) (cs : Bool) (t : List Stmt), treeOk st t = true →
    wellFormed (serialize st cs t) = true ∧ sassFree (serialize st cs t) = true

/-- Reading back what `visit_quoted_string` wrote gives the original string — for EVERY string
    (quotes of both kinds, backslashes, control characters, non-ASCII). -/
theorem C05_quoted_roundtrip (s : Str) : unescape (quote s) = some s := unescape_quote s

example : unescape (quote ['a', '"', '\'', '\\', '\n', 'f', '\x01', ' ', 'é']) =
    some ['a', '"', '\'', '\\', '\n', 'f', '\x01', ' ', 'é'] := by decide +kernel

/-- The token written for a quoted string starts and ends with the same quote character and, in
    between, contains no raw control character that must be escaped (so no raw newline) and no
    occurrence of its own quote or of a backslash that is not part of an escape. -/
theorem C05_quoted_wellformed (s : Str) : quotedOk (quote s) = true := quotedOk_quote s

example : quote ['"', '\'', '\n', '1'] = ['"', '\\', '"', '\'', '\\', 'a', ' ', '1', '"'] := by decide +kernel

/-- A quoted string is one closed string token for the scanner, whatever it contains (braces,
    comment openers, quotes …). -/
theorem C05_quoted_scans_closed (s : Str) (d : Nat) :
    run ⟨.normal, d⟩ (quote s) = some ⟨.normal, d⟩ := N_quote s d

/-- The header decision of `finish` (serializer.rs:635): the output starts with `@charset "UTF-8";`
    (expanded) or a BOM (compressed) exactly when charset output is allowed and the body written
    before `finish` contains a non-ASCII character — guard: the body itself does not start with a
    BOM or `@charset` (grass never writes one: the evaluator drops `@charset`). -/
theorem C05_charset_iff (st : Style) (cs : Bool) (t : List Stmt)
    (hg : hasCharsetOrBom (finish st false (topLoop st Top.init t)) = false) :
    hasCharsetOrBom (serialize st cs t) = (cs && (body st t).any isNonAscii) := by
  unfold serialize body
  generalize topLoop st Top.init t = T at *
  unfold finish at *
  cases cs <;> cases h : T.buf.any isNonAscii <;> cases st <;>
    simp_all [Style.isCompressed, hasCharsetOrBom, startsWith, charsetPrefix, lit]

example : hasCharsetOrBom (serialize .compressed true
    [.rule true [⟨false, [.compound [.text ['a']]]⟩] (.cons (.decl ['b'] false (.atom (.quoted ['é']))) .nil)]) = true := by
  decide +kernel

/-- Every `{` is closed, every string and comment is closed, no `}` is unmatched — for every tree
    whose opaque leaf texts are themselves balanced (`treeOk`; quoted strings are unconstrained),
    both styles, with or without the charset header.  By mutual induction on the tree. -/
theorem C05_blocks_balanced (st : Style) (cs : Bool) (t : List Stmt) (h : treeOk st t = true) :
    wellFormed (serialize st cs t) = true :=
  wellFormed_of_N _ (serialize_N st cs t h)

example : treeOk .compressed
    [.media false [⟨none, some ['x'], [], true⟩]
      (.cons (.rule true [⟨false, [.compound [.text ['a']]]⟩]
        (.cons (.decl ['b'] false (.atom (.quoted ['{', '/', '*', '"']))) .nil)) .nil)] = true := by decide +kernel

/-- An invisible node (empty rule, placeholder-only selector, all-invisible at-rule body, blank
    value) writes no bytes and reports `did_write = false`. -/
theorem C05_no_invisible_output_stmt (st : Style) (ind : Nat) (s : Stmt) (h : s.isInvisible = true) :
    visitStmt st ind s = (false, []) := visit_invisible st ind s h

/-- … and a visible one always reports `did_write = true`: the `is_invisible` test of the top-level
    loop (lib.rs:205) and the `did_write` test of `write_children` select the same nodes. -/
theorem C05_no_invisible_output_agree (st : Style) (ind : Nat) (s : Stmt) :
    (visitStmt st ind s).1 = !s.isInvisible := by
  cases h : s.isInvisible
  · simpa using visit_visible st ind s h
  · simp [visit_invisible st ind s h]

/-- Top level: removing an invisible node anywhere does not change the output. -/
theorem C05_no_invisible_output_top (st : Style) (cs : Bool) (a b : List Stmt) (s : Stmt)
    (h : s.isInvisible = true) : serialize st cs (a ++ s :: b) = serialize st cs (a ++ b) := by
  unfold serialize
  rw [topLoop_append, topLoop_append]
  simp [topLoop, h]

/-- Inside a block: an invisible child contributes nothing in front of its siblings. -/
theorem C05_no_invisible_output_children (st : Style) (ind : Nat) (s : Stmt) (ss : Stmts)
    (h : s.isInvisible = true) : childrenLoop st ind (.cons s ss) = childrenLoop st ind ss :=
  childrenLoop_invisible_cons st ind s ss h

example : (Stmt.rule true [⟨false, [.compound [.placeholder ['p']]]⟩]
    (.cons (.decl ['b'] false (.atom (.raw ['c']))) .nil)).isInvisible = true := by decide +kernel

/-- Caveat made explicit (the code as it stands, serializer.rs:1040-1069): `write_children` decides
    "last child" before looking at visibility, so an invisible LAST child leaves the `;` of the
    declaration before it in compressed output (`a{b:c;}` instead of `a{b:c}`).  Harmless (the `;`
    is optional) but it is why `C05_no_invisible_output_children` is stated for a leading node. -/
theorem C05_trailing_invisible_keeps_semicolon :
    childrenLoop .compressed 2 (.cons (.decl ['b'] false (.atom (.raw ['c'])))
      (.cons (.decl ['d'] false (.atom (.raw []))) .nil)) = ['b', ':', 'c', ';'] ∧
    childrenLoop .compressed 2 (.cons (.decl ['b'] false (.atom (.raw ['c']))) .nil) = ['b', ':', 'c'] := by
  decide +kernel

/-- PARTIAL Sass-freeness, for the model alphabet: a placeholder selector `%name` is never printed —
    no `%` reaches the output of a selector unless one of its opaque texts (`selTexts`: the text of
    the visible simple selectors and the combinator characters) contains one.  The other Sass-only
    constructs (`&`, `$var`, `#{…}`, Sass at-rules) have no constructor in the flattened tree, so the
    model cannot print them except from opaque texts; the full scanner predicate `sassFree` is
    evaluated by the driver on grass's output, not proved. -/
theorem C05_sass_free_partial (st : Style) (sel : Selector) (h : ∀ s ∈ selTexts sel, '%' ∉ s) :
    '%' ∉ selectorOut st sel := pct_selectorOut st sel h

example : selTexts [⟨false, [.compound [.text ['a']]]⟩, ⟨false, [.compound [.placeholder ['p']], .compound [.text ['b']]]⟩]
      = [['a'], ['b']] ∧
    selectorOut .expanded [⟨false, [.compound [.text ['a']]]⟩,
      ⟨false, [.compound [.placeholder ['p']], .compound [.text ['b']]]⟩] = ['a'] := by decide +kernel

/-- print → read round trip for the WHOLE serialised subset (style rules with selector lists,
    declarations with quoted strings and space/comma/slash lists, custom properties, @media,
    @supports, unknown at-rules with and without block, @keyframes, @import, comments): the Lean
    reader `readTree` returns exactly the canonical tree `canonTop st t` of the model tree — for both
    styles, with or without the charset header.
    Guards (decidable, evaluated by the driver for every generated tree): `treeReadable st t` — every
    header / declaration text, as printed in style `st`, is flat (no `{ } ;` outside strings, comments
    and escapes; ends outside them) and starts with neither whitespace nor `/`; comments are
    `/* … */` tokens whose loudness shows in the printed text — and the body does not itself start
    with a BOM / `@charset` line.  (`treeOk` alone is not enough: a selector text `a{}b` is balanced
    but cannot be told from a block.) -/
theorem C05_read_roundtrip (st : Style) (cs : Bool) (t : List Stmt) (h : treeReadable st t = true)
    (hg : hasCharsetOrBom (serialize st false t) = false) :
    readTree (serialize st cs t) = some (canonTop st t) := readTree_serialize st cs t h hg

example : treeReadable .expanded
    [.media false [⟨none, some ['x'], [], true⟩]
      (.cons (.rule true [⟨false, [.compound [.text ['a']]]⟩, ⟨true, [.compound [.text ['b']], .comb '>', .compound [.text ['c']]]⟩]
        (.cons (.decl ['k'] false (.list .comma [.quoted ['{', ';', '"'], .raw ['v']]))
          (.cons (.comment ['/', '*', '!', 'x', '*', '/'] 4) .nil))) .nil),
     .import ['"', 'u', '"'] none] = true := by decide +kernel

/-- Fixed point of print ∘ read for the model.  Take the tree `c` the reader returns for the output
    of `t`, turn it back into statements (`embedTop`: a block becomes an unknown at-rule or a style
    rule with one opaque selector, an item a body-less at-rule or a verbatim declaration, a comment
    a comment), serialise again — in any style, with or without header — and read again: the same
    tree `c` comes back.  So `serialize st cs (embedTop (readTree (serialize st cs t)))` is in the
    same text class as `serialize st cs t`: both read as `canonTop st t`.
    Guards: `treeReadable st t`; `embedOk (canonTop st t)` (every canonical text is flat, already
    normalised, without raw newline and starts with a non-blank character other than `/`; a block that
    is not an at-rule has a visible child — a style rule whose only children are dropped comments is
    printed as `a{}` by the compressed serializer but an empty rule is invisible; declarations have a
    name and a value; comments are single `/*! … */` tokens that `commentOut · 0` leaves unchanged);
    and no BOM/`@charset` at the start of either body. -/
theorem C05_fixed_point_model (st st' : Style) (cs cs' : Bool) (t : List Stmt) (h : treeReadable st t = true)
    (hg : hasCharsetOrBom (serialize st false t) = false)
    (he : (canonTop st t).embedOk = true)
    (hg' : hasCharsetOrBom (serialize st' false (embedTop (canonTop st t))) = false) :
    (readTree (serialize st cs t)).bind (fun c => readTree (serialize st' cs' (embedTop c))) =
      readTree (serialize st cs t) := by
  rw [readTree_serialize st cs t h hg]
  simp only [Option.bind_some]
  exact readTree_embed st' cs' _ he hg'

example : (canonTop .compressed
    [.rule true [⟨false, [.compound [.text ['a']], .comb '>', .compound [.text ['b']]]⟩]
      (.cons (.decl ['k'] false (.list .comma [.quoted ['{', ';'], .raw ['v']])) .nil),
     .unknown false ['f'] ['x'] true .nil, .import ['"', 'u', '"'] none]).embedOk = true := by decide +kernel

/-- Sass-freeness at full strength for the model alphabet: the serializer never writes `&`, `$`,
    `%` or `#` on its own.  If no opaque leaf of the tree (selector texts and combinators, property
    names, unquoted and quoted atoms, rendered queries, at-rule names/parameters, keyframe selectors,
    import url/modifiers, rendered comments — `treeLeafFree c t`) contains the character, neither does
    the output: in particular no `&`, no `$variable`, no `%placeholder` (placeholder selectors are
    never printed, whatever their name) and no `#{` can appear that was not already text of a leaf.
    Both styles, with or without header. -/
theorem C05_sass_free (c : Char) (hc : sassChar c = true) (st : Style) (cs : Bool) (t : List Stmt)
    (h : treeLeafFree c t = true) : c ∉ serialize st cs t := serialize_NI c hc st cs t h

example : treeLeafFree '%'
    [.rule true [⟨false, [.compound [.text ['a']]]⟩, ⟨false, [.compound [.placeholder ['p']], .comb '>', .compound [.text ['b']]]⟩]
      (.cons (.decl ['k'] false (.list .comma [.quoted ['{', '&'], .raw ['v']])) .nil)] = true := by decide +kernel

end Grass.Serialize
