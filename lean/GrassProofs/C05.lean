import Grass.Serialize
/-
  C05 — Output is well-formed, Sass-free CSS and a fixed point of the compiler.
  Property theorems about the serializer model `Grass.Serialize` (first cut, being widened).
-/
namespace Grass.Serialize

/-- The header decision of `finish` (serializer.rs:635): the output starts with `@charset "UTF-8";`
    (expanded) or a BOM (compressed) exactly when charset output is allowed and the body written
    before `finish` contains a non-ASCII character — provided the body does not itself start
    with a BOM or an `@charset` rule (the guard: grass never writes one, the visitor drops
    `@charset`). -/
theorem C05_charset_iff (st : Style) (cs : Bool) (t : List Stmt)
    (hg : hasCharsetOrBom (finish st false (topLoop st Top.init t)) = false) :
    hasCharsetOrBom (serialize st cs t) = (cs && (body st t).any isNonAscii) := by
  unfold serialize body
  generalize topLoop st Top.init t = T at *
  unfold finish at *
  cases cs <;> cases h : T.buf.any isNonAscii <;> cases st <;>
    simp_all [Style.isCompressed, hasCharsetOrBom, startsWith, charsetPrefix, lit]

end Grass.Serialize
