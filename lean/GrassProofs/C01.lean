import Grass.Lexer
/-
  C01 — Compilation is total: every input yields CSS or an error, never a crash or hang.

  PROVED here (the logic part of the property; the rest is testing, see tools/props/c01.py):

    * every character-level scanner of `BaseParser` / `SassParser` / `StylesheetParser` modelled in
      Grass/Lexer.lean TERMINATES — that is the definitions themselves: they are written without
      fuel and Lean's termination checker accepted `s.size - cursor` as the measure for each loop —
      and makes PROGRESS: a successful scan ends at a cursor between where it started and the end of
      the buffer (`C01_scan_progress`), the loop steps advance strictly (`C01_step_advances`), and
      at end of input a scanner returns at once with `ok` or an error (`C01_scan_eof`);
    * every error value a scanner can produce carries a span that lies inside the file with both
      ends on character boundaries (`C01_err_span_in_file`), so `codemap::File::find_line_col`
      cannot panic on it;
    * unit conversion is guarded: `Number::convert` is only asked for pairs the table has
      (`C01_convert_guarded`), and the two conversions `clamp()` performs are covered by its present
      guard (`C01_clamp_guarded`);
    * witnesses for the two defects found on the pinned tree (both fixed in /repo since):
      `C01_asFound_sassLoudComment_diverges`, `C01_asFound_clamp_unguarded`.

  NOT proved: `C01_full` (the whole compiler is total) — the parsers above the scanner layer, the
  evaluator, the selector engine and the serializer are not modelled; stack exhaustion on deep
  nesting is outside any model.  The claim for C01 is partial.
-/
namespace Grass.Lexer

/-! ### progress of the remaining scanners -/

theorem tryDecimal_ge (a : Bool) (s : Array Char) (i j : Nat) (h : tryDecimal a s i = .ok j) :
    i ≤ j ∧ (i ≤ s.size → j ≤ s.size) := by
  unfold tryDecimal at h
  have := skipDigits_ge s (i + 1)
  have := skipDigits_le s (i + 1)
  repeat' split at h
  all_goals (first | (cases h; done) | (injection h with h; omega))

theorem tryExponent_ge (s : Array Char) (i j : Nat) (h : tryExponent s i = .ok j) :
    i ≤ j ∧ (i ≤ s.size → j ≤ s.size) := by
  unfold tryExponent at h
  have := skipDigits_ge s (i + 1)
  have := skipDigits_le s (i + 1)
  have := skipDigits_ge s (i + 2)
  have := skipDigits_le s (i + 2)
  repeat' split at h
  all_goals (
    first
    | (cases h; done)
    | (injection h with h; omega)
    | (injection h with h; rename_i hp; have := peekSat_lt hp; omega))

theorem afterSign_ge (s : Array Char) (i : Nat) : i ≤ afterSign s i ∧ (i ≤ s.size → afterSign s i ≤ s.size) := by
  unfold afterSign; repeat' split
  all_goals omega

theorem naturalPart_ge (s : Array Char) (i j : Nat) (h : naturalPart s i = .ok j) :
    i ≤ j ∧ (i ≤ s.size → j ≤ s.size) := by
  unfold naturalPart at h
  have := skipDigits_ge s (i + 1)
  have := skipDigits_le s (i + 1)
  repeat' split at h
  all_goals (first | (cases h; done) | (injection h with h; omega))

theorem numberLit_ge (s : Array Char) (i j : Nat) (h : numberLit s i = .ok j) :
    i ≤ j ∧ (i ≤ s.size → j ≤ s.size) := by
  unfold numberLit at h
  have a := afterSign_ge s i
  dsimp only at h
  split at h
  · rename_i b hb
    have := naturalPart_ge _ _ _ hb
    split at h
    · rename_i c hc
      have := tryDecimal_ge _ _ _ _ hc
      have := tryExponent_ge _ _ _ h
      omega
    · rename_i r hr; exact (hr j h).elim
  · rename_i r hr; exact (hr j h).elim

theorem numberUnit_ge (s : Array Char) (i j : Nat) (h : numberUnit s i = .ok j) :
    i ≤ j ∧ (i ≤ s.size → j ≤ s.size) := by
  unfold numberUnit at h
  split at h
  · rename_i hp; have := peekIs_lt hp; injection h with h; omega
  · split at h
    · cases hq : parseIdentifier false true s i with
      | ok k t =>
        rw [hq] at h; simp only [ResT.toRes] at h; injection h with h
        have := parseIdentifier_adv _ _ _ _ _ _ hq; omega
      | err e sp => rw [hq] at h; cases h
      | unsupported => rw [hq] at h; cases h
    · injection h with h; omega

theorem parseNumber_ge (s : Array Char) (i j : Nat) (h : parseNumber s i = .ok j) :
    i ≤ j ∧ (i ≤ s.size → j ≤ s.size) := by
  unfold parseNumber at h
  split at h
  · rename_i k hk
    have := numberLit_ge _ _ _ hk
    have := numberUnit_ge _ _ _ h
    omega
  · rename_i r hr; exact (hr j h).elim

theorem parseIIdent_ge (s : Array Char) (i j : Nat) (h : parseIIdent s i = .ok j) :
    i ≤ j ∧ (i ≤ s.size → j ≤ s.size) := by
  unfold parseIIdent at h
  dsimp only at h
  by_cases hp : peekIs s i '-' = true
  · have := peekIs_lt hp
    simp only [hp, ↓reduceIte] at h
    repeat' split at h
    all_goals (first | cases h | skip)
    all_goals (try (rename_i hq; have := peekIs_lt hq.2))
    all_goals (try (have := iidentBody_ge _ _ _ h; omega))
    all_goals (rename_i hm; have := parseEscape_adv _ _ _ _ _ hm; have := iidentBody_ge _ _ _ h; omega)
  · simp only [hp, Bool.false_eq_true, ↓reduceIte] at h
    repeat' split at h
    all_goals (first | cases h | skip)
    all_goals (try (rename_i hq; exact absurd rfl hq.1))
    all_goals (try (have := iidentBody_ge _ _ _ h; omega))
    all_goals (rename_i hm; have := parseEscape_adv _ _ _ _ _ hm; have := iidentBody_ge _ _ _ h; omega)

theorem declValue_ge (s : Array Char) (i : Nat) (br : List Char) (j : Nat) (h : declValue s i br = .ok j) :
    i ≤ j ∧ (i ≤ s.size → j ≤ s.size) := by
  fun_induction declValue s i br
  all_goals (try (simp at h))
  all_goals (try omega)
  all_goals (try (rename_i ih; have := ih h; omega))
  all_goals (
    rename_i hm ih
    first
    | (have := parseEscape_adv _ _ _ _ _ hm; have := ih h; omega)
    | (have := parseString_adv _ _ _ hm; have := ih h; omega)
    | (have := loudBody_adv _ _ _ hm; have := ih h; omega)
    | (have := parseIdentifier_adv _ _ _ _ _ _ hm; have := ih h; omega)
    | (have := tryUrlBase_adv _ _ _ hm; have := ih h; omega))

theorem ideclValue_ge (ind a c : Bool) (s : Array Char) (i : Nat) (br : List Char) (j : Nat)
    (h : ideclValue ind a c s i br = .ok j) : i ≤ j ∧ (i ≤ s.size → j ≤ s.size) := by
  fun_induction ideclValue ind a c s i br
  all_goals (try (simp at h))
  all_goals (try omega)
  all_goals (try (rename_i ih; have := ih h; omega))
  all_goals (
    rename_i hm ih
    first
    | (have := parseEscape_adv _ _ _ _ _ hm; have := ih h; omega)
    | (have := parseIString_adv _ _ _ hm; have := ih h; omega)
    | (have := loudFor_adv _ _ _ _ hm; have := ih h; omega)
    | (have := parseIdentifier_adv _ _ _ _ _ _ hm; have := ih h; omega)
    | (have := tryUrlSheet_adv _ _ _ _ hm; have := ih h; omega))

theorem almostAny_ge (y : Syn) (s : Array Char) (i j : Nat) (h : almostAny y s i = .ok j) :
    i ≤ j ∧ (i ≤ s.size → j ≤ s.size) := by
  fun_induction almostAny y s i
  all_goals (try (simp at h))
  all_goals (try omega)
  all_goals (try (rename_i ih; have := ih h; omega))
  all_goals (try (
    rename_i hm ih
    first
    | (have := parseIString_adv _ _ _ hm; have := ih h; omega)
    | (have := loudFor_adv _ _ _ _ hm; have := ih h; omega)
    | (have := parseIdentifier_adv _ _ _ _ _ _ hm; have := ih h; omega)
    | (have := tryUrlSheet_adv _ _ _ _ hm; have := ih h; omega)))
  all_goals (
    rename_i x _ _ _ _ hp _ ih
    have := peekIs_lt hp
    have := untilNewline_ge s (x + 2)
    have := untilNewline_le s (x + 2) (by omega)
    have := ih h; omega)


/-! ### C01: progress and end of input, for every modelled scanner -/

/-- **Progress.**  A successful scan started inside the buffer ends at a cursor between the start
    and the end of the buffer — for every modelled scanner and every syntax.  (Termination is the
    definitions being accepted without fuel.) -/
theorem C01_scan_progress (sc : Scanner) (y : Syn) (s : Array Char) (i j : Nat) (hi : i ≤ s.size)
    (h : runScanner sc y s i = .ok j) : i ≤ j ∧ j ≤ s.size := by
  cases sc <;> simp only [runScanner] at h
  case wsNoComments =>
    injection h with h
    have := wsNoComments_ge y.ind s i; have := wsNoComments_le y.ind s i hi; omega
  case whitespace => have := whitespace_ge _ _ _ _ h; omega
  case loudComment => have := loudFor_adv _ _ _ _ h; omega
  case escape b =>
    cases hq : parseEscape b s i with
    | ok k t => rw [hq] at h; injection h with h; have := parseEscape_adv _ _ _ _ _ hq; omega
    | err e sp => rw [hq] at h; cases h
    | unsupported => rw [hq] at h; cases h
  case escapedChar =>
    cases hq : consumeEscapedChar s i with
    | ok k t => rw [hq] at h; injection h with h; have := consumeEscapedChar_adv _ _ _ _ hq; omega
    | err e sp => rw [hq] at h; cases h
    | unsupported => rw [hq] at h; cases h
  case identifier n u =>
    cases hq : parseIdentifier n u s i with
    | ok k t => rw [hq] at h; injection h with h; have := parseIdentifier_adv _ _ _ _ _ _ hq; omega
    | err e sp => rw [hq] at h; cases h
    | unsupported => rw [hq] at h; cases h
  case interpIdent => have := parseIIdent_ge _ _ _ h; omega
  case string => have := parseString_adv _ _ _ h; omega
  case interpString => have := parseIString_adv _ _ _ h; omega
  case number => have := parseNumber_ge _ _ _ h; omega
  case urlBase =>
    cases hq : tryUrlBase s i with
    | url k => rw [hq] at h; injection h with h; have := tryUrlBase_adv _ _ _ hq; omega
    | notUrl => rw [hq] at h; injection h with h; omega
    | err e sp => rw [hq] at h; cases h
    | unsupported => rw [hq] at h; cases h
  case urlSheet =>
    cases hq : tryUrlSheet y.ind s i with
    | url k => rw [hq] at h; injection h with h; have := tryUrlSheet_adv _ _ _ _ hq; omega
    | notUrl => rw [hq] at h; injection h with h; omega
    | err e sp => rw [hq] at h; cases h
    | unsupported => rw [hq] at h; cases h
  case declValue ae =>
    unfold declarationValue at h
    split at h
    · rename_i k hk
      have := declValue_ge _ _ _ _ hk
      split at h
      · cases h
      · injection h with h; omega
    · rename_i r hr; exact (hr j h).elim
  case interpDeclValue a b c =>
    unfold interpolatedDeclarationValue at h
    split at h
    · rename_i k hk
      have := ideclValue_ge _ _ _ _ _ _ _ hk
      split at h
      · cases h
      · injection h with h; omega
    · rename_i r hr; exact (hr j h).elim
  case almostAny => have := almostAny_ge _ _ _ _ h; omega


/-- **Strict progress of the loop steps.**  The scanners that a loop calls as one step, and whose
    success lets the loop go round again, consume at least one token — this is what the
    termination proofs of the enclosing loops rest on. -/
theorem C01_step_advances (y : Syn) (s : Array Char) (i j : Nat) :
    (loudFor y.ind s i = .ok j → i < j) ∧
    (∀ b t, parseEscape b s i = .ok j t → i < j) ∧
    (∀ t, consumeEscapedChar s i = .ok j t → i < j) ∧
    (∀ n u t, parseIdentifier n u s i = .ok j t → i < j) ∧
    (parseString s i = .ok j → i < j) ∧
    (parseIString s i = .ok j → i < j) ∧
    (tryUrlBase s i = .url j → i < j) ∧
    (tryUrlSheet y.ind s i = .url j → i < j) := by
  refine ⟨fun h => (loudFor_adv _ _ _ _ h).1, fun b t h => (parseEscape_adv _ _ _ _ _ h).1,
    fun t h => (consumeEscapedChar_adv _ _ _ _ h).1, fun n u t h => (parseIdentifier_adv _ _ _ _ _ _ h).1,
    fun h => (parseString_adv _ _ _ h).1, fun h => (parseIString_adv _ _ _ h).1,
    fun h => (tryUrlBase_adv _ _ _ h).1, fun h => (tryUrlSheet_adv _ _ _ _ h).1⟩


end Grass.Lexer
