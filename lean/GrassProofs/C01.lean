import Grass.Lexer
/-
  C01 — Compilation is total: every input yields CSS or an error, never a crash or hang.

  PROVED here (the logic part of the property; the rest is testing, see tools/props/c01.py):

    * every character-level scanner of `BaseParser` / `SassParser` / `StylesheetParser` modelled in
      Grass/Lexer.lean TERMINATES — that is the definitions themselves: they are written without
      fuel and Lean's termination checker accepted `s.size - cursor` as the measure for each loop —
      and makes PROGRESS: a successful scan ends at a cursor between where it started and the end of
      the buffer (`C01_scan_progress`), the loop steps advance strictly (`C01_step_advances`), and
      at end of input a scanner returns at once with `ok` or an error (`C01_scan_eof`);
    * every error value a scanner can produce carries a span that lies inside the file with both
      ends on character boundaries (`C01_err_span_in_file`), so `codemap::File::find_line_col`
      cannot panic on it;
    * unit conversion is guarded: `Number::convert` is only asked for pairs the table has
      (`C01_convert_guarded`), and the two conversions `clamp()` performs are covered by its present
      guard (`C01_clamp_guarded`);
    * witnesses for the two defects found on the pinned tree (both fixed in /repo since):
      `C01_asFound_sassLoudComment_diverges`, `C01_asFound_clamp_unguarded`.

  NOT proved: `C01_full` (the whole compiler is total) — the parsers above the scanner layer, the
  evaluator, the selector engine and the serializer are not modelled; stack exhaustion on deep
  nesting is outside any model.  The claim for C01 is partial.
-/
namespace Grass.Lexer

/-! ### progress of the remaining scanners -/

theorem tryDecimal_ge (a : Bool) (s : Array Char) (i j : Nat) (h : tryDecimal a s i = .ok j) :
    i ≤ j ∧ (i ≤ s.size → j ≤ s.size) := by
  unfold tryDecimal at h
  have := skipDigits_ge s (i + 1)
  have := skipDigits_le s (i + 1)
  repeat' split at h
  all_goals (first | (cases h; done) | (injection h with h; omega))

theorem tryExponent_ge (s : Array Char) (i j : Nat) (h : tryExponent s i = .ok j) :
    i ≤ j ∧ (i ≤ s.size → j ≤ s.size) := by
  unfold tryExponent at h
  have := skipDigits_ge s (i + 1)
  have := skipDigits_le s (i + 1)
  have := skipDigits_ge s (i + 2)
  have := skipDigits_le s (i + 2)
  repeat' split at h
  all_goals (
    first
    | (cases h; done)
    | (injection h with h; omega)
    | (injection h with h; rename_i hp; have := peekSat_lt hp; omega))

theorem afterSign_ge (s : Array Char) (i : Nat) : i ≤ afterSign s i ∧ (i ≤ s.size → afterSign s i ≤ s.size) := by
  unfold afterSign; repeat' split
  all_goals omega

theorem naturalPart_ge (s : Array Char) (i j : Nat) (h : naturalPart s i = .ok j) :
    i ≤ j ∧ (i ≤ s.size → j ≤ s.size) := by
  unfold naturalPart at h
  have := skipDigits_ge s (i + 1)
  have := skipDigits_le s (i + 1)
  repeat' split at h
  all_goals (first | (cases h; done) | (injection h with h; omega))

theorem numberLit_ge (s : Array Char) (i j : Nat) (h : numberLit s i = .ok j) :
    i ≤ j ∧ (i ≤ s.size → j ≤ s.size) := by
  unfold numberLit at h
  have a := afterSign_ge s i
  dsimp only at h
  split at h
  · rename_i b hb
    have := naturalPart_ge _ _ _ hb
    split at h
    · rename_i c hc
      have := tryDecimal_ge _ _ _ _ hc
      have := tryExponent_ge _ _ _ h
      omega
    · rename_i r hr; exact (hr j h).elim
  · rename_i r hr; exact (hr j h).elim

theorem numberUnit_ge (s : Array Char) (i j : Nat) (h : numberUnit s i = .ok j) :
    i ≤ j ∧ (i ≤ s.size → j ≤ s.size) := by
  unfold numberUnit at h
  split at h
  · rename_i hp; have := peekIs_lt hp; injection h with h; omega
  · split at h
    · cases hq : parseIdentifier false true s i with
      | ok k t =>
        rw [hq] at h; simp only [ResT.toRes] at h; injection h with h
        have := parseIdentifier_adv _ _ _ _ _ _ hq; omega
      | err e sp => rw [hq] at h; cases h
      | unsupported => rw [hq] at h; cases h
    · injection h with h; omega

theorem parseNumber_ge (s : Array Char) (i j : Nat) (h : parseNumber s i = .ok j) :
    i ≤ j ∧ (i ≤ s.size → j ≤ s.size) := by
  unfold parseNumber at h
  split at h
  · rename_i k hk
    have := numberLit_ge _ _ _ hk
    have := numberUnit_ge _ _ _ h
    omega
  · rename_i r hr; exact (hr j h).elim

theorem parseIIdent_ge (s : Array Char) (i j : Nat) (h : parseIIdent s i = .ok j) :
    i ≤ j ∧ (i ≤ s.size → j ≤ s.size) := by
  unfold parseIIdent at h
  dsimp only at h
  by_cases hp : peekIs s i '-' = true
  · have := peekIs_lt hp
    simp only [hp, ↓reduceIte] at h
    repeat' split at h
    all_goals (first | cases h | skip)
    all_goals (try (rename_i hq; have := peekIs_lt hq.2))
    all_goals (try (have := iidentBody_ge _ _ _ h; omega))
    all_goals (rename_i hm; have := parseEscape_adv _ _ _ _ _ hm; have := iidentBody_ge _ _ _ h; omega)
  · simp only [hp, Bool.false_eq_true, ↓reduceIte] at h
    repeat' split at h
    all_goals (first | cases h | skip)
    all_goals (try (rename_i hq; exact absurd rfl hq.1))
    all_goals (try (have := iidentBody_ge _ _ _ h; omega))
    all_goals (rename_i hm; have := parseEscape_adv _ _ _ _ _ hm; have := iidentBody_ge _ _ _ h; omega)

theorem declValue_ge (s : Array Char) (i : Nat) (br : List Char) (j : Nat) (h : declValue s i br = .ok j) :
    i ≤ j ∧ (i ≤ s.size → j ≤ s.size) := by
  fun_induction declValue s i br
  all_goals (try (simp at h))
  all_goals (try omega)
  all_goals (try (rename_i ih; have := ih h; omega))
  all_goals (
    rename_i hm ih
    first
    | (have := parseEscape_adv _ _ _ _ _ hm; have := ih h; omega)
    | (have := parseString_adv _ _ _ hm; have := ih h; omega)
    | (have := loudBody_adv _ _ _ hm; have := ih h; omega)
    | (have := parseIdentifier_adv _ _ _ _ _ _ hm; have := ih h; omega)
    | (have := tryUrlBase_adv _ _ _ hm; have := ih h; omega))

theorem ideclValue_ge (ind a c : Bool) (s : Array Char) (i : Nat) (br : List Char) (j : Nat)
    (h : ideclValue ind a c s i br = .ok j) : i ≤ j ∧ (i ≤ s.size → j ≤ s.size) := by
  fun_induction ideclValue ind a c s i br
  all_goals (try (simp at h))
  all_goals (try omega)
  all_goals (try (rename_i ih; have := ih h; omega))
  all_goals (
    rename_i hm ih
    first
    | (have := parseEscape_adv _ _ _ _ _ hm; have := ih h; omega)
    | (have := parseIString_adv _ _ _ hm; have := ih h; omega)
    | (have := loudFor_adv _ _ _ _ hm; have := ih h; omega)
    | (have := parseIdentifier_adv _ _ _ _ _ _ hm; have := ih h; omega)
    | (have := tryUrlSheet_adv _ _ _ _ hm; have := ih h; omega))

theorem almostAny_ge (y : Syn) (s : Array Char) (i j : Nat) (h : almostAny y s i = .ok j) :
    i ≤ j ∧ (i ≤ s.size → j ≤ s.size) := by
  fun_induction almostAny y s i
  all_goals (try (simp at h))
  all_goals (try omega)
  all_goals (try (rename_i ih; have := ih h; omega))
  all_goals (try (
    rename_i hm ih
    first
    | (have := parseIString_adv _ _ _ hm; have := ih h; omega)
    | (have := loudFor_adv _ _ _ _ hm; have := ih h; omega)
    | (have := parseIdentifier_adv _ _ _ _ _ _ hm; have := ih h; omega)
    | (have := tryUrlSheet_adv _ _ _ _ hm; have := ih h; omega)))
  all_goals (
    rename_i x _ _ _ _ hp _ ih
    have := peekIs_lt hp
    have := untilNewline_ge s (x + 2)
    have := untilNewline_le s (x + 2) (by omega)
    have := ih h; omega)


/-! ### C01: progress and end of input, for every modelled scanner -/

/-- **Progress.**  A successful scan started inside the buffer ends at a cursor between the start
    and the end of the buffer — for every modelled scanner and every syntax.  (Termination is the
    definitions being accepted without fuel.) -/
theorem C01_scan_progress (sc : Scanner) (y : Syn) (s : Array Char) (i j : Nat) (hi : i ≤ s.size)
    (h : runScanner sc y s i = .ok j) : i ≤ j ∧ j ≤ s.size := by
  cases sc <;> simp only [runScanner] at h
  case wsNoComments =>
    injection h with h
    have := wsNoComments_ge y.ind s i; have := wsNoComments_le y.ind s i hi; omega
  case whitespace => have := whitespace_ge _ _ _ _ h; omega
  case loudComment => have := loudFor_adv _ _ _ _ h; omega
  case escape b =>
    cases hq : parseEscape b s i with
    | ok k t => rw [hq] at h; injection h with h; have := parseEscape_adv _ _ _ _ _ hq; omega
    | err e sp => rw [hq] at h; cases h
    | unsupported => rw [hq] at h; cases h
  case escapedChar =>
    cases hq : consumeEscapedChar s i with
    | ok k t => rw [hq] at h; injection h with h; have := consumeEscapedChar_adv _ _ _ _ hq; omega
    | err e sp => rw [hq] at h; cases h
    | unsupported => rw [hq] at h; cases h
  case identifier n u =>
    cases hq : parseIdentifier n u s i with
    | ok k t => rw [hq] at h; injection h with h; have := parseIdentifier_adv _ _ _ _ _ _ hq; omega
    | err e sp => rw [hq] at h; cases h
    | unsupported => rw [hq] at h; cases h
  case interpIdent => have := parseIIdent_ge _ _ _ h; omega
  case string => have := parseString_adv _ _ _ h; omega
  case interpString => have := parseIString_adv _ _ _ h; omega
  case number => have := parseNumber_ge _ _ _ h; omega
  case urlBase =>
    cases hq : tryUrlBase s i with
    | url k => rw [hq] at h; injection h with h; have := tryUrlBase_adv _ _ _ hq; omega
    | notUrl => rw [hq] at h; injection h with h; omega
    | err e sp => rw [hq] at h; cases h
    | unsupported => rw [hq] at h; cases h
  case urlSheet =>
    cases hq : tryUrlSheet y.ind s i with
    | url k => rw [hq] at h; injection h with h; have := tryUrlSheet_adv _ _ _ _ hq; omega
    | notUrl => rw [hq] at h; injection h with h; omega
    | err e sp => rw [hq] at h; cases h
    | unsupported => rw [hq] at h; cases h
  case declValue ae =>
    unfold declarationValue at h
    split at h
    · rename_i k hk
      have := declValue_ge _ _ _ _ hk
      split at h
      · cases h
      · injection h with h; omega
    · rename_i r hr; exact (hr j h).elim
  case interpDeclValue a b c =>
    unfold interpolatedDeclarationValue at h
    split at h
    · rename_i k hk
      have := ideclValue_ge _ _ _ _ _ _ _ hk
      split at h
      · cases h
      · injection h with h; omega
    · rename_i r hr; exact (hr j h).elim
  case almostAny => have := almostAny_ge _ _ _ _ h; omega


example : runScanner .whitespace .scss " /* c */ // d\n  x".toList.toArray 0 = .ok 16 := by decide +kernel
example : runScanner (.declValue true) .scss "a(b[c]) \"x)\" )".toList.toArray 0 = .ok 13 := by decide +kernel
example : runScanner .almostAny .sass "a url(x y) \"s\" \\; z\nq".toList.toArray 0 = .ok 19 := by decide +kernel

/-- **Strict progress of the loop steps.**  The scanners that a loop calls as one step, and whose
    success lets the loop go round again, consume at least one token — this is what the
    termination proofs of the enclosing loops rest on. -/
theorem C01_step_advances (y : Syn) (s : Array Char) (i j : Nat) :
    (loudFor y.ind s i = .ok j → i < j) ∧
    (∀ b t, parseEscape b s i = .ok j t → i < j) ∧
    (∀ t, consumeEscapedChar s i = .ok j t → i < j) ∧
    (∀ n u t, parseIdentifier n u s i = .ok j t → i < j) ∧
    (parseString s i = .ok j → i < j) ∧
    (parseIString s i = .ok j → i < j) ∧
    (tryUrlBase s i = .url j → i < j) ∧
    (tryUrlSheet y.ind s i = .url j → i < j) := by
  refine ⟨fun h => (loudFor_adv _ _ _ _ h).1, fun b t h => (parseEscape_adv _ _ _ _ _ h).1,
    fun t h => (consumeEscapedChar_adv _ _ _ _ h).1, fun n u t h => (parseIdentifier_adv _ _ _ _ _ _ h).1,
    fun h => (parseString_adv _ _ _ h).1, fun h => (parseIString_adv _ _ _ h).1,
    fun h => (tryUrlBase_adv _ _ _ h).1, fun h => (tryUrlSheet_adv _ _ _ _ h).1⟩


example : parseString "\"a\\\"b\" c".toList.toArray 0 = .ok 6 := by decide +kernel

/-- What a scanner may answer at end of input: it stays where it is, or reports an error, or is
    outside the model (never: loops, never: moves). -/
def eofAnswer (i : Nat) (r : Res) : Prop := r = .ok i ∨ ∃ e sp, r = .err e sp

theorem peekIs_eof {s : Array Char} {i : Nat} (h : s.size ≤ i) (c : Char) : peekIs s i c = false := by
  unfold peekIs; simp [show ¬ i < s.size by omega]

theorem peekSat_eof {s : Array Char} {i : Nat} (h : s.size ≤ i) (p : Char → Bool) : peekSat s i p = false := by
  unfold peekSat; simp [show ¬ i < s.size by omega]

theorem wsNoComments_eof (b : Bool) {s : Array Char} {i : Nat} (h : s.size ≤ i) : wsNoComments b s i = i := by
  unfold wsNoComments; simp [show ¬ i < s.size by omega]

theorem lookingAtIdentifier_eof {s : Array Char} {i : Nat} (h : s.size ≤ i) : lookingAtIdentifier s i = false := by
  unfold lookingAtIdentifier; simp [show ¬ i < s.size by omega]

theorem scanUrlIdent_eof {s : Array Char} {i : Nat} (h : s.size ≤ i) : scanUrlIdent s i = .ok none := by
  unfold scanUrlIdent; simp [lookingAtIdentifier_eof h]

/-- **End of input.**  With the cursor at (or past) the end of the buffer every scanner returns
    immediately: `ok` at the same cursor or an error value — this is the `peek() == None` arm of
    each loop.  (The as-found indented loud-comment loop violates exactly this, see below.) -/
theorem C01_scan_eof (sc : Scanner) (y : Syn) (s : Array Char) (i : Nat) (hi : s.size ≤ i) :
    eofAnswer i (runScanner sc y s i) := by
  have hn : ¬ i < s.size := by omega
  have hn1 : ¬ i + 1 < s.size := by omega
  cases sc <;> simp only [runScanner, eofAnswer]
  case wsNoComments => left; rw [wsNoComments_eof _ hi]
  case whitespace => left; unfold whitespace; simp [wsNoComments_eof _ hi, hn1]
  case loudComment =>
    right; unfold loudFor; split
    · unfold sassLoudBody; simp [hn]
    · unfold loudBody; simp [hn]
  case escape b => right; unfold parseEscape; simp [hn, ResT.toRes]
  case escapedChar => right; unfold consumeEscapedChar; simp [hn, ResT.toRes]
  case identifier n u => right; unfold parseIdentifier; simp [peekIs_eof hi, hn, ResT.toRes]
  case interpIdent => right; unfold parseIIdent; simp [peekIs_eof hi, hn]
  case string => right; unfold parseString; simp [hn]
  case interpString => right; unfold parseIString; simp [hn]
  case number =>
    right; unfold parseNumber numberLit afterSign naturalPart; simp [hn]
  case urlBase => left; unfold tryUrlBase; simp [scanUrlIdent_eof hi, UrlRes.toRes]
  case urlSheet => left; unfold tryUrlSheet; simp [scanUrlIdent_eof hi, UrlRes.toRes]
  case declValue ae =>
    unfold declarationValue declValue; simp [hn]
    cases ae <;> simp
  case interpDeclValue a b c =>
    unfold interpolatedDeclarationValue ideclValue; simp [hn, idvBufferEmpty]
    cases b <;> simp
  case almostAny => left; unfold almostAny; simp [hn]

example : runScanner .loudComment .sass "/*#*[".toList.toArray 5 = .err .expectedMoreInput (.cur 5) := by
  decide +kernel

/-! ### C01: error spans lie inside the file, on character boundaries -/

theorem boundaries_head (n : Nat) (s : List Char) : n ∈ boundaries n s := by
  cases s <;> simp [boundaries]

theorem boundaries_bounds (n : Nat) (s : List Char) : ∀ x ∈ boundaries n s, n ≤ x ∧ x ≤ n + byteLen s := by
  induction s generalizing n with
  | nil => intro x hx; simp [boundaries] at hx; subst hx; simp [byteLen]
  | cons c rest ih =>
    intro x hx
    simp only [boundaries, List.mem_cons] at hx
    rcases hx with hx | hx
    · subst hx; simp [byteLen]
    · have := ih _ x hx; simp only [byteLen]; omega

/-- Every token starts and ends on a character boundary of the text it was lexed from. -/
theorem lexFrom_boundaries (n : Nat) (s : List Char) :
    ∀ t ∈ lexFrom n s, t.pos ∈ boundaries n s ∧ (t.pos + t.kind.utf8Size) ∈ boundaries n s := by
  have hLF : LF.utf8Size = 1 := by decide
  have hCR : CR.utf8Size = 1 := by decide
  have hFF : FF.utf8Size = 1 := by decide
  fun_induction lexFrom n s
  case case1 => intro t ht; cases ht
  case case2 cur rest ih =>
    intro t ht
    simp only [List.mem_cons] at ht
    simp only [boundaries, hFF]
    rcases ht with ht | ht
    · subst ht
      exact ⟨List.mem_cons_self, List.mem_cons_of_mem _ (by simpa [hLF] using boundaries_head (cur + 1) rest)⟩
    · have := ih t ht
      exact ⟨List.mem_cons_of_mem _ this.1, List.mem_cons_of_mem _ this.2⟩
  case case3 cur hne =>
    intro t ht
    simp only [List.mem_cons, List.not_mem_nil, or_false] at ht
    subst ht
    simp [boundaries, hLF, hCR]
  case case4 cur rest' hne ih =>
    intro t ht
    simp only [List.mem_cons] at ht
    simp only [boundaries, hLF, hCR]
    rw [show cur + 1 + 1 = cur + 2 by omega]
    rcases ht with ht | ht
    · subst ht
      exact ⟨List.mem_cons_of_mem _ List.mem_cons_self,
        List.mem_cons_of_mem _ (List.mem_cons_of_mem _ (by simpa [hLF] using boundaries_head (cur + 2) rest'))⟩
    · have := ih t ht
      exact ⟨List.mem_cons_of_mem _ (List.mem_cons_of_mem _ this.1),
        List.mem_cons_of_mem _ (List.mem_cons_of_mem _ this.2)⟩
  case case5 cur d rest' hd hne ih =>
    intro t ht
    simp only [List.mem_cons] at ht
    rw [boundaries, hCR]
    rcases ht with ht | ht
    · subst ht
      exact ⟨List.mem_cons_self, List.mem_cons_of_mem _ (by simpa [hLF] using boundaries_head (cur + 1) (d :: rest'))⟩
    · have := ih t ht
      exact ⟨List.mem_cons_of_mem _ this.1, List.mem_cons_of_mem _ this.2⟩
  case case6 cur c rest hc1 hc2 ih =>
    intro t ht
    simp only [List.mem_cons] at ht
    rw [boundaries]
    rcases ht with ht | ht
    · subst ht
      exact ⟨List.mem_cons_self, List.mem_cons_of_mem _ (boundaries_head _ _)⟩
    · have := ih t ht
      exact ⟨List.mem_cons_of_mem _ this.1, List.mem_cons_of_mem _ this.2⟩

theorem spanAtIndex_cases (ts : Array Tok) (idx : Nat) :
    spanAtIndex ts idx = (0, 0) ∨ ∃ t ∈ ts.toList, spanAtIndex ts idx = (t.pos, t.kind.utf8Size) := by
  unfold spanAtIndex
  split
  · rename_i t ht
    right; exact ⟨t, Array.mem_toList_iff.mpr (Array.mem_of_getElem? ht), rfl⟩
  · split
    · rename_i t ht
      right
      refine ⟨t, ?_, rfl⟩
      rw [Array.back?] at ht
      exact Array.mem_toList_iff.mpr (Array.mem_of_getElem? ht)
    · left; rfl

/-- a span end: 0, or the start or end of some token -/
def isEdge (src : List Char) (x : Nat) : Prop := x ∈ boundaries 0 src

theorem spanAtIndex_edges (src : List Char) (idx : Nat) :
    isEdge src (spanAtIndex (lex src).toArray idx).1 ∧
    isEdge src ((spanAtIndex (lex src).toArray idx).1 + (spanAtIndex (lex src).toArray idx).2) := by
  rcases spanAtIndex_cases (lex src).toArray idx with h | ⟨t, ht, h⟩
  · rw [h]; exact ⟨boundaries_head 0 src, boundaries_head 0 src⟩
  · rw [h]
    have := lexFrom_boundaries 0 src t (by simpa [lex] using ht)
    exact this

theorem spanInFile_of_edges (src : List Char) (lo hi : Nat) (h1 : isEdge src lo) (h2 : isEdge src hi)
    (h3 : lo ≤ hi) : spanInFile src lo hi = true := by
  have := boundaries_bounds 0 src hi h2
  unfold spanInFile
  simp only [Bool.and_eq_true, decide_eq_true_eq, List.contains_iff_mem]
  unfold isEdge at h1 h2
  refine ⟨⟨⟨h3, by omega⟩, ?_⟩, ?_⟩ <;> simpa using ‹_›

/-- **Located errors.**  Whatever span reference an error carries (`current_span`, `prev_span`,
    `span_from(start)` at any cursor whatsoever), the byte span it denotes over the lexed file is
    inside the file and both ends are character boundaries: `spanInFile` — the predicate the driver
    also evaluates on the spans grass reports — holds. -/
theorem C01_err_span_in_file (src : List Char) (sp : SpanRef) :
    spanInFile src (spanBytes (lex src).toArray sp).1 (spanBytes (lex src).toArray sp).2 = true := by
  cases sp with
  | cur i =>
    have := spanAtIndex_edges src i
    simp only [spanBytes]
    exact spanInFile_of_edges src _ _ this.1 this.2 (by omega)
  | prev i =>
    have := spanAtIndex_edges src (i - 1)
    simp only [spanBytes]
    exact spanInFile_of_edges src _ _ this.1 this.2 (by omega)
  | range st i =>
    have a := spanAtIndex_edges src st
    have b := spanAtIndex_edges src (i - 1)
    simp only [spanBytes]
    refine spanInFile_of_edges src _ _ ?_ ?_ (by omega)
    · rcases Nat.le_total (spanAtIndex (lex src).toArray st).1 (spanAtIndex (lex src).toArray (i - 1)).1 with h | h
      · rw [Nat.min_eq_left h]; exact a.1
      · rw [Nat.min_eq_right h]; exact b.1
    · rcases Nat.le_total ((spanAtIndex (lex src).toArray st).1 + (spanAtIndex (lex src).toArray st).2)
          ((spanAtIndex (lex src).toArray (i - 1)).1 + (spanAtIndex (lex src).toArray (i - 1)).2) with h | h
      · rw [Nat.max_eq_right h]; exact b.2
      · rw [Nat.max_eq_left h]; exact a.2

example : spanBytes (lex ['a', 'é', CR, LF, 'b']).toArray (.range 1 3) = (1, 5) := by decide

/-- In particular for every error any modelled scanner returns. -/
theorem C01_scan_error_located (sc : Scanner) (y : Syn) (src : List Char) (i : Nat) (e : ErrClass) (sp : SpanRef)
    (_h : runScanner sc y (kinds (lex src)).toArray i = .err e sp) :
    spanInFile src (spanBytes (lex src).toArray sp).1 (spanBytes (lex src).toArray sp).2 = true :=
  C01_err_span_in_file src sp

/-! ### C01: conversion guard -/

/-- **`Number::convert` is total on comparable pairs** (its documented invariant, number.rs:155):
    the table index cannot miss. -/
theorem C01_convert_guarded (u v : U) (h : comparable u v = true) : (convert? u v).isSome = true := by
  cases u <;> cases v <;> simp_all [comparable, convert?]
  all_goals (try (split <;> simp_all))

example : comparable (.conv 0 1) (.conv 0 2) = true ∧ convert? (.conv 0 1) (.conv 0 2) = some () := by decide

/-- **`clamp()` as it is now** (guard `has_compatible_units` on min/value and min/max,
    calculation.rs:195): both conversions it then performs (`min → value`, `max → value`) hit the table. -/
theorem C01_clamp_guarded (mn v mx : U) : (clampConversions false mn v mx).isSome = true := by
  cases mn <;> cases v <;> cases mx <;> simp [clampConversions, compatible, comparable, convert?]
  all_goals (split <;> simp_all)
  all_goals (try (split <;> simp_all))
  all_goals (rename_i h _; omega)

example : clampConversions false (.conv 0 0) (.conv 0 1) (.conv 0 2) = some () := by decide

/-- **As found** (guard `is_comparable_to`, pinned tree): a unitless minimum is comparable to
    everything, so `clamp(1, 2px, 3em)` converts `em` to `px` — a missing table key, i.e. a panic. -/
theorem C01_asFound_clamp_unguarded :
    clampConversions true .none (.conv 0 0) (.other 1) = none ∧
    clampConversions false .none (.conv 0 0) (.other 1) = some () := by decide

/-! ### C01: the `unwrap` in `consume_escaped_char` -/

/-- **`char::from_u32(value).unwrap()` in `consume_escaped_char` cannot fail** (base.rs:368-372):
    whatever the hex digits of the escape say, the value handed over is a Unicode scalar value —
    in particular at the edges U+D7FF / U+D800 / U+DFFF / U+E000 and U+10FFFE / U+10FFFF. -/
theorem C01_escaped_char_guarded (v : Nat) : validScalar (escapedScalar v) = true := by
  unfold escapedScalar validScalar
  split
  · decide
  · rename_i h
    simp only [Bool.or_eq_true, beq_iff_eq, Bool.and_eq_true, decide_eq_true_eq, not_or, not_and, Nat.not_le] at h ⊢
    omega

example : escapedScalar 0xDFFF = 0xFFFD ∧ escapedScalar 0xD7FF = 0xD7FF ∧ escapedScalar 0xE000 = 0xE000 ∧
    escapedScalar 0x10FFFE = 0x10FFFE ∧ escapedScalar 0x10FFFF = 0xFFFD ∧ escapedScalar 0 = 0xFFFD := by decide

/-- The seeded variant with the half-open surrogate range `0xD800..0xDFFF` hands U+DFFF to `unwrap`. -/
example : validScalar (if (0 : Nat) == 0xDFFF || (0xD800 ≤ 0xDFFF && 0xDFFF < 0xDFFF) || 0xDFFF ≥ 0x10FFFF then 0xFFFD else 0xDFFF) = false := by
  decide

/-! ### C01: the indented-syntax loud comment, as found and as it is now -/

/-- As found, once the cursor is at the end of the buffer the loop never leaves: whatever the
    fuel, the run is still going when it is spent. -/
theorem sassLoudAsFound_eof_diverges (fuel : Nat) (s : Array Char) (i : Nat) (h : s.size ≤ i) :
    sassLoudAsFound fuel s i = .outOfFuel := by
  induction fuel with
  | zero => rfl
  | succ n ih => unfold sassLoudAsFound; simp [show ¬ i < s.size by omega, ih]

/-- the 7-byte input of defect D2, `/]/*#*[`, as the token buffer -/
def d2Input : Array Char := #['/', ']', '/', '*', '#', '*', '[']

/-- **Witness (as found).**  On `/]/*#*[` the as-found loop, entered after the `/*` at index 4,
    runs out of any amount of fuel: it does not terminate. -/
theorem C01_asFound_sassLoudComment_diverges : ∀ fuel, sassLoudAsFound fuel d2Input 4 = .outOfFuel := by
  intro fuel
  match fuel with
  | 0 => rfl
  | 1 => decide +kernel
  | 2 => decide +kernel
  | n + 3 =>
    have e : sassLoudAsFound (n + 3) d2Input 4 = sassLoudAsFound (n + 1) d2Input 7 := by
      have h1 : sassLoudAsFound (n + 3) d2Input 4 = sassLoudAsFound (n + 2) d2Input 5 := by
        rw [sassLoudAsFound]
        simp [d2Input]
      have h2 : sassLoudAsFound (n + 2) d2Input 5 = sassLoudAsFound (n + 1) d2Input 7 := by
        rw [sassLoudAsFound]
        have hk : skipStars d2Input 6 = 6 := by decide +kernel
        simp [d2Input] at hk ⊢
        simp [hk]
      rw [h1, h2]
    rw [e]
    exact sassLoudAsFound_eof_diverges _ _ _ (by simp [d2Input])

/-- The same input with the loop as it is now: an error value, at the end of the file. -/
theorem C01_sassLoudComment_now_errors :
    sassLoudBody d2Input 4 = .err .expectedMoreInput (.cur 7) := by decide +kernel

/-! ### what is proved of the whole property, in one statement -/

/-- **PARTIAL.**  The part of `C01_full` that is a theorem: for every modelled scanner, syntax, token
    buffer and cursor inside it — the scan terminates (definition accepted without fuel), a successful
    scan ends between the start and the end of the buffer, at the end of the buffer it answers at once,
    and whatever span an error carries lies inside the lexed file on character boundaries.
    MISSING for `C01_full`: the statement-level loops of the three stylesheet parsers (indentation
    tracking, `parse_statements`/`parse_children`), the expression, selector and media-query parsers,
    the evaluator, @extend, the serializer (all only TESTED by tools/props/c01.py), stack exhaustion on
    deep nesting, allocation failure. -/
theorem C01_scanner_layer_total_partial (sc : Scanner) (y : Syn) (src : List Char) (i : Nat)
    (hi : i ≤ (kinds (lex src)).toArray.size) :
    (∀ j, runScanner sc y (kinds (lex src)).toArray i = .ok j → i ≤ j ∧ j ≤ (kinds (lex src)).toArray.size) ∧
    (i = (kinds (lex src)).toArray.size → eofAnswer i (runScanner sc y (kinds (lex src)).toArray i)) ∧
    (∀ e sp, runScanner sc y (kinds (lex src)).toArray i = .err e sp →
      spanInFile src (spanBytes (lex src).toArray sp).1 (spanBytes (lex src).toArray sp).2 = true) :=
  ⟨fun j h => C01_scan_progress sc y _ i j hi h,
   fun h => C01_scan_eof sc y _ i (by omega),
   fun e sp h => C01_scan_error_located sc y src i e sp h⟩

/-! ### the full property (not proved) -/

/-- What one compilation can do, seen from outside. -/
inductive Outcome where
  | css (text : List Char)
  | error (message : List Char) (lo hi : Nat)
  | panic | abort | hang
  deriving Repr

/-- The full statement of C01 over the whole compiler (`compile syntax compressed options bytes`,
    for programs whose own loops are bounded): UNPROVED.  Only the scanner layer, error location
    and the conversion guard above are theorems; the rest is tested (tools/props/c01.py). -/
def C01_full (compile : Syn → Bool → Nat → List UInt8 → Outcome) : Prop :=
  ∀ y compressed opts bytes,
    (∃ t, compile y compressed opts bytes = .css t) ∨ (∃ m lo hi, compile y compressed opts bytes = .error m lo hi)

end Grass.Lexer
