import Grass.Units
import GrassProofs.Lemmas.Num
/-
  C08 — Units convert by the CSS ratios and unit algebra is consistent.
  Property theorems about `Grass/Units.lean` and the *generated* tables
  `Grass/Generated/UnitTable.lean`, `UnitKinds.lean` (regenerated from the Rust source by
  `tools/translate_units.py` on every run of the check: a changed constant or kind makes the
  `decide +kernel` checks below fail to build).

  Factors are symbolic (`Sym` = rational × power of π), so `rad` is exact.  The kernel checks run on
  pairs of naturals (`SymN`, cross-multiplication); the statements are lifted to `Sym` by lemmas, and
  reflexivity / inverse / transitivity follow algebraically from `factor u v = size v / size u`.
-/
namespace Grass.Units
open Grass.Generated Grass.Num

theorem KU.mem_all (u : KU) : u ∈ KU.all := by cases u <;> decide

/-! ## `Sym` algebra -/
theorem Sym.ext' {a b : Sym} (hq : a.q = b.q) (hk : a.k = b.k) : a = b := by
  cases a; cases b; simp_all

theorem Sym.mul_comm (a b : Sym) : a.mul b = b.mul a := by
  apply Sym.ext' <;> simp only [Sym.mul] <;> grind
theorem Sym.mul_assoc (a b c : Sym) : (a.mul b).mul c = a.mul (b.mul c) := by
  apply Sym.ext' <;> simp only [Sym.mul] <;> grind
theorem Sym.mul_one (a : Sym) : a.mul Sym.one = a := by
  apply Sym.ext' <;> simp only [Sym.mul, Sym.one] <;> grind
theorem Sym.one_mul (a : Sym) : Sym.one.mul a = a := by
  apply Sym.ext' <;> simp only [Sym.mul, Sym.one] <;> grind
theorem Sym.mul_inv_cancel (a : Sym) (h : a.q ≠ 0) : a.mul a.inv = Sym.one := by
  apply Sym.ext' <;> simp only [Sym.mul, Sym.inv, Sym.one] <;> grind
theorem Sym.mul_left_comm (a b c : Sym) : a.mul (b.mul c) = b.mul (a.mul c) := by
  apply Sym.ext' <;> simp only [Sym.mul] <;> grind
theorem Sym.inv_mul (a b : Sym) : (a.mul b).inv = a.inv.mul b.inv := by
  apply Sym.ext' <;> simp only [Sym.mul, Sym.inv] <;> grind
theorem Sym.mul_q_ne (a b : Sym) (ha : a.q ≠ 0) (hb : b.q ≠ 0) : (a.mul b).q ≠ 0 := by
  simp only [Sym.mul]; grind
theorem Sym.inv_q_ne (a : Sym) (ha : a.q ≠ 0) : a.inv.q ≠ 0 := by
  simp only [Sym.inv]; grind
/-- cancel a non-zero factor -/
theorem Sym.mul_right_cancel (a b c : Sym) (hc : c.q ≠ 0) (h : a.mul c = b.mul c) : a = b := by
  have := congrArg (fun x => x.mul c.inv) h
  simp only [Sym.mul_assoc, Sym.mul_inv_cancel c hc, Sym.mul_one] at this
  exact this

/-! ## naturals to rationals -/
theorem natdiv_eq (a b c d : Nat) (hb : b ≠ 0) (hd : d ≠ 0) (h : a * d = c * b) :
    (a : Rat) / (b : Rat) = (c : Rat) / (d : Rat) := by
  have hb' : (b : Rat) ≠ 0 := by intro e; rw [Rat.natCast_eq_zero_iff] at e; exact hb e
  have hd' : (d : Rat) ≠ 0 := by intro e; rw [Rat.natCast_eq_zero_iff] at e; exact hd e
  have hc : (a : Rat) * (d : Rat) = (c : Rat) * (b : Rat) := by
    have := congrArg (fun n : Nat => (n : Rat)) h
    simpa [Rat.natCast_mul] using this
  grind

theorem natdiv_ne (a b : Nat) (ha : a ≠ 0) (hb : b ≠ 0) : (a : Rat) / (b : Rat) ≠ 0 := by
  have ha' : (a : Rat) ≠ 0 := by intro e; rw [Rat.natCast_eq_zero_iff] at e; exact ha e
  have hb' : (b : Rat) ≠ 0 := by intro e; rw [Rat.natCast_eq_zero_iff] at e; exact hb e
  grind

theorem SymN.ok_iff (a : SymN) : a.ok = true ↔ a.n ≠ 0 ∧ a.d ≠ 0 := by
  simp [SymN.ok]

theorem SymN.toSym_q_ne (a : SymN) (h : a.ok = true) : a.toSym.q ≠ 0 := by
  rw [SymN.ok_iff] at h; exact natdiv_ne _ _ h.1 h.2

theorem SymN.toSym_mul (a b : SymN) (ha : a.ok = true) (hb : b.ok = true) :
    (a.mul b).toSym = a.toSym.mul b.toSym := by
  rw [SymN.ok_iff] at ha hb
  have h1 : (a.d : Rat) ≠ 0 := by intro e; rw [Rat.natCast_eq_zero_iff] at e; exact ha.2 e
  have h2 : (b.d : Rat) ≠ 0 := by intro e; rw [Rat.natCast_eq_zero_iff] at e; exact hb.2 e
  apply Sym.ext'
  · simp only [SymN.toSym, SymN.mul, Sym.mul, Rat.natCast_mul]; grind
  · rfl

theorem SymN.toSym_div (a b : SymN) (ha : a.ok = true) (hb : b.ok = true) :
    (a.div b).toSym = a.toSym.div b.toSym := by
  rw [SymN.ok_iff] at ha hb
  have h1 : (a.d : Rat) ≠ 0 := by intro e; rw [Rat.natCast_eq_zero_iff] at e; exact ha.2 e
  have h2 : (b.d : Rat) ≠ 0 := by intro e; rw [Rat.natCast_eq_zero_iff] at e; exact hb.2 e
  have h3 : (b.n : Rat) ≠ 0 := by intro e; rw [Rat.natCast_eq_zero_iff] at e; exact hb.1 e
  apply Sym.ext'
  · simp only [SymN.toSym, SymN.div, Sym.div, Sym.mul, Sym.inv, Rat.natCast_mul]; grind
  · simp only [SymN.toSym, SymN.div, Sym.div, Sym.mul, Sym.inv]; omega

theorem SymN.ok_mul (a b : SymN) (ha : a.ok = true) (hb : b.ok = true) : (a.mul b).ok = true := by
  rw [SymN.ok_iff] at *; simp only [SymN.mul]
  exact ⟨Nat.mul_ne_zero ha.1 hb.1, Nat.mul_ne_zero ha.2 hb.2⟩
theorem SymN.ok_div (a b : SymN) (ha : a.ok = true) (hb : b.ok = true) : (a.div b).ok = true := by
  rw [SymN.ok_iff] at *; simp only [SymN.div]
  exact ⟨Nat.mul_ne_zero ha.1 hb.2, Nat.mul_ne_zero ha.2 hb.1⟩

theorem symNOf_spec (e : CExpr) (h : cexprOk e = true) : (symNOf e).ok = true ∧ symOf e = (symNOf e).toSym := by
  induction e with
  | lit n d => exact ⟨by simpa [cexprOk, symNOf, SymN.ok] using h, rfl⟩
  | pi => exact ⟨by decide, by decide +kernel⟩
  | mul a b iha ihb =>
    simp only [cexprOk, Bool.and_eq_true] at h
    obtain ⟨oa, ea⟩ := iha h.1; obtain ⟨ob, eb⟩ := ihb h.2
    exact ⟨SymN.ok_mul _ _ oa ob, by simp only [symOf, symNOf]; rw [SymN.toSym_mul _ _ oa ob, ea, eb]⟩
  | div a b iha ihb =>
    simp only [cexprOk, Bool.and_eq_true] at h
    obtain ⟨oa, ea⟩ := iha h.1; obtain ⟨ob, eb⟩ := ihb h.2
    exact ⟨SymN.ok_div _ _ oa ob, by simp only [symOf, symNOf]; rw [SymN.toSym_div _ _ oa ob, ea, eb]⟩

theorem SymN.eqv_toSym (a b : SymN) (ha : a.ok = true) (hb : b.ok = true) (h : a.eqv b = true) : a.toSym = b.toSym := by
  rw [SymN.ok_iff] at ha hb
  simp only [SymN.eqv, Bool.and_eq_true, beq_iff_eq] at h
  apply Sym.ext'
  · exact natdiv_eq _ _ _ _ ha.2 hb.2 h.1
  · exact h.2

/-! ## kernel checks over the generated table: `Nat` arithmetic only -/
def tableOk : Bool := KU.all.all fun t => (tableRow t).all fun e => cexprOk e.2
def sizesOk : Bool := KU.all.all fun u => match cssSizeN u with | some p => p.2.ok | none => true
def tableCheckN : Bool := KU.all.all fun t => KU.all.all fun f =>
  match tableGet t f, cssSpecN t f with
  | some e, some s => (symNOf e).eqv s
  | none, none => true
  | _, _ => false

theorem tableOk_true : tableOk = true := by decide +kernel
theorem sizesOk_true : sizesOk = true := by decide +kernel
theorem tableCheckN_true : tableCheckN = true := by decide +kernel

theorem all₂ {P : KU → KU → Bool} (h : (KU.all.all fun t => KU.all.all fun f => P t f) = true) (t f : KU) :
    P t f = true := by
  have h1 := List.all_eq_true.1 h t (KU.mem_all t)
  exact List.all_eq_true.1 h1 f (KU.mem_all f)

theorem all₁ {P : KU → Bool} (h : (KU.all.all fun t => P t) = true) (t : KU) : P t = true :=
  List.all_eq_true.1 h t (KU.mem_all t)

theorem KU.idx_inj {u v : KU} (h : u.idx = v.idx) : u = v := by
  have hu : KU.ofIdx u.idx = u := by cases u <;> rfl
  have hv : KU.ofIdx v.idx = v := by cases v <;> rfl
  rw [← hu, ← hv, h]

theorem lookupRow_mem (f : KU) (e : CExpr) : ∀ row, lookupRow f row = some e → (f, e) ∈ row := by
  intro row
  induction row with
  | nil => intro h; cases h
  | cons x r ih =>
    obtain ⟨f', e'⟩ := x
    intro h
    unfold lookupRow at h
    split at h
    · rename_i hc
      injection h with h; subst h
      have : f' = f := KU.idx_inj (by simpa using hc)
      subst this; simp
    · exact List.mem_cons_of_mem _ (ih h)

theorem table_cexprOk (t f : KU) (e : CExpr) (h : tableGet t f = some e) : cexprOk e = true := by
  have hm := lookupRow_mem f e _ h
  have h1 := all₁ (P := fun t => (tableRow t).all fun e => cexprOk e.2) tableOk_true t
  exact List.all_eq_true.1 h1 _ hm

theorem cssSizeN_ok (u : KU) (d : Dim) (s : SymN) (h : cssSizeN u = some (d, s)) : s.ok = true := by
  have := all₁ (P := fun u => match cssSizeN u with | some p => p.2.ok | none => true) sizesOk_true u
  rw [h] at this; exact this

theorem cssSpecN_ok (t f : KU) (s : SymN) (h : cssSpecN t f = some s) : s.ok = true := by
  unfold cssSpecN at h
  cases h1 : cssSizeN t with
  | none => simp [h1] at h
  | some p =>
    cases h2 : cssSizeN f with
    | none => simp [h1, h2] at h
    | some q =>
      obtain ⟨d1, s1⟩ := p; obtain ⟨d2, s2⟩ := q
      simp only [h1, h2] at h
      split at h
      · injection h with h; subst h
        exact SymN.ok_div _ _ (cssSizeN_ok f d2 s2 h2) (cssSizeN_ok t d1 s1 h1)
      · cases h

/-- the Rat-valued specification is the image of the Nat-valued one -/
theorem cssSpec_eq (t f : KU) : cssSpec t f = (cssSpecN t f).map SymN.toSym := by
  unfold cssSpec cssSpecN cssSize
  cases h1 : cssSizeN t with
  | none => simp
  | some p =>
    cases h2 : cssSizeN f with
    | none => simp
    | some q =>
      obtain ⟨d1, s1⟩ := p; obtain ⟨d2, s2⟩ := q
      simp only [Option.map_some]
      by_cases hd : d1 = d2
      · simp only [hd, if_true, Option.map_some]
        rw [SymN.toSym_div _ _ (cssSizeN_ok f d2 s2 h2) (cssSizeN_ok t d1 s1 h1)]
      · simp [hd]

/-! ## the table is the CSS table -/

/-- HashMap semantics: no key is inserted twice into a row (the translator also rejects duplicate rows). -/
theorem C08_table_keys_nodup (t : KU) : ((tableRow t).map fun e => e.1.idx).Nodup :=
  of_decide_eq_true (all₁ (P := fun t => decide ((tableRow t).map fun e => e.1.idx).Nodup) (by decide +kernel) t)

/-- **Every entry of the generated table equals the ratio of the property statement, and the table
    has an entry exactly where the CSS ratios define one** (both directions: `none = none` too). -/
theorem C08_table_eq_css (t f : KU) : factorSym t f = cssSpec t f := by
  have hc := all₂ (P := fun t f => match tableGet t f, cssSpecN t f with
    | some e, some s => (symNOf e).eqv s
    | none, none => true
    | _, _ => false) tableCheckN_true t f
  rw [cssSpec_eq]
  unfold factorSym
  cases h1 : tableGet t f with
  | none =>
    cases h2 : cssSpecN t f with
    | none => rfl
    | some s => simp [h1, h2] at hc
  | some e =>
    cases h2 : cssSpecN t f with
    | none => simp [h1, h2] at hc
    | some s =>
      simp only [h1, h2] at hc
      obtain ⟨oe, ee⟩ := symNOf_spec e (table_cexprOk t f e h1)
      simp only [Option.map_some]
      rw [ee, SymN.eqv_toSym _ _ oe (cssSpecN_ok t f s h2) hc]
example : factorSym .In .Cm = some ⟨50 / 127, 0⟩ ∧ factorSym .Deg .Rad = some ⟨180, -1⟩ ∧
    factorSym .Px .Em = none := by decide +kernel

/-! ## coherence of the factors — algebraically, from `factor u v = size v / size u` -/

theorem cssSize_q_ne (u : KU) (d : Dim) (s : Sym) (h : cssSize u = some (d, s)) : s.q ≠ 0 := by
  unfold cssSize at h
  cases h1 : cssSizeN u with
  | none => simp [h1] at h
  | some p =>
    simp only [h1, Option.map_some, Option.some.injEq, Prod.mk.injEq] at h
    rw [← h.2]
    exact SymN.toSym_q_ne _ (cssSizeN_ok u p.1 p.2 h1)

/-- a factor exists exactly between two units of the same dimension, and is the quotient of their sizes -/
theorem factor_some_iff (u v : KU) (x : Sym) :
    factorSym u v = some x ↔ ∃ d su sv, cssSize u = some (d, su) ∧ cssSize v = some (d, sv) ∧ x = sv.div su := by
  rw [C08_table_eq_css]
  unfold cssSpec
  cases h1 : cssSize u with
  | none => simp
  | some p =>
    cases h2 : cssSize v with
    | none => simp
    | some q =>
      obtain ⟨d1, s1⟩ := p; obtain ⟨d2, s2⟩ := q
      simp only
      by_cases hd : d1 = d2
      · subst hd
        simp only [if_true, Option.some.injEq]
        constructor
        · intro h; exact ⟨d1, s1, s2, rfl, rfl, h.symm⟩
        · rintro ⟨d, su, sv, h3, h4, h5⟩
          injection h3 with h3 h3'; injection h4 with h4 h4'
          subst h3'; subst h4'; exact h5.symm
      · simp only [hd, if_false]
        constructor
        · intro h; cases h
        · rintro ⟨d, su, sv, h3, h4, _⟩
          injection h3 with h3; injection h4 with h4
          injection h3 with h3 _; injection h4 with h4 _
          exact absurd (h3.trans h4.symm) hd

theorem Sym.div_self (s : Sym) (h : s.q ≠ 0) : s.div s = Sym.one := Sym.mul_inv_cancel s h

/-- converting a convertible unit to itself is the identity -/
theorem C08_factor_refl (u : KU) (h : (factorSym u u).isSome = true) : factorSym u u = some Sym.one := by
  obtain ⟨x, hx⟩ := Option.isSome_iff_exists.1 h
  obtain ⟨d, su, sv, h1, h2, h3⟩ := (factor_some_iff u u x).1 hx
  rw [h1] at h2; injection h2 with h2; injection h2 with _ h2; subst h2
  rw [hx, h3, Sym.div_self su (cssSize_q_ne u d su h1)]

/-- there and back is the identity -/
theorem C08_factor_inverse (u v : KU) (a b : Sym) (h1 : factorSym u v = some a) (h2 : factorSym v u = some b) :
    a.mul b = Sym.one := by
  obtain ⟨d, su, sv, e1, e2, e3⟩ := (factor_some_iff u v a).1 h1
  obtain ⟨d', sv', su', f1, f2, f3⟩ := (factor_some_iff v u b).1 h2
  rw [e2] at f1; rw [e1] at f2
  injection f1 with f1; injection f2 with f2
  injection f1 with _ f1; injection f2 with _ f2
  subst f1; subst f2; subst e3; subst f3
  have hu := cssSize_q_ne u d su e1
  have hv := cssSize_q_ne v d sv e2
  apply Sym.ext' <;> simp only [Sym.div, Sym.mul, Sym.inv, Sym.one]
  · grind
  · omega

/-- entries come in pairs: `u ← v` exists iff `v ← u` exists -/
theorem C08_factor_pairs (u v : KU) : (factorSym u v).isSome = (factorSym v u).isSome := by
  have key : ∀ u v, (factorSym u v).isSome = true → (factorSym v u).isSome = true := by
    intro u v h
    obtain ⟨x, hx⟩ := Option.isSome_iff_exists.1 h
    obtain ⟨d, su, sv, e1, e2, _⟩ := (factor_some_iff u v x).1 hx
    exact Option.isSome_iff_exists.2 ⟨_, (factor_some_iff v u _).2 ⟨d, sv, su, e2, e1, rfl⟩⟩
  cases h1 : (factorSym u v).isSome <;> cases h2 : (factorSym v u).isSome <;> simp_all

/-- conversion is transitive: `u ← v` composed with `v ← w` is `u ← w` -/
theorem C08_factor_transitive (u v w : KU) (a b : Sym) (h1 : factorSym u v = some a) (h2 : factorSym v w = some b) :
    factorSym u w = some (a.mul b) := by
  obtain ⟨d, su, sv, e1, e2, e3⟩ := (factor_some_iff u v a).1 h1
  obtain ⟨d', sv', sw, f1, f2, f3⟩ := (factor_some_iff v w b).1 h2
  rw [e2] at f1
  injection f1 with f1; injection f1 with fd f1
  subst f1; subst fd; subst e3; subst f3
  apply (factor_some_iff u w _).2
  refine ⟨d, su, sw, e1, f2, ?_⟩
  have hv := cssSize_q_ne v d sv e2
  apply Sym.ext' <;> simp only [Sym.div, Sym.mul, Sym.inv]
  · grind
  · omega
example : (factorSym .In .Cm, factorSym .Cm .Q, factorSym .In .Q) =
    (some ⟨50 / 127, 0⟩, some ⟨1 / 40, 0⟩, some ⟨5 / 508, 0⟩) := by decide +kernel

/-! ## compatibility predicate = table keys = same convertible kind -/

theorem isSome_factorSym (u v : KU) : (factorSym u v).isSome = (tableGet u v).isSome := by
  unfold factorSym; cases tableGet u v <;> rfl

/-- `Unit::comparable` on two known units is true exactly when they are equal or the table has an
    entry (the predicate is written separately from the table in the Rust source). -/
theorem C08_comparable_iff_entry (u v : KU) :
    comparable (.one (.known u)) (.one (.known v)) = (decide (u = v) || (factorSym u v).isSome) := by
  rw [isSome_factorSym]
  have := all₂ (P := fun u v => comparable (.one (.known u)) (.one (.known v)) == (u.idx == v.idx || (tableGet u v).isSome))
    (by decide +kernel) u v
  rw [beq_iff_eq] at this
  rw [this]
  congr 1
  by_cases h : u = v
  · subst h; simp
  · have : u.idx ≠ v.idx := fun e => h (KU.idx_inj e)
    simp [h, this]

/-- … and the table has an entry exactly for two units of the same kind when that kind has a
    canonical unit (absolute lengths, angles, times, frequencies, resolutions). -/
theorem C08_entry_iff_same_kind (u v : KU) :
    (factorSym u v).isSome = (decide (u.kind = v.kind) && u.kind.canonical.isSome) := by
  rw [isSome_factorSym]
  have := all₂ (P := fun u v => (tableGet u v).isSome == (decide (u.kind = v.kind) && u.kind.canonical.isSome))
    (by decide +kernel) u v
  exact beq_iff_eq.1 this

/-- the code's predicate agrees with convertibility by the CSS ratios -/
theorem C08_comparable_eq_spec (u v : KU) :
    comparable (.one (.known u)) (.one (.known v)) = specComparable (.one (.known u)) (.one (.known v)) := by
  have := all₂ (P := fun u v => comparable (.one (.known u)) (.one (.known v)) == specComparable (.one (.known u)) (.one (.known v)))
    (by decide +kernel) u v
  exact beq_iff_eq.1 this
example : comparable (.one (.known .Px)) (.one (.known .In)) = true ∧
    comparable (.one (.known .Px)) (.one (.known .Em)) = false ∧
    comparable (.one (.known .Em)) (.one (.known .Em)) = true := by decide +kernel

theorem kind_facts : kindOfNone = Kind.none ∧ kindOfUnknown = Kind.other ∧ kindOfComplex = Kind.other ∧
    (∀ k ∈ KU.all, k.kind ≠ Kind.none) := by decide +kernel

theorem comparable_known_symm (u v : KU) :
    comparable (.one (.known u)) (.one (.known v)) = comparable (.one (.known v)) (.one (.known u)) := by
  have := all₂ (P := fun u v => comparable (.one (.known u)) (.one (.known v)) == comparable (.one (.known v)) (.one (.known u)))
    (by decide +kernel) u v
  exact beq_iff_eq.1 this

theorem selfOnly_known_other (k : KU) : selfOnly k.kind = false → k.kind ≠ Kind.other := by
  intro h e; rw [e] at h; revert h; decide

/-- **`comparable` is symmetric** on all units (known, unknown, unitless, compound). -/
theorem C08_comparable_symm (a b : U) : comparable a b = comparable b a := by
  obtain ⟨kn, ku, kc, kk⟩ := kind_facts
  cases a with
  | none =>
    cases b with
    | none => rfl
    | one y => simp [comparable, U.kind, kn, selfOnly]
    | complex n d => simp [comparable, U.kind, kn, selfOnly]
  | one x =>
    cases b with
    | none => simp [comparable, U.kind, kn, selfOnly]
    | one y =>
      cases x with
      | known u =>
        cases y with
        | known v => exact comparable_known_symm u v
        | unknown m =>
          have hk := kk u (KU.mem_all u)
          have := fun h e => selfOnly_known_other u h (Eq.symm e)
          simp only [comparable, U.kind, AU.kind, ku]
          cases hs : selfOnly u.kind <;> simp_all [selfOnly]
      | unknown n =>
        cases y with
        | known v =>
          have hk := kk v (KU.mem_all v)
          have := fun h e => selfOnly_known_other v h (Eq.symm e)
          simp only [comparable, U.kind, AU.kind, ku]
          cases hs : selfOnly v.kind <;> simp_all [selfOnly]
        | unknown m =>
          simp only [comparable, U.kind, AU.kind, ku, selfOnly]
          simp [eq_comm]
    | complex n d =>
      cases x with
      | known u =>
        have hk := kk u (KU.mem_all u)
        have := fun h e => selfOnly_known_other u h (Eq.symm e)
        simp only [comparable, U.kind, AU.kind, kc]
        cases hs : selfOnly u.kind <;> simp_all [selfOnly]
      | unknown m => simp [comparable, U.kind, AU.kind, ku, kc, selfOnly]
  | complex n d =>
    cases b with
    | none => simp [comparable, U.kind, kn, selfOnly]
    | one y =>
      cases y with
      | known v =>
        have hk := kk v (KU.mem_all v)
        have := fun h e => selfOnly_known_other v h (Eq.symm e)
        simp only [comparable, U.kind, AU.kind, kc]
        cases hs : selfOnly v.kind <;> simp_all [selfOnly]
      | unknown m => simp [comparable, U.kind, AU.kind, ku, kc, selfOnly]
    | complex n' d' =>
      simp only [comparable, U.kind, kc, selfOnly]
      simp [eq_comm]

/-! ## result units and errors -/

/-- `+`/`−`: the result takes the left operand's unit, the other operand's when the left is unitless. -/
theorem C08_result_unit_left_wins (sub : Bool) (a b r : SN) (h : addSub sub a b = .ok r) :
    r.unit = if a.unit = U.none then b.unit else a.unit := by
  unfold addSub at h
  split at h
  · cases h
  · simp only at h
    split at h
    · rename_i hc
      cases ho : liftD (if sub = true then D.sub a.num b.num else D.add a.num b.num) with
      | error e => rw [ho] at h; cases h
      | ok v =>
        rw [ho] at h
        simp only [Except.map] at h
        injection h with h; subst h
        simp only [resultUnit]
        by_cases e1 : a.unit = b.unit
        · simp only [e1, if_true]; split <;> rfl
        · simp only [e1, if_false]
    · rename_i hc
      have hn : a.unit ≠ U.none := fun e => hc (Or.inr (Or.inl e))
      split at h
      · cases ho : liftD (if sub = true then D.sub a.num _ else D.add a.num _) with
        | error e => rw [ho] at h; cases h
        | ok v =>
          rw [ho] at h
          simp only [Except.map] at h
          injection h with h; subst h
          simp [hn]
      · cases h

/-- `%` follows the same rule -/
theorem C08_rem_result_unit (a b r : SN) (h : rem a b = .ok r) :
    r.unit = if a.unit = U.none then b.unit else a.unit := by
  unfold rem at h
  split at h
  · cases h
  · split at h
    · cases ho : liftD (moduloD a.num _) with
      | error e => rw [ho] at h; cases h
      | ok v =>
        rw [ho] at h
        simp only [Except.map] at h
        injection h with h; subst h
        simp only [resultUnit]
        by_cases e1 : a.unit = b.unit
        · simp only [e1, if_true]; split <;> rfl
        · simp only [e1, if_false]
    · cases h
example : (addSub false ⟨.fin 1, .none⟩ ⟨.fin 1, .one (.known .Px)⟩).toOption = some ⟨.fin 2, .one (.known .Px)⟩ := by
  decide +kernel

/-- **Operations on inconvertible units are errors, never silently computed**; `==` is `false`. -/
theorem C08_incomparable_is_error (a b : SN) (h : comparable a.unit b.unit = false) :
    addSub false a b = .error .incompatible ∧ addSub true a b = .error .incompatible ∧
    rem a b = .error .incompatible ∧ cmpSN a b = .error .incompatible ∧
    minMax false b a = .error .incompatible ∧ minMax true b a = .error .incompatible ∧
    eqSN a b = .ok false := by
  refine ⟨?_, ?_, ?_, ?_, ?_, ?_, ?_⟩ <;> simp [addSub, rem, cmpSN, minMax, eqSN, h]
example : comparable (.one (.known .Px)) (.one (.known .Em)) = false ∧
    comparable (.one (.known .Px)) (.one (.unknown 0)) = false := by decide +kernel

/-- `min`/`max` with the operands in the other order are errors as well (by symmetry). -/
theorem C08_incomparable_minmax (isMax : Bool) (a b : SN) (h : comparable a.unit b.unit = false) :
    minMax isMax a b = .error .incompatible := by
  have h' : comparable b.unit a.unit = false := by rw [C08_comparable_symm]; exact h
  simp [minMax, cmpSN, h']

/-! ## compound units -/

/-- numbers with compound units cannot be emitted as CSS -/
theorem C08_complex_not_serialisable (compressed : Bool) (n : SN) (h : n.unit.isComplex = true) :
    printSN false compressed n = .error .notCss := by
  simp [printSN, h]

/-- multiplying two single units never cancels: the product has the compound unit `u*v` -/
theorem C08_mul_single_units (x y : D) (u v : AU) (p : D) (hp : D.mul x y = some p) :
    mulSN ⟨x, .one u⟩ ⟨y, .one v⟩ = .ok ⟨p, .complex [u, v] []⟩ := by
  simp [mulSN, hp, multiplyUnits, multiplyUnitsG, U.parts, cancelLoopG, removeFirstG, U.mk]

/-- dividing by the same unit cancels it -/
theorem C08_div_same_unit_cancels (x y : D) (u : AU) (p : D) (hp : D.div x y = some p)
    (hq : D.div p (.fin 1) = some p) :
    divSN ⟨x, .one u⟩ ⟨y, .one u⟩ = .ok ⟨p, .none⟩ := by
  simp [divSN, hp, multiplyUnits, multiplyUnitsG, U.parts, U.invert, U.mk, cancelLoopG, removeFirstG, convFactorF,
    divByF, hq, anyConvertible, comparable]
example : (divSN ⟨.fin 1, .one (.known .In)⟩ ⟨.fin 1, .one (.known .Cm)⟩).toOption = some ⟨.fin (rnd53 (127/50)), .none⟩ := by
  decide +kernel


/-! ## value preservation of multiplication and division (exact factors)

  The executed algebra divides f64 magnitudes by f64 table constants; its rounding is outside these
  theorems.  They are about the same code (`multiplyUnitsG`, shared with the executed instance)
  instantiated with the symbolic factors: `C08_mul_value_preserving`, `C08_div_value_preserving`.
  `C08_mul_div_units_agree` ties the two instances: they always produce the same units. -/

/-- what magnitudes are assigned to: the base unit of each convertible dimension and every other
    (relative, unknown, `%`, `fr`) atomic unit -/
inductive Base where
  | dim (d : Dim)
  | opaque (a : AU)
  deriving DecidableEq

abbrev Assignment := Base → Rat

/-- the quantity one atomic unit denotes: its CSS size times the magnitude of its base -/
def auDen (ρ : Assignment) (a : AU) : Sym :=
  match a with
  | .known k =>
    match cssSize k with
    | some (d, s) => s.mul ⟨ρ (.dim d), 0⟩
    | none => ⟨ρ (.opaque a), 0⟩
  | .unknown _ => ⟨ρ (.opaque a), 0⟩

def prodDen (ρ : Assignment) : List AU → Sym
  | [] => Sym.one
  | a :: l => (auDen ρ a).mul (prodDen ρ l)

def unitDen (ρ : Assignment) (u : U) : Sym := (prodDen ρ u.parts.1).div (prodDen ρ u.parts.2)

/-- the quantity a number with (compound) units denotes under `ρ` -/
def denote (ρ : Assignment) (x : SX) : Sym := x.val.mul (unitDen ρ x.unit)

theorem auDen_q_ne (ρ : Assignment) (hρ : ∀ b, 0 < ρ b) (a : AU) : (auDen ρ a).q ≠ 0 := by
  unfold auDen
  cases a with
  | unknown n => simp only; have := hρ (.opaque (.unknown n)); grind
  | known k =>
    simp only
    cases h : cssSize k with
    | none => simp only; have := hρ (.opaque (.known k)); grind
    | some p =>
      obtain ⟨d, s⟩ := p
      simp only [Sym.mul]
      have h1 := cssSize_q_ne k d s h
      have h2 := hρ (.dim d)
      intro e
      have : s.q = 0 ∨ ρ (.dim d) = 0 := by
        rcases Rat.mul_eq_zero.1 e with h | h
        · exact Or.inl h
        · exact Or.inr h
      grind

theorem prodDen_q_ne (ρ : Assignment) (hρ : ∀ b, 0 < ρ b) (l : List AU) : (prodDen ρ l).q ≠ 0 := by
  induction l with
  | nil => simp [prodDen, Sym.one]
  | cons a l ih => exact Sym.mul_q_ne _ _ (auDen_q_ne ρ hρ a) ih

theorem prodDen_append (ρ : Assignment) (l₁ l₂ : List AU) :
    prodDen ρ (l₁ ++ l₂) = (prodDen ρ l₁).mul (prodDen ρ l₂) := by
  induction l₁ with
  | nil => simp [prodDen, Sym.one_mul]
  | cons a l ih => simp only [List.cons_append, prodDen, ih, Sym.mul_assoc]

/-- a conversion factor relates the denotations of the two units: one `d` is `f` `n`s -/
theorem factor_den (ρ : Assignment) (d n : AU) (f : Sym) (h : convFactorS d n = some f) :
    auDen ρ d = f.mul (auDen ρ n) ∧ f.q ≠ 0 := by
  unfold convFactorS at h
  by_cases e : d = n
  · subst e
    simp only [if_true] at h
    injection h with h; subst h
    exact ⟨(Sym.one_mul _).symm, by simp [Sym.one]⟩
  · simp only [e, if_false] at h
    cases d with
    | unknown _ => simp at h
    | known kd =>
      cases n with
      | unknown _ => simp at h
      | known kn =>
        simp only at h
        obtain ⟨dim, sn, sd, h1, h2, h3⟩ := (factor_some_iff kn kd f).1 h
        have hn := cssSize_q_ne kn dim sn h1
        have hd := cssSize_q_ne kd dim sd h2
        subst h3
        constructor
        · simp only [auDen, h1, h2]
          apply Sym.ext' <;> simp only [Sym.div, Sym.mul, Sym.inv]
          · grind
          · omega
        · simp only [Sym.div, Sym.mul, Sym.inv]; grind

theorem removeFirst_spec (ρ : Assignment) (n : AU) : ∀ (ds ds' : List AU) (f : Sym),
    removeFirstG convFactorS n ds = some (f, ds') →
    prodDen ρ ds = (f.mul (auDen ρ n)).mul (prodDen ρ ds') ∧ f.q ≠ 0 := by
  intro ds
  induction ds with
  | nil => intro ds' f h; cases h
  | cons d ds ih =>
    intro ds' f h
    unfold removeFirstG at h
    cases hc : convFactorS d n with
    | some g =>
      simp only [hc] at h
      injection h with h; injection h with h1 h2; subst h1; subst h2
      obtain ⟨e1, e2⟩ := factor_den ρ d n g hc
      exact ⟨by simp only [prodDen, e1], e2⟩
    | none =>
      simp only [hc] at h
      cases hr : removeFirstG convFactorS n ds with
      | none => simp [hr] at h
      | some p =>
        simp only [hr, Option.map_some] at h
        injection h with h; injection h with h1 h2; subst h1; subst h2
        obtain ⟨e1, e2⟩ := ih p.2 p.1 (by rw [hr])
        refine ⟨?_, e2⟩
        simp only [prodDen, e1]
        rw [Sym.mul_left_comm]

/-- invariant of one cancellation loop, cross-multiplied (no inverses) -/
theorem cancelLoop_inv (ρ : Assignment) : ∀ (ns ds : List AU) (num : Sym) (acc : List AU),
    let r := cancelLoopG convFactorS Sym.div ns ds num acc
    num.mul ((prodDen ρ acc).mul ((prodDen ρ ns).mul (prodDen ρ r.2.2))) =
      r.1.mul ((prodDen ρ r.2.1).mul (prodDen ρ ds)) := by
  intro ns
  induction ns with
  | nil => intro ds num acc; simp [cancelLoopG, prodDen, Sym.one_mul]
  | cons n ns ih =>
    intro ds num acc
    unfold cancelLoopG
    cases hr : removeFirstG convFactorS n ds with
    | some p =>
      obtain ⟨f, ds1⟩ := p
      simp only
      obtain ⟨e1, e2⟩ := removeFirst_spec ρ n ds ds1 f hr
      have := ih ds1 (num.div f) acc
      simp only at this
      generalize cancelLoopG convFactorS Sym.div ns ds1 (num.div f) acc = r at *
      rw [e1]
      simp only [prodDen]
      generalize prodDen ρ acc = A at *
      generalize prodDen ρ ns = N at *
      generalize prodDen ρ r.2.2 = D' at *
      generalize prodDen ρ r.2.1 = A' at *
      generalize prodDen ρ ds1 = D1 at *
      generalize auDen ρ n = an at *
      have hq := congrArg Sym.q this
      have hk := congrArg Sym.k this
      simp only [Sym.mul, Sym.div, Sym.inv] at hq hk
      apply Sym.ext' <;> simp only [Sym.mul]
      · have hf : f.q * (1 / f.q) = 1 := by grind
        have : num.q * (A.q * (an.q * N.q * D'.q)) = (f.q * an.q) * (num.q * (1 / f.q) * (A.q * (N.q * D'.q))) := by
          have : (f.q * an.q) * (num.q * (1 / f.q) * (A.q * (N.q * D'.q))) = (f.q * (1 / f.q)) * (num.q * (A.q * (an.q * N.q * D'.q))) := by grind
          rw [this, hf]; grind
        rw [this, hq]; grind
      · omega
    | none =>
      simp only
      have := ih ds num (acc ++ [n])
      simp only at this
      generalize cancelLoopG convFactorS Sym.div ns ds num (acc ++ [n]) = r at *
      rw [prodDen_append] at this
      simp only [prodDen, Sym.mul_one] at this ⊢
      rw [← this]
      apply Sym.ext' <;> simp only [Sym.mul]
      · grind
      · omega

theorem U.mk_parts (n d : List AU) : (U.mk n d).parts = (n, d) := by
  unfold U.mk
  split
  · rfl
  · rfl
  · rfl

/-- `multiply_units` with exact factors, cross-multiplied: result · (old denominators) =
    input · (old numerators) · (new denominator), as quantities -/
theorem multiplyUnits_inv (ρ : Assignment) (su ou : U) (num : Sym)
    (hou : ou.parts.1 ≠ [] ∨ ou.parts.2 ≠ []) :
    let r := multiplyUnitsG convFactorS Sym.div su num ou
    r.1.mul ((prodDen ρ r.2.parts.1).mul ((prodDen ρ su.parts.2).mul (prodDen ρ ou.parts.2))) =
      num.mul ((prodDen ρ su.parts.1).mul ((prodDen ρ ou.parts.1).mul (prodDen ρ r.2.parts.2))) := by
  unfold multiplyUnitsG
  simp only
  generalize su.parts.1 = nu
  generalize su.parts.2 = du
  generalize ou.parts.1 = on at *
  generalize ou.parts.2 = od at *
  split
  · rename_i h
    have h1 : nu = [] := by simpa using h.1
    have h2 : od = [] := by simpa using h.2.1
    subst h1; subst h2
    simp only [U.mk_parts, prodDen, Sym.mul_one, Sym.one_mul]
  · split
    · rename_i h
      have h1 : nu = [] := by simpa using h.1
      have h2 : du = [] := by simpa using h.2
      subst h1; subst h2
      simp only [U.mk_parts, prodDen, Sym.mul_one, Sym.one_mul]
    · split
      · rename_i h
        have h2 : on = [] := by simpa using h.2.1
        subst h2
        have hod : od ≠ [] := by
          rcases hou with h' | h'
          · exact absurd rfl h'
          · exact h'
        have h3 : du = [] := by
          rcases h.2.2 with h' | h'
          · exact absurd (by simpa using h') hod
          · simpa using h'.1
        subst h3
        simp only [U.mk_parts, prodDen, Sym.mul_one, Sym.one_mul]
      · have i1 := cancelLoop_inv ρ nu od num []
        simp only at i1
        generalize cancelLoopG convFactorS Sym.div nu od num [] = r1 at *
        have i2 := cancelLoop_inv ρ on du r1.1 r1.2.1
        simp only at i2
        generalize cancelLoopG convFactorS Sym.div on du r1.1 r1.2.1 = r2 at *
        simp only [U.mk_parts, prodDen_append]
        simp only [prodDen, Sym.one_mul] at i1
        generalize prodDen ρ nu = NU at *
        generalize prodDen ρ du = DU at *
        generalize prodDen ρ on = ON at *
        generalize prodDen ρ od = OD at *
        generalize prodDen ρ r1.2.1 = A1 at *
        generalize prodDen ρ r1.2.2 = OD' at *
        generalize prodDen ρ r2.2.1 = A2 at *
        generalize prodDen ρ r2.2.2 = DU' at *
        have q1 := congrArg Sym.q i1
        have k1 := congrArg Sym.k i1
        have q2 := congrArg Sym.q i2
        have k2 := congrArg Sym.k i2
        simp only [Sym.mul] at q1 k1 q2 k2
        apply Sym.ext' <;> simp only [Sym.mul]
        · -- r2·A2·DU·OD = OD·(r2·(A2·DU)) = OD·(r1·(A1·(ON·DU'))) = ON·DU'·(r1·A1·OD) = ON·DU'·(num·NU·OD')
          have e1 : r2.1.q * (A2.q * (DU.q * OD.q)) = OD.q * (r2.1.q * (A2.q * DU.q)) := by grind
          have e2 : OD.q * (r1.1.q * (A1.q * (ON.q * DU'.q))) = (ON.q * DU'.q) * (r1.1.q * (A1.q * OD.q)) := by grind
          rw [e1, ← q2, e2, ← q1]; grind
        · omega

theorem Sym.one_div_one : Sym.one.div Sym.one = Sym.one := by decide +kernel

theorem unitDen_q_ne (ρ : Assignment) (hρ : ∀ b, 0 < ρ b) (u : U) : (unitDen ρ u).q ≠ 0 :=
  Sym.mul_q_ne _ _ (prodDen_q_ne ρ hρ _) (Sym.inv_q_ne _ (prodDen_q_ne ρ hρ _))

/-- from the cross-multiplied invariant to the quotient form -/
theorem multiplyUnits_denote (ρ : Assignment) (hρ : ∀ b, 0 < ρ b) (su ou : U) (num : Sym)
    (hou : ou.parts.1 ≠ [] ∨ ou.parts.2 ≠ []) :
    let r := multiplyUnitsG convFactorS Sym.div su num ou
    r.1.mul (unitDen ρ r.2) = (num.mul (unitDen ρ su)).mul (unitDen ρ ou) := by
  have h := multiplyUnits_inv ρ su ou num hou
  simp only at h ⊢
  generalize multiplyUnitsG convFactorS Sym.div su num ou = r at *
  unfold unitDen
  have n1 := prodDen_q_ne ρ hρ r.2.parts.2
  have n2 := prodDen_q_ne ρ hρ su.parts.2
  have n3 := prodDen_q_ne ρ hρ ou.parts.2
  generalize prodDen ρ r.2.parts.1 = N' at *
  generalize prodDen ρ r.2.parts.2 = D' at *
  generalize prodDen ρ su.parts.1 = N1 at *
  generalize prodDen ρ su.parts.2 = D1 at *
  generalize prodDen ρ ou.parts.1 = N2 at *
  generalize prodDen ρ ou.parts.2 = D2 at *
  have hq := congrArg Sym.q h
  have hk := congrArg Sym.k h
  simp only [Sym.mul] at hq hk
  apply Sym.ext' <;> simp only [Sym.mul, Sym.div, Sym.inv]
  · -- multiply both sides by D'·D1·D2 ≠ 0
    have key : (r.1.q * (N'.q * (1 / D'.q))) * (D'.q * (D1.q * D2.q)) =
        (num.q * (N1.q * (1 / D1.q)) * (N2.q * (1 / D2.q))) * (D'.q * (D1.q * D2.q)) := by
      have a1 : (r.1.q * (N'.q * (1 / D'.q))) * (D'.q * (D1.q * D2.q)) = (D'.q * (1 / D'.q)) * (r.1.q * (N'.q * (D1.q * D2.q))) := by grind
      have a2 : (num.q * (N1.q * (1 / D1.q)) * (N2.q * (1 / D2.q))) * (D'.q * (D1.q * D2.q)) =
          (D1.q * (1 / D1.q)) * (D2.q * (1 / D2.q)) * (num.q * (N1.q * (N2.q * D'.q))) := by grind
      have b1 : D'.q * (1 / D'.q) = 1 := by grind
      have b2 : D1.q * (1 / D1.q) = 1 := by grind
      have b3 : D2.q * (1 / D2.q) = 1 := by grind
      rw [a1, a2, b1, b2, b3, hq]; grind
    have hne : D'.q * (D1.q * D2.q) ≠ 0 := by
      intro e
      rcases Rat.mul_eq_zero.1 e with h | h
      · exact n1 h
      · rcases Rat.mul_eq_zero.1 h with h | h
        · exact n2 h
        · exact n3 h
    have := congrArg (fun x => x * (1 / (D'.q * (D1.q * D2.q)))) key
    have c : ∀ x : Rat, x * (D'.q * (D1.q * D2.q)) * (1 / (D'.q * (D1.q * D2.q))) = x := by
      intro x
      have : (D'.q * (D1.q * D2.q)) * (1 / (D'.q * (D1.q * D2.q))) = 1 := by grind
      rw [Rat.mul_assoc, this, Rat.mul_one]
    rw [c, c] at this
    exact this
  · omega

theorem unitDen_none (ρ : Assignment) : unitDen ρ .none = Sym.one := Sym.one_div_one

theorem U.invert_parts (u : U) : u.invert.parts = (u.parts.2, u.parts.1) := U.mk_parts _ _

theorem unitDen_invert (ρ : Assignment) (hρ : ∀ b, 0 < ρ b) (u : U) : unitDen ρ u.invert = (unitDen ρ u).inv := by
  unfold unitDen
  rw [U.invert_parts]
  simp only
  have n1 := prodDen_q_ne ρ hρ u.parts.1
  have n2 := prodDen_q_ne ρ hρ u.parts.2
  generalize prodDen ρ u.parts.1 = N at *
  generalize prodDen ρ u.parts.2 = D at *
  apply Sym.ext' <;> simp only [Sym.div, Sym.mul, Sym.inv]
  · grind
  · omega

/-- the second operand really carries a unit (never `Unit::None` in disguise): what `mul`/`div` guarantee
    before they call `multiply_units` -/
def U.proper (u : U) : Prop := u = .none ∨ u.parts.1 ≠ [] ∨ u.parts.2 ≠ []

/-- **Multiplication preserves the denoted quantity** (exact factors): under every assignment of positive
    magnitudes to the base unit of each dimension and to every inconvertible unit, the product of two
    numbers with (compound) units denotes the product of what they denote — including the cancellation
    of convertible units across numerator and denominator with the CSS ratios (`multiply_units`). -/
theorem C08_mul_value_preserving (ρ : Assignment) (hρ : ∀ b, 0 < ρ b) (a b : SX) (hb : b.unit.proper) :
    denote ρ (mulSX a b) = (denote ρ a).mul (denote ρ b) := by
  unfold mulSX denote
  by_cases hn : b.unit = .none
  · simp only [hn, if_true, unitDen_none, Sym.mul_one]
    apply Sym.ext' <;> simp only [Sym.mul] <;> grind
  · simp only [hn, if_false]
    have hou : b.unit.parts.1 ≠ [] ∨ b.unit.parts.2 ≠ [] := by
      rcases hb with h | h
      · exact absurd h hn
      · exact h
    rw [multiplyUnits_denote ρ hρ a.unit b.unit _ hou]
    apply Sym.ext' <;> simp only [Sym.mul] <;> grind

/-- **Division preserves the denoted quantity** (exact factors). -/
theorem C08_div_value_preserving (ρ : Assignment) (hρ : ∀ b, 0 < ρ b) (a b : SX) (hb : b.unit.proper) :
    denote ρ (divSX a b) = (denote ρ a).div (denote ρ b) := by
  unfold divSX denote
  by_cases hn : b.unit = .none
  · simp only [hn, if_true, unitDen_none, Sym.mul_one]
    apply Sym.ext' <;> simp only [Sym.mul, Sym.div, Sym.inv]
    · grind
    · omega
  · simp only [hn, if_false]
    have hou : b.unit.invert.parts.1 ≠ [] ∨ b.unit.invert.parts.2 ≠ [] := by
      rw [U.invert_parts]
      rcases hb with h | h | h
      · exact absurd h hn
      · exact Or.inr h
      · exact Or.inl h
    rw [multiplyUnits_denote ρ hρ a.unit b.unit.invert _ hou, unitDen_invert ρ hρ]
    simp only [Sym.div, Sym.inv_mul]
    apply Sym.ext' <;> simp only [Sym.mul, Sym.inv]
    · grind
    · omega

example : denote (fun _ => 1) (mulSX (divSX ⟨Sym.one, .none⟩ ⟨Sym.one, .one (.known .Cm)⟩) ⟨Sym.one, .one (.known .In)⟩)
    = ⟨127 / 50, 0⟩ := by decide +kernel
example : (mulSX (divSX ⟨Sym.one, .none⟩ ⟨Sym.one, .one (.known .Cm)⟩) ⟨Sym.one, .one (.known .In)⟩)
    = ⟨⟨127 / 50, 0⟩, .none⟩ := by decide +kernel

/-! ### the executed (f64) algebra produces the same units as the exact one -/

theorem convFactor_isSome (d n : AU) : (convFactorF d n).isSome = (convFactorS d n).isSome := by
  unfold convFactorF convFactorS
  by_cases e : d = n
  · simp [e]
  · simp only [e, if_false]
    cases d <;> cases n <;> simp [factorF64, factorSym]

theorem removeFirst_agree (n : AU) : ∀ ds,
    (removeFirstG convFactorF n ds).map (·.2) = (removeFirstG convFactorS n ds).map (·.2) := by
  intro ds
  induction ds with
  | nil => rfl
  | cons d ds ih =>
    unfold removeFirstG
    have hs := convFactor_isSome d n
    cases h1 : convFactorF d n with
    | some f =>
      cases h2 : convFactorS d n with
      | some g => simp only [Option.map_some]
      | none => rw [h1, h2] at hs; cases hs
    | none =>
      cases h2 : convFactorS d n with
      | some g => rw [h1, h2] at hs; cases hs
      | none =>
        simp only
        cases hr1 : removeFirstG convFactorF n ds <;> cases hr2 : removeFirstG convFactorS n ds <;>
          simp only [hr1, hr2, Option.map_some, Option.map_none] at ih ⊢
        · cases ih
        · cases ih
        · injection ih with ih; rw [ih]

theorem cancelLoop_agree {α β : Type} (da : α → Rat → α) (db : β → Sym → β) : ∀ (ns ds : List AU) (x : α) (y : β) (acc : List AU),
    (cancelLoopG convFactorF da ns ds x acc).2 = (cancelLoopG convFactorS db ns ds y acc).2 := by
  intro ns
  induction ns with
  | nil => intro ds x y acc; rfl
  | cons n ns ih =>
    intro ds x y acc
    unfold cancelLoopG
    have ha := removeFirst_agree n ds
    cases h1 : removeFirstG convFactorF n ds with
    | none =>
      cases h2 : removeFirstG convFactorS n ds with
      | none => exact ih ds x y _
      | some q => simp [h1, h2] at ha
    | some p =>
      cases h2 : removeFirstG convFactorS n ds with
      | none => simp [h1, h2] at ha
      | some q =>
        simp only [h1, h2, Option.map_some, Option.some.injEq] at ha
        simp only
        rw [ha]
        exact ih q.2 _ _ acc

theorem multiplyUnits_unit_agree {α β : Type} (da : α → Rat → α) (db : β → Sym → β) (su ou : U) (x : α) (y : β) :
    (multiplyUnitsG convFactorF da su x ou).2 = (multiplyUnitsG convFactorS db su y ou).2 := by
  unfold multiplyUnitsG
  simp only
  split
  · rfl
  · split
    · rfl
    · split
      · rfl
      · simp only
        have h1 := cancelLoop_agree da db su.parts.1 ou.parts.2 x y []
        generalize cancelLoopG convFactorF da su.parts.1 ou.parts.2 x [] = r1 at *
        generalize cancelLoopG convFactorS db su.parts.1 ou.parts.2 y [] = s1 at *
        have e1 : r1.2.1 = s1.2.1 := congrArg Prod.fst h1
        have e2 : r1.2.2 = s1.2.2 := congrArg Prod.snd h1
        have h2 := cancelLoop_agree da db ou.parts.1 su.parts.2 r1.1 s1.1 r1.2.1
        rw [e1] at h2 ⊢
        rw [e2]
        generalize cancelLoopG convFactorF da ou.parts.1 su.parts.2 r1.1 s1.2.1 = r2 at *
        generalize cancelLoopG convFactorS db ou.parts.1 su.parts.2 s1.1 s1.2.1 = s2 at *
        have e3 : r2.2.1 = s2.2.1 := congrArg Prod.fst h2
        have e4 : r2.2.2 = s2.2.2 := congrArg Prod.snd h2
        rw [e3, e4]

/-- **Tie between the executed and the exact algebra**: whenever the f64 model of `*` / `math.div` succeeds,
    its result unit is the unit of the exact product / quotient, whatever the magnitudes. -/
theorem C08_mul_div_units_agree (a b r : SN) (s t : Sym) :
    (mulSN a b = .ok r → r.unit = (mulSX ⟨s, a.unit⟩ ⟨t, b.unit⟩).unit) ∧
    (divSN a b = .ok r → r.unit = (divSX ⟨s, a.unit⟩ ⟨t, b.unit⟩).unit) := by
  constructor
  · intro h
    unfold mulSN at h
    cases hp : D.mul a.num b.num with
    | none => simp [hp] at h
    | some p =>
      simp only [hp] at h
      unfold mulSX
      by_cases hn : b.unit = .none
      · simp only [hn, if_true] at h ⊢; injection h with h; rw [← h]
      · simp only [hn, if_false] at h ⊢
        unfold multiplyUnits at h
        simp only at h
        have := multiplyUnits_unit_agree divByF Sym.div a.unit b.unit (some p) (s.mul t)
        split at h
        · injection h with h; rw [← h]; exact this
        · cases h
  · intro h
    unfold divSN at h
    cases hp : D.div a.num b.num with
    | none => simp [hp] at h
    | some p =>
      simp only [hp] at h
      unfold divSX
      by_cases hn : b.unit = .none
      · simp only [hn, if_true] at h ⊢; injection h with h; rw [← h]
      · simp only [hn, if_false] at h ⊢
        unfold multiplyUnits at h
        simp only at h
        have := multiplyUnits_unit_agree divByF Sym.div a.unit b.unit.invert (some p) (s.div t)
        split at h
        · injection h with h; rw [← h]; exact this
        · cases h

/-! # Round 3: the remaining operations of the statement

  `math.compatible` on all units, the order relations across convertible units, `math.is-unitless`,
  `math.min`/`math.max` returning the original operand, `math.unit` text, unknown units and the spelling of
  unit names, and the f64 rounding of the table constants. -/

/-- **`math.compatible` = convertibility by the CSS ratios, for ALL units** (known, unknown, unitless,
    compound): `Unit::comparable` is true exactly when one side is unitless, the units are identical, or
    both are known units that the hand-written ratio table relates. -/
theorem C08_compatible_eq_spec_all (a b : U) : comparable a b = specComparable a b := by
  obtain ⟨kn, ku, kc, kk⟩ := kind_facts
  by_cases hb : b = .none
  · subst hb; simp [comparable, specComparable]
  by_cases ha : a = .none
  · subst ha; simp [comparable, specComparable, U.kind, kn, selfOnly, hb]
  cases a with
  | none => exact absurd rfl ha
  | one x =>
    cases x with
    | known u =>
      cases b with
      | none => exact absurd rfl hb
      | one y =>
        cases y with
        | known v => exact C08_comparable_eq_spec u v
        | unknown m =>
          have hk := kk u (KU.mem_all u)
          have := fun h e => selfOnly_known_other u h (Eq.symm e)
          simp only [comparable, specComparable, U.kind, AU.kind, ku]
          cases hs : selfOnly u.kind <;> simp_all [selfOnly]
      | complex n d =>
        have hk := kk u (KU.mem_all u)
        have := fun h e => selfOnly_known_other u h (Eq.symm e)
        simp only [comparable, specComparable, U.kind, AU.kind, kc]
        cases hs : selfOnly u.kind <;> simp_all [selfOnly]
    | unknown n =>
      simp only [comparable, specComparable, U.kind, AU.kind, ku, selfOnly]
      by_cases e : U.one (AU.unknown n) = b <;> simp [e, hb]
  | complex n d =>
    simp only [comparable, specComparable, U.kind, kc, selfOnly]
    by_cases e : U.complex n d = b <;> simp [e, hb]
example : comparable (.one (.unknown 0)) (.one (.unknown 0)) = true ∧ comparable (.one (.unknown 0)) (.one (.unknown 1)) = false ∧
    comparable (.complex [.known .Px] [.known .S]) (.one (.known .Px)) = false ∧ comparable .none (.one (.known .Em)) = true := by
  decide +kernel

/-- every unit is comparable with itself -/
theorem comparable_self (a : U) : comparable a a = true := by
  rw [C08_compatible_eq_spec_all]; simp [specComparable]

/-- unknown units: identical spellings are compatible, different ones (also the same letters in another
    case, which are different `Unknown` payloads) are not, and no known unit is compatible with one. -/
theorem C08_unknown_units (n m : Nat) (k : KU) :
    comparable (.one (.unknown n)) (.one (.unknown m)) = decide (n = m) ∧
    comparable (.one (.unknown n)) (.one (.known k)) = false ∧
    comparable (.one (.known k)) (.one (.unknown n)) = false := by
  refine ⟨?_, ?_, ?_⟩ <;> rw [C08_compatible_eq_spec_all] <;> simp [specComparable]
example : (addSub false ⟨.fin 1, .one (.unknown 0)⟩ ⟨.fin 1, .one (.unknown 0)⟩).toOption = some ⟨.fin 2, .one (.unknown 0)⟩ ∧
    (addSub false ⟨.fin 1, .one (.unknown 0)⟩ ⟨.fin 1, .one (.unknown 1)⟩).toOption = none := by decide +kernel

/-! ## order relations across convertible units -/

/-- **Trichotomy**: whenever two numbers can be compared, exactly one of `<`, equal-after-conversion
    (within the Sass tolerance), `>` holds, `<=` is `<` or equal, `>=` is `>` or equal. -/
theorem C08_cmp_trichotomy (a b : SN) (o : Ordering) (h : cmpSN a b = .ok (some o)) :
    relSN .lt a b = .ok (o == .lt) ∧ relSN .gt a b = .ok (o == .gt) ∧
    relSN .le a b = .ok (o == .lt || o == .eq) ∧ relSN .ge a b = .ok (o == .gt || o == .eq) ∧
    ((o == .lt).toNat + (o == .eq).toNat + (o == .gt).toNat = 1) := by
  cases o <;> simp [relSN, h, Except.map, relHolds]
example : (cmpSN ⟨.fin 1, .one (.known .In)⟩ ⟨.fin 2, .one (.known .Cm)⟩).toOption = some (some .gt) := by decide +kernel

/-- **`<` `<=` `>` `>=` across two different convertible units compare the left magnitude with the right
    one converted into the LEFT unit** by the table constant `TABLE[left][right]` (whose exact value is the
    CSS ratio: `C08_table_eq_css`). -/
theorem C08_cmp_converts_right_operand (x y y' : D) (u v : KU) (c : Rat) (huv : u ≠ v)
    (hf : factorF64 u v = some c) (hm : D.mul y (.fin c) = some y') :
    cmpSN ⟨x, .one (.known u)⟩ ⟨y, .one (.known v)⟩ = .ok (cmpD false x y') := by
  have hc : comparable (.one (.known u)) (.one (.known v)) = true := by
    rw [C08_comparable_iff_entry]
    have : (factorSym u v).isSome = true := by
      rw [isSome_factorSym]; unfold factorF64 at hf; cases h : tableGet u v <;> simp_all
    simp [this]
  have hvu : v ≠ u := fun h => huv h.symm
  simp [cmpSN, hc, convert, hf, hm, huv, hvu]
example : factorF64 .In .Cm = some (rnd53 (1 / rnd53 (127 / 50))) := by decide +kernel

theorem convert_not_incompatible (n : D) (f t : U) : convert n f t ≠ .error .incompatible := by
  unfold convert
  repeat' split
  all_goals (intro h; cases h)

/-- "Incompatible units" is raised by `a < b` exactly when it is raised by `b < a` -/
theorem C08_cmp_error_symm (a b : SN) : (cmpSN a b = .error .incompatible) ↔ (cmpSN b a = .error .incompatible) := by
  have key : ∀ a b : SN, cmpSN a b = .error .incompatible → comparable a.unit b.unit = false := by
    intro a b h
    cases hc : comparable a.unit b.unit with
    | false => rfl
    | true =>
      exfalso
      unfold cmpSN at h
      simp only [hc, Bool.not_true, Bool.false_eq_true, if_false] at h
      split at h
      · cases h
      · have := convert_not_incompatible b.num b.unit a.unit
        cases hv : convert b.num b.unit a.unit with
        | ok c => rw [hv] at h; cases h
        | error e => rw [hv] at h; simp only at h; injection h with h; subst h; exact this hv
  constructor
  · intro h; have := key a b h; rw [C08_comparable_symm] at this; simp [cmpSN, this]
  · intro h; have := key b a h; rw [C08_comparable_symm] at this; simp [cmpSN, this]

/-! ## `math.min` / `math.max` -/

/-- **`math.min`/`math.max` of two numbers return one of the ORIGINAL operands** (magnitude and unit
    untouched — nothing is converted in the result); the second is chosen exactly when it compares
    strictly below / above the first after conversion into its own unit. -/
theorem C08_minmax_returns_operand (isMax : Bool) (a b r : SN) (h : minMax isMax a b = .ok r) :
    ∃ o, cmpSN b a = .ok o ∧
      r = (if o = some (if isMax then Ordering.gt else Ordering.lt) then b else a) ∧ (r = a ∨ r = b) := by
  unfold minMax at h
  cases hc : cmpSN b a with
  | error e => rw [hc] at h; cases h
  | ok o =>
    rw [hc] at h
    simp only at h
    injection h with h
    refine ⟨o, rfl, h.symm, ?_⟩
    rw [← h]
    by_cases hh : o = some (if isMax = true then Ordering.gt else Ordering.lt)
    · exact Or.inr (by simp [hh])
    · exact Or.inl (by simp [hh])
example : (minMax false ⟨.fin 1, .one (.known .In)⟩ ⟨.fin 2, .one (.known .Cm)⟩).toOption = some ⟨.fin 2, .one (.known .Cm)⟩ ∧
    (minMax true ⟨.fin 1, .one (.known .In)⟩ ⟨.fin 2, .one (.known .Cm)⟩).toOption = some ⟨.fin 1, .one (.known .In)⟩ := by
  decide +kernel

/-! ## `math.is-unitless` of a quotient of single units -/

theorem convFactorF_isSome_iff (u v : AU) : (convFactorF v u).isSome = comparable (.one u) (.one v) := by
  by_cases e : v = u
  · subst e; simp [convFactorF, comparable_self]
  · have e' : u ≠ v := fun h => e h.symm
    cases u with
    | known ku =>
      cases v with
      | known kv =>
        have e2 : ku ≠ kv := fun h => e' (by rw [h])
        rw [C08_comparable_iff_entry, isSome_factorSym]
        simp only [convFactorF, e, if_false, factorF64, e2, decide_false, Bool.false_or]
        cases tableGet ku kv <;> rfl
      | unknown m => rw [(C08_unknown_units m m ku).2.2]; simp [convFactorF, e]
    | unknown n =>
      cases v with
      | known kv => rw [(C08_unknown_units n n kv).2.1]; simp [convFactorF, e]
      | unknown m =>
        rw [(C08_unknown_units n m .Px).1]
        have : n ≠ m := fun h => e' (by rw [h])
        simp [convFactorF, e, this]

/-- **Dividing two single-unit numbers gives a unitless number exactly when the units are convertible**
    (`math.is-unitless(math.div(a, b)) == math.compatible(a, b)` for single units). -/
theorem C08_div_single_units_unitless_iff (x y : D) (u v : AU) (r : SN)
    (h : divSN ⟨x, .one u⟩ ⟨y, .one v⟩ = .ok r) : isUnitless r = comparable (.one u) (.one v) := by
  have hf := convFactorF_isSome_iff u v
  unfold divSN at h
  cases hp : D.div x y with
  | none => simp [hp] at h
  | some p =>
    simp only [hp] at h
    cases hc : comparable (.one u) (.one v) with
    | false =>
      simp [multiplyUnits, multiplyUnitsG, U.parts, U.invert, U.mk, anyConvertible, hc] at h
      rw [← h]; simp [isUnitless]
    | true =>
      rw [hc] at hf
      obtain ⟨f, hf⟩ := Option.isSome_iff_exists.1 hf
      simp [multiplyUnits, multiplyUnitsG, U.parts, U.invert, U.mk, anyConvertible, hc, cancelLoopG, removeFirstG, hf] at h
      split at h
      · injection h with h; rw [← h]; simp [isUnitless]
      · cases h
example : (divSN ⟨.fin 1, .one (.known .In)⟩ ⟨.fin 1, .one (.known .Em)⟩).toOption =
    some ⟨.fin 1, .complex [.known .In] [.known .Em]⟩ := by decide +kernel

/-- `1foo * 1bar / 1foo`: the unit that was multiplied in cancels again, whatever the units are. -/
theorem C08_mul_then_div_cancels (x y z p q : D) (a b : AU) (hp : D.mul x y = some p) (hq : D.div p z = some q)
    (hq1 : D.div q (.fin 1) = some q) :
    (mulSN ⟨x, .one a⟩ ⟨y, .one b⟩).bind (fun r => divSN r ⟨z, .one a⟩) = .ok ⟨q, .one b⟩ := by
  rw [C08_mul_single_units x y a b p hp]
  have hs : comparable (.one a) (.one a) = true := comparable_self _
  simp [Except.bind, divSN, hq, multiplyUnits, multiplyUnitsG, U.parts, U.invert, U.mk, anyConvertible, hs,
    cancelLoopG, removeFirstG, convFactorF, divByF, hq1]
example : ((mulSN ⟨.fin 1, .one (.unknown 0)⟩ ⟨.fin 1, .one (.unknown 2)⟩).bind
    (fun r => divSN r ⟨.fin 1, .one (.unknown 0)⟩)).toOption = some ⟨.fin 1, .one (.unknown 2)⟩ := by decide +kernel

/-! ## the f64 constants -/

theorem tableF64Close_true : tableF64Close = true := by decide +kernel
theorem tableRoundtripClose_true : tableRoundtripClose = true := by decide +kernel


/-- **Every executed constant of the generated table** (each literal and each `*` `/` of the Rust constant
    expression rounded to f64, `PI` the f64 constant, in evaluation order) **is positive and within a relative
    2⁻⁵¹ of the exact value of the expression** (π by a 30-digit enclosure), for the whole table. -/
theorem C08_table_f64_close (t f : KU) (e : CExpr) (h : tableGet t f = some e) : f64EntryClose e = true := by
  have hm := lookupRow_mem f e _ h
  have h0 : (KU.all.all fun t => (tableRow t).all fun p => f64EntryClose p.2) = true := tableF64Close_true
  have h1 := List.all_eq_true.1 h0 t (KU.mem_all t)
  have h2 := List.all_eq_true.1 h1 (f, e) hm
  simpa using h2
example : (tableGet .Rad .Turn).map f64Of = some (884279719003555 / 140737488355328) := by decide +kernel

/-- the two executed constants of every convertible pair multiply to 1 within 2⁻⁵² -/
theorem C08_table_f64_pair_product (t f : KU) (a b : Rat) (h1 : factorF64 t f = some a) (h2 : factorF64 f t = some b) :
    absQ (a * b - 1) * 4503599627370496 ≤ 1 := by
  have := all₂ (P := roundtripPairClose) tableRoundtripClose_true t f
  simpa [roundtripPairClose, h1, h2] using this

theorem absQ_add_le (a b : Rat) : absQ (a + b) ≤ absQ a + absQ b := by
  unfold absQ; split <;> split <;> split <;> grind

theorem absQ_mul (a b : Rat) : absQ (a * b) = absQ a * absQ b := by
  by_cases ha : a < 0 <;> by_cases hb : b < 0
  all_goals (have ha0 : a < 0 ∨ 0 ≤ a := by grind)
  all_goals (have hb0 : b < 0 ∨ 0 ≤ b := by grind)
  · have : 0 ≤ (-a) * (-b) := Rat.mul_nonneg (by grind) (by grind)
    rw [absQ_of_neg a ha, absQ_of_neg b hb]; unfold absQ; split <;> grind
  · have : 0 ≤ (-a) * b := Rat.mul_nonneg (by grind) (by grind)
    rw [absQ_of_neg a ha]
    have hb' : absQ b = b := by unfold absQ; split <;> grind
    rw [hb']; unfold absQ; split <;> grind
  · have : 0 ≤ a * (-b) := Rat.mul_nonneg (by grind) (by grind)
    rw [absQ_of_neg b hb]
    have ha' : absQ a = a := by unfold absQ; split <;> grind
    rw [ha']; unfold absQ; split <;> grind
  · have : 0 ≤ a * b := Rat.mul_nonneg (by grind) (by grind)
    have ha' : absQ a = a := by unfold absQ; split <;> grind
    have hb' : absQ b = b := by unfold absQ; split <;> grind
    rw [ha', hb']; unfold absQ; split <;> grind

theorem rnd53_relative' (q : Rat) : absQ (rnd53 q - q) * 9007199254740992 ≤ absQ q := by
  by_cases hq : q = 0
  · subst hq; have : rnd53 0 = 0 := by decide +kernel
    rw [this]; decide +kernel
  · exact rnd53_relative q hq

/-- two f64 multiplications by constants whose product is 1 within 2⁻⁵² move `x` by at most `2⁻⁵⁰·|x|` -/
theorem roundtrip_bound (x a b : Rat) (hab : absQ (a * b - 1) * 4503599627370496 ≤ 1) :
    absQ (rnd53 (rnd53 (x * a) * b) - x) * 1125899906842624 ≤ absQ x := by
  have r1 := rnd53_relative' (x * a)
  have r2 := rnd53_relative' (rnd53 (x * a) * b)
  generalize hy : rnd53 (x * a) = y at *
  generalize hz : rnd53 (y * b) = z at *
  -- z − x = e2 + e1·b + x·(ab − 1)
  have dec : z - x = (z - y * b) + ((y - x * a) * b + x * (a * b - 1)) := by grind
  have t1 := absQ_add_le (z - y * b) ((y - x * a) * b + x * (a * b - 1))
  have t2 := absQ_add_le ((y - x * a) * b) (x * (a * b - 1))
  have t3 : absQ (y * b) ≤ absQ (x * (a * b)) + absQ ((y - x * a) * b) := by
    have : y * b = x * (a * b) + (y - x * a) * b := by grind
    rw [this]; exact absQ_add_le _ _
  have t4 : absQ (a * b) ≤ absQ (a * b - 1) + 1 := by
    have h := absQ_add_le (a * b - 1) 1
    have e : a * b - 1 + 1 = a * b := by grind
    rw [e] at h
    have : absQ 1 = 1 := by decide +kernel
    rw [this] at h; exact h
  rw [← dec] at t1
  have m1 : absQ ((y - x * a) * b) = absQ (y - x * a) * absQ b := absQ_mul _ _
  have m2 : absQ (x * (a * b - 1)) = absQ x * absQ (a * b - 1) := absQ_mul _ _
  have m3 : absQ (x * (a * b)) = absQ x * absQ (a * b) := absQ_mul _ _
  have m4 : absQ (x * a) * absQ b = absQ x * absQ (a * b) := by
    rw [absQ_mul x a, absQ_mul a b, Rat.mul_assoc]
  have nx := absQ_nonneg x
  have nb := absQ_nonneg b
  -- R·2^53 ≤ Q
  have s1 : absQ (y - x * a) * absQ b * 9007199254740992 ≤ absQ x * absQ (a * b) := by
    have := Rat.mul_le_mul_of_nonneg_right r1 nb
    rw [m4] at this
    have e : absQ (y - x * a) * absQ b * 9007199254740992 = absQ (y - x * a) * 9007199254740992 * absQ b := by grind
    rw [e]; exact this
  -- W·2^52 ≤ X
  have s2 : absQ x * absQ (a * b - 1) * 4503599627370496 ≤ absQ x := by
    have := Rat.mul_le_mul_of_nonneg_left hab nx
    have e : absQ x * absQ (a * b - 1) * 4503599627370496 = absQ x * (absQ (a * b - 1) * 4503599627370496) := by grind
    rw [e]; simpa using this
  -- Q ≤ X + W
  have s3 : absQ x * absQ (a * b) ≤ absQ x * absQ (a * b - 1) + absQ x := by
    have := Rat.mul_le_mul_of_nonneg_left t4 nx
    have e : absQ x * (absQ (a * b - 1) + 1) = absQ x * absQ (a * b - 1) + absQ x := by grind
    rw [e] at this; exact this
  rw [m1] at t2 t3
  rw [m2] at t2
  rw [m3] at t3
  generalize absQ (z - x) = E at *
  generalize absQ (z - y * b) = E2 at *
  generalize absQ (y * b) = YB at *
  generalize absQ (y - x * a) * absQ b = R at *
  generalize absQ x * absQ (a * b - 1) = W at *
  generalize absQ x * absQ (a * b) = Q at *
  generalize absQ x = X at *
  grind

theorem convert_fin (x y a : Rat) (f t : KU) (hft : f ≠ t) (ha : factorF64 t f = some a)
    (h : convert (.fin x) (.one (.known f)) (.one (.known t)) = .ok (.fin y)) : y = rnd53 (x * a) := by
  have e : ¬ (U.one (AU.known f) = U.one (AU.known t)) := by
    intro h; injection h with h; injection h with h; exact hft h
  simp only [convert, e, ha] at h
  cases hm : D.mul (.fin x) (.fin a) with
  | none => simp [hm] at h
  | some r =>
    simp only [hm] at h
    injection h with h; subst h
    simp [D.mul, D.isInf, D.toRat?, D.ofExact] at hm
    by_cases h0 : x * a = 0
    · have hr : rnd53 0 = 0 := by decide +kernel
      rw [h0, hr]
      simp [h0, D.zero] at hm
      split at hm
      · cases hm; rfl
      · cases hm
    · simp [h0, D.ofNonzero] at hm
      split at hm
      · exfalso; simp only [D.inf] at hm; split at hm <;> cases hm
      · split at hm
        · cases hm
        · injection hm with hm; injection hm with hm; exact hm.symm

/-- **There and back in floating point**: converting a finite `x` from a unit into a different convertible
    unit and back with the executed f64 table constants (two rounded multiplications,
    `Number::convert`) changes it by at most `2⁻⁵⁰·|x|`; for `|x| ≤ 10⁴` that is less than the `10⁻¹¹` distance
    tolerance of Sass equality.  (Sass `==` additionally compares `10⁻¹¹` buckets; bucket boundaries are not
    covered by this bound.) -/
theorem C08_roundtrip_f64_within_tolerance (u v : KU) (huv : u ≠ v) (x y z : Rat)
    (h1 : convert (.fin x) (.one (.known u)) (.one (.known v)) = .ok (.fin y))
    (h2 : convert (.fin y) (.one (.known v)) (.one (.known u)) = .ok (.fin z)) :
    absQ (z - x) * 1125899906842624 ≤ absQ x ∧ (absQ x ≤ 10000 → absQ (z - x) * 100000000000 < 1) := by
  have hvu : v ≠ u := fun h => huv h.symm
  have e1 : ¬ (U.one (AU.known u) = U.one (AU.known v)) := by
    intro h; injection h with h; injection h with h; exact huv h
  have e2 : ¬ (U.one (AU.known v) = U.one (AU.known u)) := by
    intro h; injection h with h; injection h with h; exact hvu h
  cases ha : factorF64 v u with
  | none => simp [convert, e1, ha] at h1
  | some a =>
    cases hb : factorF64 u v with
    | none => simp [convert, e2, hb] at h2
    | some b =>
      have hy := convert_fin x y a u v huv ha h1
      have hz := convert_fin y z b v u hvu hb h2
      have hp := C08_table_f64_pair_product v u a b ha hb
      have key := roundtrip_bound x a b hp
      rw [← hy, ← hz] at key
      refine ⟨key, ?_⟩
      intro hx
      generalize absQ (z - x) = E at *
      generalize absQ x = X at *
      grind
theorem toOption_ok {ε α : Type} {e : Except ε α} {a : α} (h : e.toOption = some a) : e = .ok a := by
  cases e <;> simp_all [Except.toOption]
/-- hypotheses satisfiable: 3cm → in → cm comes back exactly … -/
example : convert (.fin 3) (.one (.known .Cm)) (.one (.known .In)) = .ok (.fin (rnd53 (3 * rnd53 (1 / rnd53 (127 / 50))))) ∧
    convert (.fin (rnd53 (3 * rnd53 (1 / rnd53 (127 / 50))))) (.one (.known .In)) (.one (.known .Cm)) = .ok (.fin 3) :=
  ⟨toOption_ok (by decide +kernel), toOption_ok (by decide +kernel)⟩
/-- … while 1in → cm → in comes back as 1 − 2⁻⁵³ (the bound is about a real rounding error) -/
example : convert (.fin 1) (.one (.known .In)) (.one (.known .Cm)) = .ok (.fin (rnd53 (127 / 50))) ∧
    convert (.fin (rnd53 (127 / 50))) (.one (.known .Cm)) (.one (.known .In)) = .ok (.fin (9007199254740991 / 9007199254740992)) :=
  ⟨toOption_ok (by decide +kernel), toOption_ok (by decide +kernel)⟩


end Grass.Units
