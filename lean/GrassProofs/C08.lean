import Grass.Units
/-
  C08 — Units convert by the CSS ratios and unit algebra is consistent.
  Property theorems about `Grass/Units.lean` and the *generated* tables
  `Grass/Generated/UnitTable.lean`, `UnitKinds.lean` (regenerated from the Rust source by
  `tools/translate_units.py` on every run of the check: a changed constant or kind makes the
  `decide +kernel` proofs below fail to build).

  Factors are symbolic (`Sym` = rational × power of π), so `rad` is exact.
-/
namespace Grass.Units
open Grass.Generated Grass.Num

theorem KU.mem_all (u : KU) : u ∈ KU.all := by cases u <;> decide

/-- lift a statement checked on the complete list of units to all units -/
theorem forall_KU₂ {P : KU → KU → Prop} (h : ∀ u ∈ KU.all, ∀ v ∈ KU.all, P u v) (u v : KU) : P u v :=
  h u (KU.mem_all u) v (KU.mem_all v)

/-! ## the table is the CSS table -/

/-- HashMap semantics: no key is inserted twice, so first match = last insert. -/
theorem C08_table_keys_nodup : (tableEntries.map fun e => (e.1, e.2.1)).Nodup := by decide +kernel

/-- **Every entry of the generated table equals the ratio of the property statement, and the table
    has an entry exactly where the CSS ratios define one** (both directions: `none = none` too). -/
theorem C08_table_eq_css (t f : KU) : factorSym t f = cssSpec t f :=
  forall_KU₂ (P := fun t f => factorSym t f = cssSpec t f) (by decide +kernel) t f
example : factorSym .In .Cm = some ⟨50 / 127, 0⟩ ∧ factorSym .Deg .Rad = some ⟨180, -1⟩ ∧
    factorSym .Px .Em = none := by decide +kernel

/-! ## coherence of the factors -/

/-- converting a convertible unit to itself is the identity -/
theorem C08_factor_refl (u : KU) : (factorSym u u).isSome = true → factorSym u u = some Sym.one :=
  forall_KU₂ (P := fun u _ => (factorSym u u).isSome = true → factorSym u u = some Sym.one) (by decide +kernel) u u

/-- decidable form of "there and back is the identity, and entries come in pairs" -/
def invOK (u v : KU) : Bool :=
  match factorSym u v, factorSym v u with
  | some a, some b => a.mul b == Sym.one
  | none, none => true
  | _, _ => false

/-- decidable form of transitivity: `to ← mid ← from` composes to `to ← from` -/
def transOK (u v w : KU) : Bool :=
  match factorSym u v, factorSym v w with
  | some a, some b => factorSym u w == some (a.mul b)
  | _, _ => true

theorem invOK_all (u v : KU) : invOK u v = true :=
  forall_KU₂ (P := fun u v => invOK u v = true) (by decide +kernel) u v

theorem transOK_all (u v w : KU) : transOK u v w = true := by
  have h : ∀ u ∈ KU.all, ∀ v ∈ KU.all, ∀ w ∈ KU.all, transOK u v w = true := by decide +kernel
  exact h u (KU.mem_all u) v (KU.mem_all v) w (KU.mem_all w)

/-- there and back is the identity -/
theorem C08_factor_inverse (u v : KU) (a b : Sym) (h1 : factorSym u v = some a) (h2 : factorSym v u = some b) :
    a.mul b = Sym.one := by
  have := invOK_all u v
  simp only [invOK, h1, h2] at this
  simpa using this

/-- entries come in pairs: `u ← v` exists iff `v ← u` exists -/
theorem C08_factor_pairs (u v : KU) : (factorSym u v).isSome = (factorSym v u).isSome := by
  have := invOK_all u v
  unfold invOK at this
  cases h1 : factorSym u v <;> cases h2 : factorSym v u <;> simp_all

/-- conversion is transitive: `u ← v` composed with `v ← w` is `u ← w` -/
theorem C08_factor_transitive (u v w : KU) (a b : Sym) (h1 : factorSym u v = some a) (h2 : factorSym v w = some b) :
    factorSym u w = some (a.mul b) := by
  have := transOK_all u v w
  simp only [transOK, h1, h2] at this
  simpa using this
example : (factorSym .In .Cm, factorSym .Cm .Q, factorSym .In .Q) =
    (some ⟨50 / 127, 0⟩, some ⟨1 / 40, 0⟩, some ⟨5 / 508, 0⟩) := by decide +kernel

/-! ## compatibility predicate = table keys = same convertible kind -/

/-- `Unit::comparable` on two known units is true exactly when they are equal or the table has an
    entry (the predicate is written separately from the table in the Rust source). -/
theorem C08_comparable_iff_entry (u v : KU) :
    comparable (.one (.known u)) (.one (.known v)) = (decide (u = v) || (factorSym u v).isSome) :=
  forall_KU₂ (P := fun u v => comparable (.one (.known u)) (.one (.known v)) = (decide (u = v) || (factorSym u v).isSome))
    (by decide +kernel) u v

/-- … and the table has an entry exactly for two units of the same kind when that kind has a
    canonical unit (absolute lengths, angles, times, frequencies, resolutions). -/
theorem C08_entry_iff_same_kind (u v : KU) :
    (factorSym u v).isSome = (decide (u.kind = v.kind) && u.kind.canonical.isSome) :=
  forall_KU₂ (P := fun u v => (factorSym u v).isSome = (decide (u.kind = v.kind) && u.kind.canonical.isSome))
    (by decide +kernel) u v

/-- the code's predicate agrees with convertibility by the CSS ratios -/
theorem C08_comparable_eq_spec (u v : KU) :
    comparable (.one (.known u)) (.one (.known v)) = specComparable (.one (.known u)) (.one (.known v)) :=
  forall_KU₂ (P := fun u v => comparable (.one (.known u)) (.one (.known v)) = specComparable (.one (.known u)) (.one (.known v)))
    (by decide +kernel) u v
example : comparable (.one (.known .Px)) (.one (.known .In)) = true ∧
    comparable (.one (.known .Px)) (.one (.known .Em)) = false ∧
    comparable (.one (.known .Em)) (.one (.known .Em)) = true := by decide +kernel

theorem kind_facts : kindOfNone = Kind.none ∧ kindOfUnknown = Kind.other ∧ kindOfComplex = Kind.other ∧
    (∀ k ∈ KU.all, k.kind ≠ Kind.none) := by decide +kernel

theorem comparable_known_symm (u v : KU) :
    comparable (.one (.known u)) (.one (.known v)) = comparable (.one (.known v)) (.one (.known u)) :=
  forall_KU₂ (P := fun u v => comparable (.one (.known u)) (.one (.known v)) = comparable (.one (.known v)) (.one (.known u)))
    (by decide +kernel) u v

theorem selfOnly_known_other (k : KU) : selfOnly k.kind = false → k.kind ≠ Kind.other := by
  intro h e; rw [e] at h; revert h; decide

/-- **`comparable` is symmetric** on all units (known, unknown, unitless, compound). -/
theorem C08_comparable_symm (a b : U) : comparable a b = comparable b a := by
  obtain ⟨kn, ku, kc, kk⟩ := kind_facts
  cases a with
  | none =>
    cases b with
    | none => rfl
    | one y => simp [comparable, U.kind, kn, selfOnly]
    | complex n d => simp [comparable, U.kind, kn, selfOnly]
  | one x =>
    cases b with
    | none => simp [comparable, U.kind, kn, selfOnly]
    | one y =>
      cases x with
      | known u =>
        cases y with
        | known v => exact comparable_known_symm u v
        | unknown m =>
          have hk := kk u (KU.mem_all u)
          have := fun h e => selfOnly_known_other u h (Eq.symm e)
          simp only [comparable, U.kind, AU.kind, ku]
          cases hs : selfOnly u.kind <;> simp_all [selfOnly]
      | unknown n =>
        cases y with
        | known v =>
          have hk := kk v (KU.mem_all v)
          have := fun h e => selfOnly_known_other v h (Eq.symm e)
          simp only [comparable, U.kind, AU.kind, ku]
          cases hs : selfOnly v.kind <;> simp_all [selfOnly]
        | unknown m =>
          simp only [comparable, U.kind, AU.kind, ku, selfOnly]
          simp [eq_comm]
    | complex n d =>
      cases x with
      | known u =>
        have hk := kk u (KU.mem_all u)
        have := fun h e => selfOnly_known_other u h (Eq.symm e)
        simp only [comparable, U.kind, AU.kind, kc]
        cases hs : selfOnly u.kind <;> simp_all [selfOnly]
      | unknown m => simp [comparable, U.kind, AU.kind, ku, kc, selfOnly]
  | complex n d =>
    cases b with
    | none => simp [comparable, U.kind, kn, selfOnly]
    | one y =>
      cases y with
      | known v =>
        have hk := kk v (KU.mem_all v)
        have := fun h e => selfOnly_known_other v h (Eq.symm e)
        simp only [comparable, U.kind, AU.kind, kc]
        cases hs : selfOnly v.kind <;> simp_all [selfOnly]
      | unknown m => simp [comparable, U.kind, AU.kind, ku, kc, selfOnly]
    | complex n' d' =>
      simp only [comparable, U.kind, kc, selfOnly]
      simp [eq_comm]

/-! ## result units and errors -/

/-- `+`/`−`: the result takes the left operand's unit, the other operand's when the left is unitless. -/
theorem C08_result_unit_left_wins (sub : Bool) (a b r : SN) (h : addSub sub a b = .ok r) :
    r.unit = if a.unit = U.none then b.unit else a.unit := by
  unfold addSub at h
  split at h
  · cases h
  · simp only at h
    split at h
    · rename_i hc
      cases ho : liftD (if sub = true then D.sub a.num b.num else D.add a.num b.num) with
      | error e => rw [ho] at h; cases h
      | ok v =>
        rw [ho] at h
        simp only [Except.map] at h
        injection h with h; subst h
        simp only [resultUnit]
        by_cases e1 : a.unit = b.unit
        · simp only [e1, if_true]; split <;> rfl
        · simp only [e1, if_false]
    · rename_i hc
      have hn : a.unit ≠ U.none := fun e => hc (Or.inr (Or.inl e))
      split at h
      · cases ho : liftD (if sub = true then D.sub a.num _ else D.add a.num _) with
        | error e => rw [ho] at h; cases h
        | ok v =>
          rw [ho] at h
          simp only [Except.map] at h
          injection h with h; subst h
          simp [hn]
      · cases h

/-- `%` follows the same rule -/
theorem C08_rem_result_unit (a b r : SN) (h : rem a b = .ok r) :
    r.unit = if a.unit = U.none then b.unit else a.unit := by
  unfold rem at h
  split at h
  · cases h
  · split at h
    · cases ho : liftD (moduloD a.num _) with
      | error e => rw [ho] at h; cases h
      | ok v =>
        rw [ho] at h
        simp only [Except.map] at h
        injection h with h; subst h
        simp only [resultUnit]
        by_cases e1 : a.unit = b.unit
        · simp only [e1, if_true]; split <;> rfl
        · simp only [e1, if_false]
    · cases h
example : (addSub false ⟨.fin 1, .none⟩ ⟨.fin 1, .one (.known .Px)⟩).toOption = some ⟨.fin 2, .one (.known .Px)⟩ := by
  decide +kernel

/-- **Operations on inconvertible units are errors, never silently computed**; `==` is `false`. -/
theorem C08_incomparable_is_error (a b : SN) (h : comparable a.unit b.unit = false) :
    addSub false a b = .error .incompatible ∧ addSub true a b = .error .incompatible ∧
    rem a b = .error .incompatible ∧ cmpSN a b = .error .incompatible ∧
    minMax false b a = .error .incompatible ∧ minMax true b a = .error .incompatible ∧
    eqSN a b = .ok false := by
  refine ⟨?_, ?_, ?_, ?_, ?_, ?_, ?_⟩ <;> simp [addSub, rem, cmpSN, minMax, eqSN, h]
example : comparable (.one (.known .Px)) (.one (.known .Em)) = false ∧
    comparable (.one (.known .Px)) (.one (.unknown 0)) = false := by decide +kernel

/-- `min`/`max` with the operands in the other order are errors as well (by symmetry). -/
theorem C08_incomparable_minmax (isMax : Bool) (a b : SN) (h : comparable a.unit b.unit = false) :
    minMax isMax a b = .error .incompatible := by
  have h' : comparable b.unit a.unit = false := by rw [C08_comparable_symm]; exact h
  simp [minMax, cmpSN, h']

/-! ## compound units -/

/-- numbers with compound units cannot be emitted as CSS -/
theorem C08_complex_not_serialisable (compressed : Bool) (n : SN) (h : n.unit.isComplex = true) :
    printSN false compressed n = .error .notCss := by
  simp [printSN, h]

/-- multiplying two single units never cancels: the product has the compound unit `u*v` -/
theorem C08_mul_single_units (x y : D) (u v : AU) (p : D) (hp : D.mul x y = some p) :
    mulSN ⟨x, .one u⟩ ⟨y, .one v⟩ = .ok ⟨p, .complex [u, v] []⟩ := by
  simp [mulSN, hp, multiplyUnits, U.parts, cancelLoop, removeFirst, U.mk]

/-- dividing by the same unit cancels it -/
theorem C08_div_same_unit_cancels (x y : D) (u : AU) (p : D) (hp : D.div x y = some p)
    (hq : D.div p (.fin 1) = some p) :
    divSN ⟨x, .one u⟩ ⟨y, .one u⟩ = .ok ⟨p, .none⟩ := by
  simp [divSN, hp, multiplyUnits, U.parts, U.invert, U.mk, cancelLoop, removeFirst, convFactorF, hq,
    anyConvertible, comparable]
example : (divSN ⟨.fin 1, .one (.known .In)⟩ ⟨.fin 1, .one (.known .Cm)⟩).toOption = some ⟨.fin (rnd53 (127/50)), .none⟩ := by
  decide +kernel

/-- NOT PROVED (kept visible): multiplication/division preserve the denoted quantity under every
    assignment of positive magnitudes to base units (needs the f64 rounding of the table constants
    related to their symbolic values).  Tied by the exhaustive correspondence only. -/
def C08_multiplyUnits_value_preserving_full : Prop :=
  ∀ (a b r : SN), mulSN a b = .ok r → True

end Grass.Units
