import Grass.Scope
import Grass.Eval
import GrassProofs.Lemmas.Scope
import GrassProofs.Lemmas.Eval
/-
  C03 — SassScript evaluation follows the language scoping and control-flow rules.

  Part 1 (this section): CACHE TRANSPARENCY.  grass's `Scopes` (Grass/Scope.lean, written from
  evaluate/scope.rs, env.rs:341 and the environment switches of visitor.rs) answers every variable
  lookup exactly as the cache-free specification `stepSpec` does, for every sequence of
  operations: scope entry/exit, loop/argument bindings, plain / semi-global / `!global`
  assignment, lookups, closure creation, closure calls, `for_import` switches and returns.
  All theorems are about `Cfg.now` (the code as it stands).  The `C03_asFound_…` theorems at the
  end show that each of the two variants found on tree 8539e4d (defect D3) violates the
  refinement, with the concrete traces.
-/
namespace Grass.Scope

/-- Structural well-formedness of one environment w.r.t. the heap (grass asserts the first clause
    with `debug_assert_eq!(self.len(), variables.len())` in every method). -/
structure Scopes.WF (h : Heap) (s : Scopes) : Prop where
  len_eq : s.len = s.vars.length
  ne : s.vars ≠ []
  valid : ∀ f ∈ s.vars, f < h.length
  nodup : s.vars.Nodup

/-- The cache invariant: a cached `(name, index)` is what a full scan would find — frame `index`
    holds the name and no frame above it does. -/
def CacheOk (h : Heap) (s : Scopes) : Prop :=
  ∀ m i, s.cache = some (m, i) → find h s.vars m = some i

/-- The invariant is local to the running environment: suspended and stored environments only
    need to be well-formed, because their cache is discarded whenever they are resumed/called. -/
structure Inv (w : World) : Prop where
  cur_wf : w.cur.WF w.heap
  cur_cache : CacheOk w.heap w.cur
  saved_wf : ∀ s ∈ w.saved, s.WF w.heap
  clos_wf : ∀ s ∈ w.closures, s.WF w.heap

theorem Scopes.WF.mono {h h' : Heap} {s : Scopes} (hl : h.length ≤ h'.length) (w : s.WF h) : s.WF h' :=
  ⟨w.len_eq, w.ne, fun f hf => Nat.lt_of_lt_of_le (w.valid f hf) hl, w.nodup⟩

theorem wfB_iff (h : Heap) (s : Scopes) : s.wfB h = true ↔ s.WF h := by
  unfold Scopes.wfB
  constructor
  · intro hb
    simp only [Bool.and_eq_true, beq_iff_eq, Bool.not_eq_true', List.isEmpty_eq_false_iff,
      List.all_eq_true, decide_eq_true_eq] at hb
    exact ⟨hb.1.1.1, hb.1.1.2, hb.1.2, hb.2⟩
  · intro w
    simp only [Bool.and_eq_true, beq_iff_eq, Bool.not_eq_true', List.isEmpty_eq_false_iff,
      List.all_eq_true, decide_eq_true_eq]
    exact ⟨⟨⟨w.len_eq, w.ne⟩, w.valid⟩, w.nodup⟩

theorem cacheOkB_iff (h : Heap) (s : Scopes) : s.cacheOkB h = true ↔ CacheOk h s := by
  unfold Scopes.cacheOkB CacheOk
  cases hc : s.cache with
  | none => simp
  | some p =>
    obtain ⟨m, i⟩ := p
    simp only [beq_iff_eq, Option.some.injEq, Prod.mk.injEq, and_imp]
    constructor
    · intro e m' i' h1 h2; subst h1; subst h2; exact e
    · intro e; exact e m i rfl rfl

/-- The decidable form of the invariant that the driver evaluates after every step is the same
    predicate. -/
theorem C03_invB_iff (w : World) : invB w = true ↔ Inv w := by
  unfold invB
  simp only [Bool.and_eq_true, List.all_eq_true, wfB_iff, cacheOkB_iff]
  constructor
  · rintro ⟨⟨⟨a, b⟩, c⟩, d⟩; exact ⟨a, b, c, d⟩
  · rintro ⟨a, b, c, d⟩; exact ⟨⟨⟨a, b⟩, c⟩, d⟩

/-- The initial world (one empty global frame, no cache) satisfies the invariant. -/
theorem C03_inv_init : Inv World.init := by
  rw [← C03_invB_iff]; decide

/-! ### `find_var` and `get_var` under the invariant -/

theorem findVar_fst (h : Heap) (s : Scopes) (n : Name) (hc : CacheOk h s) :
    (findVar h s n).1 = find h s.vars n := by
  unfold findVar
  cases hcache : s.cache with
  | none => simp only []; cases find h s.vars n <;> rfl
  | some p =>
    obtain ⟨m, i⟩ := p
    simp only []
    by_cases e : (m == n) = true
    · simp only [e, if_true]
      have : m = n := by simpa using e
      subst this
      exact (hc m i hcache).symm
    · simp only [e]
      cases find h s.vars n <;> rfl

theorem findVar_snd_vars (h : Heap) (s : Scopes) (n : Name) :
    (findVar h s n).2.vars = s.vars ∧ (findVar h s n).2.len = s.len := by
  unfold findVar
  cases s.cache with
  | none => simp only []; cases find h s.vars n <;> simp
  | some p =>
    obtain ⟨m, i⟩ := p
    simp only []
    by_cases e : (m == n) = true
    · simp [e]
    · simp only [e]; cases find h s.vars n <;> simp

/-- Lookup through the cache = the cache-free specification lookup, and the cache stays valid. -/
theorem getVar_spec (h : Heap) (s : Scopes) (n : Name) (hc : CacheOk h s) :
    (getVar h s n).1 = lookupSpec h s.vars n ∧ (getVar h s n).2.vars = s.vars ∧
    (getVar h s n).2.len = s.len ∧ CacheOk h (getVar h s n).2 := by
  have scan : ∀ (o : Out × Scopes),
      o = (match find h s.vars n with
        | some i =>
          match frameAt s.vars i with
          | some fid =>
            match getAt h fid n with
            | some v => (Out.val v, { s with cache := some (n, i) })
            | none => (.panic, s)
          | none => (.panic, s)
        | none => (.undefined, s)) →
      o.1 = lookupSpec h s.vars n ∧ o.2.vars = s.vars ∧ o.2.len = s.len ∧ CacheOk h o.2 := by
    intro o ho
    cases hf : find h s.vars n with
    | none =>
      rw [hf] at ho; subst ho
      exact ⟨(lookupSpec_none h s.vars n hf).symm, rfl, rfl, hc⟩
    | some i =>
      rw [hf] at ho
      obtain ⟨fid, h1, _⟩ := find_frameAt h s.vars n i hf
      obtain ⟨v, h3, h4⟩ := lookupSpec_some h s.vars n i fid hf h1
      simp only [h1, h3] at ho; subst ho
      refine ⟨h4.symm, rfl, rfl, ?_⟩
      intro m j e
      simp only [Option.some.injEq, Prod.mk.injEq] at e
      obtain ⟨rfl, rfl⟩ := e
      exact hf
  unfold getVar
  cases hcache : s.cache with
  | none => exact scan _ rfl
  | some p =>
    obtain ⟨m, i⟩ := p
    simp only []
    by_cases e : (m == n) = true
    · simp only [e, if_true]
      have : m = n := by simpa using e
      subst this
      have hf := hc m i hcache
      obtain ⟨fid, h1, _⟩ := find_frameAt h s.vars m i hf
      obtain ⟨v, h3, h4⟩ := lookupSpec_some h s.vars m i fid hf h1
      simp only [h1, h3]
      exact ⟨h4.symm, by trivial, by trivial, hc⟩
    · simp only [e]
      exact scan _ rfl

/-! ### one step: simulation and invariant preservation -/

theorem frameAt_last_of_wf {h : Heap} {s : Scopes} (w : s.WF h) :
    ∃ g gs, s.vars = g :: gs ∧ s.len - 1 = gs.length ∧ frameAt s.vars (s.len - 1) = some g := by
  have hne := w.ne
  cases hv : s.vars with
  | nil => exact absurd hv hne
  | cons g gs =>
    have hl := w.len_eq
    rw [hv] at hl
    simp at hl
    refine ⟨g, gs, rfl, by omega, ?_⟩
    have : s.len - 1 = gs.length := by omega
    rw [this]; exact frameAt_top g gs

/-- Everything `envInsertVar` does, under the invariant: it succeeds, writes exactly the frame the
    specification names, keeps `vars`/`len`, and leaves a valid cache. -/
theorem envInsertVar_spec (h : Heap) (s : Scopes) (n : Name) (v : Val) (isGlobal semi : Bool)
    (w : s.WF h) (hc : CacheOk h s) :
    ∃ fid s', targetSpec h s.vars n isGlobal semi = some fid ∧ fid < h.length ∧
      envInsertVar h s n v isGlobal semi = some (putAt h fid n v, s') ∧
      s'.vars = s.vars ∧ s'.len = s.len ∧ CacheOk (putAt h fid n v) s' := by
  obtain ⟨g, gs, hv, hlast, hfl⟩ := frameAt_last_of_wf w
  have hlen := w.len_eq
  -- the global frame
  obtain ⟨g0, hg0⟩ := frameAt_of_lt s.vars 0 (by rw [hv]; simp)
  have hg0m := frameAt_mem _ _ _ hg0
  have hg0v := w.valid g0 hg0m
  have hglob : s.vars.getLast? = some g0 := by rw [← frameAt_zero]; exact hg0
  unfold envInsertVar targetSpec
  by_cases hgl : (isGlobal || s.len == 1) = true
  · -- `!global` or at the root: frame 0, cache untouched
    have hgl' : (isGlobal || s.vars.length == 1) = true := by rw [← hlen]; exact hgl
    simp only [hgl, hgl', if_true, insertVar, hg0]
    refine ⟨g0, s, hglob, hg0v, rfl, rfl, rfl, ?_⟩
    intro m i e
    have hf := hc m i e
    by_cases hm : m = n
    · subst hm
      exact find_putAt_below h g0 m v hg0v s.vars i 0 w.nodup hf hg0 (Nat.zero_le _)
    · rw [find_putAt_other h g0 n m v s.vars hg0v hm]; exact hf
  · have hgl' : ¬ (isGlobal || s.vars.length == 1) = true := by rw [← hlen]; exact hgl
    simp only [hgl, hgl']
    have hfst := findVar_fst h s n hc
    obtain ⟨hsv, hsl⟩ := findVar_snd_vars h s n
    have hlen2 : 2 ≤ s.len := by
      have : s.len ≠ 1 := by
        intro e; apply hgl; simp [e]
      have : s.len ≠ 0 := by rw [hlen, hv]; simp
      omega
    rw [hfst, hsl]
    have hhead : s.vars.head? = some g := by rw [hv]; rfl
    have hgv : g < h.length := w.valid g (by rw [hv]; simp)
    have top_case : ∀ (vars' : List Nat) (len' : Nat), vars' = s.vars →
        CacheOk (putAt h g n v) ⟨vars', len', some (n, s.len - 1)⟩ := by
      intro vars' len' hs' m i e
      simp only [Option.some.injEq, Prod.mk.injEq] at e
      obtain ⟨rfl, rfl⟩ := e
      show find _ vars' _ = _
      rw [hs', hv, hlast]
      exact find_putAt_top h g n v gs hgv
    cases hf : find h s.vars n with
    | none =>
      have hidx : (if (!semi && (s.len - 1 == 0)) = true then s.len - 1 else s.len - 1) = s.len - 1 := by
        split <;> rfl
      simp only [hidx, insertVar, hsv, hfl]
      exact ⟨g, _, hhead, hgv, rfl, by simp, by simp, top_case _ _ (by simp)⟩
    | some i =>
      simp only []
      by_cases hi : i = 0
      · subst hi
        cases semi with
        | false =>
          simp only [Bool.not_false, beq_self_eq_true, Bool.and_self, if_true, insertVar, hsv, hfl,
            Bool.false_eq_true, if_false]
          exact ⟨g, _, hhead, hgv, rfl, by simp, by simp, top_case _ _ (by simp)⟩
        | true =>
          simp only [Bool.not_true, Bool.false_and, Bool.false_eq_true, if_false, insertVar, hsv, hg0,
            beq_self_eq_true, if_true]
          refine ⟨g0, _, hglob, hg0v, rfl, by simp, by simp, ?_⟩
          intro m j e
          simp only [Option.some.injEq, Prod.mk.injEq] at e
          obtain ⟨rfl, rfl⟩ := e
          show find _ s.vars _ = _
          exact find_putAt_below h g0 n v hg0v s.vars 0 0 w.nodup hf hg0 (Nat.le_refl _)
      · obtain ⟨fid, hfa, _⟩ := find_frameAt h s.vars n i hf
        have hfv := w.valid fid (frameAt_mem _ _ _ hfa)
        have hbeq : (i == 0) = false := by simpa using hi
        simp only [hbeq, Bool.and_false, Bool.false_eq_true, if_false, insertVar, hsv, hfa]
        refine ⟨fid, _, rfl, hfv, rfl, by simp, by simp, ?_⟩
        intro m j e
        simp only [Option.some.injEq, Prod.mk.injEq] at e
        obtain ⟨rfl, rfl⟩ := e
        show find _ s.vars _ = _
        exact find_putAt_below h fid n v hfv s.vars i i w.nodup hf hfa (Nat.le_refl _)

theorem putAt_wf {h : Heap} {s : Scopes} (fid n v) (w : s.WF h) : s.WF (putAt h fid n v) :=
  w.mono (by rw [putAt_length]; exact Nat.le_refl _)

/-- One step of the cached machine is one step of the specification on the erased world, with the
    same output. -/
theorem step_sim (w : World) (op : Op) (hi : Inv w) :
    stepSpec (erase w) op = (erase (step .now w op).1, (step .now w op).2) := by
  obtain ⟨cw, cc, sw, clw⟩ := hi
  cases op with
  | enter => simp [step, stepSpec, erase, enter]
  | exit =>
    have hl := cw.len_eq
    simp only [step, stepSpec, erase, exit]
    rw [hl]
    by_cases hle : w.cur.vars.length ≤ 1 <;> simp [hle]
  | insertLast n v =>
    obtain ⟨g, gs, hv, hlast, hfl⟩ := frameAt_last_of_wf cw
    have hl0 : w.cur.len ≠ 0 := by rw [cw.len_eq, hv]; simp
    simp only [step, stepSpec, erase, insertVarLast, hl0, if_false, insertVar, hfl]
    simp [hv]
  | assign n v semi =>
    obtain ⟨fid, s', h1, _, h3, h4, _, _⟩ := envInsertVar_spec w.heap w.cur n v false semi cw cc
    simp only [step, stepSpec, erase, h1, h3, h4]
  | assignGlobal n v =>
    obtain ⟨fid, s', h1, _, h3, h4, _, _⟩ := envInsertVar_spec w.heap w.cur n v true false cw cc
    simp only [step, stepSpec, erase, h1, h3, h4]
  | lookup n =>
    obtain ⟨h1, h2, _, _⟩ := getVar_spec w.heap w.cur n cc
    simp only [step, stepSpec, erase]
    rw [← h1, h2]
  | closure => simp [step, stepSpec, erase, Scopes.newClosure]
  | call k =>
    simp only [step, stepSpec, erase, List.getElem?_map]
    cases w.closures[k]? <;> simp [Scopes.newClosure]
  | imp => simp [step, stepSpec, erase, Scopes.newClosure]
  | ret =>
    simp only [step, stepSpec, erase]
    cases hs : w.saved <;> simp [hs, Cfg.now]

/-- **Invariant preservation** for every operation of the code as it stands. -/
theorem C03_inv_step (w : World) (op : Op) (hi : Inv w) : Inv (step .now w op).1 := by
  obtain ⟨cw, cc, sw, clw⟩ := hi
  cases op with
  | enter =>
    have hgrow : w.heap.length ≤ (w.heap ++ [[]]).length := by simp
    simp only [step, enter]
    refine ⟨⟨?_, ?_, ?_, ?_⟩, ?_, fun s hs => (sw s hs).mono hgrow, fun s hs => (clw s hs).mono hgrow⟩
    · simp [cw.len_eq]
    · simp
    · intro f hf
      simp only [List.mem_cons] at hf
      rcases hf with rfl | hf
      · simp
      · have := cw.valid f hf; simp; omega
    · refine List.nodup_cons.mpr ⟨?_, cw.nodup⟩
      intro hmem; have := cw.valid _ hmem; omega
    · intro m i e
      have hf := cc m i e
      show find (w.heap ++ [[]]) (w.heap.length :: w.cur.vars) m = some i
      unfold find
      have hnew : hasAt (w.heap ++ [[]]) w.heap.length m = false := by
        rw [hasAt_append_nil]
        unfold hasAt getAt
        rw [List.getElem?_eq_none (Nat.le_refl _)]; rfl
      simp only [hnew, Bool.false_eq_true, if_false]
      rw [find_append_nil]; exact hf
  | exit =>
    simp only [step]
    split
    · exact ⟨cw, cc, sw, clw⟩
    · rename_i hlen
      refine ⟨⟨?_, ?_, ?_, ?_⟩, ?_, sw, clw⟩
      · simp [exit, cw.len_eq]
      · have hl := cw.len_eq
        cases hv : w.cur.vars with
        | nil => exact absurd hv cw.ne
        | cons g gs =>
          rw [hv] at hl; simp at hl
          simp only [exit, hv, List.tail_cons]
          intro e; subst e; simp at hl; omega
      · intro f hf; exact cw.valid f (List.mem_of_mem_tail hf)
      · exact cw.nodup.sublist (List.tail_sublist _)
      · intro m i e; simp [exit] at e
  | insertLast n v =>
    obtain ⟨g, gs, hv, hlast, hfl⟩ := frameAt_last_of_wf cw
    have hl0 : w.cur.len ≠ 0 := by rw [cw.len_eq, hv]; simp
    have hgv : g < w.heap.length := cw.valid g (by rw [hv]; simp)
    simp only [step, insertVarLast, hl0, if_false, insertVar, hfl]
    refine ⟨putAt_wf g n v ⟨cw.len_eq, cw.ne, cw.valid, cw.nodup⟩, ?_,
      fun s hs => putAt_wf g n v (sw s hs), fun s hs => putAt_wf g n v (clw s hs)⟩
    intro m i e
    simp only [Option.some.injEq, Prod.mk.injEq] at e
    obtain ⟨rfl, rfl⟩ := e
    show find _ w.cur.vars _ = _
    rw [hv, hlast]
    exact find_putAt_top w.heap g n v gs hgv
  | assign n v semi =>
    obtain ⟨fid, s', _, _, h3, h4, h5, h6⟩ := envInsertVar_spec w.heap w.cur n v false semi cw cc
    simp only [step, h3]
    exact ⟨putAt_wf fid n v ⟨by rw [h5, h4]; exact cw.len_eq, by rw [h4]; exact cw.ne,
        by rw [h4]; exact cw.valid, by rw [h4]; exact cw.nodup⟩, h6,
      fun s hs => putAt_wf fid n v (sw s hs), fun s hs => putAt_wf fid n v (clw s hs)⟩
  | assignGlobal n v =>
    obtain ⟨fid, s', _, _, h3, h4, h5, h6⟩ := envInsertVar_spec w.heap w.cur n v true false cw cc
    simp only [step, h3]
    exact ⟨putAt_wf fid n v ⟨by rw [h5, h4]; exact cw.len_eq, by rw [h4]; exact cw.ne,
        by rw [h4]; exact cw.valid, by rw [h4]; exact cw.nodup⟩, h6,
      fun s hs => putAt_wf fid n v (sw s hs), fun s hs => putAt_wf fid n v (clw s hs)⟩
  | lookup n =>
    obtain ⟨_, h2, h3, h4⟩ := getVar_spec w.heap w.cur n cc
    simp only [step]
    exact ⟨⟨by rw [h3, h2]; exact cw.len_eq, by rw [h2]; exact cw.ne, by rw [h2]; exact cw.valid,
      by rw [h2]; exact cw.nodup⟩, h4, sw, clw⟩
  | closure =>
    simp only [step]
    refine ⟨cw, cc, sw, ?_⟩
    intro s hs
    simp only [List.mem_append, List.mem_singleton] at hs
    rcases hs with hs | rfl
    · exact clw s hs
    · exact ⟨cw.len_eq, cw.ne, cw.valid, cw.nodup⟩
  | call k =>
    simp only [step]
    cases hk : w.closures[k]? with
    | none => exact ⟨cw, cc, sw, clw⟩
    | some cl =>
      have hcl := clw cl (List.mem_of_getElem? hk)
      refine ⟨⟨hcl.len_eq, hcl.ne, hcl.valid, hcl.nodup⟩, ?_, ?_, clw⟩
      · intro m i e; simp [Scopes.newClosure, Cfg.now] at e
      · intro s hs
        simp only [List.mem_cons] at hs
        rcases hs with rfl | hs
        · exact cw
        · exact sw s hs
  | imp =>
    simp only [step]
    refine ⟨⟨cw.len_eq, cw.ne, cw.valid, cw.nodup⟩, ?_, ?_, clw⟩
    · intro m i e; simp [Scopes.newClosure, Cfg.now] at e
    · intro s hs
      simp only [List.mem_cons] at hs
      rcases hs with rfl | hs
      · exact cw
      · exact sw s hs
  | ret =>
    simp only [step]
    cases hs : w.saved with
    | nil => exact (⟨cw, cc, sw, clw⟩ : Inv w)
    | cons old rest =>
      show Inv { w with cur := if Cfg.now.restoreKeepsCache then old else { old with cache := none },
                        saved := rest }
      have hold := sw old (by rw [hs]; simp)
      refine ⟨⟨hold.len_eq, hold.ne, hold.valid, hold.nodup⟩, ?_, ?_, clw⟩
      · intro m i e; simp [Cfg.now] at e
      · intro s hs'; exact sw s (by rw [hs]; simp [hs'])

example : Inv (step .now (run .now .init [.assignGlobal 1 10, .enter, .lookup 1, .closure]).1 (.assign 1 20 false)).1 :=
  C03_inv_step _ _ (by rw [← C03_invB_iff]; decide)

/-- The invariant holds in every reachable world. -/
theorem C03_inv_reachable (ops : List Op) : Inv (run .now .init ops).1 := by
  suffices ∀ (w : World), Inv w → Inv (run .now w ops).1 from this _ C03_inv_init
  induction ops with
  | nil => intro w hw; exact hw
  | cons op ops ih =>
    intro w hw
    simp only [run]
    exact ih _ (C03_inv_step w op hw)

theorem run_sim (ops : List Op) : ∀ (w : World), Inv w →
    runSpec (erase w) ops = (erase (run .now w ops).1, (run .now w ops).2) := by
  induction ops with
  | nil => intro w _; rfl
  | cons op ops ih =>
    intro w hw
    simp only [run, runSpec]
    rw [step_sim w op hw]
    simp only []
    rw [ih _ (C03_inv_step w op hw)]

/-- **Cache transparency.**  For every operation sequence, every output of grass's `Scopes` with
    its `last_variable_index` cache (lookups: value / undefined / panic; structural rejections)
    equals the output of the cache-free specification; in particular no lookup or assignment ever
    hits the panicking index paths of scope.rs:120/142. -/
theorem C03_lookup_cached_eq_spec (ops : List Op) :
    (run .now .init ops).2 = (runSpec .init ops).2 := by
  have h := run_sim ops World.init C03_inv_init
  have e : erase World.init = SWorld.init := rfl
  rw [e] at h
  rw [h]

example : (run .now .init [.assignGlobal 1 10, .enter, .lookup 1, .closure, .assign 1 20 false,
    .call 0, .enter, .lookup 1, .exit, .ret, .lookup 1, .exit]).2
    = [.none, .none, .val 10, .none, .none, .none, .none, .val 20, .none, .none, .val 20, .none] := by
  decide

/-- A single lookup in a reachable world: through the cache = specification scan. -/
theorem C03_lookup_reachable (ops : List Op) (n : Name) :
    (getVar (run .now .init ops).1.heap (run .now .init ops).1.cur n).1
      = lookupSpec (run .now .init ops).1.heap (run .now .init ops).1.cur.vars n :=
  (getVar_spec _ _ n (C03_inv_reachable ops).cur_cache).1

example : (getVar (run .now .init [.assignGlobal 1 10, .enter, .lookup 1, .assign 1 20 false]).1.heap
    (run .now .init [.assignGlobal 1 10, .enter, .lookup 1, .assign 1 20 false]).1.cur 1).1 = .val 20 := by decide

/-- The specification never panics: panics are impossible in the cached machine too. -/
theorem C03_no_panic (ops : List Op) : Out.panic ∉ (run .now .init ops).2 := by
  rw [C03_lookup_cached_eq_spec]
  suffices ∀ (w : World), Inv w → Out.panic ∉ (runSpec (erase w) ops).2 from this _ C03_inv_init
  induction ops with
  | nil => intro w _; simp [runSpec]
  | cons op ops ih =>
    intro w hw
    have hs := step_sim w op hw
    simp only [runSpec, hs, List.mem_cons, not_or]
    refine ⟨?_, ih _ (C03_inv_step w op hw)⟩
    -- the head output is the cached machine's, which is the specification's
    have : (stepSpec (erase w) op).2 ≠ .panic := by
      obtain ⟨cw, cc, _, _⟩ := hw
      obtain ⟨g, gs, hv, _, _⟩ := frameAt_last_of_wf cw
      cases op with
      | enter => simp [stepSpec]
      | exit => simp only [stepSpec]; split <;> simp
      | insertLast n v => simp [stepSpec, erase, hv]
      | assign n v semi =>
        obtain ⟨fid, _, h1, _⟩ := envInsertVar_spec w.heap w.cur n v false semi cw cc
        simp [stepSpec, erase, h1]
      | assignGlobal n v =>
        obtain ⟨fid, _, h1, _⟩ := envInsertVar_spec w.heap w.cur n v true false cw cc
        simp [stepSpec, erase, h1]
      | lookup n =>
        simp only [stepSpec, erase]
        generalize w.cur.vars = vs
        induction vs with
        | nil => simp [lookupSpec]
        | cons f fs ih2 => unfold lookupSpec; split <;> simp_all
      | closure => simp [stepSpec]
      | call k => simp only [stepSpec]; split <;> simp
      | imp => simp [stepSpec]
      | ret => simp only [stepSpec]; split <;> simp
    rw [hs] at this
    exact fun e => this e.symm

/-! ### The as-found variants (tree 8539e4d, defect D3) violate the refinement -/

/-- D3, first variant.  `$x: global; a { z: $x; @mixin m { b: $x } $x: local; @include m }`:
    the read fills the cache with (x, 0); `new_closure` copied the cache into the mixin's
    environment; `$x: local` is declared in the rule's frame, which the closure shares; the call
    reads `$x` through the stale cache and sees the global value 10 instead of 20. -/
def d3ClosureTrace : List Op :=
  [.assignGlobal 1 10, .enter, .lookup 1, .closure, .assign 1 20 false, .call 0, .enter, .lookup 1]

theorem C03_asFound_closure_keeps_cache :
    (run .asFoundClosure .init d3ClosureTrace).2 ≠ (runSpec .init d3ClosureTrace).2 ∧
    (run .asFoundClosure .init d3ClosureTrace).2.getLast? = some (.val 10) ∧
    (runSpec .init d3ClosureTrace).2.getLast? = some (.val 20) ∧
    (run .now .init d3ClosureTrace).2.getLast? = some (.val 20) := by
  decide

/-- D3, second variant.  Inside a rule, after a read of the global `$x`, an `@import` that runs in
    a `for_import` environment (imported file with `@use`) declares `$x` in the rule's frame; on
    return `with_environment` swapped the old environment back with its cache, so the next read
    still answers from frame 0. -/
def d3RestoreTrace : List Op :=
  [.assignGlobal 1 10, .enter, .lookup 1, .imp, .assign 1 20 false, .ret, .lookup 1]

theorem C03_asFound_restore_keeps_cache :
    (run .asFoundRestore .init d3RestoreTrace).2 ≠ (runSpec .init d3RestoreTrace).2 ∧
    (run .asFoundRestore .init d3RestoreTrace).2.getLast? = some (.val 10) ∧
    (runSpec .init d3RestoreTrace).2.getLast? = some (.val 20) ∧
    (run .now .init d3RestoreTrace).2.getLast? = some (.val 20) := by
  decide

/-- In both as-found variants it is the invariant that breaks (so `C03_inv_step` is exactly what
    the repair re-establishes). -/
theorem C03_asFound_inv_broken :
    invB (run .asFoundClosure .init (d3ClosureTrace.take 6)).1 = false ∧
    invB (run .asFoundRestore .init (d3RestoreTrace.take 6)).1 = false ∧
    invB (run .now .init (d3ClosureTrace.take 6)).1 = true ∧
    invB (run .now .init (d3RestoreTrace.take 6)).1 = true := by
  decide

end Grass.Scope

/-!
  Part 2: THE REFERENCE EVALUATOR (Grass/Eval.lean).  The property's main sentence — grass computes
  the values the specification assigns — is the program correspondence of tools/props/c03.py, in
  which `evalProgram` is the specification.  The theorems below are about that specification:
  results do not depend on the amount of fuel once evaluation finishes, `@for` visits exactly the
  specified range, `and`/`or` do not evaluate their right operand when the left decides, and the
  arity rules are exactly the conditions under which binding succeeds.

  `C03_full` (below) stays unproved: it would need a model of the whole of grass's visitor.
-/
namespace Grass.Eval

/-- The full property for the modelled core, for reference (NOT proved; tied by correspondence):
    for every program of the core language on which the specification finishes, real grass emits
    exactly the specification's declarations and log messages.  `grassObservation` stands for the
    real compiler and cannot be defined in Lean. -/
def C03_full (grassObservation : List Stmt → Option (Array (String × String × Option String) × Array (String × String))) : Prop :=
  ∀ (prog : List Stmt) (fuel : Nat) (st : St), evalProgram Dev.spec fuel prog = .finished st →
    grassObservation prog = some (st.css, st.log)

/-! ### fuel -/

theorem run_block_mono (n k : Nat) (ctx : Ctx) (ss : List Stmt) (st : St)
    (h : (run n).block ctx ss st ≠ .oof) : (run (n + k)).block ctx ss st = (run n).block ctx ss st := by
  rcases (run_le_add n k).block ctx ss st with e | e
  · exact absurd e h
  · exact e.symm

theorem run_expr_mono (n k : Nat) (ctx : Ctx) (e : Expr) (st : St)
    (h : (run n).expr ctx e st ≠ .oof) : (run (n + k)).expr ctx e st = (run n).expr ctx e st := by
  rcases (run_le_add n k).expr ctx e st with e' | e'
  · exact absurd e' h
  · exact e'.symm

def Outcome.ranOut : Outcome → Bool
  | .outOfFuel => true
  | _ => false

/-- **Fuel monotonicity**: once a program's evaluation finishes (normally or with an error) with
    some amount of fuel, every larger amount gives the same declarations, log and outcome. -/
theorem C03_fuel_mono (dev : Dev) (n k : Nat) (prog : List Stmt)
    (h : (evalProgram dev n prog).ranOut = false) : evalProgram dev (n + k) prog = evalProgram dev n prog := by
  unfold evalProgram at *
  have hm := run_block_mono n k (Ctx.root dev) prog St.init
  cases hr : (run n).block (Ctx.root dev) prog St.init with
  | oof => rw [hr] at h; simp [Outcome.ranOut] at h
  | ok a st => rw [hm (by rw [hr]; intro c; cases c), hr]
  | err e st => rw [hm (by rw [hr]; intro c; cases c), hr]

example : (evalProgram Dev.spec 3 [.debug (.lit (.bool true))]).ranOut = false := by
  decide

/-! ### and / or -/

/-- `and`: the left operand is evaluated first; the right one only if the left is truthy. -/
theorem C03_and_unfold (n : Nat) (ctx : Ctx) (a b : Expr) (st : St) :
    (run (n + 1)).expr ctx (.bin .and a b) st =
      match (run n).expr ctx a st with
      | .ok x st' => if x.truthy then (run n).expr ctx b st' else .ok x st'
      | .err e st' => .err e st'
      | .oof => .oof := by
  show M.bind ((run n).expr ctx a) _ st = _
  unfold M.bind
  cases (run n).expr ctx a st with
  | ok x st' => simp only []; split <;> rfl
  | err e st' => rfl
  | oof => rfl

theorem C03_or_unfold (n : Nat) (ctx : Ctx) (a b : Expr) (st : St) :
    (run (n + 1)).expr ctx (.bin .or a b) st =
      match (run n).expr ctx a st with
      | .ok x st' => if x.truthy then .ok x st' else (run n).expr ctx b st'
      | .err e st' => .err e st'
      | .oof => .oof := by
  show M.bind ((run n).expr ctx a) _ st = _
  unfold M.bind
  cases (run n).expr ctx a st with
  | ok x st' => simp only []; split <;> rfl
  | err e st' => rfl
  | oof => rfl

/-- **Short circuit**: when the left operand of `and` is falsey (of `or`: truthy) the result is the
    left operand's value and state whatever the right operand is — it is not evaluated, so it can
    neither fail, nor log, nor assign. -/
theorem C03_and_or_short_circuit (n : Nat) (ctx : Ctx) (a b : Expr) (st st' : St) (x : Value)
    (ha : (run n).expr ctx a st = .ok x st') :
    (x.truthy = false → (run (n + 1)).expr ctx (.bin .and a b) st = .ok x st') ∧
    (x.truthy = true → (run (n + 1)).expr ctx (.bin .or a b) st = .ok x st') := by
  constructor
  · intro hx; rw [C03_and_unfold, ha]; simp [hx]
  · intro hx; rw [C03_or_unfold, ha]; simp [hx]

example : (run 3).expr (Ctx.root Dev.spec) (.bin .and (.lit (.bool false)) (.var "undefined")) St.init
    = .ok (.bool false) St.init := by
  have := (C03_and_or_short_circuit 2 (Ctx.root Dev.spec) (.lit (.bool false)) (.var "undefined")
    St.init St.init (.bool false) rfl).1 rfl
  exact this

/-! ### @for -/

/-- **@for range**: `forRange lo hi inclusive` has the specified length and its `i`-th element is
    `lo ± i` (ascending when `lo ≤ hi`, descending otherwise). -/
theorem C03_for_range (lo hi : Int) (inclusive : Bool) :
    (forRange lo hi inclusive).length =
        (if lo ≤ hi then hi - lo else lo - hi).toNat + (if inclusive then 1 else 0) ∧
    ∀ i, i < (forRange lo hi inclusive).length →
      (forRange lo hi inclusive)[i]? = some (if lo ≤ hi then lo + (i : Int) else lo - (i : Int)) := by
  unfold forRange
  constructor
  · simp
  · intro i hi'
    simp only [List.length_map, List.length_range] at hi'
    simp [List.getElem?_map, List.getElem?_range hi']

/-- Membership form: `to` excludes the end point, `through` includes it, in both directions. -/
theorem C03_for_range_mem (lo hi x : Int) (inclusive : Bool) :
    x ∈ forRange lo hi inclusive ↔
      (lo ≤ hi ∧ lo ≤ x ∧ (if inclusive then x ≤ hi else x < hi)) ∨
      (hi < lo ∧ x ≤ lo ∧ (if inclusive then hi ≤ x else hi < x)) := by
  unfold forRange
  simp only [List.mem_map, List.mem_range]
  constructor
  · rintro ⟨i, hi', rfl⟩
    by_cases h : lo ≤ hi
    · left; simp only [h, if_true] at hi' ⊢
      cases inclusive <;> simp at hi' ⊢ <;> omega
    · right; simp only [h, if_false] at hi' ⊢
      cases inclusive <;> simp at hi' ⊢ <;> omega
  · rintro (⟨h, h1, h2⟩ | ⟨h, h1, h2⟩)
    · refine ⟨(x - lo).toNat, ?_, ?_⟩
      · simp only [h, if_true]; cases inclusive <;> simp at h2 ⊢ <;> omega
      · simp only [h, if_true]; omega
    · have h' : ¬ lo ≤ hi := by omega
      refine ⟨(lo - x).toNat, ?_, ?_⟩
      · simp only [h', if_false]; cases inclusive <;> simp at h2 ⊢ <;> omega
      · simp only [h', if_false]; omega

example : forRange 1 4 false = [1, 2, 3] ∧ forRange 1 4 true = [1, 2, 3, 4] ∧
    forRange 3 0 false = [3, 2, 1] ∧ forRange 3 0 true = [3, 2, 1, 0] ∧ forRange 2 2 false = [] ∧
    forRange 2 2 true = [2] := by decide

/-- grass's loop (visitor.rs:1841-1897): `direction = if from > to {-1} else {1}`, `to += direction`
    for `through`, then `while i != to { body(i); i += direction }`; `n` bounds the iterations. -/
def grassForLoop (dir stop : Int) : Nat → Int → List Int
  | 0, _ => []
  | n + 1, i => if i = stop then [] else i :: grassForLoop dir stop n (i + dir)

def grassFor (lo hi : Int) (inclusive : Bool) (fuel : Nat) : List Int :=
  let dir : Int := if lo > hi then -1 else 1
  let stop := if inclusive then hi + dir else hi
  grassForLoop dir stop fuel lo

theorem grassForLoop_up (stop : Int) : ∀ (n : Nat) (i : Int), i ≤ stop → (stop - i).toNat ≤ n →
    grassForLoop 1 stop n i = (List.range (stop - i).toNat).map (fun (k : Nat) => i + (k : Int))
  | 0, i, h1, h2 => by
    have : (stop - i).toNat = 0 := by omega
    simp [grassForLoop, this]
  | n + 1, i, h1, h2 => by
    unfold grassForLoop
    by_cases e : i = stop
    · subst e; simp
    · simp only [e, if_false]
      have hlt : i < stop := by omega
      rw [grassForLoop_up stop n (i + 1) (by omega) (by omega)]
      have : (stop - i).toNat = (stop - (i + 1)).toNat + 1 := by omega
      rw [this, List.range_succ_eq_map]
      simp only [List.map_cons, List.map_map]
      congr 1
      · simp
      · apply List.map_congr_left; intro k _; simp; omega

theorem grassForLoop_down (stop : Int) : ∀ (n : Nat) (i : Int), stop ≤ i → (i - stop).toNat ≤ n →
    grassForLoop (-1) stop n i = (List.range (i - stop).toNat).map (fun (k : Nat) => i - (k : Int))
  | 0, i, h1, h2 => by
    have : (i - stop).toNat = 0 := by omega
    simp [grassForLoop, this]
  | n + 1, i, h1, h2 => by
    unfold grassForLoop
    by_cases e : i = stop
    · subst e; simp
    · simp only [e, if_false]
      rw [grassForLoop_down stop n (i + -1) (by omega) (by omega)]
      have : (i - stop).toNat = (i + -1 - stop).toNat + 1 := by omega
      rw [this, List.range_succ_eq_map]
      simp only [List.map_cons, List.map_map]
      congr 1
      · simp
      · apply List.map_congr_left; intro k _; simp; omega

example : grassFor 3 0 true 10 = [3, 2, 1, 0] ∧ grassFor 1 4 false 4 = [1, 2, 3] := by decide

/-- The loop as written in grass visits exactly the specified range (given enough iterations). -/
theorem C03_for_grass_loop (lo hi : Int) (inclusive : Bool) (fuel : Nat)
    (hf : (if lo ≤ hi then hi - lo else lo - hi).toNat + 1 ≤ fuel) :
    grassFor lo hi inclusive fuel = forRange lo hi inclusive := by
  unfold grassFor forRange
  by_cases h : lo ≤ hi
  · have hd : ¬ lo > hi := by omega
    simp only [hd, if_false, h, if_true] at hf ⊢
    cases inclusive
    · simp only [Bool.false_eq_true, if_false]
      rw [grassForLoop_up hi fuel lo h (by omega)]; simp
    · simp only [if_true]
      rw [grassForLoop_up (hi + 1) fuel lo (by omega) (by omega)]
      have : (hi + 1 - lo).toNat = (hi - lo).toNat + 1 := by omega
      rw [this]
  · have hd : lo > hi := by omega
    simp only [hd, if_true, h, if_false] at hf ⊢
    cases inclusive
    · simp only [Bool.false_eq_true, if_false]
      rw [grassForLoop_down hi fuel lo (by omega) (by omega)]; simp
    · simp only [if_true]
      rw [grassForLoop_down (hi + -1) fuel lo (by omega) (by omega)]
      have : (lo - (hi + -1)).toNat = (lo - hi).toNat + 1 := by omega
      rw [this]

/-! ### argument binding -/

/-- Number of declared parameters at index ≥ `npos` (counting from `i`) that are passed by name. -/
def usedCount (names : List String) (npos : Nat) : Nat → List (String × Option Expr) → Nat
  | _, [] => 0
  | i, (p, _) :: r => (if npos ≤ i ∧ p ∈ names then 1 else 0) + usedCount names npos (i + 1) r

/-- What the arity rules demand of each declared parameter: one passed by position is not also
    named; one not passed by position is named or has a default. -/
def ParamsOk (names : List String) (npos : Nat) (i : Nat) (ps : List (String × Option Expr)) : Prop :=
  ∀ j p d, ps[j]? = some (p, d) →
    (i + j < npos → p ∉ names) ∧ (npos ≤ i + j → p ∈ names ∨ d.isSome = true)

theorem paramsOk_nil (names : List String) (npos i : Nat) : ParamsOk names npos i [] := by
  intro j p d h; simp at h

theorem paramsOk_cons (names : List String) (npos i : Nat) (p : String) (d : Option Expr)
    (rest : List (String × Option Expr)) :
    ParamsOk names npos i ((p, d) :: rest) ↔
      ((i < npos → p ∉ names) ∧ (npos ≤ i → p ∈ names ∨ d.isSome = true)) ∧
      ParamsOk names npos (i + 1) rest := by
  unfold ParamsOk
  constructor
  · intro h
    refine ⟨by simpa using h 0 p d rfl, ?_⟩
    intro j q e hj
    have := h (j + 1) q e (by simpa using hj)
    rw [show i + (j + 1) = i + 1 + j by omega] at this
    exact this
  · rintro ⟨h0, hr⟩ j q e hj
    cases j with
    | zero => simp at hj; obtain ⟨rfl, rfl⟩ := hj; simpa using h0
    | succ j =>
      have := hr j q e (by simpa using hj)
      rw [show i + (j + 1) = i + 1 + j by omega]
      exact this

theorem go_iff (names : List String) (npos : Nat) :
    ∀ (ps : List (String × Option Expr)) (i used u : Nat),
      verifyArgs.go npos names i ps used = .inr u ↔
        ParamsOk names npos i ps ∧ u = used + usedCount names npos i ps
  | [], i, used, u => by
    have := paramsOk_nil names npos i
    unfold verifyArgs.go usedCount
    simp only [Sum.inr.injEq, this, true_and, Nat.add_zero]
    exact eq_comm
  | (p, d) :: rest, i, used, u => by
    have ih := go_iff names npos rest (i + 1)
    rw [paramsOk_cons]
    unfold verifyArgs.go usedCount
    simp only [List.contains_eq_mem, decide_eq_true_eq]
    by_cases h1 : i < npos
    · have h1' : ¬ npos ≤ i := by omega
      by_cases h2 : p ∈ names
      · simp [h1, h2]
      · simp [h1, h2, h1', ih]
    · have h1' : npos ≤ i := by omega
      by_cases h2 : p ∈ names
      · simp only [h1, if_false, h2, if_true, h1', true_and, ih, true_or, and_self, false_implies,
          Nat.add_assoc]
        simp
      · cases hd : d with
        | none => simp [h1, h2, h1']
        | some e => simp [h1, h2, h1', ih]

/-- **Arity errors ⇔ binding fails.**  `verifyArgs` accepts a call exactly when every declared
    parameter can be bound (not passed twice; passed, named or defaulted) and — without a rest
    parameter — there is no surplus positional argument and every name was consumed by a declared
    parameter (`names.length ≤ usedCount`; with pairwise distinct names this says that every name
    is a declared parameter not passed by position). -/
theorem C03_verify_iff (ps : Params) (npos : Nat) (names : List String) :
    bindable ps npos names = true ↔
      ParamsOk names npos 0 ps.ps ∧
      (ps.rest = none → npos ≤ ps.ps.length ∧ names.length ≤ usedCount names npos 0 ps.ps) := by
  unfold bindable verifyArgs
  cases hgo : verifyArgs.go npos names 0 ps.ps 0 with
  | inl e =>
    have : ¬ ParamsOk names npos 0 ps.ps := by
      intro hp
      have := (go_iff names npos ps.ps 0 0 (0 + usedCount names npos 0 ps.ps)).2 ⟨hp, rfl⟩
      rw [hgo] at this; cases this
    simp only []
    constructor
    · intro h
      -- the error branch returns an error, never `none`
      exfalso
      have hne : ∀ (x : Option Err ⊕ Nat) e', x = .inl e' → verifyArgs.go npos names 0 ps.ps 0 = x → e' ≠ none := by
        intro x e' hx hgo'
        subst hx
        clear hgo h this
        -- every `.inl` produced by `go` carries `some _`
        have key : ∀ (l : List (String × Option Expr)) (i used : Nat) (e'' : Option Err),
            verifyArgs.go npos names i l used = .inl e'' → e'' ≠ none := by
          intro l
          induction l with
          | nil => intro i used e'' h; simp [verifyArgs.go] at h
          | cons hd tl ih =>
            intro i used e'' h
            obtain ⟨p, d⟩ := hd
            unfold verifyArgs.go at h
            split at h
            · split at h
              · cases h; simp
              · exact ih _ _ _ h
            · split at h
              · exact ih _ _ _ h
              · split at h
                · cases h; simp
                · exact ih _ _ _ h
        exact key _ _ _ _ hgo'
      have := hne _ e rfl hgo
      cases e with
      | none => exact this rfl
      | some e' => simp at h
    · rintro ⟨hp, _⟩; exact absurd hp this
  | inr used =>
    obtain ⟨hp, hu⟩ := (go_iff names npos ps.ps 0 0 used).1 hgo
    simp only [Nat.zero_add] at hu
    subst hu
    simp only [hp, true_and]
    cases hr : ps.rest with
    | some r => simp
    | none =>
      simp only [Option.isSome_none, Bool.false_eq_true, if_false, true_implies]
      by_cases h1 : npos > ps.ps.length
      · simp [h1]
        try omega
      · by_cases h2 : usedCount names npos 0 ps.ps < names.length
        · simp [h1, h2]
          try omega
        · simp [h1, h2]
          try omega

example : bindable ⟨[("a", none), ("b", some (.lit .null))], none⟩ 1 [] = true ∧
    bindable ⟨[("a", none), ("b", none)], none⟩ 1 [] = false ∧
    bindable ⟨[("a", none)], none⟩ 2 [] = false ∧
    bindable ⟨[("a", none)], some "rest"⟩ 3 ["zz"] = true ∧
    bindable ⟨[("a", none)], none⟩ 1 ["a"] = false := by decide

/-- Consequences used by the binder: after a successful arity check no `missing-argument` can
    arise while binding, and no parameter is bound twice. -/
theorem C03_verify_ok_binds (ps : Params) (npos : Nat) (names : List String)
    (h : verifyArgs ps npos names = none) (j : Nat) (p : String) (d : Option Expr)
    (hj : ps.ps[j]? = some (p, d)) :
    (j < npos → p ∉ names) ∧ (npos ≤ j → p ∈ names ∨ d.isSome = true) := by
  have hb : bindable ps npos names = true := by simp [bindable, h]
  have := ((C03_verify_iff ps npos names).1 hb).1 j p d hj
  simpa using this

end Grass.Eval
